#!/bin/bash
# Validates MANIFEST.json and every evidence file against the schemas.
cd "$(dirname "$0")"
python3-vt - <<'PY'
import json, jsonschema, glob
jsonschema.validate(json.load(open('MANIFEST.json')), json.load(open('/root/.vp/MANIFEST.schema.json')))
s = json.load(open('/root/.vp/EVIDENCE.schema.json'))
n = 0
for f in sorted(glob.glob('evidence/*.json')):
    jsonschema.validate(json.load(open(f)), s); n += 1
print('manifest ok;', n, 'evidence files ok')
PY
