// Package core holds the loader, the obligation/evidence plumbing and the
// rule primitives shared by all rule packs of pandoravet.
package core

import (
	"fmt"
	"go/ast"
	"go/token"
	"go/types"
	"os"
	"sort"
	"strings"
	"time"

	"golang.org/x/tools/go/callgraph"
	"golang.org/x/tools/go/callgraph/cha"
	"golang.org/x/tools/go/callgraph/vta"
	"golang.org/x/tools/go/packages"
	"golang.org/x/tools/go/ssa"
	"golang.org/x/tools/go/ssa/ssautil"
)

// Mod is the module path of the analysed repository.
const Mod = "github.com/yandex/pandora"

// MinPackages is the number of pandora packages counted by hand on the pinned
// tree (78 with examples); the loader fails below a conservative floor.
const MinPackages = 70

// Prog is the loaded, type-checked program with its SSA form.
type Prog struct {
	Dir   string
	Tags  string
	Fset  *token.FileSet
	Root  []*packages.Package          // pandora packages
	ByPkg map[string]*packages.Package // all packages by path
	SSA   *ssa.Program
	cg    *callgraph.Graph
	all   map[*ssa.Function]bool

	pfuncs      []*ssa.Function
	callSites   map[*ssa.Function][]ssa.Instruction
	fieldStores map[*types.Var][]ssa.Value

	LoadS, SSAS, CGS float64
	bce              map[string]bool
	named            []*types.Named
	Unresolved       []string
	addrTaken        map[*ssa.Function]bool
	// Overlay: the files of the rename-normalised view (nil when nothing was renamed); CanonNotes says what was renamed.
	Overlay    map[string][]byte
	CanonNotes []string
	packCache  map[string]*Ctx
	funcDecls  map[*types.Func]*ast.FuncDecl
	declPkg    map[*types.Func]*packages.Package
}

// Load loads ./... of dir with the real build's flags.
func Load(dir, tags string) (*Prog, error) {
	t0 := time.Now()
	env := []string{}
	for _, e := range os.Environ() {
		if strings.HasPrefix(e, "GOWORK=") || strings.HasPrefix(e, "GOFLAGS=") ||
			strings.HasPrefix(e, "GOPROXY=") || strings.HasPrefix(e, "GOSUMDB=") ||
			strings.HasPrefix(e, "GOTOOLCHAIN=") {
			continue
		}
		env = append(env, e)
	}
	env = append(env, "GOWORK=off", "GOFLAGS=-mod=mod", "GOPROXY=off", "GOSUMDB=off", "GOTOOLCHAIN=local")
	cfg := &packages.Config{
		Mode:  packages.LoadAllSyntax,
		Dir:   dir,
		Env:   env,
		Tests: false,
	}
	if tags != "" {
		cfg.BuildFlags = []string{"-tags=" + tags}
	}
	pkgs, err := packages.Load(cfg, "./...")
	if err != nil {
		return nil, fmt.Errorf("packages.Load: %w", err)
	}
	p := &Prog{Dir: dir, Tags: tags, ByPkg: map[string]*packages.Package{},
		funcDecls: map[*types.Func]*ast.FuncDecl{}, declPkg: map[*types.Func]*packages.Package{}}
	// rename normalisation (see canon.go): unexported identifiers that were renamed get their baseline names back
	if os.Getenv("PV_NO_CANON") == "" {
		var roots []*packages.Package
		clean := true
		for _, pk := range pkgs {
			if strings.HasPrefix(pk.PkgPath, Mod) {
				roots = append(roots, pk)
				if len(pk.Errors) > 0 {
					clean = false
				}
			}
		}
		if clean {
			if ren, notes := detectRenames(roots); len(ren) > 0 {
				ov, oerr := canonOverlay(roots, ren)
				if oerr == nil && len(ov) > 0 {
					cfg2 := *cfg
					cfg2.Overlay = ov
					if pkgs2, err2 := packages.Load(&cfg2, "./..."); err2 == nil {
						ok2 := true
						packages.Visit(pkgs2, nil, func(pk *packages.Package) {
							if strings.HasPrefix(pk.PkgPath, Mod) && len(pk.Errors) > 0 {
								ok2 = false
							}
						})
						if ok2 {
							pkgs = pkgs2
							p.Overlay = ov
							p.CanonNotes = notes
						} else {
							p.CanonNotes = append(notes, "the normalised view did not type-check; analysing the tree as it is")
						}
					}
				}
			}
		}
	}
	var errs []string
	packages.Visit(pkgs, nil, func(pk *packages.Package) {
		p.ByPkg[pk.PkgPath] = pk
		if strings.HasPrefix(pk.PkgPath, Mod) {
			for _, e := range pk.Errors {
				errs = append(errs, e.Error())
			}
		}
	})
	if len(errs) > 0 {
		return nil, fmt.Errorf("type/load errors in pandora packages: %s", strings.Join(errs, "; "))
	}
	for _, pk := range pkgs {
		if strings.HasPrefix(pk.PkgPath, Mod) {
			p.Root = append(p.Root, pk)
		}
	}
	sort.Slice(p.Root, func(i, j int) bool { return p.Root[i].PkgPath < p.Root[j].PkgPath })
	if len(p.Root) < MinPackages {
		return nil, fmt.Errorf("only %d pandora packages loaded (floor %d)", len(p.Root), MinPackages)
	}
	if len(pkgs) > 0 {
		p.Fset = pkgs[0].Fset
	}
	for _, pk := range p.Root {
		for _, f := range pk.Syntax {
			for _, d := range f.Decls {
				if fd, ok := d.(*ast.FuncDecl); ok {
					if obj, ok := pk.TypesInfo.Defs[fd.Name].(*types.Func); ok {
						p.funcDecls[obj] = fd
						p.declPkg[obj] = pk
					}
				}
			}
		}
	}
	curProg = p
	newTypes = computeNewTypes(p.Root)
	for t := range newTypes {
		p.CanonNotes = append(p.CanonNotes, "type "+strings.TrimPrefix(t, Mod+"/")+" is not in the baseline: its fields are followed to the values stored into them")
	}
	p.LoadS = time.Since(t0).Seconds()
	t1 := time.Now()
	prog, _ := ssautil.AllPackages(pkgs, ssa.InstantiateGenerics)
	prog.Build()
	p.SSA = prog
	p.SSAS = time.Since(t1).Seconds()
	return p, nil
}

// IsPandora reports whether the package path belongs to the analysed module.
func IsPandora(path string) bool { return strings.HasPrefix(path, Mod) }

// Scope classification of pandora packages: production code is everything that
// is not an example, a mock, a test helper or the acceptance-test support code.
func IsProdPkg(path string) bool {
	if !IsPandora(path) {
		return false
	}
	rel := strings.TrimPrefix(strings.TrimPrefix(path, Mod), "/")
	for _, pre := range []string{"examples", "tests", "lib/testutil", "core/coretest", "performance-test", "script"} {
		if rel == pre || strings.HasPrefix(rel, pre+"/") {
			return false
		}
	}
	if strings.Contains(rel, "/mocks") || strings.HasSuffix(rel, "mock") || strings.HasSuffix(rel, "mocks") {
		return false
	}
	return true
}

// IsProdFile excludes mock_*.go and test.go helper files compiled into
// production packages.
func IsProdFile(name string) bool {
	base := name
	if i := strings.LastIndex(name, "/"); i >= 0 {
		base = name[i+1:]
	}
	if strings.HasPrefix(base, "mock_") || base == "test.go" || strings.HasSuffix(base, "_test.go") || strings.HasSuffix(base, "_mock.go") {
		return false
	}
	return true
}

// Pkg returns the pandora package with the given module-relative path ("" = root).
func (p *Prog) Pkg(rel string) *packages.Package {
	path := Mod
	if rel != "" {
		path = Mod + "/" + rel
	}
	return p.ByPkg[path]
}

// SSAPkg returns the SSA package for a module-relative path.
func (p *Prog) SSAPkg(rel string) *ssa.Package {
	pk := p.Pkg(rel)
	if pk == nil {
		return nil
	}
	return p.SSA.Package(pk.Types)
}

// Func resolves a function or method of a pandora package to its SSA function.
// recv == "" selects a package-level function; otherwise the named type whose
// method (value or pointer receiver) is wanted.
func (p *Prog) Func(rel, recv, name string) *ssa.Function {
	if f := p.funcExact(rel, recv, name); f != nil {
		return f
	}
	return p.funcByRole(rel, recv, name)
}

// funcExact: the function or method with exactly that name.
func (p *Prog) funcExact(rel, recv, name string) *ssa.Function {
	pk := p.Pkg(rel)
	if pk == nil {
		return nil
	}
	if recv == "" {
		sp := p.SSA.Package(pk.Types)
		if sp == nil {
			return nil
		}
		return sp.Func(name)
	}
	obj := pk.Types.Scope().Lookup(recv)
	if obj == nil {
		return nil
	}
	tn, ok := obj.(*types.TypeName)
	if !ok {
		return nil
	}
	for _, t := range []types.Type{tn.Type(), types.NewPointer(tn.Type())} {
		ms := types.NewMethodSet(t)
		for i := 0; i < ms.Len(); i++ {
			sel := ms.At(i)
			if sel.Obj().Name() == name {
				if f, ok := sel.Obj().(*types.Func); ok {
					// Only methods declared on this type (not promoted).
					if sig := f.Type().(*types.Signature); sig.Recv() != nil {
						rt := sig.Recv().Type()
						if pt, ok := rt.(*types.Pointer); ok {
							rt = pt.Elem()
						}
						if nt, ok := rt.(*types.Named); ok && nt.Obj() == tn {
							return p.SSA.FuncValue(f)
						}
					}
				}
			}
		}
	}
	return nil
}

// Decl returns the syntax of a source function.
func (p *Prog) Decl(fn *ssa.Function) (*ast.FuncDecl, *packages.Package) {
	if fn == nil {
		return nil, nil
	}
	if o, ok := fn.Object().(*types.Func); ok {
		if o2 := o.Origin(); o2 != nil {
			o = o2
		}
		return p.funcDecls[o], p.declPkg[o]
	}
	return nil, nil
}

// DeclOf returns the declaration of a types.Func.
func (p *Prog) DeclOf(o *types.Func) (*ast.FuncDecl, *packages.Package) {
	if o == nil {
		return nil, nil
	}
	o = o.Origin()
	return p.funcDecls[o], p.declPkg[o]
}

// Pos renders a position relative to the repository root.
func (p *Prog) Pos(pos token.Pos) string {
	if !pos.IsValid() {
		return "-"
	}
	ps := p.Fset.Position(pos)
	f := strings.TrimPrefix(ps.Filename, p.Dir+"/")
	return fmt.Sprintf("%s:%d", f, ps.Line)
}

// File returns the repository-relative file name of a position.
func (p *Prog) File(pos token.Pos) string {
	if !pos.IsValid() {
		return ""
	}
	ps := p.Fset.Position(pos)
	return strings.TrimPrefix(ps.Filename, p.Dir+"/")
}

// AllFuncs returns every function of the program (incl. closures, instantiations).
func (p *Prog) AllFuncs() map[*ssa.Function]bool {
	if p.all == nil {
		p.all = ssautil.AllFunctions(p.SSA)
	}
	return p.all
}

// PkgOf returns the package path owning fn (through Origin for instantiations,
// through the parent for closures).
func PkgOf(fn *ssa.Function) string {
	for fn != nil {
		if fn.Pkg != nil {
			return fn.Pkg.Pkg.Path()
		}
		if o := fn.Origin(); o != nil && o != fn {
			fn = o
			continue
		}
		if fn.Parent() != nil {
			fn = fn.Parent()
			continue
		}
		if obj := fn.Object(); obj != nil && obj.Pkg() != nil {
			return obj.Pkg().Path()
		}
		return ""
	}
	return ""
}

// ProdFuncs returns all source functions (with closures) of production pandora packages,
// deduplicated by origin, sorted by position.
func (p *Prog) ProdFuncs() []*ssa.Function {
	var out []*ssa.Function
	for fn := range p.AllFuncs() {
		if fn.Synthetic != "" && fn.Origin() == nil {
			continue
		}
		if fn.Origin() != nil && fn.Origin() != fn {
			continue // instantiation: analysed through AllFuncs only where needed
		}
		if !IsProdPkg(PkgOf(fn)) {
			continue
		}
		if fn.Pos().IsValid() && !IsProdFile(p.File(fn.Pos())) {
			continue
		}
		if len(fn.Blocks) == 0 {
			continue
		}
		out = append(out, fn)
	}
	sort.Slice(out, func(i, j int) bool {
		if out[i].Pos() != out[j].Pos() {
			return out[i].Pos() < out[j].Pos()
		}
		return out[i].String() < out[j].String()
	})
	return out
}

// CallGraph builds (once) the VTA call graph seeded by CHA.
func (p *Prog) CallGraph() *callgraph.Graph {
	if p.cg == nil {
		t := time.Now()
		p.cg = vta.CallGraph(p.AllFuncs(), cha.CallGraph(p.SSA))
		p.CGS = time.Since(t).Seconds()
	}
	return p.cg
}

// FuncKey is a stable, line-free key for a function: pkg-relative path,
// receiver and name; closures are keyed by parent key + "$n".
func FuncKey(fn *ssa.Function) string {
	if fn == nil {
		return "<nil>"
	}
	s := fn.String()
	if o := fn.Origin(); o != nil {
		s = o.String()
	}
	s = strings.ReplaceAll(s, Mod+"/", "")
	s = strings.ReplaceAll(s, Mod, "")
	return s
}
