package core

// A small exact algebra for closed-form rules: multivariate polynomials with rational coefficients, rational
// functions, and one square-root extension Q(vars)[S]/(S^2 - X). SSA float arithmetic is read as arithmetic over the
// reals (rounding is NOT modelled): the rules that use this decide that an expression IS a given closed form, e.g. that
// the time of the i-th token satisfies "integral of the rate up to that time = i". No value is ever computed.

import (
	"fmt"
	"go/constant"
	"go/token"
	"go/types"
	"math/big"
	"sort"
	"strings"

	"golang.org/x/tools/go/ssa"
)

// Poly: monomial key -> coefficient. The key lists variables with exponents, sorted: "a^2*i"; "" is the constant term.
type Poly map[string]*big.Rat

func polyConst(r *big.Rat) Poly {
	if r.Sign() == 0 {
		return Poly{}
	}
	return Poly{"": new(big.Rat).Set(r)}
}
func polyVar(name string) Poly { return Poly{name + "^1": big.NewRat(1, 1)} }

func monoMul(a, b string) string {
	exp := map[string]int{}
	for _, m := range []string{a, b} {
		if m == "" {
			continue
		}
		for _, f := range strings.Split(m, "*") {
			i := strings.LastIndex(f, "^")
			var e int
			fmt.Sscanf(f[i+1:], "%d", &e)
			exp[f[:i]] += e
		}
	}
	var names []string
	for n := range exp {
		names = append(names, n)
	}
	sort.Strings(names)
	parts := make([]string, len(names))
	for i, n := range names {
		parts[i] = fmt.Sprintf("%s^%d", n, exp[n])
	}
	return strings.Join(parts, "*")
}

func (p Poly) add(q Poly, sign int64) Poly {
	out := Poly{}
	for k, v := range p {
		out[k] = new(big.Rat).Set(v)
	}
	s := big.NewRat(sign, 1)
	for k, v := range q {
		t := new(big.Rat).Mul(v, s)
		if o, ok := out[k]; ok {
			t.Add(t, o)
		}
		if t.Sign() == 0 {
			delete(out, k)
		} else {
			out[k] = t
		}
	}
	return out
}

func (p Poly) mul(q Poly) Poly {
	out := Poly{}
	for k1, v1 := range p {
		for k2, v2 := range q {
			k := monoMul(k1, k2)
			t := new(big.Rat).Mul(v1, v2)
			if o, ok := out[k]; ok {
				t.Add(t, o)
			}
			if t.Sign() == 0 {
				delete(out, k)
			} else {
				out[k] = t
			}
		}
	}
	return out
}

func (p Poly) isZero() bool { return len(p) == 0 }

func (p Poly) String() string {
	if len(p) == 0 {
		return "0"
	}
	var ks []string
	for k := range p {
		ks = append(ks, k)
	}
	sort.Strings(ks)
	var parts []string
	for _, k := range ks {
		c := p[k].RatString()
		if k == "" {
			parts = append(parts, c)
		} else {
			parts = append(parts, c+"*"+strings.ReplaceAll(k, "^1", ""))
		}
	}
	return strings.Join(parts, " + ")
}

// RatF = N / D.
type RatF struct{ N, D Poly }

// norm divides numerator and denominator by their common monomial factor (cheap; no polynomial gcd).
func (a RatF) norm() RatF {
	if a.N.isZero() {
		return RatF{Poly{}, polyConst(big.NewRat(1, 1))}
	}
	minExp := map[string]int{}
	first := true
	scan := func(p Poly) {
		for k := range p {
			exp := map[string]int{}
			if k != "" {
				for _, f := range strings.Split(k, "*") {
					i := strings.LastIndex(f, "^")
					var e int
					fmt.Sscanf(f[i+1:], "%d", &e)
					exp[f[:i]] = e
				}
			}
			if first {
				for n, e := range exp {
					minExp[n] = e
				}
				first = false
				continue
			}
			for n := range minExp {
				if exp[n] < minExp[n] {
					minExp[n] = exp[n]
				}
			}
		}
	}
	scan(a.N)
	scan(a.D)
	any := false
	for _, e := range minExp {
		if e > 0 {
			any = true
		}
	}
	if !any {
		return a
	}
	div := func(p Poly) Poly {
		out := Poly{}
		for k, v := range p {
			var parts []string
			if k != "" {
				for _, f := range strings.Split(k, "*") {
					i := strings.LastIndex(f, "^")
					var e int
					fmt.Sscanf(f[i+1:], "%d", &e)
					e -= minExp[f[:i]]
					if e > 0 {
						parts = append(parts, fmt.Sprintf("%s^%d", f[:i], e))
					}
				}
			}
			out[strings.Join(parts, "*")] = v
		}
		return out
	}
	return RatF{div(a.N), div(a.D)}
}

func ratConst(r *big.Rat) RatF { return RatF{polyConst(r), polyConst(big.NewRat(1, 1))} }
func ratVar(n string) RatF    { return RatF{polyVar(n), polyConst(big.NewRat(1, 1))} }
func (a RatF) add(b RatF, sign int64) RatF {
	if a.D.add(b.D, -1).isZero() {
		return RatF{a.N.add(b.N, sign), a.D}.norm()
	}
	return RatF{a.N.mul(b.D).add(b.N.mul(a.D), sign), a.D.mul(b.D)}.norm()
}
func (a RatF) mul(b RatF) RatF { return RatF{a.N.mul(b.N), a.D.mul(b.D)}.norm() }
func (a RatF) div(b RatF) (RatF, bool) {
	if b.N.isZero() {
		return RatF{}, false
	}
	return RatF{a.N.mul(b.D), a.D.mul(b.N)}.norm(), true
}
func (a RatF) isZero() bool      { return a.N.isZero() }
func (a RatF) eq(b RatF) bool    { return a.add(b, -1).isZero() }
func (a RatF) String() string    { return "(" + a.N.String() + ")/(" + a.D.String() + ")" }

// constValue: the rational c with a == c, if a is a constant.
func (a RatF) constValue() (*big.Rat, bool) {
	if a.N.isZero() {
		return new(big.Rat), true
	}
	for k, d := range a.D {
		n, ok := a.N[k]
		if !ok {
			return nil, false
		}
		c := new(big.Rat).Quo(n, d)
		if a.N.add(a.D.mul(polyConst(c)), -1).isZero() {
			return c, true
		}
		return nil, false
	}
	return nil, false
}

// Alg = P + Q*S with S^2 = X (X nil while Q is zero).
type Alg struct {
	P, Q RatF
	X    *RatF
}

func AlgConst(r *big.Rat) Alg { return Alg{P: ratConst(r), Q: ratConst(new(big.Rat))} }
func AlgVar(name string) Alg  { return Alg{P: ratVar(name), Q: ratConst(new(big.Rat))} }
func AlgInt(k int64) Alg      { return AlgConst(big.NewRat(k, 1)) }

func (a Alg) String() string {
	if a.X == nil || a.Q.isZero() {
		return a.P.String()
	}
	return a.P.String() + " + " + a.Q.String() + "*sqrt" + a.X.String()
}

// common square root of two operands; ok=false if they carry different roots.
func sameRoot(a, b Alg) (*RatF, bool) {
	ax, bx := a.X, b.X
	if a.Q.isZero() {
		ax = nil
	}
	if b.Q.isZero() {
		bx = nil
	}
	switch {
	case ax == nil:
		return bx, true
	case bx == nil:
		return ax, true
	}
	return ax, ax.eq(*bx)
}

func (a Alg) Add(b Alg, sign int64) (Alg, bool) {
	x, ok := sameRoot(a, b)
	return Alg{P: a.P.add(b.P, sign), Q: a.Q.add(b.Q, sign), X: x}, ok
}
func (a Alg) Sub(b Alg) (Alg, bool) { return a.Add(b, -1) }
func (a Alg) Mul(b Alg) (Alg, bool) {
	x, ok := sameRoot(a, b)
	if !ok {
		return Alg{}, false
	}
	p := a.P.mul(b.P)
	if x != nil {
		p = p.add(a.Q.mul(b.Q).mul(*x), 1)
	}
	return Alg{P: p, Q: a.P.mul(b.Q).add(a.Q.mul(b.P), 1), X: x}, true
}
func (a Alg) Inv() (Alg, bool) {
	// 1/(P+QS) = (P-QS)/(P^2-Q^2 X)
	den := a.P.mul(a.P)
	if a.X != nil && !a.Q.isZero() {
		den = den.add(a.Q.mul(a.Q).mul(*a.X), -1)
	}
	p, ok1 := a.P.div(den)
	q, ok2 := a.Q.div(den)
	if !ok1 || !ok2 {
		return Alg{}, false
	}
	return Alg{P: p, Q: q.mul(ratConst(big.NewRat(-1, 1))), X: a.X}, true
}
func (a Alg) Div(b Alg) (Alg, bool) {
	i, ok := b.Inv()
	if !ok {
		return Alg{}, false
	}
	return a.Mul(i)
}
func (a Alg) Sqrt() (Alg, bool) {
	if !a.Q.isZero() {
		return Alg{}, false // nested roots are out of scope
	}
	x := a.P
	return Alg{P: ratConst(new(big.Rat)), Q: ratConst(big.NewRat(1, 1)), X: &x}, true
}
func (a Alg) IsZero() bool { return a.P.isZero() && a.Q.isZero() }
func (a Alg) Eq(b Alg) bool {
	d, ok := a.Sub(b)
	return ok && d.IsZero()
}

// RootCoefficient returns Q (the factor of the square root) and the radicand.
func (a Alg) RootCoefficient() (Alg, *Alg) {
	if a.X == nil || a.Q.isZero() {
		return AlgInt(0), nil
	}
	return Alg{P: a.Q, Q: ratConst(new(big.Rat))}, &Alg{P: *a.X, Q: ratConst(new(big.Rat))}
}

// ConstValue: a is the rational constant c.
func (a Alg) ConstValue() (*big.Rat, bool) {
	if !a.Q.isZero() {
		return nil, false
	}
	return a.P.constValue()
}

// ---------- reading SSA values as algebra ----------

// AlgEnv binds SSA values (parameters, free variables) to symbols or expressions.
type AlgEnv struct {
	Bind map[ssa.Value]Alg
	// Structs: values (receiver parameters, free variables) standing for a small carrier struct whose fields are known
	Structs map[ssa.Value]map[int]Alg
	// NonNeg: symbols assumed >= 0 (a branch `x < 0` is not taken).
	NonNeg map[string]bool
	// Truncs counts float->integer conversions passed (they are read as identity: "rounded down" is stated by the rule).
	Truncs int
	// Why holds the reason of the first failure.
	Why string
}

func (e *AlgEnv) fail(format string, a ...any) (Alg, bool) {
	if e.Why == "" {
		e.Why = fmt.Sprintf(format, a...)
	}
	return Alg{}, false
}

func isFloatT(v ssa.Value) bool {
	b, ok := v.Type().Underlying().(*types.Basic)
	return ok && b.Info()&types.IsFloat != 0
}

// Eval reads v as an algebraic expression of the bound symbols. Supported: constants, + - * /, negation, int<->float
// conversions (identity), math.Sqrt, time.Duration.Seconds, calls of same-package single-return helpers (inlined, 4
// levels), phis whose infeasible edges are excluded by NonNeg and whose remaining edges agree.
func (e *AlgEnv) Eval(v ssa.Value, depth int) (Alg, bool) {
	if a, ok := e.Bind[v]; ok {
		return a, true
	}
	if depth > 40 {
		return e.fail("expression too deep at %s", v)
	}
	switch x := v.(type) {
	case *ssa.Const:
		if x.Value == nil {
			return e.fail("non-numeric constant %s", x)
		}
		switch x.Value.Kind() {
		case constant.Int, constant.Float:
			f := constant.ToFloat(x.Value)
			if f.Kind() == constant.Unknown {
				return e.fail("constant %s", x)
			}
			num, den := constant.Num(f), constant.Denom(f)
			n, ok1 := new(big.Int).SetString(num.ExactString(), 10)
			d, ok2 := new(big.Int).SetString(den.ExactString(), 10)
			if !ok1 || !ok2 || d.Sign() == 0 {
				return e.fail("constant %s", x)
			}
			return AlgConst(new(big.Rat).SetFrac(n, d)), true
		}
		return e.fail("constant %s", x)
	case *ssa.Convert:
		a, ok := e.Eval(x.X, depth+1)
		if ok && isFloatT(x.X) && !isFloatT(x) {
			e.Truncs++
		}
		return a, ok
	case *ssa.ChangeType:
		return e.Eval(x.X, depth+1)
	case *ssa.Field:
		if fs, ok := e.structFields(x.X, depth); ok {
			if a, ok := fs[x.Field]; ok {
				return a, true
			}
		}
		return e.fail("field #%d of %s has no single known value", x.Field, x.X)
	case *ssa.UnOp:
		if x.Op == token.SUB {
			a, ok := e.Eval(x.X, depth+1)
			if !ok {
				return a, false
			}
			return AlgInt(0).Sub(a)
		}
		if x.Op == token.MUL {
			if a, ok := e.Bind[x.X]; ok {
				return a, true // a variable captured by reference, bound to its only value
			}
			if fa, ok := x.X.(*ssa.FieldAddr); ok {
				if fs, ok := e.structFields(fa.X, depth); ok {
					if a, ok := fs[fa.Field]; ok {
						return a, true
					}
				}
				return e.fail("field #%d of %s has no single known value", fa.Field, fa.X)
			}
			if cell, ok := x.X.(*ssa.Alloc); ok {
				sts := StoresTo(cell)
				if len(sts) == 1 {
					return e.Eval(sts[0].Val, depth+1)
				}
			}
		}
		return e.fail("unsupported operation %s", x)
	case *ssa.BinOp:
		a, ok := e.Eval(x.X, depth+1)
		if !ok {
			return a, false
		}
		b, ok := e.Eval(x.Y, depth+1)
		if !ok {
			return b, false
		}
		var r Alg
		switch x.Op {
		case token.ADD:
			r, ok = a.Add(b, 1)
		case token.SUB:
			r, ok = a.Sub(b)
		case token.MUL:
			r, ok = a.Mul(b)
		case token.QUO:
			if !isFloatT(x) {
				return e.fail("integer division %s truncates", x)
			}
			r, ok = a.Div(b)
		default:
			return e.fail("unsupported operator %s", x.Op)
		}
		if !ok {
			return e.fail("cannot combine %s (two different square roots, or division by zero)", x)
		}
		return r, true
	case *ssa.Phi:
		var res *Alg
		for i, edge := range x.Edges {
			if e.edgeInfeasible(x.Block().Preds[i], x.Block(), depth) {
				continue
			}
			a, ok := e.Eval(edge, depth+1)
			if !ok {
				return a, false
			}
			if res == nil {
				res = &a
			} else if !res.Eq(a) {
				return e.fail("the value %s depends on the path taken (%s vs %s)", x.Comment, res, a)
			}
		}
		if res == nil {
			return e.fail("no feasible edge for %s", x)
		}
		return *res, true
	case *ssa.Call:
		cc := &x.Call
		if MatchCC(cc, Spec{"math", "", "Sqrt"}) {
			a, ok := e.Eval(cc.Args[0], depth+1)
			if !ok {
				return a, false
			}
			r, ok := a.Sqrt()
			if !ok {
				return e.fail("nested square root")
			}
			return r, true
		}
		if MatchCC(cc, Spec{"time", "Duration", "Seconds"}) {
			a, ok := e.Eval(cc.Args[0], depth+1)
			if !ok {
				return a, false
			}
			return a.Div(AlgInt(1_000_000_000))
		}
		sc := cc.StaticCallee()
		if sc == nil || len(sc.Blocks) == 0 || sc.Pkg == nil || !IsPandora(sc.Pkg.Pkg.Path()) {
			return e.fail("call of %s is not understood", cc.Value)
		}
		sub := &AlgEnv{Bind: map[ssa.Value]Alg{}, NonNeg: e.NonNeg}
		for i, p := range sc.Params {
			if i < len(cc.Args) {
				if a, ok := e.Eval(cc.Args[i], depth+1); ok {
					sub.Bind[p] = a
				}
			}
		}
		var res *Alg
		okAll := true
		EachInstr(sc, func(in ssa.Instruction) {
			ret, isR := in.(*ssa.Return)
			if !isR || len(ret.Results) != 1 || !okAll {
				return
			}
			a, ok := sub.Eval(ret.Results[0], depth+1)
			if !ok {
				okAll = false
				return
			}
			if res == nil {
				res = &a
			} else if !res.Eq(a) {
				okAll = false
			}
		})
		e.Truncs += sub.Truncs
		if !okAll || res == nil {
			if sub.Why != "" {
				return e.fail("%s", sub.Why)
			}
			return e.fail("helper %s has no single closed form", sc.Name())
		}
		return *res, true
	}
	return e.fail("value %s (%T) is not an arithmetic expression of the inputs", v, v)
}

// edgeInfeasible: the CFG edge is taken only when a symbol assumed non-negative is negative.
func (e *AlgEnv) edgeInfeasible(pred, to *ssa.BasicBlock, depth int) bool {
	// pred (or a chain of single-predecessor blocks above it) is the true successor of `x < 0`
	b := pred
	for i := 0; i < 4; i++ {
		if len(b.Preds) != 1 {
			return false
		}
		up := b.Preds[0]
		if iff, ok := up.Instrs[len(up.Instrs)-1].(*ssa.If); ok && len(up.Succs) == 2 && up.Succs[0] != up.Succs[1] {
			f := CondFact(iff.Cond, up.Succs[0] == b).Canon()
			if f.Y != nil && f.Op == token.LSS { // X < Y
				if k, isK := constRat(f.Y); isK && k.Sign() == 0 {
					sub := &AlgEnv{Bind: e.Bind, NonNeg: e.NonNeg}
					if a, ok := sub.Eval(f.X, depth+1); ok && e.isNonNegSymbol(a) {
						return true
					}
				}
			}
			return false
		}
		b = up
	}
	return false
}

func constRat(v ssa.Value) (*big.Rat, bool) {
	c, ok := v.(*ssa.Const)
	if !ok || c.Value == nil {
		return nil, false
	}
	switch c.Value.Kind() {
	case constant.Int, constant.Float:
		f, _ := constant.Float64Val(constant.ToFloat(c.Value))
		r := new(big.Rat)
		if r.SetFloat64(f) == nil {
			return nil, false
		}
		return r, true
	}
	return nil, false
}

func (e *AlgEnv) isNonNegSymbol(a Alg) bool {
	if !a.Q.isZero() {
		return false
	}
	for name := range e.NonNeg {
		if a.Eq(AlgVar(name)) {
			return true
		}
	}
	return false
}

// structFields: the field values of a small carrier struct: a bound receiver, or a struct made in the function under
// evaluation (an Alloc whose fields are each stored once, or a load of it).
func (e *AlgEnv) structFields(v ssa.Value, depth int) (map[int]Alg, bool) {
	v = Strip(v)
	if fs, ok := e.Structs[v]; ok {
		return fs, true
	}
	if u, ok := v.(*ssa.UnOp); ok && u.Op == token.MUL {
		v = u.X
		if fs, ok := e.Structs[v]; ok {
			return fs, true
		}
	}
	cell, ok := v.(*ssa.Alloc)
	if !ok || cell.Referrers() == nil {
		return nil, false
	}
	// a spilled value receiver / a copy: one whole-struct store
	var whole []*ssa.Store
	for _, r := range *cell.Referrers() {
		if st, ok := r.(*ssa.Store); ok && st.Addr == ssa.Value(cell) {
			whole = append(whole, st)
		}
	}
	if len(whole) == 1 && depth < 40 {
		return e.structFields(whole[0].Val, depth+1)
	}
	if len(whole) > 1 {
		return nil, false
	}
	out := map[int]Alg{}
	for _, r := range *cell.Referrers() {
		fa, ok := r.(*ssa.FieldAddr)
		if !ok || fa.Referrers() == nil {
			continue
		}
		for _, r2 := range *fa.Referrers() {
			st, ok := r2.(*ssa.Store)
			if !ok || st.Addr != ssa.Value(fa) {
				continue
			}
			if _, dup := out[fa.Field]; dup {
				return nil, false // written twice: not a constant carrier
			}
			a, ok := e.Eval(st.Val, depth+1)
			if !ok {
				return nil, false
			}
			out[fa.Field] = a
		}
	}
	return out, len(out) > 0
}

// ClosureResult evaluates what the function value fv returns when called with the given arguments: fv is a closure made
// (directly, or as the single result of a same-package helper such as lineDoAt(a, b)) from expressions of the
// environment. args are bound to the closure's parameters.
func (e *AlgEnv) ClosureResult(fv ssa.Value, args []Alg, depth int) (Alg, bool) {
	fv = Strip(fv)
	switch x := fv.(type) {
	case *ssa.MakeClosure:
		body, _ := x.Fn.(*ssa.Function)
		if body == nil {
			return e.fail("closure without a body")
		}
		if body.Synthetic != "" && len(x.Bindings) == 1 {
			// a method value (carrier.doAt): the method's body with the receiver standing for the bound carrier
			if m := BoundTarget(body); m != nil && len(m.Params) > 0 {
				fs, ok := e.structFields(x.Bindings[0], depth)
				if !ok {
					return e.fail("the receiver bound by the method value %s is not a struct with known fields", m.Name())
				}
				sub := &AlgEnv{Bind: map[ssa.Value]Alg{}, NonNeg: e.NonNeg, Structs: map[ssa.Value]map[int]Alg{m.Params[0]: fs}}
				for i, p := range m.Params[1:] {
					if i < len(args) {
						sub.Bind[p] = args[i]
					}
				}
				return e.bodyResult(m, sub, nil, depth)
			}
		}
		sub := &AlgEnv{Bind: map[ssa.Value]Alg{}, NonNeg: e.NonNeg}
		for i, b := range x.Bindings {
			if i >= len(body.FreeVars) {
				continue
			}
			if cell, isCell := b.(*ssa.Alloc); isCell {
				// captured by reference: the variable must have one value (one store, made before the closure exists)
				if sts := StoresTo(cell); len(sts) == 1 && sts[0].Parent() == x.Parent() {
					if a, ok := e.Eval(sts[0].Val, depth+1); ok {
						sub.Bind[body.FreeVars[i]] = a
					}
				}
				continue
			}
			if a, ok := e.Eval(b, depth+1); ok {
				sub.Bind[body.FreeVars[i]] = a
			}
		}
		return e.bodyResult(body, sub, args, depth)
	case *ssa.Function:
		return e.bodyResult(x, &AlgEnv{Bind: map[ssa.Value]Alg{}, NonNeg: e.NonNeg}, args, depth)
	case *ssa.Call:
		sc := x.Call.StaticCallee()
		if sc == nil || len(sc.Blocks) == 0 {
			return e.fail("the function value comes from %s, which is not understood", x)
		}
		sub := &AlgEnv{Bind: map[ssa.Value]Alg{}, NonNeg: e.NonNeg}
		for i, p := range sc.Params {
			if i < len(x.Call.Args) {
				if a, ok := e.Eval(x.Call.Args[i], depth+1); ok {
					sub.Bind[p] = a
				}
			}
		}
		var res *Alg
		okAll := true
		EachInstr(sc, func(in ssa.Instruction) {
			ret, isR := in.(*ssa.Return)
			if !isR || len(ret.Results) != 1 || !okAll {
				return
			}
			a, ok := sub.ClosureResult(ret.Results[0], args, depth+1)
			if !ok {
				okAll = false
				return
			}
			if res == nil {
				res = &a
			} else if !res.Eq(a) {
				okAll = false
			}
		})
		e.Truncs += sub.Truncs
		if !okAll || res == nil {
			if sub.Why != "" {
				return e.fail("%s", sub.Why)
			}
			return e.fail("%s does not return one closed form", sc.Name())
		}
		return *res, true
	}
	return e.fail("function value %s (%T) is not a closure of this package", fv, fv)
}

func (e *AlgEnv) bodyResult(body *ssa.Function, sub *AlgEnv, args []Alg, depth int) (Alg, bool) {
	for i, p := range body.Params {
		if i < len(args) {
			sub.Bind[p] = args[i]
		}
	}
	var res *Alg
	okAll := true
	EachInstr(body, func(in ssa.Instruction) {
		ret, isR := in.(*ssa.Return)
		if !isR || len(ret.Results) != 1 || !okAll {
			return
		}
		a, ok := sub.Eval(ret.Results[0], depth+1)
		if !ok {
			okAll = false
			return
		}
		if res == nil {
			res = &a
		} else if !res.Eq(a) {
			okAll = false
		}
	})
	e.Truncs += sub.Truncs
	if !okAll || res == nil {
		if sub.Why != "" {
			return e.fail("%s", sub.Why)
		}
		return e.fail("%s does not return one closed form", body.Name())
	}
	return *res, true
}
