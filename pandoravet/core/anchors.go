package core

import (
	"fmt"
	"go/types"
	"sort"
	"strings"

	"golang.org/x/tools/go/ssa"
)

// AnchorInfo describes an unexported function a rule pack refers to by name: its signature and the functions it calls,
// as they were when the packs were written. When the name is gone (a rename), Func looks in the same package, on the
// same receiver, for the one function with the same signature whose callees resemble the recorded ones most; the
// match is reported in the evidence notes. No match, or an ambiguous one, leaves the anchor unresolved.
type AnchorInfo struct {
	Sig     string
	Callees []string
}

// Renamed collects the anchors that were resolved by role in this run ("old -> new").
var Renamed = map[string]string{}

// sigString: parameter and result types only (names do not matter).
func sigString(fn *ssa.Function) string {
	sig := fn.Signature
	q := func(p *types.Package) string { return p.Path() }
	var ps, rs []string
	for i := 0; i < sig.Params().Len(); i++ {
		ps = append(ps, types.TypeString(sig.Params().At(i).Type(), q))
	}
	for i := 0; i < sig.Results().Len(); i++ {
		rs = append(rs, types.TypeString(sig.Results().At(i).Type(), q))
	}
	v := ""
	if sig.Variadic() {
		v = "..."
	}
	return "(" + strings.Join(ps, ", ") + v + ") (" + strings.Join(rs, ", ") + ")"
}

// calleeFingerprint: the distinct functions and methods the body (and its closures) calls, by qualified name.
func calleeFingerprint(fn *ssa.Function) []string {
	set := map[string]bool{}
	for _, g := range WithClosures(fn) {
		EachInstr(g, func(in ssa.Instruction) {
			cc := CC(in)
			if cc == nil {
				return
			}
			if cc.IsInvoke() {
				set["iface."+cc.Method.Name()] = true
				return
			}
			if f := CalleeObj(cc); f != nil {
				q := f.Name()
				if f.Pkg() != nil {
					q = f.Pkg().Path() + "." + RecvTypeName(f) + "." + f.Name()
				}
				set[q] = true
			} else if b, ok := cc.Value.(*ssa.Builtin); ok {
				set["builtin."+b.Name()] = true
			}
		})
	}
	var out []string
	for k := range set {
		out = append(out, k)
	}
	sort.Strings(out)
	return out
}

// DumpAnchor prints the table line for one anchor (used to regenerate anchors_table.go).
func (p *Prog) DumpAnchor(rel, recv, name string) string {
	fn := p.funcExact(rel, recv, name)
	if fn == nil {
		return ""
	}
	return fmt.Sprintf("\t%q: {Sig: %q, Callees: []string{%s}},", rel+"|"+recv+"|"+name, sigString(fn), quoteList(calleeFingerprint(fn)))
}

func quoteList(xs []string) string {
	var q []string
	for _, x := range xs {
		q = append(q, fmt.Sprintf("%q", x))
	}
	return strings.Join(q, ", ")
}

func (p *Prog) funcByRole(rel, recv, name string) *ssa.Function {
	info, ok := AnchorTable[rel+"|"+recv+"|"+name]
	if !ok {
		return nil
	}
	sp := p.SSAPkg(rel)
	if sp == nil {
		return nil
	}
	// names that are themselves anchors and still exist are not candidates
	taken := map[*ssa.Function]bool{}
	for k := range AnchorTable {
		parts := strings.Split(k, "|")
		if len(parts) == 3 && parts[0] == rel {
			if f := p.funcExact(parts[0], parts[1], parts[2]); f != nil {
				taken[f] = true
			}
		}
	}
	want := map[string]bool{}
	for _, c := range info.Callees {
		want[c] = true
	}
	type cand struct {
		fn    *ssa.Function
		score float64
	}
	var cands []cand
	for _, g := range PkgFuncs(sp) {
		if g.Parent() != nil || g.Synthetic != "" || taken[g] || !IsProdFile(p.File(g.Pos())) || g.Object() == nil || g.Object().Exported() {
			continue
		}
		if recv == "" && g.Signature.Recv() != nil || recv != "" && RecvTypeName(g.Object().(*types.Func)) != recv {
			continue
		}
		if sigString(g) != info.Sig {
			continue
		}
		got := calleeFingerprint(g)
		inter, union := 0, len(want)
		for _, c := range got {
			if want[c] {
				inter++
			} else {
				union++
			}
		}
		score := 1.0
		if union > 0 {
			score = float64(inter) / float64(union)
		}
		cands = append(cands, cand{g, score})
	}
	sort.Slice(cands, func(i, j int) bool { return cands[i].score > cands[j].score })
	if len(cands) == 0 || cands[0].score < 0.6 {
		return nil
	}
	if len(cands) > 1 && cands[1].score > cands[0].score-0.15 {
		return nil // ambiguous
	}
	Renamed[rel+"."+recv+"."+name] = cands[0].fn.Name()
	return cands[0].fn
}
