package core

import (
	"fmt"
	"go/token"
	"go/types"
	"strings"

	"golang.org/x/tools/go/ssa"
)

// Inf marks an unbounded event count (event on a cycle).
const Inf = 1 << 30

// Interval is the range of event counts over a set of paths.
type Interval struct {
	Min, Max int
	MinPath  []int // block indices of a witness for Min
	MaxPath  []int
	NoPath   bool // no path from the start to a selected exit
}

func (iv Interval) String() string {
	if iv.NoPath {
		return "[no path]"
	}
	mx := fmt.Sprint(iv.Max)
	if iv.Max >= Inf {
		mx = "inf"
	}
	return fmt.Sprintf("[%d,%s]", iv.Min, mx)
}

func (iv Interval) Is(min, max int) bool { return !iv.NoPath && iv.Min == min && iv.Max == max }

func PathString(p []int) string {
	s := make([]string, len(p))
	for i, b := range p {
		s[i] = fmt.Sprint(b)
	}
	return "blocks " + strings.Join(s, "→")
}

// PathQuery describes a path-counting question over one function.
type PathQuery struct {
	Fn *ssa.Function
	// Start: count from just after this instruction (nil = function entry).
	Start ssa.Instruction
	// StartBlock: count from the beginning of this block (overrides entry; ignored if Start is set).
	StartBlock *ssa.BasicBlock
	// Weight of an instruction: (min,max) events it contributes.
	Weight func(in ssa.Instruction) (int, int)
	// Exit selects the exit blocks that count (nil = all Return and explicit Panic exits).
	Exit func(b *ssa.BasicBlock) bool
	// Edge restricts the edges that may be traversed (nil = all feasible).
	Edge func(from, to *ssa.BasicBlock) bool
	// StopBlock, if set, makes reaching the beginning of that block terminal (e.g. a loop header:
	// "paths of one iteration").
	StopBlock *ssa.BasicBlock
	// Stop, if set, makes a block terminal (counted as an exit) when it returns true
	// for an instruction; events up to and including that instruction are counted.
	Stop func(in ssa.Instruction) bool
	// Shallow: by default a call (not go/defer) of a function or closure of the same package to which Weight gives
	// (0,0) counts with what the paths of that callee contribute (entry to return, same Weight and Edge; three levels,
	// no recursion) - moving part of a function into a helper does not change a count. Shallow switches that off.
	Shallow bool
	// Assume fixes the value of boolean subjects (value level, unlike Edge): at an If whose condition is such a subject -
	// or a phi / negation that evaluates to a known value under the assumptions, over the incoming edges that are
	// feasible under them (`x := a && f(); if x`) - only the matching edge is taken.
	Assume []Assumption
	// CalleeExit selects, inside the callees counted by the deep weights, the returns that count (nil = all returns);
	// e.g. "not the error returns" when the caller's Exit excludes its own error exits.
	CalleeExit func(b *ssa.BasicBlock) bool

	deep *deepState
}

// Assumption: every value satisfying Pred is taken to be Val.
type Assumption struct {
	Pred func(v ssa.Value) bool
	Val  bool
}

// assumeEval evaluates a boolean value under the assumptions; feasible says which blocks can be reached at all.
func (q PathQuery) assumeEval(v ssa.Value, feasible map[*ssa.BasicBlock]bool, busy map[ssa.Value]bool) (val, known bool) {
	if cv, isC := ConstCond(v); isC {
		return cv, true
	}
	if u, ok := v.(*ssa.UnOp); ok && u.Op == token.NOT {
		x, k := q.assumeEval(u.X, feasible, busy)
		return !x, k
	}
	for _, a := range q.Assume {
		if a.Pred(v) {
			return a.Val, true
		}
	}
	phi, ok := v.(*ssa.Phi)
	if !ok || busy[v] {
		return false, false
	}
	busy[v] = true
	defer delete(busy, v)
	have := false
	for i, e := range phi.Edges {
		pred := phi.Block().Preds[i]
		if feasible != nil && !feasible[pred] {
			continue
		}
		if !q.edgeOK(pred, phi.Block(), feasible, busy) {
			continue
		}
		x, k := q.assumeEval(e, feasible, busy)
		if !k {
			return false, false
		}
		if have && x != val {
			return false, false
		}
		val, have = x, true
	}
	return val, have
}

// edgeOK: the edge may be taken under Edge and Assume.
func (q PathQuery) edgeOK(from, to *ssa.BasicBlock, feasible map[*ssa.BasicBlock]bool, busy map[ssa.Value]bool) bool {
	if q.Edge != nil && !q.Edge(from, to) {
		return false
	}
	if len(q.Assume) == 0 || len(from.Instrs) == 0 {
		return true
	}
	iff, ok := from.Instrs[len(from.Instrs)-1].(*ssa.If)
	if !ok || len(from.Succs) != 2 || from.Succs[0] == from.Succs[1] {
		return true
	}
	if busy == nil {
		busy = map[ssa.Value]bool{}
	}
	v, known := q.assumeEval(iff.Cond, feasible, busy)
	if !known {
		return true
	}
	if v {
		return to == from.Succs[0]
	}
	return to == from.Succs[1]
}

// Feasible: the blocks reachable from the entry under Edge and Assume (nil when there are no assumptions).
func (q PathQuery) Feasible() map[*ssa.BasicBlock]bool { return q.feasibleBlocks() }

// feasibleBlocks: the blocks reachable from the function entry under Edge and Assume (fixpoint: a phi folds to a
// constant once the blocks feeding its other values are known to be unreachable).
func (q PathQuery) feasibleBlocks() map[*ssa.BasicBlock]bool {
	if len(q.Assume) == 0 {
		return nil
	}
	var feasible map[*ssa.BasicBlock]bool
	for it := 0; it < 4; it++ {
		next := map[*ssa.BasicBlock]bool{}
		var dfs func(b *ssa.BasicBlock)
		dfs = func(b *ssa.BasicBlock) {
			if next[b] {
				return
			}
			next[b] = true
			for _, s := range Succs(b) {
				if q.edgeOK(b, s, feasible, nil) {
					dfs(s)
				}
			}
		}
		dfs(q.Fn.Blocks[0])
		if feasible != nil && len(next) == len(feasible) {
			break
		}
		feasible = next
	}
	return feasible
}

type deepState struct {
	memo  map[*ssa.Function]Interval
	stack []*ssa.Function
}

// calleeWeight: the events contributed by a call of a same-package function (see Shallow).
func (q PathQuery) calleeWeight(in ssa.Instruction) (int, int) {
	cl, ok := in.(*ssa.Call)
	if !ok || q.Shallow || q.Weight == nil {
		return 0, 0
	}
	callee := cl.Call.StaticCallee()
	if callee == nil || len(callee.Blocks) == 0 || callee.Pkg == nil && callee.Parent() == nil {
		return 0, 0
	}
	pkgOf := func(f *ssa.Function) *ssa.Package {
		for f.Parent() != nil {
			f = f.Parent()
		}
		return f.Pkg
	}
	if pkgOf(callee) == nil || pkgOf(callee) != pkgOf(q.Fn) {
		return 0, 0
	}
	ds := q.deep
	if ds == nil {
		ds = &deepState{memo: map[*ssa.Function]Interval{}}
	}
	if callee == q.Fn || len(ds.stack) >= 3 {
		return 0, 0
	}
	for _, f := range ds.stack {
		if f == callee {
			return 0, 0
		}
	}
	// a boolean argument whose value is known under the assumptions is known inside the callee as well
	// (keep := a || len(ps) > 0; readBody(r, keep)): the parameter is assumed to have that value
	assume := q.Assume
	bound := false
	if len(q.Assume) > 0 {
		for i, a := range cl.Call.Args {
			if i >= len(callee.Params) {
				break
			}
			if bt, isB := a.Type().Underlying().(*types.Basic); !isB || bt.Kind() != types.Bool {
				continue
			}
			if val, known := q.assumeEval(a, nil, map[ssa.Value]bool{}); known {
				par := ssa.Value(callee.Params[i])
				if !bound {
					assume = append([]Assumption{}, q.Assume...)
					bound = true
				}
				assume = append(assume, Assumption{Pred: func(v ssa.Value) bool { return v == par }, Val: val})
			}
		}
	}
	iv, ok := ds.memo[callee]
	if !ok || bound {
		sub := PathQuery{Fn: callee, Weight: q.Weight, Edge: q.Edge, Assume: assume, CalleeExit: q.CalleeExit, Exit: func(b *ssa.BasicBlock) bool {
			return ExitOf(b) == ExitReturn && (q.CalleeExit == nil || q.CalleeExit(b))
		},
			deep: &deepState{memo: ds.memo, stack: append(append([]*ssa.Function{}, ds.stack...), q.Fn)}}
		iv = sub.Count()
		if !bound {
			ds.memo[callee] = iv
		}
	}
	if iv.NoPath {
		return 0, 0
	}
	return iv.Min, iv.Max
}

// Count evaluates the query.
func (q PathQuery) Count() Interval {
	fn := q.Fn
	if len(fn.Blocks) == 0 {
		return Interval{NoPath: true}
	}
	type node struct {
		b        *ssa.BasicBlock
		min, max int
		terminal bool // Stop hit inside
		exit     bool
	}
	startBlock := fn.Blocks[0]
	startIdx := 0
	if q.Start != nil {
		startBlock = q.Start.Block()
		startIdx = InstrIndex(q.Start) + 1
	} else if q.StartBlock != nil {
		startBlock = q.StartBlock
	}
	// weights per block; the start block is split: index -1 represents the
	// partial start block, so that a cycle back into the full start block is handled.
	mk := func(b *ssa.BasicBlock, from int) node {
		n := node{b: b}
		if from == 0 && q.StopBlock == b {
			n.terminal = true
			return n
		}
		for i := from; i < len(b.Instrs); i++ {
			in := b.Instrs[i]
			stops := q.Stop != nil && q.Stop(in)
			if q.Weight != nil {
				lo, hi := q.Weight(in)
				if lo == 0 && hi == 0 && !stops {
					lo, hi = q.calleeWeight(in) // (what a stopping call does inside lies beyond the stop)
				}
				n.min += lo
				if n.max < Inf {
					n.max += hi
					if n.max > Inf {
						n.max = Inf
					}
				}
			}
			if stops {
				n.terminal = true
				break
			}
		}
		if !n.terminal {
			k := ExitOf(b)
			if k == ExitReturn || (k == ExitPanic && !IsSelectPanicBlock(b)) {
				n.exit = q.Exit == nil || q.Exit(b)
			}
		}
		return n
	}
	// node ids: 0 = partial start; 1+i = block i (full)
	nodes := make([]node, len(fn.Blocks)+1)
	if q.StopBlock != nil && q.StopBlock == startBlock && startIdx == 0 {
		sb := q.StopBlock
		q.StopBlock = nil
		nodes[0] = mk(startBlock, 0)
		q.StopBlock = sb
	} else {
		nodes[0] = mk(startBlock, startIdx)
	}
	for i, b := range fn.Blocks {
		nodes[i+1] = mk(b, 0)
	}
	feasible := q.feasibleBlocks()
	succ := func(id int) []int {
		n := nodes[id]
		if n.terminal {
			return nil
		}
		var out []int
		for _, s := range Succs(n.b) {
			if IsSelectPanicBlock(s) {
				continue
			}
			if !q.edgeOK(n.b, s, feasible, nil) {
				continue
			}
			out = append(out, s.Index+1)
		}
		return out
	}
	// reachable from start
	reach := map[int]bool{}
	var order []int
	var dfs func(int)
	dfs = func(u int) {
		if reach[u] {
			return
		}
		reach[u] = true
		for _, v := range succ(u) {
			dfs(v)
		}
		order = append(order, u)
	}
	dfs(0)
	isEnd := func(id int) bool { return nodes[id].exit || nodes[id].terminal }
	// can reach an end
	canEnd := map[int]bool{}
	changed := true
	for changed {
		changed = false
		for u := range reach {
			if canEnd[u] {
				continue
			}
			if isEnd(u) {
				canEnd[u] = true
				changed = true
				continue
			}
			for _, v := range succ(u) {
				if canEnd[v] {
					canEnd[u] = true
					changed = true
					break
				}
			}
		}
	}
	if !canEnd[0] {
		return Interval{NoPath: true}
	}
	blockIdx := func(id int) int {
		return nodes[id].b.Index
	}
	// MIN: Bellman-Ford over non-negative weights.
	const big = 1 << 40
	dist := map[int]int{}
	prev := map[int]int{}
	for u := range reach {
		dist[u] = big
	}
	dist[0] = nodes[0].min
	for it := 0; it <= len(reach); it++ {
		ch := false
		for u := range reach {
			if dist[u] >= big || !canEnd[u] {
				continue
			}
			for _, v := range succ(u) {
				if !canEnd[v] {
					continue
				}
				if d := dist[u] + nodes[v].min; d < dist[v] {
					dist[v] = d
					prev[v] = u
					ch = true
				}
			}
		}
		if !ch {
			break
		}
	}
	res := Interval{Min: big}
	best := -1
	for u := range reach {
		if isEnd(u) && dist[u] < res.Min {
			res.Min = dist[u]
			best = u
		}
	}
	for u := best; ; {
		res.MinPath = append([]int{blockIdx(u)}, res.MinPath...)
		if u == 0 {
			break
		}
		u = prev[u]
	}
	// MAX: SCCs over nodes that are reachable and can end.
	idx, low, on := map[int]int{}, map[int]int{}, map[int]bool{}
	var st []int
	comp := map[int]int{}
	var comps [][]int
	c := 0
	var tarjan func(u int)
	tarjan = func(u int) {
		c++
		idx[u], low[u] = c, c
		st = append(st, u)
		on[u] = true
		for _, v := range succ(u) {
			if !canEnd[v] {
				continue
			}
			if idx[v] == 0 {
				tarjan(v)
				if low[v] < low[u] {
					low[u] = low[v]
				}
			} else if on[v] && idx[v] < low[u] {
				low[u] = idx[v]
			}
		}
		if low[u] == idx[u] {
			var cc []int
			for {
				w := st[len(st)-1]
				st = st[:len(st)-1]
				on[w] = false
				comp[w] = len(comps)
				cc = append(cc, w)
				if w == u {
					break
				}
			}
			comps = append(comps, cc)
		}
	}
	tarjan(0)
	// comps are in reverse topological order (sinks first).
	cw := make([]int, len(comps))     // weight of component
	cyc := make([]bool, len(comps))   // cyclic
	bestTo := make([]int, len(comps)) // max weight from component to an end (incl. itself), -1 if none
	nextC := make([]int, len(comps))
	for i, cc := range comps {
		if len(cc) > 1 {
			cyc[i] = true
		}
		for _, u := range cc {
			for _, v := range succ(u) {
				if v == u {
					cyc[i] = true
				}
			}
		}
		if cyc[i] {
			for _, u := range cc {
				if nodes[u].max > 0 {
					cw[i] = Inf
				}
			}
		} else {
			cw[i] = nodes[cc[0]].max
		}
	}
	for i, cc := range comps {
		bestTo[i] = -1
		nextC[i] = -1
		for _, u := range cc {
			if isEnd(u) && bestTo[i] < 0 {
				bestTo[i] = 0
			}
			for _, v := range succ(u) {
				if !canEnd[v] {
					continue
				}
				j := comp[v]
				if j == i {
					continue
				}
				if bestTo[j] >= 0 && bestTo[j] > bestTo[i] {
					bestTo[i] = bestTo[j]
					nextC[i] = j
				} else if bestTo[j] >= 0 && bestTo[i] < 0 {
					bestTo[i] = bestTo[j]
					nextC[i] = j
				}
			}
		}
		if bestTo[i] >= 0 {
			bestTo[i] += cw[i]
			if bestTo[i] > Inf {
				bestTo[i] = Inf
			}
		}
	}
	res.Max = bestTo[comp[0]]
	for i := comp[0]; i >= 0; i = nextC[i] {
		for _, u := range comps[i] {
			res.MaxPath = append(res.MaxPath, blockIdx(u))
		}
	}
	return res
}

// ---------- summaries ----------

// Summ computes, memoised, the [min,max] count of events over all entry→exit
// paths of functions, descending into statically resolved callees of pandora
// packages and into deferred / immediately invoked closures. Recursion yields [0,inf].
type Summ struct {
	// Base gives the weight of an instruction that is itself an event
	// (ok=true), stopping the descent.
	Base  func(in ssa.Instruction) (lo, hi int, ok bool)
	memo  map[*ssa.Function]*Interval
	stack map[*ssa.Function]bool
	// Descend decides whether a static callee's body is summarised (default: pandora production code).
	Descend func(fn *ssa.Function) bool
}

func (s *Summ) Of(fn *ssa.Function) Interval {
	if s.memo == nil {
		s.memo = map[*ssa.Function]*Interval{}
		s.stack = map[*ssa.Function]bool{}
	}
	if iv, ok := s.memo[fn]; ok {
		return *iv
	}
	if s.stack[fn] {
		return Interval{Min: 0, Max: Inf}
	}
	s.stack[fn] = true
	iv := PathQuery{Fn: fn, Weight: s.Weight}.Count()
	if iv.NoPath {
		iv = Interval{Min: 0, Max: 0}
	}
	delete(s.stack, fn)
	s.memo[fn] = &iv
	return iv
}

// Weight is the instruction weight function including callee summaries.
func (s *Summ) Weight(in ssa.Instruction) (int, int) {
	if lo, hi, ok := s.Base(in); ok {
		return lo, hi
	}
	switch in.(type) {
	case *ssa.Go:
		return 0, 0 // another goroutine
	}
	cc := CC(in)
	if cc == nil {
		return 0, 0
	}
	var callee *ssa.Function
	if sc := cc.StaticCallee(); sc != nil {
		callee = sc
	} else if mc, ok := cc.Value.(*ssa.MakeClosure); ok {
		callee, _ = mc.Fn.(*ssa.Function)
	}
	if callee == nil || len(callee.Blocks) == 0 {
		return 0, 0
	}
	desc := s.Descend
	if desc == nil {
		desc = func(fn *ssa.Function) bool { return IsPandora(PkgOf(fn)) }
	}
	if !desc(callee) {
		return 0, 0
	}
	iv := s.Of(callee)
	return iv.Min, iv.Max
}
