package core

import (
	"bufio"
	"bytes"
	"fmt"
	"go/ast"
	"go/token"
	"go/types"
	"os"
	"os/exec"
	"path/filepath"
	"reflect"
	"regexp"
	"sort"
	"strconv"
	"strings"

	"golang.org/x/tools/go/ssa"
)

// PanicSite is one construct that can raise a run-time panic or end the process.
type PanicSite struct {
	Kind  string // "index", "slice", "assert", "div", "size", "rand", "abort"
	Fn    *ssa.Function
	Instr ssa.Instruction
	Pos   token.Pos
	Expr  string // normalised source text of the construct
	Guard string // non-empty: the recognised dominating check that makes it safe
}

// Key is the stable, line-free key of the site.
func (s PanicSite) Key() string { return s.Kind + ":" + FuncKey(s.Fn) + ":" + s.Expr }

var bceLine = regexp.MustCompile(`^(.*\.go):(\d+):(\d+): Found (IsInBounds|IsSliceInBounds)`)

// BCEReport runs the compiler's bounds-check report over the module (without
// inlining, so that every site is attributed to the function containing the
// expression) and returns the set of "relfile:line:col" positions whose bounds
// check the compiler could not eliminate.
func (p *Prog) BCEReport() (map[string]bool, error) {
	if p.bce != nil {
		return p.bce, nil
	}
	args := []string{"build", "-gcflags=" + Mod + "/...=-l -d=ssa/check_bce/debug=1"}
	if p.Tags != "" {
		args = append(args, "-tags="+p.Tags)
	}
	if len(p.Overlay) > 0 {
		js, cleanup, err := writeBuildOverlay(p.Overlay)
		if err != nil {
			return nil, err
		}
		defer cleanup()
		args = append(args, "-overlay="+js)
	}
	args = append(args, "./...")
	cmd := exec.Command("go", args...)
	cmd.Dir = p.Dir
	env := []string{}
	for _, e := range os.Environ() {
		if strings.HasPrefix(e, "GOWORK=") || strings.HasPrefix(e, "GOFLAGS=") || strings.HasPrefix(e, "GOPROXY=") || strings.HasPrefix(e, "GOSUMDB=") || strings.HasPrefix(e, "GOTOOLCHAIN=") {
			continue
		}
		env = append(env, e)
	}
	cmd.Env = append(env, "GOWORK=off", "GOFLAGS=-mod=mod", "GOPROXY=off", "GOSUMDB=off", "GOTOOLCHAIN=local")
	var out bytes.Buffer
	cmd.Stdout, cmd.Stderr = &out, &out
	if err := cmd.Run(); err != nil {
		return nil, fmt.Errorf("go build with the bounds-check report failed: %v\n%s", err, tail(out.String(), 2000))
	}
	res := map[string]bool{}
	sc := bufio.NewScanner(&out)
	sc.Buffer(make([]byte, 1<<20), 1<<20)
	for sc.Scan() {
		m := bceLine.FindStringSubmatch(sc.Text())
		if m == nil {
			continue
		}
		f := m[1]
		if !filepath.IsAbs(f) {
			f = filepath.Join(p.Dir, f)
		}
		f = filepath.Clean(f)
		rel := strings.TrimPrefix(f, p.Dir+"/")
		res[rel+":"+m[2]+":"+m[3]] = true
	}
	p.bce = res
	return res, nil
}

func tail(s string, n int) string {
	if len(s) > n {
		return s[len(s)-n:]
	}
	return s
}

func (p *Prog) posKey(pos token.Pos) string {
	ps := p.Fset.Position(pos)
	return fmt.Sprintf("%s:%d:%d", strings.TrimPrefix(ps.Filename, p.Dir+"/"), ps.Line, ps.Column)
}

// ExprAt returns the normalised source text of the innermost expression of fn's
// declaration whose "anchor" position (Lbrack for index/slice, Lparen for
// assertions/calls, OpPos for binary) equals pos.
func (p *Prog) ExprAt(fn *ssa.Function, pos token.Pos) string {
	root := fn
	for root.Parent() != nil {
		root = root.Parent()
	}
	decl, _ := p.Decl(root)
	var node ast.Node
	if decl != nil {
		node = decl
	} else if syn := root.Syntax(); syn != nil {
		node = syn
	}
	if node == nil {
		return ""
	}
	found := ""
	ast.Inspect(node, func(n ast.Node) bool {
		if n == nil || found != "" {
			return false
		}
		switch x := n.(type) {
		case *ast.IndexExpr:
			if x.Lbrack == pos {
				found = types.ExprString(x)
			}
		case *ast.SliceExpr:
			if x.Lbrack == pos {
				found = types.ExprString(x)
			}
		case *ast.TypeAssertExpr:
			if x.Lparen == pos || x.Pos() == pos {
				found = types.ExprString(x)
			}
		case *ast.BinaryExpr:
			if x.OpPos == pos {
				found = types.ExprString(x)
			}
		case *ast.AssignStmt:
			if x.TokPos == pos && len(x.Lhs) == 1 && len(x.Rhs) == 1 {
				found = types.ExprString(x.Lhs[0]) + " " + x.Tok.String() + " " + types.ExprString(x.Rhs[0])
			}
		case *ast.CallExpr:
			if x.Lparen == pos || x.Pos() == pos {
				found = types.ExprString(x)
			}
		}
		return true
	})
	return found
}

// Reach returns the production pandora functions reachable from the given
// roots. Calls are resolved conservatively over pandora code (the VTA graph of
// x/tools v0.29.0 was measured to DROP interface calls whose receiver arrives
// through a channel or sync.Pool, e.g. ammo.BuildRequest() in the http provider's
// Acquire, so it is not used): a static call reaches its callee; an interface
// call reaches that method of every pandora type implementing the interface; a
// call of a function value reaches the functions FuncValues resolves, or, when
// it resolves none, every address-taken pandora function of identical
// signature; creating a closure or taking a function's value makes it
// reachable; converting a pandora value to an interface makes the methods of
// that interface reachable on its type (whoever receives it, library code
// included, may call them).
func (p *Prog) Reach(roots []*ssa.Function) map[*ssa.Function]bool {
	named := p.PandoraNamedTypes()
	addrTaken := p.addressTaken()
	seen := map[*ssa.Function]bool{}
	var work []*ssa.Function
	visit := func(f *ssa.Function) {
		if f == nil || seen[f] || len(f.Blocks) == 0 || !IsPandora(PkgOf(f)) {
			return
		}
		seen[f] = true
		work = append(work, f)
	}
	methodsOf := func(t types.Type, it *types.Interface) {
		for i := 0; i < it.NumMethods(); i++ {
			if fn := p.MethodFn(t, it.Method(i).Name()); fn != nil {
				visit(fn)
			}
		}
	}
	for _, r := range roots {
		visit(r)
	}
	for len(work) > 0 {
		fn := work[len(work)-1]
		work = work[:len(work)-1]
		for _, a := range fn.AnonFuncs {
			visit(a)
		}
		EachInstr(fn, func(in ssa.Instruction) {
			// function values used as operands
			for _, op := range in.Operands(nil) {
				if op == nil || *op == nil {
					continue
				}
				if f, ok := (*op).(*ssa.Function); ok {
					visit(f)
				}
			}
			if mi, ok := in.(*ssa.MakeInterface); ok {
				// library callbacks: a pandora value handed out as a NON-pandora interface (io.Reader, error,
				// encoding.TextUnmarshaler, ...) may have those methods called by library code. Calls through
				// pandora's own interfaces are made by pandora code and resolved at their invoke sites.
				if it, ok := mi.Type().Underlying().(*types.Interface); ok && it.NumMethods() > 0 {
					ipk, _ := NamedOf(mi.Type())
					if pk, _ := NamedOf(mi.X.Type()); IsPandora(pk) && !IsPandora(ipk) {
						methodsOf(mi.X.Type(), it)
					}
				}
			}
			cc := CC(in)
			if cc == nil {
				return
			}
			if _, isB := cc.Value.(*ssa.Builtin); isB {
				return
			}
			if cc.IsInvoke() {
				it, _ := cc.Value.Type().Underlying().(*types.Interface)
				if it == nil {
					return
				}
				for _, nt := range named {
					if Implements(nt, it) {
						if f := p.MethodFn(nt, cc.Method.Name()); f != nil {
							visit(f)
						}
					}
				}
				return
			}
			if sc := cc.StaticCallee(); sc != nil {
				visit(sc)
				return
			}
			fvs := p.FuncValues(cc.Value)
			if len(fvs) == 0 {
				p.Unresolved = append(p.Unresolved, p.Pos(in.Pos())+" "+cc.Value.String()+" in "+FuncKey(fn))
				sig := cc.Signature()
				for f := range addrTaken {
					if types.Identical(f.Signature, sig) && os.Getenv("PV_NOFALLBACK") == "" {
						visit(f)
					}
				}
			}
			for _, f := range fvs {
				visit(f)
			}
		})
	}
	out := map[*ssa.Function]bool{}
	for f := range seen {
		if !IsProdPkg(PkgOf(f)) {
			continue
		}
		if f.Pos().IsValid() && !IsProdFile(p.File(f.Pos())) {
			continue
		}
		out[f] = true
	}
	return out
}

// PandoraNamedTypes lists the named non-interface types of production pandora packages.
func (p *Prog) PandoraNamedTypes() []*types.Named {
	if p.named != nil {
		return p.named
	}
	for _, pk := range p.Root {
		if !IsProdPkg(pk.PkgPath) {
			continue
		}
		sc := pk.Types.Scope()
		for _, n := range sc.Names() {
			tn, ok := sc.Lookup(n).(*types.TypeName)
			if !ok || tn.IsAlias() {
				continue
			}
			nt, ok := tn.Type().(*types.Named)
			if !ok || types.IsInterface(nt) || nt.TypeParams().Len() > 0 {
				continue
			}
			if !IsProdFile(p.File(tn.Pos())) {
				continue
			}
			p.named = append(p.named, nt)
		}
	}
	return p.named
}

// addressTaken lists pandora functions (incl. closures) whose value can flow
// to a dynamic call site in pandora code: the value is stored, returned,
// sent, boxed, merged by a phi, or passed as an argument to a pandora function
// or to a dynamic call. A function that is only called, started with go/defer,
// or handed directly to a library function is not in the set (library code
// calls it, which Reach models by visiting every closure of a reachable
// function and every function value operand).
func (p *Prog) addressTaken() map[*ssa.Function]bool {
	if p.addrTaken != nil {
		return p.addrTaken
	}
	p.addrTaken = map[*ssa.Function]bool{}
	flows := func(v ssa.Value, user ssa.Instruction) bool {
		switch x := user.(type) {
		case *ssa.DebugRef:
			return false
		case ssa.CallInstruction:
			cc := x.Common()
			if cc.Value == v {
				isArg := false
				for _, a := range cc.Args {
					if a == v {
						isArg = true
					}
				}
				if !isArg {
					return false
				}
			}
			if sc := cc.StaticCallee(); sc != nil && !IsPandora(PkgOf(sc)) {
				return false
			}
			return true
		}
		return true
	}
	for _, fn := range p.pandoraFuncs() {
		EachInstr(fn, func(in ssa.Instruction) {
			if mc, ok := in.(*ssa.MakeClosure); ok {
				if f, ok := mc.Fn.(*ssa.Function); ok && mc.Referrers() != nil {
					for _, r := range *mc.Referrers() {
						if flows(mc, r) {
							p.addrTaken[f] = true
						}
					}
				}
				return
			}
			for _, op := range in.Operands(nil) {
				if op == nil || *op == nil {
					continue
				}
				if f, ok := (*op).(*ssa.Function); ok && flows(f, in) {
					p.addrTaken[f] = true
				}
			}
		})
	}
	return p.addrTaken
}

var intParsers = []Spec{
	{"strconv", "", "Atoi"}, {"strconv", "", "ParseInt"}, {"strconv", "", "ParseUint"},
	{"./lib/numbers", "", "ParseInt"},
}

var abortCalls = []Spec{
	{"go.uber.org/zap", "Logger", "Panic"}, {"go.uber.org/zap", "Logger", "Fatal"}, {"go.uber.org/zap", "Logger", "DPanic"},
	{"go.uber.org/zap", "SugaredLogger", "Panic"}, {"go.uber.org/zap", "SugaredLogger", "Fatal"}, {"go.uber.org/zap", "SugaredLogger", "Panicf"}, {"go.uber.org/zap", "SugaredLogger", "Fatalf"},
	{"log", "", "Fatal"}, {"log", "", "Fatalf"}, {"log", "", "Fatalln"}, {"log", "", "Panic"}, {"log", "", "Panicf"},
	{"os", "", "Exit"},
}

// isTainted: the value derives from the result of an integer parser (external text).
func isTainted(v ssa.Value) bool {
	return SliceAny(v, func(x ssa.Value) bool {
		cl, _ := CallOfValue(x)
		if cl != nil && MatchCC(&cl.Call, intParsers...) {
			return true
		}
		// a length the peer announced: Response.ContentLength / Request.ContentLength (net/http parsed it from the wire)
		if fv, base := FieldOf(Strip(x)); fv != nil && fv.Name() == "ContentLength" {
			if pk, _ := NamedOf(base.Type()); pk == "net/http" {
				return true
			}
		}
		return false
	})
}

// lenDerived: the value is built only from len()/cap() results, constants and + - of such
// (never negative beyond what the operands allow is NOT claimed: only pure len/cap/const sums).
func lenDerived(v ssa.Value) bool {
	switch x := v.(type) {
	case *ssa.Const:
		k, ok := ConstInt(x)
		return ok && k >= 0
	case *ssa.Convert:
		return lenDerived(x.X)
	case *ssa.ChangeType:
		return lenDerived(x.X)
	case *ssa.Call:
		if b, ok := x.Call.Value.(*ssa.Builtin); ok && (b.Name() == "len" || b.Name() == "cap") {
			return true
		}
		// the length methods of the standard containers: what they hold, never negative
		if MatchCC(&x.Call, Spec{"bytes", "Buffer", "Len"}, Spec{"bytes", "Buffer", "Cap"}, Spec{"bytes", "Buffer", "Available"},
			Spec{"strings", "Builder", "Len"}, Spec{"strings", "Builder", "Cap"}, Spec{"bytes", "Reader", "Len"}, Spec{"strings", "Reader", "Len"},
			Spec{"bufio", "Reader", "Buffered"}, Spec{"bufio", "Writer", "Buffered"}, Spec{"bufio", "Writer", "Available"}) {
			return true
		}
	case *ssa.BinOp:
		if x.Op == token.ADD || x.Op == token.MUL {
			return lenDerived(x.X) && lenDerived(x.Y)
		}
	case *ssa.Phi:
		for _, e := range x.Edges {
			if !lenDerived(e) {
				return false
			}
		}
		return true
	}
	return false
}

func isIntegerType(t types.Type) bool {
	b, ok := t.Underlying().(*types.Basic)
	return ok && b.Info()&types.IsInteger != 0
}

// PanicSites enumerates the panic-capable constructs of the given functions
// and attaches the recognised guard, if any.
func (p *Prog) PanicSites(fns map[*ssa.Function]bool) ([]PanicSite, error) {
	bce, err := p.BCEReport()
	if err != nil {
		return nil, err
	}
	var out []PanicSite
	var list []*ssa.Function
	for f := range fns {
		list = append(list, f)
	}
	sort.Slice(list, func(i, j int) bool {
		if list[i].Pos() != list[j].Pos() {
			return list[i].Pos() < list[j].Pos()
		}
		return list[i].String() < list[j].String()
	})
	seenKey := map[string]bool{}
	for _, fn := range list {
		if o := fn.Origin(); o != nil && o != fn {
			if fns[o] {
				continue // the generic origin is analysed once
			}
		}
		reach := Reachable(fn)
		for _, b := range fn.Blocks {
			if !reach[b] {
				continue
			}
			for _, in := range b.Instrs {
				add := func(kind string, pos token.Pos, guard string) {
					s := PanicSite{Kind: kind, Fn: fn, Instr: in, Pos: pos, Expr: p.ExprAt(fn, pos), Guard: guard}
					if s.Expr == "" {
						s.Expr = "@" + p.posKey(pos)
					}
					k := s.Key() + "@" + p.posKey(pos)
					if seenKey[k] {
						return
					}
					seenKey[k] = true
					out = append(out, s)
				}
				switch x := in.(type) {
				case *ssa.Index:
					if bce[p.posKey(x.Pos())] {
						add("index", x.Pos(), indexGuard(p, x, x.X, x.Index))
					}
				case *ssa.IndexAddr:
					if bce[p.posKey(x.Pos())] {
						add("index", x.Pos(), indexGuard(p, x, x.X, x.Index))
					}
				case *ssa.Lookup:
					if _, isMap := x.X.Type().Underlying().(*types.Map); !isMap && bce[p.posKey(x.Pos())] {
						add("index", x.Pos(), indexGuard(p, x, x.X, x.Index))
					}
				case *ssa.Slice:
					if bce[p.posKey(x.Pos())] {
						add("slice", x.Pos(), sliceGuard(x))
					}
				case *ssa.TypeAssert:
					if !x.CommaOk {
						g := assertGuard(x)
						if g == "" {
							g = typedByWriters(p, x)
						}
						add("assert", x.Pos(), g)
					}
				case *ssa.BinOp:
					if (x.Op == token.QUO || x.Op == token.REM) && isIntegerType(x.Type()) {
						if _, isK := ConstInt(x.Y); !isK {
							add("div", x.Pos(), nonZeroGuard(x, x.Y))
						}
					}
				case *ssa.MakeSlice:
					for _, sz := range []ssa.Value{x.Len, x.Cap} {
						if _, isK := ConstInt(sz); !isK && !lenDerived(sz) {
							add("size", x.Pos(), sizeGuard(p, x, sz))
							break
						}
					}
				case *ssa.MakeChan:
					if _, isK := ConstInt(x.Size); !isK && !lenDerived(x.Size) {
						add("size", x.Pos(), sizeGuard(p, x, x.Size))
					}
				case *ssa.Panic:
					if !IsSelectPanicBlock(b) {
						add("abort", x.Pos(), "")
					}
				case *ssa.Call:
					if MatchCC(&x.Call, abortCalls...) {
						add("abort", x.Pos(), "")
					}
					// t := reflect.TypeOf(v); t.Kind(): TypeOf of a nil interface is a nil Type, any method call on it panics
					if x.Call.IsInvoke() {
						if pk, tn := NamedOf(x.Call.Value.Type()); pk == "reflect" && tn == "Type" {
							if tc := typeOfCall(x.Call.Value); tc != nil {
								add("niltype", x.Pos(), nilTypeGuard(x, tc))
							}
						}
					}
					// v.IsNil() on a reflect.Value panics unless v's kind is chan, func, interface, map, pointer or slice
					if f := CalleeObj(&x.Call); f != nil && f.Pkg() != nil && f.Pkg().Path() == "reflect" && f.Name() == "IsNil" && RecvTypeName(f) == "Value" && len(x.Call.Args) == 1 {
						add("reflectnil", x.Pos(), reflectNilGuard(x))
					}
					// library calls that panic on a negative count: slices.Grow(s, n), strings.Repeat / bytes.Repeat(s, n),
					// (*strings.Builder).Grow(n), (*bytes.Buffer).Grow(n)
					if idx := negativeCountArg(&x.Call); idx >= 0 && idx < len(x.Call.Args) {
						sz := x.Call.Args[idx]
						if _, isK := ConstInt(sz); !isK && !lenDerived(sz) {
							add("size", x.Pos(), sizeGuard(p, x, sz))
						}
					}
					if f := CalleeObj(&x.Call); f != nil && f.Pkg() != nil && f.Pkg().Path() == "math/rand" {
						switch f.Name() {
						case "Intn", "Int63n", "Int31n", "Perm":
							arg := x.Call.Args[len(x.Call.Args)-1]
							if _, isK := ConstInt(arg); !isK {
								add("rand", x.Pos(), positiveGuard(x, arg))
							}
						}
					}
				}
			}
		}
	}
	sort.SliceStable(out, func(i, j int) bool { return out[i].Pos < out[j].Pos })
	return out, nil
}

// reflectNilGuard: the IsNil call is dominated by a test that the value's Kind() is a nillable kind.
func reflectNilGuard(at *ssa.Call) string {
	recv := at.Call.Args[0]
	nillable := map[int64]bool{18: true, 19: true, 20: true, 21: true, 22: true, 23: true, 26: true} // reflect.Chan..Slice, UnsafePointer
	for _, f := range CmpFactsAt(at) {
		if f.Op != token.EQL || f.Y == nil {
			continue
		}
		for _, pr := range [][2]ssa.Value{{f.X, f.Y}, {f.Y, f.X}} {
			k, isK := ConstInt(pr[1])
			if !isK || !nillable[k] {
				continue
			}
			if kc, ok := Strip(pr[0]).(*ssa.Call); ok {
				if g := CalleeObj(&kc.Call); g != nil && g.Name() == "Kind" && g.Pkg() != nil && g.Pkg().Path() == "reflect" && len(kc.Call.Args) == 1 {
					if sameValue(kc.Call.Args[0], recv) || kc.Call.Args[0] == recv {
						return "dominated by Kind() == a nillable kind"
					}
					// the same variable read twice (a spilled reflect.Value): loads of one cell
					a, isA := kc.Call.Args[0].(*ssa.UnOp)
					b, isB := recv.(*ssa.UnOp)
					if isA && isB && a.X == b.X {
						return "dominated by Kind() == a nillable kind"
					}
				}
			}
		}
	}
	return ""
}

// negativeCountArg: the index (in Call.Args, receiver included) of the count argument of a standard-library call that
// panics when the count is negative; -1 for other calls.
func negativeCountArg(cc *ssa.CallCommon) int {
	f := CalleeObj(cc)
	if f == nil {
		if sc := cc.StaticCallee(); sc != nil && sc.Origin() != nil {
			f, _ = sc.Origin().Object().(*types.Func)
		}
	}
	if f == nil || f.Pkg() == nil {
		return -1
	}
	recv := RecvTypeName(f)
	switch f.Pkg().Path() + "." + recv + "." + f.Name() {
	case "slices..Grow", "golang.org/x/exp/slices..Grow", "strings..Repeat", "bytes..Repeat":
		return 1
	case "strings.Builder.Grow", "bytes.Buffer.Grow":
		return 1
	}
	return -1
}

// typeOfCall: v is (only) the result of a reflect.TypeOf call; returns that call.
func typeOfCall(v ssa.Value) *ssa.Call {
	rs := Roots(v, false)
	if len(rs) != 1 {
		return nil
	}
	cl, _ := rs[0].(*ssa.Call)
	if cl == nil || !MatchCC(&cl.Call, Spec{"reflect", "", "TypeOf"}) {
		return nil
	}
	return cl
}

// nilTypeGuard: why reflect.TypeOf(arg) cannot be the nil Type at the method call.
func nilTypeGuard(at *ssa.Call, tc *ssa.Call) string {
	arg := tc.Call.Args[0]
	var isConcrete func(v ssa.Value, d int) bool
	isConcrete = func(v ssa.Value, d int) bool {
		switch x := v.(type) {
		case *ssa.MakeInterface:
			_, isIface := x.X.Type().Underlying().(*types.Interface)
			return !isIface
		case *ssa.Phi:
			if d > 3 {
				return false
			}
			for _, e := range x.Edges {
				if !isConcrete(e, d+1) {
					return false
				}
			}
			return len(x.Edges) > 0
		}
		return false
	}
	if isConcrete(arg, 0) {
		return "reflect.TypeOf of a value of a concrete (non-interface) type is never the nil Type"
	}
	for _, f := range CmpFactsAt(at) {
		if f.Op != token.NEQ {
			continue
		}
		for _, pr := range [][2]ssa.Value{{f.X, f.Y}, {f.Y, f.X}} {
			if IsNilConst(pr[1]) && (sameValue(pr[0], arg) || sameValue(pr[0], at.Call.Value) || pr[0] == ssa.Value(tc)) {
				return "dominated by a != nil test of the value / of the Type"
			}
		}
	}
	return ""
}

// lenOf reports whether v is len(x) with x the same value (by roots) as coll.
func lenOf(v ssa.Value, coll ssa.Value) bool {
	cl, ok := v.(*ssa.Call)
	if !ok {
		if cv, isC := Strip(v).(*ssa.Call); isC {
			cl = cv
		} else if rs := sameBodyRoots(Roots(v, false), coll); len(rs) >= 1 && rs[0] != v {
			// kept in a field of a small carrier type made for the loop (cursor.length = uint(len(x)))
			for _, r := range rs {
				if r == v || !lenOf(r, coll) {
					return false
				}
			}
			return true
		} else {
			return false
		}
	}
	b, ok := cl.Call.Value.(*ssa.Builtin)
	if !ok || b.Name() != "len" {
		return false
	}
	return sameValue(cl.Call.Args[0], coll)
}

// sameBodyRoots drops the roots that sit in another body of the same generic function as ref (the origin and its
// instantiations all store into a field; only the body ref lives in can be compared with ref).
func sameBodyRoots(rs []ssa.Value, ref ssa.Value) []ssa.Value {
	fnOf := func(v ssa.Value) *ssa.Function {
		if in, ok := v.(ssa.Instruction); ok {
			return in.Parent()
		}
		return v.Parent()
	}
	orig := func(f *ssa.Function) *ssa.Function {
		if f != nil && f.Origin() != nil {
			return f.Origin()
		}
		return f
	}
	rf := fnOf(ref)
	if rf == nil {
		return rs
	}
	var out []ssa.Value
	for _, r := range rs {
		if f := fnOf(r); f != nil && f != rf && orig(f) == orig(rf) {
			continue
		}
		out = append(out, r)
	}
	return out
}

// sameValue: identical SSA values, or loads of the same address / roots.
func sameValue(a, b ssa.Value) bool {
	if a == b {
		return true
	}
	a, b = Strip(a), Strip(b)
	if a == b {
		return true
	}
	if ca, ok := a.(*ssa.Const); ok {
		if cb, ok := b.(*ssa.Const); ok {
			return ca.Value != nil && cb.Value != nil && types.Identical(ca.Type(), cb.Type()) && ca.Value.ExactString() == cb.Value.ExactString()
		}
	}
	// addresses of the same field of the same struct (p.base.field reached through an embedded struct)
	if fa, okA := a.(*ssa.FieldAddr); okA {
		if fb, okB := b.(*ssa.FieldAddr); okB {
			return fa.Field == fb.Field && sameValue(fa.X, fb.X)
		}
	}
	ua, ok1 := a.(*ssa.UnOp)
	ub, ok2 := b.(*ssa.UnOp)
	if ok1 && ok2 && ua.Op == token.MUL && ub.Op == token.MUL {
		if ua.X == ub.X {
			return true
		}
		fa, okA := ua.X.(*ssa.FieldAddr)
		fb, okB := ub.X.(*ssa.FieldAddr)
		if okA && okB && fa.Field == fb.Field && sameValue(fa.X, fb.X) {
			return true
		}
	}
	ra, rb := Roots(a, false), Roots(b, false)
	if len(ra) == 0 || len(ra) != len(rb) {
		return false
	}
	for _, x := range ra {
		f := false
		for _, y := range rb {
			if x == y {
				f = true
			}
		}
		if !f {
			return false
		}
	}
	return true
}

// lowerBoundOnLen returns the largest n such that the facts at `at` imply len(coll) >= n.
func lowerBoundOnLen(at ssa.Instruction, coll ssa.Value) (int64, bool) {
	best, have := int64(0), false
	upd := func(n int64) {
		if !have || n > best {
			best, have = n, true
		}
	}
	for _, f := range CmpFactsAt(at) {
		for _, g := range []Fact{f, {Op: flip(f.Op), X: f.Y, Y: f.X}} {
			if g.Y == nil || !lenOf(g.X, coll) {
				continue
			}
			k, isK := ConstInt(g.Y)
			if !isK {
				continue
			}
			switch g.Op {
			case token.EQL, token.GEQ:
				upd(k)
			case token.GTR:
				upd(k + 1)
			case token.NEQ:
				if k == 0 {
					upd(1)
				}
			}
		}
	}
	return best, have
}

func isSplitResult(v ssa.Value) bool {
	for _, r := range Roots(v, false) {
		cl, _ := CallOfValue(r)
		if cl == nil || !MatchCC(&cl.Call, Spec{"strings", "", "Split"}, Spec{"strings", "", "SplitN"}, Spec{"bytes", "", "Split"}, Spec{"bytes", "", "SplitN"}) {
			return false
		}
		// a non-empty separator guarantees at least one element
		if s, ok := ConstString(cl.Call.Args[1]); !ok || s == "" {
			return false
		}
	}
	return len(Roots(v, false)) > 0
}

// capturedLenBound: coll is a variable captured by the closure containing `at`, never reassigned after
// the closure was created; returns the length lower bound established where the closure was made.
func capturedLenBound(at ssa.Instruction, coll ssa.Value) (int64, bool) {
	var fv *ssa.FreeVar
	switch x := Strip(coll).(type) {
	case *ssa.FreeVar:
		fv = x
	case *ssa.UnOp:
		if x.Op == token.MUL {
			fv, _ = x.X.(*ssa.FreeVar)
		}
	}
	if fv == nil {
		return 0, false
	}
	cell, site := CellOf(fv)
	if site == nil {
		// captured by value: the bound value at the single MakeClosure site
		var mcs []*ssa.MakeClosure
		fn := fv.Parent()
		idx := -1
		for i, f := range fn.FreeVars {
			if f == fv {
				idx = i
			}
		}
		if fn.Parent() != nil {
			EachInstr(fn.Parent(), func(in ssa.Instruction) {
				if mc, ok := in.(*ssa.MakeClosure); ok && mc.Fn == ssa.Value(fn) {
					mcs = append(mcs, mc)
				}
			})
		}
		if len(mcs) != 1 || idx < 0 {
			return 0, false
		}
		return lowerBoundOnLen(mcs[0], mcs[0].Bindings[idx])
	}
	if cell == nil {
		return 0, false
	}
	// the cell is assigned only before the closure is created
	for _, st := range StoresTo(cell) {
		if st.Parent() != cell.Parent() || !InstrDominates(st, site) {
			return 0, false
		}
	}
	// facts at the creation site about a load of the cell
	best, have := int64(0), false
	for _, f := range CmpFactsAt(site) {
		for _, g := range []Fact{f, {Op: flip(f.Op), X: f.Y, Y: f.X}} {
			if g.Y == nil || !isLenCall(g.X) {
				continue
			}
			ld, ok := lenArg(g.X).(*ssa.UnOp)
			if !ok || ld.X != ssa.Value(cell) {
				// parameter spilled into the cell: len(param) facts
				okParam := false
				for _, st := range StoresTo(cell) {
					if sameValue(st.Val, lenArg(g.X)) {
						okParam = true
					}
				}
				if !okParam {
					continue
				}
			}
			k, isK := ConstInt(g.Y)
			if !isK {
				continue
			}
			n, okN := int64(0), false
			switch g.Op {
			case token.EQL, token.GEQ:
				n, okN = k, true
			case token.GTR:
				n, okN = k+1, true
			}
			if okN && (!have || n > best) {
				best, have = n, true
			}
		}
	}
	return best, have
}

// paramIndexWithinArray: idx is a parameter of an unexported function and every static call site
// (through at most two forwarding levels) passes a constant within the array's length.
func paramIndexWithinArray(p *Prog, idx ssa.Value, arrayLen int64, depth int) bool {
	par, ok := idx.(*ssa.Parameter)
	if !ok || depth > 2 {
		return false
	}
	fn := par.Parent()
	if fn.Object() == nil || fn.Object().Exported() {
		return false
	}
	pi := -1
	for i, q := range fn.Params {
		if q == par {
			pi = i
		}
	}
	sites := p.StaticCallSites(fn)
	if pi < 0 || len(sites) == 0 {
		return false
	}
	// the function's value must not be taken
	for f := range p.addressTaken() {
		if f == fn {
			return false
		}
	}
	for _, site := range sites {
		a := CC(site).Args[pi]
		if k, isK := ConstInt(a); isK {
			if k < 0 || k >= arrayLen {
				return false
			}
			continue
		}
		// a loop counter (from 0, +1) known to be below a constant that does not exceed the array length
		if isLoopCounter(a) {
			bounded := false
			for _, f := range CmpFactsAt(site) {
				f = f.Canon()
				if f.Op == token.LSS && f.X == a {
					if kk, isKK := ConstInt(f.Y); isKK && kk <= arrayLen {
						bounded = true
					}
				}
			}
			if bounded {
				continue
			}
		}
		if !paramIndexWithinArray(p, a, arrayLen, depth+1) {
			return false
		}
	}
	return true
}

func indexGuard(p *Prog, at ssa.Instruction, coll, idx ssa.Value) string {
	// array indexed by a key parameter that every caller passes as an in-range constant
	{
		t := coll.Type()
		if pt, ok := t.Underlying().(*types.Pointer); ok {
			t = pt.Elem()
		}
		if at2, ok := t.Underlying().(*types.Array); ok && paramIndexWithinArray(p, idx, at2.Len(), 0) {
			return fmt.Sprintf("index is a parameter that every call site passes as a constant within [0,%d)", at2.Len())
		}
	}
	if k, isK := ConstInt(idx); isK {
		if k == 0 && strings.HasSuffix(PkgOf(at.Parent()), "/core/plugin") && reflectCallResult(coll, 0) {
			return "first result of a reflected call of a registered constructor / factory / default-config function: the plugin pack proves at registration (O18.1) that these have at least one result"
		}
		if n, ok := capturedLenBound(at, coll); ok && n > k {
			return fmt.Sprintf("captured slice, never reassigned, with len >= %d checked before the closure was created", n)
		}
		if k == 0 && isSplitResult(coll) {
			return "element 0 of a strings.Split/SplitN result with a non-empty separator"
		}
		if n, ok := lowerBoundOnLen(at, coll); ok && n > k {
			return fmt.Sprintf("dominated by len >= %d", n)
		}
		// element k of a (Find[All]StringSubmatch) match of a constant regular expression with >= k groups
		if k >= 0 {
			if n, ok := submatchGroups(coll); ok && int(k) <= n {
				return fmt.Sprintf("submatch %d of a constant regular expression with %d groups", k, n)
			}
			// element 1 of strings.SplitN(s, sep, n>=2) under strings.Contains(s, sep)
			if k == 1 {
				for _, r := range Roots(coll, false) {
					cl, _ := CallOfValue(r)
					if cl == nil || !MatchCC(&cl.Call, Spec{"strings", "", "SplitN"}, Spec{"strings", "", "Split"}) {
						continue
					}
					if len(cl.Call.Args) == 3 {
						if n, isN := ConstInt(cl.Call.Args[2]); !isN || (n >= 0 && n < 2) {
							continue
						}
					}
					for _, bf := range BoolFactsAt(at) {
						cc, _ := CallOfValue(bf.Subj)
						if cc != nil && bf.Val && MatchCC(&cc.Call, Spec{"strings", "", "Contains"}) && sameValue(cc.Call.Args[0], cl.Call.Args[0]) && sameValue(cc.Call.Args[1], cl.Call.Args[1]) {
							return "element 1 of strings.SplitN(s, sep, n) under strings.Contains(s, sep)"
						}
					}
				}
			}
		}

		return ""
	}
	// len(x)-1 under len(x) > 0
	if bo, ok := idx.(*ssa.BinOp); ok && bo.Op == token.SUB {
		if one, isOne := ConstInt(bo.Y); isOne && one >= 1 && lenOf(bo.X, coll) {
			if n, ok := lowerBoundOnLen(at, coll); ok && n >= one {
				return fmt.Sprintf("len-%d under len >= %d", one, n)
			}
			if one == 1 && isSplitResult(coll) {
				return "last element of a strings.Split result"
			}
		}
	}
	// the index computed by a helper of the package (cursor.next()): look at what it returns
	if cl, ridx := CallOfValue(idx); cl != nil && cl.Call.StaticCallee() != nil && len(cl.Call.StaticCallee().Blocks) > 0 && IsPandora(PkgOf(cl.Call.StaticCallee())) {
		if ridx < 0 {
			ridx = 0
		}
		var vals []ssa.Value
		for _, b := range cl.Call.StaticCallee().Blocks {
			if ret, ok := b.Instrs[len(b.Instrs)-1].(*ssa.Return); ok && ridx < len(ret.Results) {
				if k, isK := ConstInt(ret.Results[ridx]); !isK || k != 0 {
					vals = append(vals, ret.Results[ridx]) // (a constant 0 is within any non-empty collection)
				}
			}
		}
		if len(vals) == 1 {
			// (a divisor that is the helper's parameter is what this call passes)
			if bo, ok := vals[0].(*ssa.BinOp); ok && bo.Op == token.REM {
				if pr, isP := bo.Y.(*ssa.Parameter); isP {
					for i, q := range cl.Call.StaticCallee().Params {
						if q == pr && i < len(cl.Call.Args) && lenOf(cl.Call.Args[i], coll) {
							if n, ok := lowerBoundOnLen(at, coll); ok && n >= 1 && isUnsignedOrNonNeg(bo.X) {
								return "index is a non-negative value modulo len (computed by " + cl.Call.StaticCallee().Name() + " from the length it is given), len > 0"
							}
						}
					}
				}
			}
			if bo, ok := vals[0].(*ssa.BinOp); ok && bo.Op == token.REM && lenOf(bo.Y, coll) {
				if n, ok := lowerBoundOnLen(at, coll); ok && n >= 1 && isUnsignedOrNonNeg(bo.X) {
					return "index is a non-negative value modulo len (computed by " + cl.Call.StaticCallee().Name() + "), len > 0"
				}
			}
		}
	}
	// ring cursor: i starts at 0 and is advanced by one, wrapping to 0 when it reaches len(x); len(x) > 0
	if n, ok := lowerBoundOnLen(at, coll); ok && n >= 1 && ringCursor(idx, coll) {
		return "index is a ring cursor (0, then +1, reset to 0 when it reaches len), len > 0"
	}
	// i % len(x) under len(x) != 0
	if bo, ok := idx.(*ssa.BinOp); ok && bo.Op == token.REM && lenOf(bo.Y, coll) {
		if n, ok := lowerBoundOnLen(at, coll); ok && n >= 1 && isUnsignedOrNonNeg(bo.X) {
			return "index is a non-negative value modulo len, len > 0"
		}
	}
	// 0 <= i < len(x) facts
	lo, hi := false, false
	for _, f := range CmpFactsAt(at) {
		f = f.Canon()
		if f.Op == token.LSS && f.X == idx && lenOf(f.Y, coll) {
			hi = true
		}
		if (f.Op == token.LEQ || f.Op == token.LSS) && f.Y == idx {
			if k, isK := ConstInt(f.X); isK && ((f.Op == token.LEQ && k >= 0) || (f.Op == token.LSS && k >= -1)) {
				lo = true
			}
		}
	}
	if isUnsignedOrNonNeg(idx) || paramNonNegAtCallers(p, idx) {
		lo = true
	}
	if lo && hi {
		return "dominated by 0 <= index < len"
	}
	// index = rand.Intn(len(x)) / Int63n(len(x)): in [0, len) whenever the call returns
	if cl, _ := CallOfValue(idx); cl != nil {
		if f := CalleeObj(&cl.Call); f != nil && f.Pkg() != nil && f.Pkg().Path() == "math/rand" && (f.Name() == "Intn" || f.Name() == "Int63n" || f.Name() == "Int31n") {
			if lenOf(cl.Call.Args[len(cl.Call.Args)-1], coll) {
				return "index is rand.Intn(len(x))"
			}
		}
	}
	// for i := range x { y[i] } with y = make(_, len(x))
	if ms := makeSliceOf(coll); ms != nil {
		for _, f := range CmpFactsAt(at) {
			f = f.Canon()
			if f.Op == token.LSS && f.X == idx && (f.Y == ms.Len || (isLenCall(f.Y) && isLenCall(ms.Len) && sameValue(lenArg(f.Y), lenArg(ms.Len)))) && isLoopCounter(idx) {
				return "loop counter bounded by the length the slice was made with"
			}
		}
	}
	return ""
}

func isLenCall(v ssa.Value) bool {
	cl, ok := v.(*ssa.Call)
	if !ok {
		return false
	}
	b, ok := cl.Call.Value.(*ssa.Builtin)
	return ok && b.Name() == "len"
}

func lenArg(v ssa.Value) ssa.Value { return v.(*ssa.Call).Call.Args[0] }

func makeSliceOf(v ssa.Value) *ssa.MakeSlice {
	rs := Roots(v, false)
	if len(rs) != 1 {
		return nil
	}
	ms, _ := rs[0].(*ssa.MakeSlice)
	return ms
}

// isLoopCounter: phi of a constant >= -1 and itself + 1 (possibly the incremented value).
func isLoopCounter(v ssa.Value) bool {
	if bo, ok := v.(*ssa.BinOp); ok && bo.Op == token.ADD {
		if one, isOne := ConstInt(bo.Y); isOne && one == 1 {
			if phi, ok := bo.X.(*ssa.Phi); ok {
				for _, e := range phi.Edges {
					if k, isK := ConstInt(e); isK && k >= -1 {
						return true
					}
				}
			}
		}
	}
	if phi, ok := v.(*ssa.Phi); ok {
		hasInit, hasInc := false, false
		for _, e := range phi.Edges {
			if k, isK := ConstInt(e); isK && k >= 0 {
				hasInit = true
			}
			if bo, ok := e.(*ssa.BinOp); ok && bo.Op == token.ADD && bo.X == ssa.Value(phi) {
				hasInc = true
			}
		}
		return hasInit && hasInc
	}
	return false
}

func isUnsignedOrNonNeg(v ssa.Value) bool {
	if b, ok := v.Type().Underlying().(*types.Basic); ok && b.Info()&types.IsUnsigned != 0 {
		return true
	}
	if cv, ok := v.(*ssa.Convert); ok {
		if b, ok := cv.X.Type().Underlying().(*types.Basic); ok && b.Info()&types.IsUnsigned != 0 {
			return true
		}
	}
	if isLenCall(v) || isLoopCounter(v) {
		return true
	}
	return false
}

// edgeCmpFacts returns the comparison facts that hold when control passes pred -> succ.
func edgeCmpFacts(pred, succ *ssa.BasicBlock) []Fact {
	out := DomFacts(pred)
	if len(pred.Instrs) > 0 && len(pred.Succs) == 2 && pred.Succs[0] != pred.Succs[1] {
		if iff, ok := pred.Instrs[len(pred.Instrs)-1].(*ssa.If); ok {
			out = append(out, CondFact(iff.Cond, pred.Succs[0] == succ))
		}
	}
	return out
}

func factsImply(facts []Fact, pred func(f Fact) bool) bool {
	for _, f := range facts {
		if f.Y == nil {
			continue
		}
		if pred(f) || pred(Fact{Op: flip(f.Op), X: f.Y, Y: f.X}) {
			return true
		}
	}
	return false
}

// isLenValue: v is len(coll) or a value that is only ever that.
func isLenValue(v, coll ssa.Value) bool { return lenOf(v, coll) }

// provenNonNeg: v >= 0 under the given facts; phis are resolved per incoming edge.
func provenNonNeg(v ssa.Value, facts []Fact, depth int) bool {
	if k, isK := ConstInt(v); isK {
		return k >= 0
	}
	if isLenCall(v) {
		return true
	}
	// max(x, k, ...) with some operand known non-negative
	if cl, ok := v.(*ssa.Call); ok {
		if b, isB := cl.Call.Value.(*ssa.Builtin); isB && b.Name() == "max" {
			for _, a := range cl.Call.Args {
				if depth < 4 && provenNonNeg(a, facts, depth+1) {
					return true
				}
			}
		}
	}
	if factsImply(facts, func(f Fact) bool {
		if f.X != v {
			return false
		}
		k, isK := ConstInt(f.Y)
		return isK && ((f.Op == token.GEQ && k >= 0) || (f.Op == token.GTR && k >= -1))
	}) {
		return true
	}
	if phi, ok := v.(*ssa.Phi); ok && depth < 4 {
		for i, e := range phi.Edges {
			if !provenNonNeg(e, edgeCmpFacts(phi.Block().Preds[i], phi.Block()), depth+1) {
				return false
			}
		}
		return true
	}
	return false
}

// provenLeLen: v <= len(coll) under the given facts.
func provenLeLen(v, coll ssa.Value, facts []Fact, depth int) bool {
	if isLenValue(v, coll) {
		return true
	}
	// min(x, len(coll), ...) with some operand known to be at most len(coll)
	if cl, ok := v.(*ssa.Call); ok {
		if b, isB := cl.Call.Value.(*ssa.Builtin); isB && b.Name() == "min" {
			for _, a := range cl.Call.Args {
				if depth < 4 && provenLeLen(a, coll, facts, depth+1) {
					return true
				}
			}
		}
	}
	if factsImply(facts, func(f Fact) bool {
		return f.X == v && isLenValue(f.Y, coll) && (f.Op == token.LEQ || f.Op == token.LSS)
	}) {
		return true
	}
	if phi, ok := v.(*ssa.Phi); ok && depth < 4 {
		for i, e := range phi.Edges {
			if !provenLeLen(e, coll, edgeCmpFacts(phi.Block().Preds[i], phi.Block()), depth+1) {
				return false
			}
		}
		return true
	}
	return false
}

// loopCounterBelowLen: v is the counter of a loop `for ; v < len(coll); v++` (init >= 0, step +1):
// it never exceeds len(coll), inside the loop or after it.
func loopCounterBelowLen(v, coll ssa.Value) bool {
	phi, ok := v.(*ssa.Phi)
	if !ok {
		return false
	}
	hasInit, hasInc := false, false
	for _, e := range phi.Edges {
		if k, isK := ConstInt(e); isK && k >= 0 {
			hasInit = true
			continue
		}
		if bo, ok := e.(*ssa.BinOp); ok && bo.Op == token.ADD && bo.X == ssa.Value(phi) {
			if one, isOne := ConstInt(bo.Y); isOne && one == 1 {
				// the increment happens only where phi < len(coll) held
				if in, ok := ssa.Value(bo).(ssa.Instruction); ok {
					if factsImply(CmpFactsAt(in), func(f Fact) bool { return f.X == ssa.Value(phi) && f.Op == token.LSS && isLenValue(f.Y, coll) }) {
						hasInc = true
						continue
					}
				}
			}
		}
		return false
	}
	return hasInit && hasInc
}

// addTerms flattens a tree of integer additions into its non-constant terms and the sum of its constants.
func addTerms(v ssa.Value) (terms []ssa.Value, k int64) {
	if c, isK := ConstInt(v); isK {
		return nil, c
	}
	if bo, ok := v.(*ssa.BinOp); ok && bo.Op == token.ADD {
		t1, k1 := addTerms(bo.X)
		t2, k2 := addTerms(bo.Y)
		return append(t1, t2...), k1 + k2
	}
	return []ssa.Value{v}, 0
}

// searchFrom: r is the result of strings/bytes Index*(s[p:], ...): -1 or an offset below len(s)-p.
func searchFrom(r, s, p ssa.Value) bool {
	cl, ok := r.(*ssa.Call)
	if !ok || len(cl.Call.Args) == 0 {
		return false
	}
	f := CalleeObj(&cl.Call)
	if f == nil || f.Pkg() == nil || (f.Pkg().Path() != "strings" && f.Pkg().Path() != "bytes") || !(strings.HasPrefix(f.Name(), "Index") || strings.HasPrefix(f.Name(), "LastIndex")) {
		return false
	}
	sl, ok := cl.Call.Args[0].(*ssa.Slice)
	return ok && sameValue(sl.X, s) && sl.Low == p && sl.High == nil && sl.Max == nil
}

// searchCursor: p is a cursor into s that starts at 0 and only ever advances past a match found from it:
// p = phi(0, p + r + 1) with r = Index*(s[p:], ...) >= 0, hence 0 <= p <= len(s) at every use.
func searchCursor(p, s ssa.Value) bool {
	phi, ok := p.(*ssa.Phi)
	if !ok {
		return false
	}
	for i, e := range phi.Edges {
		if k, isK := ConstInt(e); isK && k == 0 {
			continue
		}
		terms, k := addTerms(e)
		if len(terms) != 2 || k < 0 || k > 1 {
			return false
		}
		r := terms[0]
		if r == ssa.Value(phi) {
			r = terms[1]
		} else if terms[1] != ssa.Value(phi) {
			return false
		}
		if !searchFrom(r, s, phi) || !provenNonNeg(r, edgeCmpFacts(phi.Block().Preds[i], phi.Block()), 0) {
			return false
		}
	}
	return true
}

// searchCursorGuard: s[p:], s[:p+r], s[p:p+r] where p is a search cursor of s and r a match offset found from it.
func searchCursorGuard(x *ssa.Slice) string {
	if x.Max != nil || (x.Low == nil && x.High == nil) {
		return ""
	}
	var cursor ssa.Value
	if x.Low != nil {
		if !searchCursor(x.Low, x.X) {
			return ""
		}
		cursor = x.Low
	}
	if x.High != nil {
		terms, k := addTerms(x.High)
		if len(terms) != 2 || k < 0 || k > 1 {
			return ""
		}
		p, r := terms[0], terms[1]
		if !searchCursor(p, x.X) {
			p, r = r, p
		}
		if !searchCursor(p, x.X) || (cursor != nil && p != cursor) || !searchFrom(r, x.X, p) || !provenNonNeg(r, CmpFactsAt(x), 0) {
			return ""
		}
	}
	return "bounds are a search cursor (0, then past each match of Index*(s[cursor:])) and a match offset found from it, both within the sliced value"
}

// ringCursor: idx is a loop-carried value whose every incoming value is the constant 0 or (a cursor value + 1) on an
// edge where that sum is known to differ from / be below len(coll): by induction idx < len(coll) whenever len > 0.
func ringCursor(idx, coll ssa.Value) bool {
	root, ok := idx.(*ssa.Phi)
	if !ok {
		return false
	}
	inCycle := map[*ssa.Phi]bool{}
	var collect func(p *ssa.Phi, d int)
	collect = func(p *ssa.Phi, d int) {
		if inCycle[p] || d > 4 {
			return
		}
		inCycle[p] = true
		for _, e := range p.Edges {
			if q, isPhi := e.(*ssa.Phi); isPhi {
				collect(q, d+1)
			}
		}
	}
	collect(root, 0)
	for p := range inCycle {
		for i, e := range p.Edges {
			if k, isK := ConstInt(e); isK && k == 0 {
				continue
			}
			if q, isPhi := e.(*ssa.Phi); isPhi && inCycle[q] {
				continue
			}
			bo, isB := e.(*ssa.BinOp)
			if !isB || bo.Op != token.ADD {
				return false
			}
			one, isOne := ConstInt(bo.Y)
			base, isBase := bo.X.(*ssa.Phi)
			if !isOne || one != 1 || !isBase || !inCycle[base] {
				return false
			}
			// on this edge the sum is not len(coll) (it was tested and the equal case resets to 0), or is below it
			guarded := factsImply(edgeCmpFacts(p.Block().Preds[i], p.Block()), func(f Fact) bool {
				if f.X == ssa.Value(bo) && isLenValue(f.Y, coll) && (f.Op == token.NEQ || f.Op == token.LSS) {
					return true
				}
				return f.Y == ssa.Value(bo) && isLenValue(f.X, coll) && (f.Op == token.NEQ || f.Op == token.GTR)
			})
			if !guarded {
				return false
			}
		}
	}
	return true
}

// readCountGuard: buf[:n] with n the byte count returned by a read into buf (io.ReadFull / ReadAtLeast, a Read
// method, copy): the io.Reader contract gives 0 <= n <= len(buf).
func readCountGuard(x *ssa.Slice) string {
	if x.High == nil || x.Max != nil {
		return ""
	}
	if x.Low != nil {
		if k, isK := ConstInt(x.Low); !isK || k != 0 {
			return ""
		}
	}
	for _, r := range Roots(x.High, false) {
		var cl *ssa.Call
		switch v := r.(type) {
		case *ssa.Extract:
			if v.Index != 0 {
				return ""
			}
			cl, _ = v.Tuple.(*ssa.Call)
		case *ssa.Call:
			cl = v
		}
		if cl == nil {
			return ""
		}
		var buf ssa.Value
		switch {
		case MatchCC(&cl.Call, Spec{"io", "", "ReadFull"}, Spec{"io", "", "ReadAtLeast"}):
			buf = cl.Call.Args[1]
		case IsBuiltinCall(cl, "copy"):
			buf = cl.Call.Args[0]
		case cl.Call.IsInvoke() && cl.Call.Method.Name() == "Read" && len(cl.Call.Args) == 1:
			buf = cl.Call.Args[0]
		default:
			if f := CalleeObj(&cl.Call); f != nil && f.Name() == "Read" && f.Pkg() != nil && !IsPandora(f.Pkg().Path()) && len(cl.Call.Args) == 2 {
				buf = cl.Call.Args[1]
			}
		}
		if buf == nil || !sameValue(buf, x.X) {
			return ""
		}
	}
	return "the bound is the byte count of a read into the sliced buffer (0 <= n <= len by the io.Reader contract)"
}

func sliceGuard(x *ssa.Slice) string {
	if g := searchCursorGuard(x); g != "" {
		return g
	}
	if g := readCountGuard(x); g != "" {
		return g
	}
	// clamp idiom: 0 <= low <= high <= len established by dominating comparisons and clamping assignments
	{
		facts := CmpFactsAt(x)
		low, high := x.Low, x.High
		okLow := low == nil || provenNonNeg(low, facts, 0)
		okHigh := high == nil || provenLeLen(high, x.X, facts, 0) || loopCounterBelowLen(high, x.X)
		okOrder := low == nil || high == nil || factsImply(facts, func(f Fact) bool {
			return f.X == low && f.Y == high && (f.Op == token.LEQ || f.Op == token.LSS)
		})
		if high == nil && low != nil {
			okOrder = provenLeLen(low, x.X, facts, 0) || loopCounterBelowLen(low, x.X)
		}
		if okLow && okHigh && okOrder && x.Max == nil && (low != nil || high != nil) {
			return "0 <= low <= high <= len established by dominating comparisons / clamping assignments / the loop condition"
		}
	}
	ok := func(b ssa.Value) bool {
		if b == nil {
			return true
		}
		if k, isK := ConstInt(b); isK {
			if k == 0 {
				return true
			}
			if n, have := lowerBoundOnLen(x, x.X); have && n >= k {
				return true
			}
			return false
		}
		base := b
		if bo, isB := b.(*ssa.BinOp); isB && bo.Op == token.ADD {
			if _, isK := ConstInt(bo.Y); isK {
				base = bo.X
			}
		}
		if cl, _ := CallOfValue(base); cl != nil {
			f := CalleeObj(&cl.Call)
			if f != nil && f.Pkg() != nil && (f.Pkg().Path() == "strings" || f.Pkg().Path() == "bytes") && (strings.HasPrefix(f.Name(), "Index") || strings.HasPrefix(f.Name(), "LastIndex")) {
				for _, fc := range CmpFactsAt(x) {
					if fc.X == base || fc.Y == base {
						k, isK := ConstInt(fc.Y)
						op := fc.Op
						if fc.X != base {
							k, isK = ConstInt(fc.X)
							op = flip(op)
						}
						if isK && ((op == token.NEQ && k == -1) || (op == token.GEQ && k >= 0) || (op == token.GTR && k >= -1)) && sameValue(cl.Call.Args[0], x.X) {
							return true
						}
					}
				}
			}
		}
		if bo, isB := b.(*ssa.BinOp); isB && bo.Op == token.SUB && lenOf(bo.X, x.X) {
			if k, isK := ConstInt(bo.Y); isK {
				if n, have := lowerBoundOnLen(x, x.X); have && n >= k {
					return true
				}
			}
		}
		return false
	}
	if ok(x.Low) && ok(x.High) && x.Max == nil {
		lowConst := x.Low == nil
		if x.Low != nil {
			_, lowConst = ConstInt(x.Low)
		}
		highConst := x.High == nil
		if x.High != nil {
			_, highConst = ConstInt(x.High)
		}
		if x.Low == nil || x.High == nil || lowConst || highConst {
			return "bounds are constants / search results checked against the sliced value's length"
		}
	}
	return ""
}

// containerOf returns the struct field or package variable that holds the sync.Map / sync.Pool a call operates on.
func containerOf(recv ssa.Value) (fld *types.Var, glob *ssa.Global) {
	switch r := recv.(type) {
	case *ssa.FieldAddr:
		fv, _ := FieldOf(r)
		return fv, nil
	case *ssa.Global:
		return nil, r
	case *ssa.UnOp:
		if r.Op == token.MUL {
			if g, ok := r.X.(*ssa.Global); ok {
				return nil, g
			}
			if fa, ok := r.X.(*ssa.FieldAddr); ok {
				fv, _ := FieldOf(fa)
				return fv, nil
			}
		}
	}
	return nil, nil
}

func sameContainer(recv ssa.Value, fld *types.Var, glob *ssa.Global) bool {
	f2, g2 := containerOf(recv)
	return (fld != nil && f2 == fld) || (glob != nil && g2 == glob)
}

// typedByWriters: x asserts the result of (*sync.Map).Load / (*sync.Pool).Get on a field or global whose every
// writer in pandora (Store/LoadOrStore/Put calls, the pool's New function) supplies a value of the asserted type.
func typedByWriters(p *Prog, x *ssa.TypeAssert) string {
	var src *ssa.Call
	for _, r := range Roots(x.X, false) {
		if cl, _ := CallOfValue(r); cl != nil && MatchCC(&cl.Call, Spec{"sync", "Map", "Load"}, Spec{"sync", "Map", "LoadOrStore"}, Spec{"sync", "Map", "LoadAndDelete"}, Spec{"sync", "Pool", "Get"}) {
			src = cl
		} else if types.Identical(r.Type(), x.AssertedType) {
			// the freshly created value of the asserted type on the miss path (Roots looks through the boxing)
		} else {
			return ""
		}
	}
	if src == nil {
		return ""
	}
	fld, glob := containerOf(src.Call.Args[0])
	if fld == nil && glob == nil {
		return ""
	}
	isPool := MatchCC(&src.Call, Spec{"sync", "Pool", "Get"})
	okType := func(v ssa.Value) bool {
		mi, ok := v.(*ssa.MakeInterface)
		return ok && types.Identical(mi.X.Type(), x.AssertedType)
	}
	writers := 0
	for _, fn := range p.pandoraFuncs() {
		bad := false
		EachInstr(fn, func(in ssa.Instruction) {
			cc := CC(in)
			if cc == nil || len(cc.Args) == 0 {
				// pool literal: New field store
				if st, ok := in.(*ssa.Store); ok && isPool {
					if fa, ok := st.Addr.(*ssa.FieldAddr); ok {
						if fv, _ := FieldOf(fa); fv != nil && fv.Name() == "New" {
							if pk, n := NamedOf(fa.X.Type()); pk == "sync" && n == "Pool" {
								// is this literal the container? accept when the pool literal is stored to our field/global in this function
								belongs := false
								EachInstr(fn, func(y ssa.Instruction) {
									if s2, ok := y.(*ssa.Store); ok {
										if sameContainer(s2.Addr, fld, glob) || (fld != nil && func() bool { f3, _ := FieldOf(s2.Addr); return f3 == fld }()) {
											// this very literal is what goes into the container (an initialiser may hold several pools):
											// the stored value is the literal's address, or the literal is built in place in the container
											if Strip(s2.Val) == Strip(fa.X) || sharesRoot(s2.Val, fa.X) || sameContainer(fa.X, fld, glob) {
												belongs = true
											}
											if _, isLoad := Strip(s2.Val).(*ssa.UnOp); isLoad && sharesRoot(Strip(s2.Val).(*ssa.UnOp).X, fa.X) {
												belongs = true // stored by value: *literal
											}
										}
									}
								})
								if belongs {
									for _, f := range p.FuncValues(st.Val) {
										for _, b := range f.Blocks {
											if r, ok := b.Instrs[len(b.Instrs)-1].(*ssa.Return); ok && len(r.Results) == 1 {
												writers++
												if !okType(r.Results[0]) {
													bad = true
												}
											}
										}
									}
								}
							}
						}
					}
				}
				return
			}
			if !sameContainer(cc.Args[0], fld, glob) {
				return
			}
			switch {
			case MatchCC(cc, Spec{"sync", "Map", "Store"}, Spec{"sync", "Map", "LoadOrStore"}, Spec{"sync", "Map", "Swap"}):
				writers++
				if !okType(cc.Args[2]) {
					bad = true
				}
			case MatchCC(cc, Spec{"sync", "Pool", "Put"}):
				writers++
				if !okType(cc.Args[1]) {
					bad = true
				}
			}
		})
		if bad {
			return ""
		}
	}
	if writers == 0 {
		return ""
	}
	name := ""
	if fld != nil {
		name = fld.Name()
	} else {
		name = glob.Name()
	}
	return fmt.Sprintf("every writer of %s (%d Store/Put/New sites in pandora) supplies a %s", name, writers, x.AssertedType)
}

func assertGuard(x *ssa.TypeAssert) string {
	// go/ssa's nil check for an interface method value (x.M used as a value): typeassert x.(type of x)
	if !x.CommaOk && types.Identical(x.AssertedType, x.X.Type()) {
		if why := nonNilInterface(x.X, x, 0); why != "" {
			return "nil check of a method value: " + why
		}
	}
	for _, bf := range BoolFactsAt(x) {
		if ex, ok := bf.Subj.(*ssa.Extract); ok && ex.Index == 1 && bf.Val {
			if ta, ok := ex.Tuple.(*ssa.TypeAssert); ok && ta.CommaOk && sameValue(ta.X, x.X) && types.Identical(ta.AssertedType, x.AssertedType) {
				return "dominated by the ok edge of a comma-ok assertion to the same type"
			}
		}
	}
	if b, ok := x.AssertedType.Underlying().(*types.Basic); ok && b.Kind() == types.String {
		for _, f := range CmpFactsAt(x) {
			if f.Op != token.EQL {
				continue
			}
			for _, pr := range [][2]ssa.Value{{f.X, f.Y}, {f.Y, f.X}} {
				cl, _ := CallOfValue(pr[0])
				k, isK := ConstInt(pr[1])
				if cl != nil && isK && k == 24 && cl.Call.IsInvoke() && cl.Call.Method.Name() == "Kind" { // reflect.String == 24
					return "dominated by f.Kind() == reflect.String (mapstructure hands the hook data of kind f)"
				}
			}
		}
	}
	return ""
}

var nonZeroBusy = map[*ssa.Function]bool{}

func nonZeroGuard(at ssa.Instruction, y ssa.Value) string {
	for _, f := range CmpFactsAt(at) {
		for _, g := range []Fact{f, {Op: flip(f.Op), X: f.Y, Y: f.X}} {
			if g.Y == nil || !sameValue(g.X, y) {
				continue
			}
			k, isK := ConstInt(g.Y)
			if !isK {
				continue
			}
			if (g.Op == token.NEQ && k == 0) || (g.Op == token.GTR && k >= 0) || (g.Op == token.GEQ && k >= 1) {
				return "dominated by divisor != 0"
			}
		}
	}
	if isLenCall(y) {
		if n, ok := lowerBoundOnLen(at, lenArg(y)); ok && n >= 1 {
			return "divisor is len(x), len > 0"
		}
	}
	// the weights' common divisor in SpreadNames: math.GCDM of at least two positive weights - that it gets them is
	// decided by the supporting obligation O13.3 gcd-of-at-least-two-weights
	if at.Parent() != nil && at.Parent().Name() == "SpreadNames" {
		if cl, _ := CallOfValue(y); cl != nil && cl.Call.StaticCallee() != nil && cl.Call.StaticCallee().Name() == "GCDM" && len(Roots(y, false)) == 1 {
			return "divisor is math.GCDM(weights...): positive for at least two positive weights (O13.3 gcd-of-at-least-two-weights decides that it gets them)"
		}
	}
	// divisor = a parameter of an unexported helper: non-zero at every call site
	if pr, ok := y.(*ssa.Parameter); ok {
		fn := pr.Parent()
		sites := pkgCallers(fn)
		pi := -1
		for i, q := range fn.Params {
			if q == pr {
				pi = i
			}
		}
		if len(sites) > 0 && pi >= 0 && len(nonZeroBusy) < 3 && !nonZeroBusy[fn] {
			nonZeroBusy[fn] = true
			all := true
			for _, s := range sites {
				a := ArgOfParam(s, fn, pi)
				if a == nil || nonZeroGuard(s, a) == "" {
					all = false
				}
			}
			delete(nonZeroBusy, fn)
			if all {
				return "divisor is a parameter that every call site passes as a value known to be != 0"
			}
		}
	}
	// divisor = len(recv.f) of an object every caller made locally, storing into f (once, at the literal) a collection
	// known to be non-empty there; neither this function nor the caller assigns f afterwards
	if why := lenOfLocalObjectField(y); why != "" {
		return why
	}
	// divisor = a field of the receiver / a pointer parameter, checked != 0 by every caller on the object it passes,
	// and assigned nowhere in this function (cycle.length: `if cycle.length == 0 { return }` before cycle.next())
	if u, ok := y.(*ssa.UnOp); ok && u.Op == token.MUL {
		if fa, ok := u.X.(*ssa.FieldAddr); ok {
			if pr, ok := fa.X.(*ssa.Parameter); ok {
				fn := pr.Parent()
				written := false
				EachInstr(fn, func(in ssa.Instruction) {
					if st, ok := in.(*ssa.Store); ok {
						if fa2, ok := st.Addr.(*ssa.FieldAddr); ok && fa2.Field == fa.Field && fa2.X == fa.X {
							written = true
						}
					}
				})
				sites := pkgCallers(fn)
				pi := -1
				for i, q := range fn.Params {
					if q == pr {
						pi = i
					}
				}
				if !written && len(sites) > 0 && pi >= 0 {
					all := true
					for _, s := range sites {
						cc := CC(s)
						okSite := false
						if cc != nil && pi < len(cc.Args) {
							obj := cc.Args[pi]
							for _, f := range CmpFactsAt(s) {
								for _, g := range []Fact{f, {Op: flip(f.Op), X: f.Y, Y: f.X}} {
									k, isK := ConstInt(g.Y)
									if g.Y == nil || !isK {
										continue
									}
									if !((g.Op == token.NEQ && k == 0) || (g.Op == token.GTR && k >= 0) || (g.Op == token.GEQ && k >= 1)) {
										continue
									}
									if lu, ok := g.X.(*ssa.UnOp); ok && lu.Op == token.MUL {
										if lfa, ok := lu.X.(*ssa.FieldAddr); ok && lfa.Field == fa.Field && lfa.X == obj {
											okSite = true
										}
									}
								}
							}
						}
						if !okSite {
							all = false
						}
					}
					if all {
						return "divisor is a field of the receiver that every caller checked != 0 on the object it passes; the function does not assign it"
					}
				}
			}
		}
	}
	return ""
}

// lenOfLocalObjectField: y is (a conversion of) len(*(&p.f)) with p a pointer parameter of an unexported function
// that never stores to f; every call site passes the address of a struct local to the caller whose only uses are
// field addresses and calls of functions that do not store to f, with exactly one store to f, and the stored collection
// has a length lower bound >= 1 at that store.
func lenOfLocalObjectField(y ssa.Value) string {
	cl, _ := Strip(y).(*ssa.Call)
	if cl == nil || !isLenCall(cl) {
		return ""
	}
	u, ok := cl.Call.Args[0].(*ssa.UnOp)
	if !ok || u.Op != token.MUL {
		return ""
	}
	fa, ok := u.X.(*ssa.FieldAddr)
	if !ok {
		return ""
	}
	pr, ok := fa.X.(*ssa.Parameter)
	if !ok {
		return ""
	}
	fn := pr.Parent()
	storesField := func(g *ssa.Function, field int, st types.Type) bool {
		w := false
		EachInstr(g, func(in ssa.Instruction) {
			if s, ok := in.(*ssa.Store); ok {
				if fa2, ok := s.Addr.(*ssa.FieldAddr); ok && fa2.Field == field && types.Identical(fa2.X.Type(), st) {
					w = true
				}
			}
		})
		return w
	}
	if storesField(fn, fa.Field, fa.X.Type()) {
		return ""
	}
	pi := -1
	for i, q := range fn.Params {
		if q == pr {
			pi = i
		}
	}
	sites := pkgCallers(fn)
	if pi < 0 || len(sites) == 0 {
		return ""
	}
	for _, s := range sites {
		obj, _ := ArgOfParam(s, fn, pi).(*ssa.Alloc)
		if obj == nil || obj.Parent() != s.Parent() {
			return ""
		}
		var init *ssa.Store
		n := 0
		for _, r := range *obj.Referrers() {
			switch x := r.(type) {
			case *ssa.FieldAddr:
				for _, rr := range *x.Referrers() {
					st, isSt := rr.(*ssa.Store)
					if isSt && st.Addr == ssa.Value(x) {
						if x.Field == fa.Field {
							init = st
							n++
						}
						continue
					}
					if _, isLoad := rr.(*ssa.UnOp); isLoad {
						continue
					}
					if x.Field == fa.Field {
						return "" // the field's address goes elsewhere
					}
				}
			case *ssa.Call:
				callee := x.Call.StaticCallee()
				if callee == nil || storesField(callee, fa.Field, fa.X.Type()) || PkgOf(callee) != PkgOf(fn) {
					return ""
				}
			case *ssa.DebugRef:
			default:
				return "" // stored whole, captured, passed on: not local any more
			}
		}
		if n != 1 || init == nil {
			return ""
		}
		// the initialising store comes before the call: it dominates it
		if !init.Block().Dominates(s.Block()) {
			return ""
		}
		if lb, ok := lowerBoundOnLen(init, init.Val); !ok || lb < 1 {
			return ""
		}
	}
	return "divisor is len(recv.f): every caller passes a local object whose f was initialised once from a collection known to be non-empty; nobody assigns f afterwards"
}

func positiveGuard(at ssa.Instruction, y ssa.Value) string {
	for _, f := range CmpFactsAt(at) {
		for _, g := range []Fact{f, {Op: flip(f.Op), X: f.Y, Y: f.X}} {
			if g.Y == nil || !sameValue(g.X, y) {
				continue
			}
			k, isK := ConstInt(g.Y)
			if isK && ((g.Op == token.GTR && k >= 0) || (g.Op == token.GEQ && k >= 1)) {
				return "dominated by argument > 0"
			}
		}
	}
	if isLenCall(y) {
		if n, ok := lowerBoundOnLen(at, lenArg(y)); ok && n >= 1 {
			return "argument is len(x), len > 0"
		}
	}
	return ""
}

// validatedMin: v is (a conversion of) a load of a struct field whose `validate` tag has min=k / gte=k with k >= 0.
func validatedMin(v ssa.Value) (string, bool) {
	fv, base := FieldOf(Strip(v))
	if fv == nil {
		if f, ok := Strip(v).(*ssa.Field); ok {
			if st, ok := f.X.Type().Underlying().(*types.Struct); ok {
				return tagMin(st, f.Field)
			}
		}
		return "", false
	}
	st := derefStruct(base.Type())
	if st == nil {
		return "", false
	}
	for i := 0; i < st.NumFields(); i++ {
		if st.Field(i) == fv {
			return tagMin(st, i)
		}
	}
	return "", false
}

func tagMin(st *types.Struct, i int) (string, bool) {
	tag, ok := reflect.StructTag(st.Tag(i)).Lookup("validate")
	if !ok {
		return "", false
	}
	for _, part := range strings.Split(tag, ",") {
		n, p, _ := strings.Cut(strings.TrimSpace(part), "=")
		if n == "min" || n == "gte" {
			if k, err := strconv.ParseFloat(p, 64); err == nil && k >= 0 {
				return st.Field(i).Name() + " validate:" + part, true
			}
		}
	}
	return "", false
}

// paramNonNegAtCallers: v is a parameter and every static call site passes a value proven >= 0 there.
func paramNonNegAtCallers(p *Prog, v ssa.Value) bool {
	par, ok := Strip(v).(*ssa.Parameter)
	if !ok {
		return false
	}
	fn := par.Parent()
	pi := -1
	for i, q := range fn.Params {
		if q == par {
			pi = i
		}
	}
	sites := p.StaticCallSites(fn)
	if pi < 0 || len(sites) == 0 || p.addressTaken()[fn] {
		return false
	}
	for _, site := range sites {
		if !provenNonNeg(CC(site).Args[pi], CmpFactsAt(site), 0) {
			return false
		}
	}
	return true
}

func sizeGuard(p *Prog, at ssa.Instruction, sz ssa.Value) string {
	if why, ok := validatedMin(sz); ok {
		return "size is the configuration field " + why + " (rejected by Validate before the constructor runs)"
	}
	if !isTainted(sz) && paramNonNegAtCallers(p, sz) {
		return "size is a parameter that every call site passes as a value proven >= 0"
	}
	// min(x, K): bounded above by the constant; non-negative when every argument is a constant >= 0 or known >= 0 here
	if cl, ok := Strip(sz).(*ssa.Call); ok {
		if bi, isB := cl.Call.Value.(*ssa.Builtin); isB && bi.Name() == "min" {
			capped, nonNeg := false, true
			for _, a := range cl.Call.Args {
				if k, isK := ConstInt(a); isK {
					capped = true
					nonNeg = nonNeg && k >= 0
					continue
				}
				if !provenNonNeg(a, CmpFactsAt(at), 0) {
					nonNeg = false
				}
			}
			if capped && nonNeg {
				return "min(x, constant) with x known >= 0: bounded on both sides"
			}
		}
	}
	lo, hi := false, false
	for _, f := range CmpFactsAt(at) {
		for _, g := range []Fact{f, {Op: flip(f.Op), X: f.Y, Y: f.X}} {
			if g.Y == nil || !sameValue(g.X, sz) {
				continue
			}
			switch g.Op {
			case token.GEQ, token.GTR:
				if k, isK := ConstInt(g.Y); isK && k >= -1 {
					lo = true
				}
			case token.LEQ, token.LSS:
				hi = true
			}
		}
	}
	if lo && hi {
		return "dominated by a lower bound >= 0 and an upper bound"
	}
	if lo && !isTainted(sz) {
		return "dominated by a lower bound >= 0 (not derived from parsed text)"
	}
	return ""
}

// submatchGroups: coll is one match (a []string) produced by FindStringSubmatch / an element of
// FindAllStringSubmatch of a regexp compiled from a constant; returns the number of capture groups.
func submatchGroups(coll ssa.Value) (int, bool) {
	var call *ssa.Call
	for _, r := range Roots(coll, true) {
		v := r
		// element of the [][]string result reached through a range / index
		if u, ok := v.(*ssa.UnOp); ok && u.Op == token.MUL {
			if ia, ok := u.X.(*ssa.IndexAddr); ok {
				v = ia.X
			}
		}
		for _, r2 := range Roots(v, false) {
			if cl, _ := CallOfValue(r2); cl != nil && MatchCC(&cl.Call, Spec{"regexp", "Regexp", "FindAllStringSubmatch"}, Spec{"regexp", "Regexp", "FindStringSubmatch"}) {
				call = cl
			}
		}
	}
	if call == nil {
		return 0, false
	}
	for _, r := range Roots(call.Call.Args[0], false) {
		cl, _ := CallOfValue(r)
		// a package-level regexp: the one value its package's init stores into it
		if u, ok := r.(*ssa.UnOp); ok && cl == nil {
			if g, ok := u.X.(*ssa.Global); ok && g.Pkg != nil {
				var stores []ssa.Value
				if init := g.Pkg.Func("init"); init != nil {
					EachInstr(init, func(in ssa.Instruction) {
						if st, ok := in.(*ssa.Store); ok && st.Addr == ssa.Value(g) {
							stores = append(stores, st.Val)
						}
					})
				}
				written := false
				for _, f := range PkgFuncs(g.Pkg) {
					if f.Name() == "init" {
						continue
					}
					EachInstr(f, func(in ssa.Instruction) {
						if st, ok := in.(*ssa.Store); ok && st.Addr == ssa.Value(g) {
							written = true
						}
					})
				}
				if len(stores) == 1 && !written {
					cl, _ = CallOfValue(stores[0])
				}
			}
		}
		if cl == nil || !MatchCC(&cl.Call, Spec{"regexp", "", "MustCompile"}, Spec{"regexp", "", "Compile"}) {
			return 0, false
		}
		pat, ok := ConstString(cl.Call.Args[0])
		if !ok {
			return 0, false
		}
		re, err := regexp.Compile(pat)
		if err != nil {
			return 0, false
		}
		return re.NumSubexp(), true
	}
	return 0, false
}

// nonNilInterface: the interface value cannot be nil at the instruction - it is the result of a pandora function all of
// whose returns wrap a non-nil value, or it was returned together with an error that is known to be nil here.
func nonNilInterface(v ssa.Value, at ssa.Instruction, depth int) string {
	if depth > 2 {
		return ""
	}
	switch x := v.(type) {
	case *ssa.MakeInterface:
		switch y := x.X.(type) {
		case *ssa.Alloc, *ssa.MakeClosure, *ssa.Function, *ssa.MakeMap, *ssa.MakeChan, *ssa.MakeSlice:
			return "a freshly made value"
		case *ssa.Call:
			if t, ok := y.Type().Underlying().(*types.Pointer); ok && t != nil {
				if sc := y.Call.StaticCallee(); sc != nil && len(sc.Blocks) > 0 && allReturnsNonNilPointer(sc) {
					return "the result of " + sc.Name() + ", which returns a fresh object on every path"
				}
			}
		}
		if _, isPtr := x.X.Type().Underlying().(*types.Pointer); !isPtr {
			if _, isIface := x.X.Type().Underlying().(*types.Interface); !isIface {
				return "a non-pointer value in an interface"
			}
		}
		return ""
	case *ssa.Call:
		sc := x.Call.StaticCallee()
		if sc == nil || len(sc.Blocks) == 0 {
			return ""
		}
		n := 0
		for _, b := range sc.Blocks {
			ret, ok := b.Instrs[len(b.Instrs)-1].(*ssa.Return)
			if !ok || len(ret.Results) == 0 {
				continue
			}
			n++
			if nonNilInterface(ret.Results[0], ret, depth+1) == "" {
				return ""
			}
		}
		if n > 0 {
			return sc.Name() + " returns a non-nil value on every path"
		}
	case *ssa.Phi:
		// v, _, err = f() / v, _, err = g(); if err != nil { return }: every alternative comes with an error that feeds
		// the same position of one error phi, and that phi is nil here
		var errPhi *ssa.Phi
		for i, e := range x.Edges {
			ex, ok := e.(*ssa.Extract)
			if !ok {
				return ""
			}
			cl, ok := ex.Tuple.(*ssa.Call)
			if !ok || cl.Referrers() == nil {
				return ""
			}
			found := false
			for _, r := range *cl.Referrers() {
				ee, ok := r.(*ssa.Extract)
				if !ok || !types.Identical(ee.Type(), types.Universe.Lookup("error").Type()) || ee.Referrers() == nil {
					continue
				}
				for _, r2 := range *ee.Referrers() {
					if ph, ok := r2.(*ssa.Phi); ok && ph.Block() == x.Block() && i < len(ph.Edges) && ph.Edges[i] == ssa.Value(ee) && (errPhi == nil || errPhi == ph) {
						errPhi = ph
						found = true
					}
				}
			}
			if !found {
				return ""
			}
		}
		if errPhi != nil {
			for _, f := range CmpFactsAt(at) {
				if f.Op == token.EQL && (f.X == ssa.Value(errPhi) && IsNilConst(f.Y) || f.Y == ssa.Value(errPhi) && IsNilConst(f.X)) {
					return "every alternative was returned together with an error that is nil here"
				}
			}
		}
		return ""
	case *ssa.Extract:
		cl, ok := x.Tuple.(*ssa.Call)
		if !ok || cl.Referrers() == nil {
			return ""
		}
		// the error of the same call is nil here
		for _, r := range *cl.Referrers() {
			ex, ok := r.(*ssa.Extract)
			if !ok || !types.Identical(ex.Type(), types.Universe.Lookup("error").Type()) {
				continue
			}
			for _, f := range CmpFactsAt(at) {
				if f.Op == token.EQL && (f.X == ssa.Value(ex) && IsNilConst(f.Y) || f.Y == ssa.Value(ex) && IsNilConst(f.X)) {
					return "returned together with an error that is nil here"
				}
			}
		}
	}
	return ""
}

func allReturnsNonNilPointer(fn *ssa.Function) bool {
	n := 0
	for _, b := range fn.Blocks {
		ret, ok := b.Instrs[len(b.Instrs)-1].(*ssa.Return)
		if !ok || len(ret.Results) == 0 {
			continue
		}
		n++
		switch ret.Results[0].(type) {
		case *ssa.Alloc:
		default:
			return false
		}
	}
	return n > 0
}

// reflectCallResult: the slice is the result of reflect.Value.Call, directly or as a parameter that every caller in
// the package fills with one.
func reflectCallResult(v ssa.Value, depth int) bool {
	if depth > 2 {
		return false
	}
	rs := Roots(v, false)
	if len(rs) == 0 {
		return false
	}
	for _, r := range rs {
		if cl, _ := CallOfValue(r); cl != nil {
			if f := CalleeObj(&cl.Call); f != nil && f.Name() == "Call" && f.Pkg() != nil && f.Pkg().Path() == "reflect" {
				continue
			}
			return false
		}
		pr, ok := r.(*ssa.Parameter)
		if !ok {
			return false
		}
		sites := pkgCallers(pr.Parent())
		if len(sites) == 0 {
			return false
		}
		for i, q := range pr.Parent().Params {
			if q != pr {
				continue
			}
			for _, s := range sites {
				cc := CC(s)
				if cc == nil || i >= len(cc.Args) || !reflectCallResult(cc.Args[i], depth+1) {
					return false
				}
			}
		}
	}
	return true
}

// sharesRoot: the two values have a common origin.
func sharesRoot(a, b ssa.Value) bool {
	for _, r1 := range Roots(a, false) {
		for _, r2 := range Roots(b, false) {
			if r1 == r2 {
				return true
			}
		}
	}
	return false
}
