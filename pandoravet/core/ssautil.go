package core

import (
	"go/constant"
	"go/token"
	"go/types"
	"sort"
	"strings"

	"golang.org/x/tools/go/ssa"
)

// ---------- calls ----------

// CC returns the call common of a Call/Go/Defer instruction.
func CC(in ssa.Instruction) *ssa.CallCommon {
	if c, ok := in.(ssa.CallInstruction); ok {
		return c.Common()
	}
	return nil
}

// CalleeObj returns the *types.Func a call resolves to through type
// information: the interface method for invoke-mode calls, the declared
// function/method for static calls (origin for generic instantiations).
func CalleeObj(cc *ssa.CallCommon) *types.Func {
	if cc == nil {
		return nil
	}
	if cc.IsInvoke() {
		return cc.Method
	}
	if sc := cc.StaticCallee(); sc != nil {
		if o := sc.Origin(); o != nil {
			sc = o
		}
		if f, ok := sc.Object().(*types.Func); ok {
			return f
		}
		// bound method wrappers / thunks: Synthetic with underlying object
		return nil
	}
	return nil
}

// RecvTypeName returns the (pointer-stripped) named receiver type of a method, or "".
func RecvTypeName(f *types.Func) string {
	if f == nil {
		return ""
	}
	sig, ok := f.Type().(*types.Signature)
	if !ok || sig.Recv() == nil {
		return ""
	}
	t := sig.Recv().Type()
	if p, ok := t.(*types.Pointer); ok {
		t = p.Elem()
	}
	switch n := t.(type) {
	case *types.Named:
		return n.Obj().Name()
	case *types.Alias:
		return n.Obj().Name()
	}
	return ""
}

// Spec names a function or method by package path, receiver type name ("" for
// a function, "*" for any receiver) and name. A pandora package may be given
// module-relative with a leading "./".
type Spec struct{ Pkg, Recv, Name string }

func (s Spec) pkg() string {
	if strings.HasPrefix(s.Pkg, "./") {
		return Mod + "/" + s.Pkg[2:]
	}
	if s.Pkg == "." {
		return Mod
	}
	return s.Pkg
}

func (s Spec) String() string {
	if s.Recv != "" {
		return s.Pkg + "." + s.Recv + "." + s.Name
	}
	return s.Pkg + "." + s.Name
}

// MatchObj reports whether f is the function named by the spec.
func (s Spec) MatchObj(f *types.Func) bool {
	if f == nil || f.Name() != s.Name {
		return false
	}
	if f.Pkg() == nil {
		// universe methods, e.g. error.Error
		return s.Pkg == "" && (s.Recv == "*" || RecvTypeName(f) == s.Recv)
	}
	if f.Pkg().Path() != s.pkg() {
		return false
	}
	r := RecvTypeName(f)
	if s.Recv == "*" {
		return r != "" || isIfaceMethod(f)
	}
	if r == s.Recv {
		return true
	}
	// interface method: receiver is the interface named type
	return false
}

func isIfaceMethod(f *types.Func) bool {
	sig, ok := f.Type().(*types.Signature)
	return ok && sig.Recv() != nil && types.IsInterface(sig.Recv().Type())
}

// IsCall reports whether the instruction is a call (Call, Go or Defer) of one of the specs.
func IsCall(in ssa.Instruction, specs ...Spec) bool {
	cc := CC(in)
	if cc == nil {
		return false
	}
	return MatchCC(cc, specs...)
}

// MatchCC reports whether the call resolves to one of the specs. Method
// values bound through closures ($bound thunks) are followed.
func MatchCC(cc *ssa.CallCommon, specs ...Spec) bool {
	f := CalleeObj(cc)
	if f == nil && !cc.IsInvoke() {
		// bound method value:  t := x.M ; t()
		if mc, ok := cc.Value.(*ssa.MakeClosure); ok {
			if fn, ok := mc.Fn.(*ssa.Function); ok && fn.Synthetic != "" {
				if o, ok := fn.Object().(*types.Func); ok {
					f = o
				}
			}
		}
	}
	if f == nil {
		return false
	}
	for _, s := range specs {
		if s.MatchObj(f) {
			return true
		}
	}
	return false
}

// FieldOf returns the struct field a value is loaded from / points to:
// *FieldAddr, Field, or a load (UnOp *) of a FieldAddr.
func FieldOf(v ssa.Value) (*types.Var, ssa.Value) {
	switch x := v.(type) {
	case *ssa.UnOp:
		if x.Op == token.MUL {
			return FieldOf(x.X)
		}
	case *ssa.FieldAddr:
		st := derefStruct(x.X.Type())
		if st != nil {
			return st.Field(x.Field), x.X
		}
	case *ssa.Field:
		if st, ok := x.X.Type().Underlying().(*types.Struct); ok {
			return st.Field(x.Field), x.X
		}
	}
	return nil, nil
}

func derefStruct(t types.Type) *types.Struct {
	if p, ok := t.Underlying().(*types.Pointer); ok {
		t = p.Elem()
	}
	st, _ := t.Underlying().(*types.Struct)
	return st
}

// NamedOf strips pointers and returns the named type's name and package path.
func NamedOf(t types.Type) (pkg, name string) {
	for {
		if p, ok := t.(*types.Pointer); ok {
			t = p.Elem()
			continue
		}
		break
	}
	switch n := t.(type) {
	case *types.Named:
		if n.Obj().Pkg() != nil {
			pkg = n.Obj().Pkg().Path()
		}
		return pkg, n.Obj().Name()
	case *types.Alias:
		if n.Obj().Pkg() != nil {
			pkg = n.Obj().Pkg().Path()
		}
		return pkg, n.Obj().Name()
	}
	return "", ""
}

// IsFieldCall reports whether the call invokes a func-typed field named field
// of struct type typeName (through a load of the field).
func IsFieldCall(cc *ssa.CallCommon, typeName, field string) bool {
	if cc == nil || cc.IsInvoke() {
		return false
	}
	fv, base := FieldOf(cc.Value)
	if fv == nil || fv.Name() != field {
		return false
	}
	if typeName == "" {
		return true
	}
	// embedded promotion: base may itself be a field address of the outer type
	for base != nil {
		_, n := NamedOf(base.Type())
		if n == typeName {
			return true
		}
		_, base = FieldOf(base)
	}
	return false
}

// FieldRef describes a field access.
type FieldRef struct {
	Type, Field string
}

// IsFieldLoad reports whether v is a load of field (any struct named typeName).
func IsFieldLoad(v ssa.Value, typeName, field string) bool {
	fv, base := FieldOf(v)
	if fv == nil || fv.Name() != field {
		return false
	}
	if typeName == "" {
		return true
	}
	for base != nil {
		_, n := NamedOf(base.Type())
		if n == typeName {
			return true
		}
		_, base = FieldOf(base)
	}
	return false
}

// ---------- function bodies ----------

// WithClosures returns fn and all anonymous functions nested in it.
func WithClosures(fn *ssa.Function) []*ssa.Function {
	out := []*ssa.Function{fn}
	for _, a := range fn.AnonFuncs {
		out = append(out, WithClosures(a)...)
	}
	return out
}

// EachInstr visits every instruction of fn (not its closures).
func EachInstr(fn *ssa.Function, f func(ssa.Instruction)) {
	for _, b := range fn.Blocks {
		for _, in := range b.Instrs {
			f(in)
		}
	}
}

// EachInstrDeep visits every instruction of fn and its closures.
func EachInstrDeep(fn *ssa.Function, f func(*ssa.Function, ssa.Instruction)) {
	for _, g := range WithClosures(fn) {
		for _, b := range g.Blocks {
			for _, in := range b.Instrs {
				f(g, in)
			}
		}
	}
}

// Calls returns the call instructions of fn matching any spec.
func Calls(fn *ssa.Function, specs ...Spec) []ssa.Instruction {
	var out []ssa.Instruction
	EachInstr(fn, func(in ssa.Instruction) {
		if IsCall(in, specs...) {
			out = append(out, in)
		}
	})
	return out
}

// ConstCond returns the value of a constant branch condition.
func ConstCond(v ssa.Value) (val, ok bool) {
	if c, isC := v.(*ssa.Const); isC && c.Value != nil && c.Value.Kind() == constant.Bool {
		return constant.BoolVal(c.Value), true
	}
	return false, false
}

// Succs returns the feasible successors of a block: edges of constant
// conditions that cannot be taken are pruned (go/ssa does not fold them).
func Succs(b *ssa.BasicBlock) []*ssa.BasicBlock {
	if len(b.Instrs) > 0 {
		if iff, ok := b.Instrs[len(b.Instrs)-1].(*ssa.If); ok {
			if v, isC := ConstCond(iff.Cond); isC {
				if v {
					return b.Succs[:1]
				}
				return b.Succs[1:2]
			}
		}
	}
	return b.Succs
}

// Reachable returns the blocks reachable from entry through feasible edges.
func Reachable(fn *ssa.Function) map[*ssa.BasicBlock]bool {
	seen := map[*ssa.BasicBlock]bool{}
	if len(fn.Blocks) == 0 {
		return seen
	}
	var walk func(b *ssa.BasicBlock)
	walk = func(b *ssa.BasicBlock) {
		if seen[b] {
			return
		}
		seen[b] = true
		for _, s := range Succs(b) {
			walk(s)
		}
	}
	walk(fn.Blocks[0])
	// the recover block is entered after a recovered panic
	if fn.Recover != nil {
		walk(fn.Recover)
	}
	return seen
}

// IsSelectPanicBlock recognises the synthetic "blocking select matched no case" block.
func IsSelectPanicBlock(b *ssa.BasicBlock) bool {
	if len(b.Instrs) == 0 {
		return false
	}
	p, ok := b.Instrs[len(b.Instrs)-1].(*ssa.Panic)
	if !ok {
		return false
	}
	v := p.X
	if mi, ok := v.(*ssa.MakeInterface); ok {
		v = mi.X
	}
	if c, ok := v.(*ssa.Const); ok && c.Value != nil && c.Value.Kind() == constant.String {
		return strings.Contains(constant.StringVal(c.Value), "blocking select matched no case")
	}
	return false
}

// ExitKind of a block.
const (
	ExitNone = iota
	ExitReturn
	ExitPanic
)

func ExitOf(b *ssa.BasicBlock) int {
	if len(b.Instrs) == 0 {
		return ExitNone
	}
	switch b.Instrs[len(b.Instrs)-1].(type) {
	case *ssa.Return:
		return ExitReturn
	case *ssa.Panic:
		return ExitPanic
	}
	return ExitNone
}

// ---------- dominance ----------

// EdgeDominates reports whether the CFG edge from->to dominates block b:
// every path from entry to b traverses that edge. Holds when `to` dominates b
// and every other predecessor of `to` is itself dominated by `to` (back edges).
func EdgeDominates(from, to, b *ssa.BasicBlock) bool {
	if !to.Dominates(b) {
		return false
	}
	n := 0
	for _, p := range to.Preds {
		if p == from {
			n++
			continue
		}
		if !to.Dominates(p) {
			return false
		}
	}
	return n >= 1
}

// PostDom computes post-dominators over feasible edges with a virtual exit
// joining Return blocks (and Panic blocks when panicsAreExits).
type PostDom struct {
	fn    *ssa.Function
	pdom  map[*ssa.BasicBlock]map[*ssa.BasicBlock]bool
	exits []*ssa.BasicBlock
}

func NewPostDom(fn *ssa.Function, panicsAreExits bool) *PostDom {
	reach := Reachable(fn)
	var blocks []*ssa.BasicBlock
	for _, b := range fn.Blocks {
		if reach[b] {
			blocks = append(blocks, b)
		}
	}
	pd := &PostDom{fn: fn, pdom: map[*ssa.BasicBlock]map[*ssa.BasicBlock]bool{}}
	isExit := func(b *ssa.BasicBlock) bool {
		k := ExitOf(b)
		return k == ExitReturn || (panicsAreExits && k == ExitPanic && !IsSelectPanicBlock(b))
	}
	all := map[*ssa.BasicBlock]bool{}
	for _, b := range blocks {
		all[b] = true
	}
	for _, b := range blocks {
		if isExit(b) {
			pd.pdom[b] = map[*ssa.BasicBlock]bool{b: true}
			pd.exits = append(pd.exits, b)
		} else {
			m := map[*ssa.BasicBlock]bool{}
			for k := range all {
				m[k] = true
			}
			pd.pdom[b] = m
		}
	}
	changed := true
	for changed {
		changed = false
		for i := len(blocks) - 1; i >= 0; i-- {
			b := blocks[i]
			if isExit(b) {
				continue
			}
			var inter map[*ssa.BasicBlock]bool
			for _, s := range Succs(b) {
				if !reach[s] {
					continue
				}
				if ExitOf(s) == ExitPanic && (!panicsAreExits || IsSelectPanicBlock(s)) {
					continue // paths into ignored panic blocks do not constrain
				}
				if inter == nil {
					inter = map[*ssa.BasicBlock]bool{}
					for k := range pd.pdom[s] {
						inter[k] = true
					}
				} else {
					for k := range inter {
						if !pd.pdom[s][k] {
							delete(inter, k)
						}
					}
				}
			}
			if inter == nil {
				inter = map[*ssa.BasicBlock]bool{}
			}
			inter[b] = true
			if len(inter) != len(pd.pdom[b]) {
				pd.pdom[b] = inter
				changed = true
			}
		}
	}
	return pd
}

// PostDominates reports whether a post-dominates b (every path from b to an exit passes a).
func (pd *PostDom) PostDominates(a, b *ssa.BasicBlock) bool { return pd.pdom[b][a] }

// InstrIndex returns the index of an instruction in its block.
func InstrIndex(in ssa.Instruction) int {
	for i, x := range in.Block().Instrs {
		if x == in {
			return i
		}
	}
	return -1
}

// InstrDominates: a executes before b on every path reaching b.
func InstrDominates(a, b ssa.Instruction) bool {
	if a.Block() == b.Block() {
		return InstrIndex(a) < InstrIndex(b)
	}
	return a.Block().Dominates(b.Block())
}

// CanReach reports whether there is a feasible path from the point just after
// instruction a to instruction b (within one function).
func CanReach(a, b ssa.Instruction) bool {
	if a.Block() == b.Block() && InstrIndex(a) < InstrIndex(b) {
		return true
	}
	seen := map[*ssa.BasicBlock]bool{}
	var stack []*ssa.BasicBlock
	stack = append(stack, Succs(a.Block())...)
	for len(stack) > 0 {
		x := stack[len(stack)-1]
		stack = stack[:len(stack)-1]
		if seen[x] {
			continue
		}
		seen[x] = true
		if x == b.Block() {
			return true
		}
		stack = append(stack, Succs(x)...)
	}
	return false
}

// BlockCanReach reports reachability between blocks over feasible edges (a != b needs ≥1 edge; a==b needs a cycle).
func BlockCanReach(a, b *ssa.BasicBlock) bool {
	seen := map[*ssa.BasicBlock]bool{}
	stack := append([]*ssa.BasicBlock{}, Succs(a)...)
	for len(stack) > 0 {
		x := stack[len(stack)-1]
		stack = stack[:len(stack)-1]
		if seen[x] {
			continue
		}
		seen[x] = true
		if x == b {
			return true
		}
		stack = append(stack, Succs(x)...)
	}
	return false
}

// ---------- conditions ----------

// Fact is a comparison known to hold: X Op Y.
type Fact struct {
	Op   token.Token
	X, Y ssa.Value
}

func negate(op token.Token) token.Token {
	switch op {
	case token.EQL:
		return token.NEQ
	case token.NEQ:
		return token.EQL
	case token.LSS:
		return token.GEQ
	case token.GEQ:
		return token.LSS
	case token.GTR:
		return token.LEQ
	case token.LEQ:
		return token.GTR
	}
	return token.ILLEGAL
}

func flip(op token.Token) token.Token {
	switch op {
	case token.LSS:
		return token.GTR
	case token.GTR:
		return token.LSS
	case token.LEQ:
		return token.GEQ
	case token.GEQ:
		return token.LEQ
	}
	return op
}

// CondFact normalises a boolean SSA value taken with polarity pol into a Fact.
// Non-comparison conditions are returned as (v == true/false) with Y nil.
func CondFact(v ssa.Value, pol bool) Fact {
	for {
		if u, ok := v.(*ssa.UnOp); ok && u.Op == token.NOT {
			v = u.X
			pol = !pol
			continue
		}
		break
	}
	if b, ok := v.(*ssa.BinOp); ok {
		switch b.Op {
		case token.EQL, token.NEQ, token.LSS, token.LEQ, token.GTR, token.GEQ:
			op := b.Op
			if !pol {
				op = negate(op)
			}
			return Fact{Op: op, X: b.X, Y: b.Y}
		}
	}
	if pol {
		return Fact{Op: token.EQL, X: v, Y: nil}
	}
	return Fact{Op: token.NEQ, X: v, Y: nil}
}

// Canon returns the fact with Op in {EQL,NEQ,LSS,LEQ} (GTR/GEQ flipped).
func (f Fact) Canon() Fact {
	if f.Op == token.GTR || f.Op == token.GEQ {
		return Fact{Op: flip(f.Op), X: f.Y, Y: f.X}
	}
	return f
}

// DomFacts returns the branch facts that hold whenever block b executes: for
// every If-terminated block D with an edge that dominates b, the condition
// with that edge's polarity.
func DomFacts(b *ssa.BasicBlock) []Fact {
	var out []Fact
	fn := b.Parent()
	for _, d := range fn.Blocks {
		if len(d.Instrs) == 0 {
			continue
		}
		iff, ok := d.Instrs[len(d.Instrs)-1].(*ssa.If)
		if !ok || len(d.Succs) != 2 {
			continue
		}
		if d.Succs[0] == d.Succs[1] {
			continue
		}
		if EdgeDominates(d, d.Succs[0], b) {
			out = append(out, CondFact(iff.Cond, true))
		} else if EdgeDominates(d, d.Succs[1], b) {
			out = append(out, CondFact(iff.Cond, false))
		}
	}
	return out
}

// ConstInt returns the integer value of a constant SSA value.
func ConstInt(v ssa.Value) (int64, bool) {
	for {
		switch x := v.(type) {
		case *ssa.Convert:
			v = x.X
			continue
		case *ssa.ChangeType:
			v = x.X
			continue
		}
		break
	}
	c, ok := v.(*ssa.Const)
	if !ok || c.Value == nil {
		return 0, false
	}
	if c.Value.Kind() == constant.Int {
		i, ok := constant.Int64Val(c.Value)
		return i, ok
	}
	if c.Value.Kind() == constant.Float {
		f, _ := constant.Float64Val(c.Value)
		if f == float64(int64(f)) {
			return int64(f), true
		}
	}
	return 0, false
}

// ConstString returns the string value of a constant SSA value.
func ConstString(v ssa.Value) (string, bool) {
	if mi, ok := v.(*ssa.MakeInterface); ok {
		v = mi.X
	}
	c, ok := v.(*ssa.Const)
	if !ok || c.Value == nil || c.Value.Kind() != constant.String {
		return "", false
	}
	return constant.StringVal(c.Value), true
}

// IsNilConst reports whether v is the nil constant.
func IsNilConst(v ssa.Value) bool {
	c, ok := v.(*ssa.Const)
	return ok && c.Value == nil
}

// ---------- value origins ----------

// Strip removes value-preserving wrappers (conversions, interface boxing).
func Strip(v ssa.Value) ssa.Value {
	for {
		switch x := v.(type) {
		case *ssa.ChangeType:
			v = x.X
		case *ssa.Convert:
			v = x.X
		case *ssa.MakeInterface:
			v = x.X
		case *ssa.ChangeInterface:
			v = x.X
		default:
			return v
		}
	}
}

// Roots computes the backward slice of v to its origin values: it looks
// through conversions, phis, loads of local cells (union of all stores to the
// Alloc, in the function and its closures), free variables (bound values of
// the enclosing MakeClosure), Extract, and — if deep — arithmetic, slicing and
// field/index reads. The returned set holds the root values (Parameter, Const,
// Call, Global, Alloc without stores, FieldAddr loads, Make*, Lookup, …).
func Roots(v ssa.Value, deep bool) []ssa.Value {
	seen := map[ssa.Value]bool{}
	var out []ssa.Value
	var walk func(v ssa.Value)
	walk = func(v ssa.Value) {
		if v == nil || seen[v] {
			return
		}
		seen[v] = true
		switch x := v.(type) {
		case *ssa.ChangeType:
			walk(x.X)
		case *ssa.Convert:
			walk(x.X)
		case *ssa.MakeInterface:
			walk(x.X)
		case *ssa.ChangeInterface:
			walk(x.X)
		case *ssa.TypeAssert:
			walk(x.X)
		case *ssa.Phi:
			for _, e := range x.Edges {
				walk(e)
			}
		case *ssa.Extract:
			out = append(out, x) // keep (tuple, index); callers inspect x.Tuple
		case *ssa.Field:
			if fv := newTypeField(x); fv != nil {
				if sts := curProg.FieldStores(fv); len(sts) > 0 {
					for _, sv := range sts {
						walk(sv)
					}
					return
				}
			}
			out = append(out, v)
		case *ssa.UnOp:
			if x.Op == token.MUL {
				if fv := newTypeField(x); fv != nil {
					if sts := curProg.FieldStores(fv); len(sts) > 0 {
						for _, sv := range sts {
							walk(sv)
						}
						return
					}
				}
				if a, ok := x.X.(*ssa.Alloc); ok {
					st, uninit := ReachingStores(x, a)
					if len(st) == 0 {
						out = append(out, x)
						return
					}
					_ = uninit
					for _, s := range st {
						walk(s.Val)
					}
					return
				}
				if fa, ok := x.X.(*ssa.FieldAddr); ok {
					// field of a local struct cell: whole-struct stores and stores to the same field
					if a, ok := fa.X.(*ssa.Alloc); ok {
						found := false
						for _, s := range StoresTo(a) {
							walk(s.Val)
							found = true
						}
						if rs := a.Referrers(); rs != nil {
							for _, r := range *rs {
								if fa2, ok := r.(*ssa.FieldAddr); ok && fa2.Field == fa.Field && fa2.Referrers() != nil {
									for _, r2 := range *fa2.Referrers() {
										if st, ok := r2.(*ssa.Store); ok && st.Addr == fa2 {
											walk(st.Val)
											found = true
										}
									}
								}
							}
						}
						if found {
							return
						}
					}
				}
				if fv, ok := x.X.(*ssa.FreeVar); ok {
					// captured variable: resolve to the cell of the enclosing function
					cell, site := CellOf(fv)
					if cell == nil {
						out = append(out, x)
						return
					}
					st := storesVisibleToClosure(cell, site)
					if len(st) == 0 {
						out = append(out, x)
						return
					}
					for _, s := range st {
						walk(s.Val)
					}
					return
				}
				out = append(out, x)
				return
			}
			if deep {
				walk(x.X)
			} else {
				out = append(out, x)
			}
		case *ssa.FreeVar:
			bv := BoundValues(x)
			if len(bv) == 0 {
				out = append(out, x)
			}
			for _, b := range bv {
				walk(b)
			}
		case *ssa.Parameter:
			// one interprocedural level up: the argument at the only call site
			if site := SoleCallSite(x.Parent()); site != nil {
				for i, p := range x.Parent().Params {
					if p == x {
						if a := ArgOfParam(site, x.Parent(), i); a != nil {
							walk(a)
							return
						}
					}
				}
			}
			out = append(out, x)
		case *ssa.BinOp:
			if deep {
				walk(x.X)
				walk(x.Y)
			} else {
				out = append(out, x)
			}
		case *ssa.Slice:
			if deep {
				walk(x.X)
			} else {
				out = append(out, x)
			}
		default:
			out = append(out, v)
		}
	}
	walk(v)
	return out
}

// StoresTo returns all Store instructions whose address is the Alloc, in the
// allocating function and its closures (through free variables).
func StoresTo(a *ssa.Alloc) []*ssa.Store {
	var out []*ssa.Store
	var refs func(v ssa.Value)
	seen := map[ssa.Value]bool{}
	refs = func(v ssa.Value) {
		if seen[v] {
			return
		}
		seen[v] = true
		rs := v.Referrers()
		if rs == nil {
			return
		}
		for _, r := range *rs {
			switch x := r.(type) {
			case *ssa.Store:
				if x.Addr == v {
					out = append(out, x)
				}
			case *ssa.MakeClosure:
				fn := x.Fn.(*ssa.Function)
				for i, b := range x.Bindings {
					if b == v && i < len(fn.FreeVars) {
						refs(fn.FreeVars[i])
					}
				}
			}
		}
	}
	refs(a)
	return out
}

// BoundValues returns the values bound to a free variable at the MakeClosure
// sites of its function in the parent.
func BoundValues(fv *ssa.FreeVar) []ssa.Value {
	fn := fv.Parent()
	par := fn.Parent()
	if par == nil {
		return nil
	}
	idx := -1
	for i, f := range fn.FreeVars {
		if f == fv {
			idx = i
		}
	}
	if idx < 0 {
		return nil
	}
	var out []ssa.Value
	for _, g := range WithClosures(par) {
		EachInstr(g, func(in ssa.Instruction) {
			if mc, ok := in.(*ssa.MakeClosure); ok && mc.Fn == fn && idx < len(mc.Bindings) {
				out = append(out, mc.Bindings[idx])
			}
		})
	}
	return out
}

// CallOfValue returns the call instruction producing v (directly or through
// Extract), with the result index (-1 for the whole value).
func CallOfValue(v ssa.Value) (*ssa.Call, int) {
	v = Strip(v)
	switch x := v.(type) {
	case *ssa.Call:
		return x, -1
	case *ssa.Extract:
		if c, ok := x.Tuple.(*ssa.Call); ok {
			return c, x.Index
		}
	}
	return nil, -1
}

// SortInstrs sorts instructions by position.
func SortInstrs(xs []ssa.Instruction) {
	sort.SliceStable(xs, func(i, j int) bool { return xs[i].Pos() < xs[j].Pos() })
}

// ReachingStores returns the stores to local cell a that may reach the load
// (flow-sensitive, path-insensitive backward search over feasible edges);
// uninit reports that the entry can be reached without passing a store.
// Stores performed inside closures that capture the cell are always included.
func ReachingStores(load ssa.Instruction, a *ssa.Alloc) (stores []*ssa.Store, uninit bool) {
	fn := load.Parent()
	all := StoresTo(a)
	local := map[*ssa.Store]bool{}
	for _, s := range all {
		if s.Parent() == fn {
			local[s] = true
		} else {
			stores = append(stores, s) // closure stores: conservative
		}
	}
	if a.Parent() != fn {
		// the cell belongs to an enclosing function: no flow information here
		return all, true
	}
	seen := map[*ssa.BasicBlock]bool{}
	added := map[*ssa.Store]bool{}
	var scan func(b *ssa.BasicBlock, from int)
	scan = func(b *ssa.BasicBlock, from int) {
		for i := from; i >= 0; i-- {
			if st, ok := b.Instrs[i].(*ssa.Store); ok && local[st] {
				if !added[st] {
					added[st] = true
					stores = append(stores, st)
				}
				return
			}
		}
		if b == fn.Blocks[0] {
			uninit = true
		}
		for _, p := range b.Preds {
			// only feasible edges
			feasible := false
			for _, s := range Succs(p) {
				if s == b {
					feasible = true
				}
			}
			if !feasible || seen[p] {
				continue
			}
			seen[p] = true
			scan(p, len(p.Instrs)-1)
		}
	}
	scan(load.Block(), InstrIndex(load)-1)
	return stores, uninit
}

// SelCase is one case of a select statement.
type SelCase struct {
	Index int              // state index; -1 for default
	State *ssa.SelectState // nil for default
	Body  *ssa.BasicBlock  // first block of the case body
	Recv  ssa.Value        // extracted received value (nil if unused or send)
}

// SelectCases recovers the case bodies of a select from the index dispatch chain.
func SelectCases(sel *ssa.Select) []SelCase {
	var idx ssa.Value
	recv := map[int]ssa.Value{}
	if rs := sel.Referrers(); rs != nil {
		for _, r := range *rs {
			if e, ok := r.(*ssa.Extract); ok {
				if e.Index == 0 {
					idx = e
				} else if e.Index >= 2 {
					recv[e.Index] = e
				}
			}
		}
	}
	var out []SelCase
	if idx == nil {
		return nil
	}
	// map state index -> extract index of its received value
	recvIdx := map[int]int{}
	n := 2
	for i, st := range sel.States {
		if st.Dir == types.RecvOnly {
			recvIdx[i] = n
			n++
		}
	}
	var lastElse *ssa.BasicBlock
	maxK := -1
	if rs := idx.Referrers(); rs != nil {
		for _, r := range *rs {
			b, ok := r.(*ssa.BinOp)
			if !ok || b.Op != token.EQL {
				continue
			}
			k64, isC := ConstInt(b.Y)
			if !isC {
				continue
			}
			k := int(k64)
			if b.Referrers() == nil {
				continue
			}
			for _, r2 := range *b.Referrers() {
				if iff, ok := r2.(*ssa.If); ok {
					blk := iff.Block()
					if k >= 0 && k < len(sel.States) {
						out = append(out, SelCase{Index: k, State: sel.States[k], Body: blk.Succs[0], Recv: recv[recvIdx[k]]})
					}
					if k > maxK {
						maxK = k
						lastElse = blk.Succs[1]
					}
				}
			}
		}
	}
	if !sel.Blocking && lastElse != nil {
		out = append(out, SelCase{Index: -1, Body: lastElse})
	}
	sort.Slice(out, func(i, j int) bool { return out[i].Index < out[j].Index })
	return out
}

// Selects returns the select instructions of fn.
func Selects(fn *ssa.Function) []*ssa.Select {
	var out []*ssa.Select
	EachInstr(fn, func(in ssa.Instruction) {
		if s, ok := in.(*ssa.Select); ok {
			out = append(out, s)
		}
	})
	return out
}

// IsBuiltinCall reports whether the instruction calls the named builtin.
func IsBuiltinCall(in ssa.Instruction, name string) bool {
	cc := CC(in)
	if cc == nil {
		return false
	}
	b, ok := cc.Value.(*ssa.Builtin)
	return ok && b.Name() == name
}

// StoreToField reports whether the instruction stores to the named field
// (of struct type typeName, "" = any) and returns the stored value.
func StoreToField(in ssa.Instruction, typeName, field string) (ssa.Value, bool) {
	st, ok := in.(*ssa.Store)
	if !ok {
		return nil, false
	}
	fa, ok := st.Addr.(*ssa.FieldAddr)
	if !ok {
		return nil, false
	}
	s := derefStruct(fa.X.Type())
	if s == nil || s.Field(fa.Field).Name() != field {
		return nil, false
	}
	if typeName != "" {
		base := ssa.Value(fa.X)
		okT := false
		for base != nil {
			if _, n := NamedOf(base.Type()); n == typeName {
				okT = true
				break
			}
			_, base = FieldOf(base)
		}
		if !okT {
			return nil, false
		}
	}
	return st.Val, true
}

// CellOf resolves a free variable through nested closures to the local cell
// (Alloc) of the function that declares the variable, and returns the
// MakeClosure instruction in that function through which it was captured
// (nil if captured at several sites).
func CellOf(fv *ssa.FreeVar) (*ssa.Alloc, *ssa.MakeClosure) {
	var v ssa.Value = fv
	var site *ssa.MakeClosure
	for depth := 0; depth < 8; depth++ {
		f, ok := v.(*ssa.FreeVar)
		if !ok {
			break
		}
		fn := f.Parent()
		par := fn.Parent()
		if par == nil {
			return nil, nil
		}
		idx := -1
		for i, x := range fn.FreeVars {
			if x == f {
				idx = i
			}
		}
		var bound ssa.Value
		var mcs []*ssa.MakeClosure
		EachInstr(par, func(in ssa.Instruction) {
			if mc, ok := in.(*ssa.MakeClosure); ok && mc.Fn == fn && idx >= 0 && idx < len(mc.Bindings) {
				bound = mc.Bindings[idx]
				mcs = append(mcs, mc)
			}
		})
		if bound == nil {
			return nil, nil
		}
		site = nil
		if len(mcs) == 1 {
			site = mcs[0]
		}
		v = bound
	}
	a, _ := v.(*ssa.Alloc)
	return a, site
}

// storesVisibleToClosure returns the stores to a captured cell that a closure
// created at site may observe: stores reaching the creation site, stores that
// can execute after it, and stores made inside closures.
func storesVisibleToClosure(cell *ssa.Alloc, site *ssa.MakeClosure) []*ssa.Store {
	all := StoresTo(cell)
	if site == nil || site.Parent() != cell.Parent() {
		return all
	}
	reach, _ := ReachingStores(site, cell)
	keep := map[*ssa.Store]bool{}
	for _, s := range reach {
		keep[s] = true
	}
	for _, s := range all {
		if s.Parent() != cell.Parent() {
			keep[s] = true
		} else if CanReach(site, s) {
			keep[s] = true
		}
	}
	var out []*ssa.Store
	for _, s := range all {
		if keep[s] {
			out = append(out, s)
		}
	}
	return out
}

// ReachingFieldStores returns the stores to field `field` (of any base
// object whose struct has that field name and, if typeName != "", that named
// type) that may reach the given instruction inside its function;
// fromBefore reports that the function entry is reachable backwards without
// passing such a store (the value may come from before the call). Aliasing
// through other pointers and stores made by callees are not modelled.
func ReachingFieldStores(at ssa.Instruction, typeName, field string) (stores []*ssa.Store, fromBefore bool) {
	return reachingFieldStores(at, at, typeName, field, 0, true)
}

// fnStoresField: fn or a same-package function it statically calls (two levels) stores to the field.
func fnStoresField(fn *ssa.Function, typeName, field string, depth int) bool {
	found := false
	EachInstr(fn, func(in ssa.Instruction) {
		if _, ok := StoreToField(in, typeName, field); ok {
			found = true
		}
		if cl, ok := in.(*ssa.Call); ok && depth < 2 {
			if sc := cl.Call.StaticCallee(); sc != nil && sc != fn && len(sc.Blocks) > 0 && PkgOf(sc) == PkgOf(fn) && fnStoresField(sc, typeName, field, depth+1) {
				found = true
			}
		}
	})
	return found
}

// reachingFieldStores: query is the instruction the question was asked at (its facts select the feasible returns of the
// helpers passed on the way back); stores made by same-package helpers called on the way are included, and the walk
// continues at the only call site of a helper when it reaches the helper's entry.
func reachingFieldStores(at, query ssa.Instruction, typeName, field string, depth int, up bool) (stores []*ssa.Store, fromBefore bool) {
	fn := at.Parent()
	seen := map[*ssa.BasicBlock]bool{}
	added := map[*ssa.Store]bool{}
	add := func(sts []*ssa.Store) {
		for _, st := range sts {
			if !added[st] {
				added[st] = true
				stores = append(stores, st)
			}
		}
	}
	var scan func(b *ssa.BasicBlock, from int)
	scan = func(b *ssa.BasicBlock, from int) {
		for i := from; i >= 0; i-- {
			if _, ok := StoreToField(b.Instrs[i], typeName, field); ok {
				add([]*ssa.Store{b.Instrs[i].(*ssa.Store)})
				return
			}
			if cl, ok := b.Instrs[i].(*ssa.Call); ok && depth < 3 {
				if sc := cl.Call.StaticCallee(); sc != nil && sc != fn && len(sc.Blocks) > 0 && PkgOf(sc) == PkgOf(fn) && fnStoresField(sc, typeName, field, 0) {
					through := false
					for _, ret := range FeasibleReturns(cl, BoolFactsAt(query)) {
						sts, fb := reachingFieldStores(ret, ret, typeName, field, depth+1, false)
						add(sts)
						if fb {
							through = true
						}
					}
					if !through {
						return
					}
				}
			}
		}
		if b == fn.Blocks[0] {
			if site := SoleCallSite(fn); up && site != nil && depth < 3 && fn.Parent() == nil {
				sts, fb := reachingFieldStores(site, site, typeName, field, depth+1, true)
				add(sts)
				if fb {
					fromBefore = true
				}
			} else {
				fromBefore = true
			}
		}
		for _, p := range b.Preds {
			feasible := false
			for _, s := range Succs(p) {
				if s == b {
					feasible = true
				}
			}
			if !feasible || seen[p] {
				continue
			}
			seen[p] = true
			scan(p, len(p.Instrs)-1)
		}
	}
	scan(at.Block(), InstrIndex(at)-1)
	return
}

// FieldStoresIn returns all stores to the named field in the given functions.
func FieldStoresIn(fns []*ssa.Function, typeName, field string) []*ssa.Store {
	var out []*ssa.Store
	for _, f := range fns {
		EachInstr(f, func(in ssa.Instruction) {
			if _, ok := StoreToField(in, typeName, field); ok {
				out = append(out, in.(*ssa.Store))
			}
		})
	}
	return out
}

// Unload resolves a load of a local or captured variable one step to the
// values stored into it (without looking through phis); other values are
// returned unchanged.
func Unload(v ssa.Value) []ssa.Value {
	u, ok := v.(*ssa.UnOp)
	if !ok || u.Op != token.MUL {
		return []ssa.Value{v}
	}
	var sts []*ssa.Store
	switch x := u.X.(type) {
	case *ssa.Alloc:
		sts, _ = ReachingStores(u, x)
	case *ssa.FreeVar:
		cell, site := CellOf(x)
		if cell == nil {
			return []ssa.Value{v}
		}
		sts = storesVisibleToClosure(cell, site)
	default:
		return []ssa.Value{v}
	}
	if len(sts) == 0 {
		return []ssa.Value{v}
	}
	var out []ssa.Value
	for _, s := range sts {
		out = append(out, s.Val)
	}
	return out
}

// SliceAny reports whether pred holds for any value on the deep backward slice
// of v (every intermediate value is tested, not only the roots).
func SliceAny(v ssa.Value, pred func(ssa.Value) bool) bool {
	seen := map[ssa.Value]bool{}
	var walk func(v ssa.Value) bool
	walk = func(v ssa.Value) bool {
		if v == nil || seen[v] {
			return false
		}
		seen[v] = true
		if pred(v) {
			return true
		}
		switch x := v.(type) {
		case *ssa.ChangeType:
			return walk(x.X)
		case *ssa.Convert:
			return walk(x.X)
		case *ssa.MakeInterface:
			return walk(x.X)
		case *ssa.ChangeInterface:
			return walk(x.X)
		case *ssa.Phi:
			for _, e := range x.Edges {
				if walk(e) {
					return true
				}
			}
		case *ssa.BinOp:
			return walk(x.X) || walk(x.Y)
		case *ssa.Field:
			if fv := newTypeField(x); fv != nil {
				for _, sv := range curProg.FieldStores(fv) {
					if walk(sv) {
						return true
					}
				}
			}
			return false
		case *ssa.UnOp:
			if fv := newTypeField(x); fv != nil && x.Op == token.MUL {
				for _, sv := range curProg.FieldStores(fv) {
					if walk(sv) {
						return true
					}
				}
				return false
			}
			if x.Op == token.MUL {
				for _, u := range Unload(x) {
					if u != v && walk(u) {
						return true
					}
				}
				return false
			}
			return walk(x.X)
		case *ssa.Slice:
			return walk(x.X)
		case *ssa.Extract:
			return walk(x.Tuple)
		case *ssa.TypeAssert:
			return walk(x.X)
		case *ssa.Parameter:
			// a parameter of an unexported helper: what its callers in the package pass
			fn := x.Parent()
			for i, p := range fn.Params {
				if p != x {
					continue
				}
				for _, site := range pkgCallers(fn) {
					if cc := CC(site); cc != nil && i < len(cc.Args) && walk(cc.Args[i]) {
						return true
					}
				}
			}
			return false
		case *ssa.Alloc:
			// a local array / struct (the backing array of a variadic argument): what is stored into it or its elements
			if x.Referrers() != nil {
				for _, r := range *x.Referrers() {
					switch y := r.(type) {
					case *ssa.Store:
						if y.Addr == ssa.Value(x) && walk(y.Val) {
							return true
						}
					case *ssa.IndexAddr, *ssa.FieldAddr:
						if yr := y.(ssa.Value).Referrers(); yr != nil {
							for _, r2 := range *yr {
								if st, ok := r2.(*ssa.Store); ok && st.Addr == y.(ssa.Value) && walk(st.Val) {
									return true
								}
							}
						}
					}
				}
			}
		}
		return false
	}
	return walk(v)
}

// BoundTarget: for the synthetic wrapper of a method value (x.M used as a func), the method M it calls; fn otherwise.
func BoundTarget(fn *ssa.Function) *ssa.Function {
	if fn == nil || fn.Synthetic == "" || !strings.Contains(fn.Synthetic, "bound method wrapper") {
		return fn
	}
	var target *ssa.Function
	EachInstr(fn, func(in ssa.Instruction) {
		if cc := CC(in); cc != nil && cc.StaticCallee() != nil {
			target = cc.StaticCallee()
		}
	})
	if target == nil || len(target.Blocks) == 0 {
		return fn
	}
	return target
}

// FlipOp mirrors a comparison operator (a op b == b FlipOp(op) a).
func FlipOp(op token.Token) token.Token { return flip(op) }
