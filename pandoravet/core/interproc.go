package core

import (
	"go/constant"
	"fmt"
	"go/token"
	"go/types"
	"os"
	"sort"

	"golang.org/x/tools/go/ssa"
)

// Iface returns the interface type named name in the pandora package rel.
func (p *Prog) Iface(rel, name string) *types.Interface {
	pk := p.Pkg(rel)
	if pk == nil {
		return nil
	}
	o := pk.Types.Scope().Lookup(name)
	if o == nil {
		return nil
	}
	it, _ := o.Type().Underlying().(*types.Interface)
	return it
}

// Impls returns the named, non-interface types of production pandora packages
// (and, if all, of every pandora package) that implement iface, by value or pointer.
func (p *Prog) Impls(iface *types.Interface, all bool) []*types.Named {
	var out []*types.Named
	if iface == nil {
		return nil
	}
	for _, pk := range p.Root {
		if !all && !IsProdPkg(pk.PkgPath) {
			continue
		}
		sc := pk.Types.Scope()
		for _, n := range sc.Names() {
			tn, ok := sc.Lookup(n).(*types.TypeName)
			if !ok || tn.IsAlias() {
				continue
			}
			nt, ok := tn.Type().(*types.Named)
			if !ok || types.IsInterface(nt) {
				continue
			}
			if !all && !IsProdFile(p.File(tn.Pos())) {
				continue
			}
			if nt.TypeParams().Len() > 0 {
				// generic: check through its instantiations recorded in the SSA program below
				continue
			}
			if Implements(nt, iface) {
				out = append(out, nt)
			}
		}
	}
	sort.Slice(out, func(i, j int) bool { return out[i].String() < out[j].String() })
	return out
}

// MethodFn returns the SSA function implementing method name on *T or T
// (following promotion through embedding).
func (p *Prog) MethodFn(t types.Type, name string) *ssa.Function {
	for _, rt := range []types.Type{types.NewPointer(t), t} {
		ms := p.SSA.MethodSets.MethodSet(rt)
		for i := 0; i < ms.Len(); i++ {
			if ms.At(i).Obj().Name() == name {
				fn := p.SSA.MethodValue(ms.At(i))
				if fn == nil {
					continue
				}
				// unwrap promotion wrappers to the declared method
				if fn.Synthetic != "" {
					if o, ok := ms.At(i).Obj().(*types.Func); ok {
						if d := p.SSA.FuncValue(o); d != nil {
							return d
						}
					}
				}
				return fn
			}
		}
	}
	return nil
}

// GenericMethodFns returns the origin method `name` of generic named types
// declared in production pandora packages that have such a method.
func (p *Prog) GenericMethodFns(name string) []*ssa.Function {
	var out []*ssa.Function
	for _, pk := range p.Root {
		if !IsProdPkg(pk.PkgPath) {
			continue
		}
		sc := pk.Types.Scope()
		for _, n := range sc.Names() {
			tn, ok := sc.Lookup(n).(*types.TypeName)
			if !ok {
				continue
			}
			nt, ok := tn.Type().(*types.Named)
			if !ok || nt.TypeParams().Len() == 0 {
				continue
			}
			for i := 0; i < nt.NumMethods(); i++ {
				if nt.Method(i).Name() == name {
					if fn := p.SSA.FuncValue(nt.Method(i)); fn != nil {
						out = append(out, fn)
					}
				}
			}
		}
	}
	return out
}

// FuncValues resolves a func-typed value to the functions it may denote:
// function constants, closures, bound methods, parameters (through the
// arguments of all static call sites in pandora) and struct fields (through
// all stores to the field in pandora).
func (p *Prog) FuncValues(v ssa.Value) []*ssa.Function {
	seen := map[ssa.Value]bool{}
	set := map[*ssa.Function]bool{}
	var walk func(v ssa.Value, depth int)
	walk = func(v ssa.Value, depth int) {
		if v == nil || seen[v] || depth > 6 {
			return
		}
		seen[v] = true
		for _, r := range Roots(v, false) {
			switch x := r.(type) {
			case *ssa.Function:
				set[x] = true
			case *ssa.MakeClosure:
				fn := x.Fn.(*ssa.Function)
				if fn.Synthetic != "" {
					if o, ok := fn.Object().(*types.Func); ok {
						if d := p.SSA.FuncValue(o); d != nil {
							set[d] = true
							continue
						}
					}
				}
				set[fn] = true
			case *ssa.Parameter:
				fn := x.Parent()
				idx := -1
				for i, pp := range fn.Params {
					if pp == x {
						idx = i
					}
				}
				for _, site := range p.StaticCallSites(fn) {
					cc := CC(site)
					if idx >= 0 && idx < len(cc.Args) {
						walk(cc.Args[idx], depth+1)
					}
				}
			case *ssa.UnOp:
				if fv, _ := FieldOf(x); fv != nil {
					for _, st := range p.FieldStores(fv) {
						walk(st, depth+1)
					}
				}
			}
		}
	}
	walk(v, 0)
	var out []*ssa.Function
	for f := range set {
		out = append(out, f)
	}
	sort.Slice(out, func(i, j int) bool { return out[i].String() < out[j].String() })
	return out
}

// pandoraFuncs returns all functions (with closures, incl. generic instantiations) of pandora packages.
func (p *Prog) pandoraFuncs() []*ssa.Function {
	if p.pfuncs != nil {
		return p.pfuncs
	}
	for fn := range p.AllFuncs() {
		if IsPandora(PkgOf(fn)) && len(fn.Blocks) > 0 {
			p.pfuncs = append(p.pfuncs, fn)
		}
	}
	sort.Slice(p.pfuncs, func(i, j int) bool { return p.pfuncs[i].String() < p.pfuncs[j].String() })
	return p.pfuncs
}

// PandoraFuncs returns all functions of pandora packages incl. closures and generic instantiations.
func (p *Prog) PandoraFuncs() []*ssa.Function { return p.pandoraFuncs() }

// StaticCallSites returns the call instructions in pandora code that statically call fn (or its origin's instantiations).
func (p *Prog) StaticCallSites(fn *ssa.Function) []ssa.Instruction {
	if p.callSites == nil {
		p.callSites = map[*ssa.Function][]ssa.Instruction{}
		for _, g := range p.pandoraFuncs() {
			EachInstr(g, func(in ssa.Instruction) {
				if cc := CC(in); cc != nil {
					if sc := cc.StaticCallee(); sc != nil {
						p.callSites[sc] = append(p.callSites[sc], in)
						if o := sc.Origin(); o != nil && o != sc {
							p.callSites[o] = append(p.callSites[o], in)
						}
					}
				}
			})
		}
	}
	return p.callSites[fn]
}

// FieldStores returns the values stored into the struct field anywhere in pandora code.
func (p *Prog) FieldStores(fv *types.Var) []ssa.Value {
	if p.fieldStores == nil {
		p.fieldStores = map[*types.Var][]ssa.Value{}
		// (with the generic bodies of the instantiations: sites are reported in them as well)
		fns := append([]*ssa.Function{}, p.pandoraFuncs()...)
		seenFn := map[*ssa.Function]bool{}
		for _, g := range fns {
			seenFn[g] = true
		}
		for _, g := range p.pandoraFuncs() {
			if o := g.Origin(); o != nil && !seenFn[o] {
				seenFn[o] = true
				fns = append(fns, o)
				for _, a := range o.AnonFuncs {
					if !seenFn[a] {
						seenFn[a] = true
						fns = append(fns, a)
					}
				}
			}
		}
		for _, g := range fns {
			EachInstr(g, func(in ssa.Instruction) {
				st, ok := in.(*ssa.Store)
				if !ok {
					return
				}
				if fa, ok := st.Addr.(*ssa.FieldAddr); ok {
					if s := derefStruct(fa.X.Type()); s != nil {
						f := s.Field(fa.Field)
						p.fieldStores[origVar(f)] = append(p.fieldStores[origVar(f)], st.Val)
					}
				}
			})
		}
	}
	return p.fieldStores[origVar(fv)]
}

func origVar(v *types.Var) *types.Var {
	if o := v.Origin(); o != nil {
		return o
	}
	return v
}

// ---------- may-return analysis for sentinel errors ----------

// Sentinels decides which of a set of package-level error variables a
// function may return (through wrappers, callees, interface implementations
// and func values), with kills on paths where errors.Is(err, G) / err == G is
// known false or the error is replaced.
type Sentinels struct {
	P    *Prog
	Set  map[*ssa.Global]bool
	memo map[*ssa.Function]map[*ssa.Global]bool
	busy map[*ssa.Function]bool
	// Kill, if set, removes a sentinel from a function's summary for a reason established by
	// separate obligations (e.g. a config field forced to a value that makes the return infeasible).
	Kill  func(fn *ssa.Function, g *ssa.Global) bool
	Trace []string
	reg   func(v ssa.Value, st cellState, at ssa.Instruction, depth int) gset
}

type gset = map[*ssa.Global]bool

func union(a, b gset) gset {
	out := gset{}
	for k := range a {
		out[k] = true
	}
	for k := range b {
		out[k] = true
	}
	return out
}

func (s *Sentinels) globalOf(v ssa.Value) *ssa.Global {
	if u, ok := v.(*ssa.UnOp); ok && u.Op == token.MUL {
		if g, ok := u.X.(*ssa.Global); ok && s.Set[g] {
			return g
		}
	}
	return nil
}

// callees resolves the functions a call may reach.
func (s *Sentinels) callees(cc *ssa.CallCommon) []*ssa.Function {
	if cc.IsInvoke() {
		var out []*ssa.Function
		recv := cc.Value.Type()
		it, _ := recv.Underlying().(*types.Interface)
		if it == nil {
			return nil
		}
		for _, nt := range s.P.Impls(it, false) {
			if fn := s.P.MethodFn(nt, cc.Method.Name()); fn != nil {
				out = append(out, fn)
			}
		}
		return out
	}
	if sc := cc.StaticCallee(); sc != nil {
		return []*ssa.Function{sc}
	}
	return s.P.FuncValues(cc.Value)
}

// MayReturn returns the sentinels fn may return as its last (error) result.
func (s *Sentinels) MayReturn(fn *ssa.Function) gset {
	if s.memo == nil {
		s.memo = map[*ssa.Function]map[*ssa.Global]bool{}
		s.busy = map[*ssa.Function]bool{}
	}
	if r, ok := s.memo[fn]; ok {
		return r
	}
	if s.busy[fn] || len(fn.Blocks) == 0 {
		return gset{}
	}
	s.busy[fn] = true
	defer delete(s.busy, fn)
	res := s.analyse(fn)
	if s.Kill != nil {
		for g := range res {
			if s.Kill(fn, g) {
				delete(res, g)
			}
		}
	}
	s.memo[fn] = res
	return res
}

type cellState map[*ssa.Alloc]gset

func (c cellState) clone() cellState {
	out := cellState{}
	for k, v := range c {
		out[k] = union(v, nil)
	}
	return out
}

func (s *Sentinels) analyse(fn *ssa.Function) gset {
	// cells of interest: local Allocs of error type
	in := map[*ssa.BasicBlock]cellState{}
	reach := Reachable(fn)
	entry := fn.Blocks[0]
	in[entry] = cellState{}
	work := []*ssa.BasicBlock{entry}
	cellOf := func(v ssa.Value) *ssa.Alloc {
		u, ok := v.(*ssa.UnOp)
		if !ok || u.Op != token.MUL {
			return nil
		}
		a, _ := u.X.(*ssa.Alloc)
		return a
	}
	var regMay func(v ssa.Value, st cellState, at ssa.Instruction, depth int) gset
	regMay = func(v ssa.Value, st cellState, at ssa.Instruction, depth int) gset {
		out := gset{}
		if v == nil || depth > 8 {
			return out
		}
		v = Strip(v)
		if g := s.globalOf(v); g != nil {
			return gset{g: true}
		}
		switch x := v.(type) {
		case *ssa.Const:
			return out
		case *ssa.UnOp:
			if a := cellOf(x); a != nil {
				if st != nil {
					return union(st[a], nil)
				}
				return out
			}
			if fvr, ok := x.X.(*ssa.FreeVar); ok && x.Op == token.MUL {
				// captured error variable: union of all stores
				if cell, _ := CellOf(fvr); cell != nil {
					for _, sto := range StoresTo(cell) {
						out = union(out, regMay(sto.Val, nil, sto, depth+1))
					}
				}
				return out
			}
			return out
		case *ssa.Phi:
			for i, e := range x.Edges {
				m := regMay(e, st, at, depth+1)
				// kills known on the incoming edge
				pred := x.Block().Preds[i]
				for _, bf := range edgeFacts(pred, x.Block()) {
					s.applyRegKill(m, e, bf)
				}
				out = union(out, m)
			}
			return out
		case *ssa.Extract:
			if cl, ok := x.Tuple.(*ssa.Call); ok {
				return s.callMay(cl, st, depth)
			}
		case *ssa.Call:
			return s.callMay(x, st, depth)
		}
		return out
	}
	_ = regMay
	s.reg = regMay
	transfer := func(b *ssa.BasicBlock, st cellState) cellState {
		st = st.clone()
		for _, ins := range b.Instrs {
			if sto, ok := ins.(*ssa.Store); ok {
				if a, ok := sto.Addr.(*ssa.Alloc); ok && types.Identical(a.Type().(*types.Pointer).Elem(), errorType) {
					m := regMay(sto.Val, st, sto, 0)
					for _, bf := range BoolFactsAt(sto) {
						s.applyRegKill(m, sto.Val, bf)
					}
					st[a] = m
				}
			}
		}
		return st
	}
	out := map[*ssa.BasicBlock]cellState{}
	for len(work) > 0 {
		b := work[0]
		work = work[1:]
		o := transfer(b, in[b])
		out[b] = o
		for _, su := range Succs(b) {
			if !reach[su] {
				continue
			}
			e := o.clone()
			// edge refinement on cells
			for _, bf := range edgeFacts(b, su) {
				s.applyCellKill(e, bf, cellOf)
			}
			old, seen := in[su]
			if !seen {
				in[su] = e
				work = append(work, su)
				continue
			}
			changed := false
			for c, m := range e {
				if old[c] == nil {
					old[c] = gset{}
				}
				for g := range m {
					if !old[c][g] {
						old[c][g] = true
						changed = true
					}
				}
			}
			if changed {
				work = append(work, su)
			}
		}
	}
	res := gset{}
	for _, b := range fn.Blocks {
		if !reach[b] || in[b] == nil {
			continue
		}
		r, ok := b.Instrs[len(b.Instrs)-1].(*ssa.Return)
		if !ok || len(r.Results) == 0 {
			continue
		}
		last := r.Results[len(r.Results)-1]
		if !types.Identical(last.Type(), errorType) {
			continue
		}
		// state just before the return
		st := in[b].clone()
		for _, ins := range b.Instrs {
			if sto, ok := ins.(*ssa.Store); ok {
				if a, ok := sto.Addr.(*ssa.Alloc); ok && types.Identical(a.Type().(*types.Pointer).Elem(), errorType) {
					st[a] = regMay(sto.Val, st, sto, 0)
				}
			}
		}
		m := regMay(last, st, r, 0)
		for _, bf := range BoolFactsAt(r) {
			s.applyRegKill(m, last, bf)
		}
		res = union(res, m)
	}
	return res
}

var errorType = types.Universe.Lookup("error").Type()

func (s *Sentinels) callMay(cl *ssa.Call, st cellState, depth int) gset {
	out := gset{}
	if MatchCC(&cl.Call, ErrWrappers...) {
		facts := BoolFactsAt(cl)
		withKills := func(v ssa.Value) gset {
			m := s.reg(v, st, cl, depth+1)
			// what the tests dominating the wrap exclude for the wrapped value
			for _, bf := range facts {
				s.applyRegKill(m, v, bf)
			}
			return m
		}
		for _, a := range cl.Call.Args {
			out = union(out, withKills(a))
			if sl, ok := a.(*ssa.Slice); ok {
				if arr, ok := sl.X.(*ssa.Alloc); ok && arr.Referrers() != nil {
					for _, ref := range *arr.Referrers() {
						if ia, ok := ref.(*ssa.IndexAddr); ok && ia.Referrers() != nil {
							for _, r2 := range *ia.Referrers() {
								if sto, ok := r2.(*ssa.Store); ok && sto.Addr == ia {
									out = union(out, withKills(sto.Val))
								}
							}
						}
					}
				}
			}
		}
		return out
	}
	sig := cl.Call.Signature()
	n := sig.Results().Len()
	if n == 0 || !types.Identical(sig.Results().At(n-1).Type(), errorType) {
		return out
	}
	for _, callee := range s.callees(&cl.Call) {
		if !IsPandora(PkgOf(callee)) {
			continue
		}
		out = union(out, s.MayReturn(callee))
	}
	return out
}

// edgeFacts returns the boolean facts that hold when control flows from b to su.
func edgeFacts(b, su *ssa.BasicBlock) []BoolFact {
	out := boolFactsOfBlock(b, false)
	if len(b.Instrs) == 0 {
		return out
	}
	iff, ok := b.Instrs[len(b.Instrs)-1].(*ssa.If)
	if !ok || len(b.Succs) != 2 || b.Succs[0] == b.Succs[1] {
		return out
	}
	subj, pol := BoolSubject(iff.Cond)
	if su == b.Succs[0] {
		out = append(out, BoolFact{subj, pol})
	} else {
		out = append(out, BoolFact{subj, !pol})
	}
	return out
}

var sErrorsIs = []Spec{{"errors", "", "Is"}, {"github.com/pkg/errors", "", "Is"}, {"golang.org/x/xerrors", "", "Is"}}

// isTest decomposes a fact into (tested value, sentinel, polarity) for errors.Is(x, G) / x == G.
func (s *Sentinels) isTest(bf BoolFact) (x ssa.Value, g *ssa.Global, pos bool, ok bool) {
	if cl, _ := CallOfValue(bf.Subj); cl != nil && MatchCC(&cl.Call, sErrorsIs...) && len(cl.Call.Args) == 2 {
		if g := s.globalOf(Strip(cl.Call.Args[1])); g != nil {
			return cl.Call.Args[0], g, bf.Val, true
		}
	}
	if b, isB := bf.Subj.(*ssa.BinOp); isB && (b.Op == token.EQL || b.Op == token.NEQ) {
		pos := bf.Val == (b.Op == token.EQL)
		if g := s.globalOf(Strip(b.Y)); g != nil {
			return b.X, g, pos, true
		}
		if g := s.globalOf(Strip(b.X)); g != nil {
			return b.Y, g, pos, true
		}
	}
	return nil, nil, false, false
}

// predHelper: bf is a fact about h(x) with h a pandora function of one error parameter and one bool result whose body
// only tests that parameter against sentinels (errors.Is(p, G) / p == G in any arrangement of ||, &&, if and return).
// The helper is evaluated concretely for every truth assignment of its tests: a false answer rules out exactly the
// sentinels whose test being true always makes it answer true; a true answer restricts x to the tested sentinels when the
// helper answers false with every test false.
func (s *Sentinels) predHelper(bf BoolFact) (x ssa.Value, ruledOut []*ssa.Global, restrict []*ssa.Global, ok bool) {
	cl, _ := CallOfValue(bf.Subj)
	if cl == nil || len(cl.Call.Args) != 1 {
		return nil, nil, nil, false
	}
	h := cl.Call.StaticCallee()
	if h == nil || len(h.Blocks) == 0 || len(h.Params) != 1 || h.Signature.Results().Len() != 1 || len(h.Blocks) > 12 {
		return nil, nil, nil, false
	}
	if b, isB := h.Signature.Results().At(0).Type().Underlying().(*types.Basic); !isB || b.Kind() != types.Bool {
		return nil, nil, nil, false
	}
	// the tests
	var tests []ssa.Value
	var globs []*ssa.Global
	testIdx := func(v ssa.Value) int {
		for i, t := range tests {
			if t == v {
				return i
			}
		}
		tx, g, pos, isT := s.isTest(BoolFact{Subj: v, Val: true})
		if !isT || !pos || Strip(tx) != ssa.Value(h.Params[0]) {
			return -1
		}
		tests = append(tests, v)
		globs = append(globs, g)
		return len(tests) - 1
	}
	var eval func(assign int) (bool, bool)
	eval = func(assign int) (bool, bool) {
		var val func(v ssa.Value, from *ssa.BasicBlock, d int) (bool, bool)
		val = func(v ssa.Value, from *ssa.BasicBlock, d int) (bool, bool) {
			if d > 8 {
				return false, false
			}
			if k, isK := v.(*ssa.Const); isK && k.Value != nil && k.Value.Kind() == constant.Bool {
				return constant.BoolVal(k.Value), true
			}
			if u, isU := v.(*ssa.UnOp); isU && u.Op == token.NOT {
				r, okR := val(u.X, from, d+1)
				return !r, okR
			}
			if ph, isPh := v.(*ssa.Phi); isPh && from != nil {
				for i, pr := range ph.Block().Preds {
					if pr == from {
						return val(ph.Edges[i], nil, d+1)
					}
				}
				return false, false
			}
			if i := testIdx(v); i >= 0 && i < 6 {
				return assign&(1<<i) != 0, true
			}
			return false, false
		}
		b := h.Blocks[0]
		var prev *ssa.BasicBlock
		for steps := 0; steps < 40; steps++ {
			switch last := b.Instrs[len(b.Instrs)-1].(type) {
			case *ssa.Return:
				return val(last.Results[0], prev, 0)
			case *ssa.Jump:
				prev, b = b, b.Succs[0]
			case *ssa.If:
				c, okC := val(last.Cond, prev, 0)
				if !okC {
					return false, false
				}
				if c {
					prev, b = b, b.Succs[0]
				} else {
					prev, b = b, b.Succs[1]
				}
			default:
				return false, false
			}
		}
		return false, false
	}
	// (phis are evaluated with the predecessor the walk came from: recorded one step late for a return block's phi)
	if _, okE := eval(0); !okE || len(tests) == 0 {
		return nil, nil, nil, false
	}
	n := len(tests)
	res := make([]bool, 1<<n)
	for a := 0; a < 1<<n; a++ {
		r, okR := eval(a)
		if !okR || len(tests) != n {
			return nil, nil, nil, false
		}
		res[a] = r
	}
	for i := 0; i < n; i++ {
		always := true
		for a := 0; a < 1<<n; a++ {
			if a&(1<<i) != 0 && !res[a] {
				always = false
			}
		}
		if always {
			ruledOut = append(ruledOut, globs[i])
		}
	}
	if !res[0] {
		restrict = globs
	}
	return cl.Call.Args[0], ruledOut, restrict, true
}

func (s *Sentinels) applyRegKill(m gset, v ssa.Value, bf BoolFact) {
	if hx, out, only, isH := s.predHelper(bf); isH {
		if Strip(hx) != Strip(v) {
			return
		}
		if !bf.Val {
			for _, g := range out {
				delete(m, g)
			}
		} else if only != nil {
			for k := range m {
				keep := false
				for _, g := range only {
					if g == k {
						keep = true
					}
				}
				if !keep {
					delete(m, k)
				}
			}
		}
		return
	}
	x, g, pos, ok := s.isTest(bf)
	if !ok {
		// err == nil known true: nothing can be returned
		if b, isB := bf.Subj.(*ssa.BinOp); isB && (b.Op == token.EQL || b.Op == token.NEQ) {
			isNilTrue := bf.Val == (b.Op == token.EQL)
			if isNilTrue && ((IsNilConst(b.Y) && Strip(b.X) == Strip(v)) || (IsNilConst(b.X) && Strip(b.Y) == Strip(v))) {
				for k := range m {
					delete(m, k)
				}
			}
		}
		return
	}
	if Strip(x) != Strip(v) {
		return
	}
	if !pos {
		delete(m, g)
	} else {
		for k := range m {
			if k != g {
				delete(m, k)
			}
		}
	}
}

func (s *Sentinels) applyCellKill(st cellState, bf BoolFact, cellOf func(ssa.Value) *ssa.Alloc) {
	if hx, out, only, isH := s.predHelper(bf); isH {
		a := cellOf(Strip(hx))
		if a == nil || st[a] == nil {
			return
		}
		if !bf.Val {
			for _, g := range out {
				delete(st[a], g)
			}
		} else if only != nil {
			for k := range st[a] {
				keep := false
				for _, g := range only {
					if g == k {
						keep = true
					}
				}
				if !keep {
					delete(st[a], k)
				}
			}
		}
		return
	}
	x, g, pos, ok := s.isTest(bf)
	if !ok {
		return
	}
	a := cellOf(Strip(x))
	if a == nil || st[a] == nil {
		return
	}
	if !pos {
		delete(st[a], g)
	} else {
		for k := range st[a] {
			if k != g {
				delete(st[a], k)
			}
		}
	}
}

// CalleesOf exposes the call resolution (static, interface implementations in
// production packages, func values).
func CalleesOf(s *Sentinels, cc *ssa.CallCommon) []*ssa.Function { return s.callees(cc) }

// WithinOnly reports whether fn executes only inside the dynamic extent of a function satisfying pred: fn satisfies
// it, or fn is a closure that is only called / deferred / run where it is made and its parent does, or fn is a plain
// function that is never used as a value and every one of its static call sites does (depth-limited). It is how rules say
// "only X may do this" without naming the helper functions a refactoring may put in between.
func (p *Prog) WithinOnly(fn *ssa.Function, pred func(*ssa.Function) bool, depth int) bool {
	if fn == nil || depth < 0 {
		return false
	}
	if pred(fn) {
		return true
	}
	if par := fn.Parent(); par != nil {
		// a closure: it must not escape its parent other than by being called, deferred or started there
		escapes := false
		for _, g := range WithClosures(par) {
			EachInstr(g, func(in ssa.Instruction) {
				mc, ok := in.(*ssa.MakeClosure)
				if !ok || mc.Fn != ssa.Value(fn) || mc.Referrers() == nil {
					return
				}
				for _, r := range *mc.Referrers() {
					switch x := r.(type) {
					case *ssa.DebugRef:
					case ssa.CallInstruction:
						if x.Common().Value != ssa.Value(mc) {
							escapes = true // passed as an argument
						}
					default:
						escapes = true
					}
				}
			})
		}
		if escapes {
			return false
		}
		return p.WithinOnly(par, pred, depth-1)
	}
	if fn.Synthetic != "" && BoundTarget(fn) != fn {
		// the wrapper of a method value: like a closure, it must only be called where it is made
		n, escapes := 0, false
		var makers []*ssa.Function
		for _, g := range p.pandoraFuncs() {
			EachInstr(g, func(in ssa.Instruction) {
				mc, ok := in.(*ssa.MakeClosure)
				if !ok || mc.Fn != ssa.Value(fn) {
					return
				}
				if g.Pos().IsValid() && !IsProdFile(p.File(g.Pos())) {
					return
				}
				n++
				makers = append(makers, g)
				if mc.Referrers() == nil {
					escapes = true
					return
				}
				for _, r := range *mc.Referrers() {
					switch x := r.(type) {
					case *ssa.DebugRef:
					case ssa.CallInstruction:
						if x.Common().Value != ssa.Value(mc) {
							escapes = true
						}
					default:
						escapes = true
					}
				}
			})
		}
		if escapes || n == 0 {
			return false
		}
		for _, g := range makers {
			if !p.WithinOnly(g, pred, depth-1) {
				return false
			}
		}
		return true
	}
	if p.addrTakenFn(fn) {
		if os.Getenv("PV_DEBUG") != "" {
			fmt.Fprintln(os.Stderr, "WithinOnly: address taken:", fn)
		}
		return false
	}
	n := 0
	for _, s := range p.StaticCallSites(fn) {
		if par := s.Parent(); par.Pos().IsValid() && !IsProdFile(p.File(par.Pos())) {
			continue // tests may call a helper directly
		}
		if par := s.Parent(); par.Synthetic != "" && len(p.StaticCallSites(par)) == 0 && !p.addrTakenFn(par) {
			continue // a promoted-method wrapper nobody uses
		}
		n++
		if !p.WithinOnly(s.Parent(), pred, depth-1) {
			if os.Getenv("PV_DEBUG") != "" {
				fmt.Fprintln(os.Stderr, "WithinOnly: site not within:", fn, "called from", s.Parent())
			}
			return false
		}
	}
	if os.Getenv("PV_DEBUG") != "" && n == 0 {
		fmt.Fprintln(os.Stderr, "WithinOnly: no call sites:", fn)
	}
	return n > 0
}

// addrTakenFn: the function is used as a value somewhere in pandora (stored, passed, bound).
func (p *Prog) addrTakenFn(fn *ssa.Function) bool {
	taken := false
	for _, g := range p.pandoraFuncs() {
		if g.Pos().IsValid() && !IsProdFile(p.File(g.Pos())) {
			continue
		}
		EachInstr(g, func(in ssa.Instruction) {
			for _, op := range in.Operands(nil) {
				if op == nil || *op != ssa.Value(fn) {
					continue
				}
				if ci, ok := in.(ssa.CallInstruction); ok && ci.Common().Value == ssa.Value(fn) {
					continue
				}
				taken = true
			}
		})
	}
	return taken
}

// DerivesAnyIP is DerivesAny that follows a parameter to the arguments of all static call sites of its function
// (some root at some site satisfies pred; three levels) - a value keeps its meaning when the code using it moves into a helper.
func (p *Prog) DerivesAnyIP(v ssa.Value, pred ValPred) bool {
	seen := map[ssa.Value]bool{}
	var walk func(v ssa.Value, d int) bool
	walk = func(v ssa.Value, d int) bool {
		if v == nil || seen[v] || d > 3 {
			return false
		}
		seen[v] = true
		for _, r := range Roots(v, false) {
			if pred(r) {
				return true
			}
			pr, ok := r.(*ssa.Parameter)
			if !ok {
				continue
			}
			idx := -1
			for i, q := range pr.Parent().Params {
				if q == pr {
					idx = i
				}
			}
			for _, s := range p.StaticCallSites(pr.Parent()) {
				if cc := CC(s); cc != nil && idx >= 0 && idx < len(cc.Args) && walk(cc.Args[idx], d+1) {
					return true
				}
			}
		}
		return false
	}
	return walk(v, 0)
}

// EdgeFacts returns the boolean facts that hold when control flows from b to su.
func EdgeFacts(b, su *ssa.BasicBlock) []BoolFact { return edgeFacts(b, su) }

// MethodValueMakers: the functions that make a method value of fn (x.M used as a func value).
func (p *Prog) MethodValueMakers(fn *ssa.Function) []*ssa.Function {
	var out []*ssa.Function
	seen := map[*ssa.Function]bool{}
	for _, g := range p.pandoraFuncs() {
		EachInstr(g, func(in ssa.Instruction) {
			if mc, ok := in.(*ssa.MakeClosure); ok {
				if w, _ := mc.Fn.(*ssa.Function); w != nil && w != fn && BoundTarget(w) == fn && !seen[g] {
					seen[g] = true
					out = append(out, g)
				}
			}
		})
	}
	return out
}
