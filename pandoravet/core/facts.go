package core

import (
	"go/constant"
	"go/token"
	"go/types"

	"golang.org/x/tools/go/ssa"
)

// ValPred is a predicate on SSA values (used to recognise a condition's subject).
type ValPred func(v ssa.Value) bool

// DerivesOnly reports whether every root of v satisfies pred (and there is at least one).
func DerivesOnly(v ssa.Value, deep bool, pred ValPred) bool {
	rs := Roots(v, deep)
	if len(rs) == 0 {
		return false
	}
	for _, r := range rs {
		if !pred(r) {
			return false
		}
	}
	return true
}

// DerivesAny reports whether some root of v satisfies pred.
func DerivesAny(v ssa.Value, deep bool, pred ValPred) bool {
	for _, r := range Roots(v, deep) {
		if pred(r) {
			return true
		}
	}
	return false
}

// IsResultOf returns a predicate: the value is result #idx (or the only
// result when idx < 0) of the given call instruction.
func IsResultOf(call ssa.Value, idx int) ValPred {
	return func(v ssa.Value) bool {
		if v == call && idx < 0 {
			return true
		}
		if e, ok := v.(*ssa.Extract); ok && e.Tuple == call && (idx < 0 || e.Index == idx) {
			return true
		}
		return false
	}
}

// BoolSubject strips negations from a branch condition and returns the
// subject together with the polarity under which the condition is true.
func BoolSubject(v ssa.Value) (ssa.Value, bool) {
	pol := true
	for {
		if u, ok := v.(*ssa.UnOp); ok && u.Op == token.NOT {
			v = u.X
			pol = !pol
			continue
		}
		return v, pol
	}
}

// RestrictBool returns an edge filter that, at every If whose (negation-stripped)
// condition subject satisfies pred, only lets the edge through on which the
// subject has value want.
func RestrictBool(pred ValPred, want bool) func(from, to *ssa.BasicBlock) bool {
	return func(from, to *ssa.BasicBlock) bool {
		if len(from.Instrs) == 0 {
			return true
		}
		iff, ok := from.Instrs[len(from.Instrs)-1].(*ssa.If)
		if !ok || len(from.Succs) != 2 || from.Succs[0] == from.Succs[1] {
			return true
		}
		subj, pol := BoolSubject(iff.Cond)
		if !pred(subj) {
			return true
		}
		// cond true <=> subj == pol
		condWanted := want == pol
		if condWanted {
			return to == from.Succs[0]
		}
		return to == from.Succs[1]
	}
}

// AndEdges combines edge filters.
func AndEdges(fs ...func(from, to *ssa.BasicBlock) bool) func(from, to *ssa.BasicBlock) bool {
	return func(from, to *ssa.BasicBlock) bool {
		for _, f := range fs {
			if f != nil && !f(from, to) {
				return false
			}
		}
		return true
	}
}

// BoolFact is a boolean subject known to have a value.
type BoolFact struct {
	Subj ssa.Value
	Val  bool
}

// BoolFactsAt returns, for the block of the instruction, the boolean subjects
// whose value is fixed by dominating branch edges; comparisons are returned
// through DomFacts. If the function is a closure that is called at exactly one
// site of its parent (immediately invoked or through a local), the facts at
// that site are appended (interprocedural context, one level per closure).
func BoolFactsAt(in ssa.Instruction) []BoolFact {
	return boolFactsOfBlock(in.Block(), true)
}

func boolFactsOfBlock(b *ssa.BasicBlock, ctx bool) []BoolFact {
	var out []BoolFact
	fn := b.Parent()
	seen := map[ssa.Value]bool{}
	var add func(subj ssa.Value, val bool)
	add = func(subj ssa.Value, val bool) {
		subj, pol := BoolSubject(subj)
		val = val == pol
		out = append(out, BoolFact{subj, val})
		// p() known true/false, p a predicate function of the same package: what its returning that value implies
		if cl, ok := subj.(*ssa.Call); ok && !seen[cl] {
			seen[cl] = true
			out = append(out, predicateImplies(cl, -1, val, 0)...)
		}
		// value, found := lookup(...): the boolean result of a multi-result helper
		if ex, ok := subj.(*ssa.Extract); ok && !seen[ex] {
			if cl, ok := ex.Tuple.(*ssa.Call); ok {
				seen[ex] = true
				out = append(out, predicateImplies(cl, ex.Index, val, 0)...)
			}
		}
		// a && b  ==  phi [false, ..., b]  known true  =>  b true, and the facts of b's block
		// a || b  ==  phi [true, ..., b]   known false =>  b false, and the facts of b's block
		if phi, ok := subj.(*ssa.Phi); ok && !seen[phi] {
			seen[phi] = true
			var rest []int
			for i, e := range phi.Edges {
				if cv, isC := ConstCond(e); isC && cv == !val {
					continue
				}
				rest = append(rest, i)
			}
			if len(rest) == 1 {
				i := rest[0]
				add(phi.Edges[i], val)
				pred := phi.Block().Preds[i]
				for _, f := range boolFactsOfBlock(pred, false) {
					out = append(out, f)
				}
			}
		}
	}
	for _, d := range fn.Blocks {
		if len(d.Instrs) == 0 {
			continue
		}
		iff, ok := d.Instrs[len(d.Instrs)-1].(*ssa.If)
		if !ok || len(d.Succs) != 2 || d.Succs[0] == d.Succs[1] {
			continue
		}
		if EdgeDominates(d, d.Succs[0], b) {
			add(iff.Cond, true)
		} else if EdgeDominates(d, d.Succs[1], b) {
			add(iff.Cond, false)
		}
	}
	if ctx {
		if site := SoleCallSite(fn); site != nil {
			out = append(out, boolFactsOfBlock(site.Block(), true)...)
		} else if sites := factSites(fn); len(sites) > 0 && !factsBusy[fn] && len(factsBusy) < 3 {
			// an unexported helper called only at known sites of its package: what holds at every one of them
			factsBusy[fn] = true
			var common []BoolFact
			for i, s := range sites {
				fs := boolFactsOfBlock(s.Block(), true)
				if i == 0 {
					common = fs
					continue
				}
				var keep []BoolFact
				for _, f := range common {
					for _, g := range fs {
						if f.Subj == g.Subj && f.Val == g.Val {
							keep = append(keep, f)
							break
						}
					}
				}
				common = keep
			}
			delete(factsBusy, fn)
			out = append(out, common...)
		}
	}
	return out
}

var factsBusy = map[*ssa.Function]bool{}

// factSites: every place an unexported function or method is called from - plain calls and calls of its method values.
func factSites(fn *ssa.Function) []ssa.Instruction {
	if fn == nil || fn.Parent() != nil || fn.Object() == nil || fn.Object().Exported() {
		return nil
	}
	bs, used := boundCallSites(fn)
	if !used {
		return pkgCallers(fn)
	}
	if bs == nil {
		return nil
	}
	// plain calls next to the method values: pkgCallers refuses a function whose value is taken, so count them here
	var sites []ssa.Instruction
	bad := false
	for _, g := range PkgFuncs(fn.Pkg) {
		if BoundTarget(g) == fn && g != fn {
			continue
		}
		EachInstr(g, func(in ssa.Instruction) {
			if cc := CC(in); cc != nil && cc.StaticCallee() == fn {
				if _, isCall := in.(*ssa.Call); isCall {
					sites = append(sites, in)
				} else {
					bad = true
				}
			}
		})
	}
	if bad {
		return nil
	}
	return append(sites, bs...)
}

// ArgOfParam: the value parameter #i of fn has at the call site: the i-th argument of a plain call; for the call of a
// method value (made by x.M), the bound receiver for #0 and argument #i-1 otherwise. nil if the site is neither.
func ArgOfParam(site ssa.Instruction, fn *ssa.Function, i int) ssa.Value {
	cc := CC(site)
	if cc == nil {
		return nil
	}
	if mc, ok := cc.Value.(*ssa.MakeClosure); ok {
		if w, _ := mc.Fn.(*ssa.Function); w != nil && w != fn && BoundTarget(w) == fn && len(mc.Bindings) == 1 {
			if i == 0 {
				return mc.Bindings[0]
			}
			if i-1 < len(cc.Args) {
				return cc.Args[i-1]
			}
		}
		return nil
	}
	if i < len(cc.Args) {
		return cc.Args[i]
	}
	return nil
}

// FeasibleReturns: the returns of the same-package callee of cl that agree with what facts say about the results of
// cl (a return whose result #j is the constant true is left out when Extract #j of cl is known false, and so on).
func FeasibleReturns(cl *ssa.Call, facts []BoolFact) []*ssa.Return {
	callee := cl.Call.StaticCallee()
	if callee == nil || len(callee.Blocks) == 0 {
		return nil
	}
	known := map[int]bool{}
	for _, bf := range facts {
		if ex, ok := bf.Subj.(*ssa.Extract); ok && ex.Tuple == ssa.Value(cl) {
			known[ex.Index] = bf.Val
		}
		if bf.Subj == ssa.Value(cl) {
			known[0] = bf.Val
		}
	}
	var out []*ssa.Return
	for _, b := range callee.Blocks {
		ret, ok := b.Instrs[len(b.Instrs)-1].(*ssa.Return)
		if !ok {
			continue
		}
		feasible := true
		for j, want := range known {
			if j < len(ret.Results) {
				if cv, isC := ConstCond(Strip(ret.Results[j])); isC && cv != want {
					feasible = false
				}
			}
		}
		if feasible {
			out = append(out, ret)
		}
	}
	return out
}

// DelegatedReturns: the returns of fn, where a return that hands on all the results of one call of a same-package
// helper called nowhere else (return s.helper(x)) is replaced by the returns of that helper (three levels).
func DelegatedReturns(fn *ssa.Function) []*ssa.Return {
	var out []*ssa.Return
	var walk func(fn *ssa.Function, d int)
	walk = func(fn *ssa.Function, d int) {
		for _, b := range fn.Blocks {
			if len(b.Instrs) == 0 {
				continue
			}
			r, ok := b.Instrs[len(b.Instrs)-1].(*ssa.Return)
			if !ok {
				continue
			}
			var cl *ssa.Call
			same := len(r.Results) > 0
			for i, v := range r.Results {
				c2, idx := CallOfValue(Strip(v))
				if c2 == nil || (cl != nil && c2 != cl) || !(idx == i || (idx < 0 && len(r.Results) == 1)) {
					same = false
					break
				}
				cl = c2
			}
			if same && cl != nil && d < 3 {
				if sc := cl.Call.StaticCallee(); sc != nil && len(sc.Blocks) > 0 && PkgOf(sc) == PkgOf(fn) && SoleCallSite(sc) == ssa.Instruction(cl) {
					walk(sc, d+1)
					continue
				}
			}
			out = append(out, r)
		}
	}
	walk(fn, 0)
	return out
}

// Resolve follows a value to where it is computed across the helpers of its package: a parameter of a helper with one
// call site is the argument passed there, the result of a same-package helper is what its only return yields (a
// helper with several different returned values stops the walk). Four steps at most.
func Resolve(v ssa.Value) ssa.Value {
	for d := 0; d < 4 && v != nil; d++ {
		v = Strip(v)
		if pr, isP := v.(*ssa.Parameter); isP {
			site := SoleCallSite(pr.Parent())
			if site == nil {
				return v
			}
			next := ssa.Value(nil)
			for i, q := range pr.Parent().Params {
				if a := ArgOfParam(site, pr.Parent(), i); q == pr && a != nil {
					next = a
				}
			}
			if next == nil {
				return v
			}
			v = next
			continue
		}
		if cl, _ := CallOfValue(v); cl != nil && cl.Parent() != nil && cl.Call.StaticCallee() != nil && len(cl.Call.StaticCallee().Blocks) > 0 && PkgOf(cl.Call.StaticCallee()) == PkgOf(cl.Parent()) {
			if ts := throughReturns1(v); len(ts) == 1 && ts[0] != v {
				v = ts[0]
				continue
			}
		}
		return v
	}
	return v
}

var boundSitesMemo = map[*ssa.Function][]ssa.Instruction{}
var boundUsedMemo = map[*ssa.Function]bool{}

// boundCallSites: for a method whose value is taken (x.M as a func), the calls of those method values when every one
// of them is only ever called (not stored or passed on); used reports whether any method value of fn exists at all.
func boundCallSites(fn *ssa.Function) (sites []ssa.Instruction, used bool) {
	if r, ok := boundSitesMemo[fn]; ok {
		return r, boundUsedMemo[fn]
	}
	boundSitesMemo[fn] = nil
	if fn == nil || fn.Pkg == nil || fn.Signature.Recv() == nil {
		return nil, false
	}
	bad := false
	for _, g := range PkgFuncs(fn.Pkg) {
		EachInstr(g, func(in ssa.Instruction) {
			mc, ok := in.(*ssa.MakeClosure)
			if !ok {
				return
			}
			w, _ := mc.Fn.(*ssa.Function)
			if w == nil || w == fn || BoundTarget(w) != fn {
				return
			}
			used = true
			if mc.Referrers() == nil {
				bad = true
				return
			}
			for _, r := range *mc.Referrers() {
				if c, ok := r.(*ssa.Call); ok && c.Call.Value == ssa.Value(mc) {
					sites = append(sites, c)
				} else if _, ok := r.(*ssa.DebugRef); ok {
				} else {
					bad = true
				}
			}
		})
	}
	boundUsedMemo[fn] = used
	if bad {
		sites = nil
	}
	boundSitesMemo[fn] = sites
	return sites, used
}

// PredicateCmpFacts: the comparisons implied by the boolean helper call cl having returned val, with the helper's
// parameters replaced by the arguments of the call (one level of binding).
func PredicateCmpFacts(cl *ssa.Call, val bool) []Fact {
	callee := cl.Call.StaticCallee()
	if callee == nil {
		return nil
	}
	bind := func(v ssa.Value) ssa.Value {
		v = Strip(v)
		for i, p := range callee.Params {
			if v == ssa.Value(p) && i < len(cl.Call.Args) {
				return cl.Call.Args[i]
			}
		}
		return v
	}
	var out []Fact
	for _, bf := range predicateImplies(cl, -1, val, 0) {
		if b, ok := bf.Subj.(*ssa.BinOp); ok {
			switch b.Op {
			case token.EQL, token.NEQ, token.LSS, token.LEQ, token.GTR, token.GEQ:
				op := b.Op
				if !bf.Val {
					op = negate(op)
				}
				out = append(out, Fact{Op: op, X: bind(b.X), Y: bind(b.Y)})
			}
		}
	}
	return out
}

// CmpFactsAt returns the comparison facts (X op Y) known at the instruction.
func CmpFactsAt(in ssa.Instruction) []Fact { return CmpFactsOf(BoolFactsAt(in)) }

// CmpFactsOf: the comparisons among the boolean facts.
func CmpFactsOf(bfs []BoolFact) []Fact {
	var out []Fact
	for _, bf := range bfs {
		if b, ok := bf.Subj.(*ssa.BinOp); ok {
			switch b.Op {
			case token.EQL, token.NEQ, token.LSS, token.LEQ, token.GTR, token.GEQ:
				op := b.Op
				if !bf.Val {
					op = negate(op)
				}
				out = append(out, Fact{Op: op, X: b.X, Y: b.Y})
				// (a - c) op k  =>  a op (k + c), (a + c) op k  =>  a op (k - c): signed integers, small constants
				// (`last := len(x) - 1; if last < 0 { return }` says len(x) >= 1 on the other edge)
				if d, ok := shiftedFact(op, b.X, b.Y); ok {
					out = append(out, d)
				} else if d, ok := shiftedFact(flipCmpTok(op), b.Y, b.X); ok {
					out = append(out, d)
				}
			}
		}
	}
	return out
}

func flipCmpTok(op token.Token) token.Token {
	switch op {
	case token.LSS:
		return token.GTR
	case token.LEQ:
		return token.GEQ
	case token.GTR:
		return token.LSS
	case token.GEQ:
		return token.LEQ
	}
	return op
}

// shiftedFact: x is `a - c` or `a + c` (signed integer, |c| <= 1<<20), y a constant k: the fact about a itself.
func shiftedFact(op token.Token, x, y ssa.Value) (Fact, bool) {
	k, isK := ConstInt(y)
	bo, isB := x.(*ssa.BinOp)
	if !isK || !isB || (bo.Op != token.SUB && bo.Op != token.ADD) {
		return Fact{}, false
	}
	bt, isBasic := bo.Type().Underlying().(*types.Basic)
	if !isBasic || bt.Info()&types.IsInteger == 0 || bt.Info()&types.IsUnsigned != 0 {
		return Fact{}, false
	}
	c, isC := ConstInt(bo.Y)
	if !isC || c > 1<<20 || c < -(1<<20) || k > 1<<40 || k < -(1<<40) {
		return Fact{}, false
	}
	if bo.Op == token.SUB {
		k += c
	} else {
		k -= c
	}
	return Fact{Op: op, X: bo.X, Y: ssa.NewConst(constant.MakeInt64(k), bo.Type())}, true
}

// SoleCallSite returns the single instruction of the parent (or an enclosing
// closure) that calls the closure fn, if fn is only ever called (not stored,
// passed or started with go/defer elsewhere).
func SoleCallSite(fn *ssa.Function) ssa.Instruction {
	par := fn.Parent()
	if par == nil {
		if s := soleStaticCaller(fn); s != nil {
			return s
		}
		// a method used only through one method value that is only called: step := (&T{...}).do; step()
		if bs, used := boundCallSites(fn); used && len(bs) == 1 && fn.Object() != nil && !fn.Object().Exported() {
			if all := factSites(fn); len(all) == 1 {
				return bs[0]
			}
		}
		return nil
	}
	var sites []ssa.Instruction
	bad := false
	for _, g := range WithClosures(par) {
		EachInstr(g, func(in ssa.Instruction) {
			mc, ok := in.(*ssa.MakeClosure)
			if !ok || mc.Fn != fn {
				return
			}
			if mc.Referrers() == nil {
				bad = true
				return
			}
			for _, r := range *mc.Referrers() {
				if c, ok := r.(*ssa.Call); ok && c.Call.Value == mc {
					sites = append(sites, c)
				} else if _, ok := r.(*ssa.DebugRef); ok {
				} else {
					bad = true
				}
			}
		})
	}
	if bad || len(sites) != 1 {
		return nil
	}
	return sites[0]
}

// HasBoolFact reports whether some fact fixes a subject satisfying pred to val.
func HasBoolFact(facts []BoolFact, pred ValPred, val bool) bool {
	for _, f := range facts {
		if f.Val == val && pred(f.Subj) {
			return true
		}
	}
	return false
}

// IsCallValue returns a predicate: v is the result of a call matching specs
// (directly or as Extract #idx; idx<0 any).
func IsCallValue(idx int, specs ...Spec) ValPred {
	return func(v ssa.Value) bool {
		c, i := CallOfValue(v)
		if c == nil {
			return false
		}
		if idx >= 0 && i != idx && !(i == -1 && idx == 0) {
			return false
		}
		return MatchCC(&c.Call, specs...)
	}
}

// IsFieldLoadPred returns a predicate: v is a load of the named field.
func IsFieldLoadPred(typeName, field string) ValPred {
	return func(v ssa.Value) bool { return IsFieldLoad(v, typeName, field) }
}

// IsGlobal returns a predicate: v is (a load of) the package-level variable.
func IsGlobalLoad(g *ssa.Global) ValPred {
	return func(v ssa.Value) bool {
		if u, ok := v.(*ssa.UnOp); ok && u.Op == token.MUL {
			return u.X == g
		}
		return v == g
	}
}

// ---------- escape / use discipline ----------

// Use describes a terminal use of a tracked value.
type Use struct {
	Instr ssa.Instruction
	Kind  string // "arg:<callee>", "store", "send", "capture", "return", "mapupdate", "other", "cmp", "typeassert"
	Fn    *ssa.Function
}

// UsesOf returns the terminal uses of v: it follows conversions, boxing, phis,
// type assertions results are reported; arguments to static callees inside
// descend() are followed into the callee's parameter.
func UsesOf(v ssa.Value, descend func(*ssa.Function) bool) []Use {
	var out []Use
	seen := map[ssa.Value]bool{}
	var walk func(v ssa.Value)
	walk = func(v ssa.Value) {
		if seen[v] {
			return
		}
		seen[v] = true
		rs := v.Referrers()
		if rs == nil {
			return
		}
		for _, r := range *rs {
			switch x := r.(type) {
			case *ssa.DebugRef:
			case *ssa.ChangeType:
				walk(x)
			case *ssa.Convert:
				walk(x)
			case *ssa.MakeInterface:
				walk(x)
			case *ssa.ChangeInterface:
				walk(x)
			case *ssa.Phi:
				walk(x)
			case *ssa.TypeAssert:
				out = append(out, Use{x, "typeassert", x.Parent()})
				walk(x)
			case *ssa.Extract:
				walk(x)
			case *ssa.Store:
				if x.Val == v {
					// store into a local cell: follow loads of the cell
					if a, ok := x.Addr.(*ssa.Alloc); ok && !a.Heap {
						walk(a)
						continue
					}
					if a, ok := x.Addr.(*ssa.Alloc); ok && a.Heap {
						// captured/escaping local: follow loads in function and closures
						for _, ld := range LoadsOf(a) {
							walk(ld)
						}
						continue
					}
					// varargs slot of a call:  t = &arr[i]; *t = v; slice arr; call(..., slice...)
					if ia, ok := x.Addr.(*ssa.IndexAddr); ok {
						if arr, ok := ia.X.(*ssa.Alloc); ok && arr.Comment == "varargs" {
							walk(arr)
							continue
						}
					}
					out = append(out, Use{x, "store", x.Parent()})
				}
			case *ssa.UnOp:
				if x.Op == token.MUL {
					walk(x)
				} else {
					out = append(out, Use{x, "other", x.Parent()})
				}
			case *ssa.Slice:
				walk(x)
			case *ssa.IndexAddr:
				// address inside varargs array
				_ = x
			case *ssa.Send:
				if x.X == v {
					out = append(out, Use{x, "send", x.Parent()})
				}
			case *ssa.MapUpdate:
				out = append(out, Use{x, "mapupdate", x.Parent()})
			case *ssa.MakeClosure:
				out = append(out, Use{x, "capture", x.Parent()})
			case *ssa.Return:
				out = append(out, Use{x, "return", x.Parent()})
			case *ssa.BinOp:
				out = append(out, Use{x, "cmp", x.Parent()})
			case ssa.CallInstruction:
				cc := x.Common()
				if cc.Value == v && !cc.IsInvoke() {
					out = append(out, Use{x, "called", x.Parent()})
					continue
				}
				name := "dynamic"
				if f := CalleeObj(cc); f != nil {
					name = f.FullName()
				}
				if cc.IsInvoke() && cc.Value == v {
					out = append(out, Use{x, "recv:" + name, x.Parent()})
					continue
				}
				followed := false
				if sc := cc.StaticCallee(); sc != nil && descend != nil && descend(sc) && len(sc.Blocks) > 0 {
					for i, a := range cc.Args {
						if a == v && i < len(sc.Params) {
							walk(sc.Params[i])
							followed = true
						}
					}
				}
				if !followed {
					out = append(out, Use{x, "arg:" + name, x.Parent()})
				}
			default:
				out = append(out, Use{r, "other", r.Parent()})
			}
		}
	}
	walk(v)
	return out
}

// LoadsOf returns the loads of a local cell in its function and closures.
func LoadsOf(a *ssa.Alloc) []ssa.Value {
	var out []ssa.Value
	seen := map[ssa.Value]bool{}
	var refs func(v ssa.Value)
	refs = func(v ssa.Value) {
		if seen[v] {
			return
		}
		seen[v] = true
		rs := v.Referrers()
		if rs == nil {
			return
		}
		for _, r := range *rs {
			switch x := r.(type) {
			case *ssa.UnOp:
				if x.Op == token.MUL && x.X == v {
					out = append(out, x)
				}
			case *ssa.MakeClosure:
				fn := x.Fn.(*ssa.Function)
				for i, b := range x.Bindings {
					if b == v && i < len(fn.FreeVars) {
						refs(fn.FreeVars[i])
					}
				}
			}
		}
	}
	refs(a)
	return out
}

// FindFuncs explores root, its closures and the statically called functions
// of the same package (depth-limited) and returns those satisfying pred.
func FindFuncs(root *ssa.Function, depth int, pred func(*ssa.Function) bool) []*ssa.Function {
	var out []*ssa.Function
	seen := map[*ssa.Function]bool{}
	var walk func(fn *ssa.Function, d int)
	walk = func(fn *ssa.Function, d int) {
		if fn == nil || seen[fn] || len(fn.Blocks) == 0 {
			return
		}
		seen[fn] = true
		if pred(fn) {
			out = append(out, fn)
		}
		for _, a := range fn.AnonFuncs {
			walk(a, d)
		}
		if d <= 0 {
			return
		}
		EachInstr(fn, func(in ssa.Instruction) {
			if cc := CC(in); cc != nil {
				if sc := cc.StaticCallee(); sc != nil && PkgOf(sc) == PkgOf(root) {
					walk(sc, d-1)
				}
			}
		})
	}
	walk(root, depth)
	return out
}

// HasCall reports whether fn (not its closures) contains a call matching specs.
func HasCall(fn *ssa.Function, specs ...Spec) bool { return len(Calls(fn, specs...)) > 0 }

// Implements reports whether named type T or *T implements the interface.
func Implements(t types.Type, iface *types.Interface) bool {
	return types.Implements(t, iface) || types.Implements(types.NewPointer(t), iface)
}

// PkgFuncs enumerates all functions of an SSA package: package-level
// functions, methods of its named types, and their closures.
func PkgFuncs(pkg *ssa.Package) []*ssa.Function {
	var out []*ssa.Function
	seen := map[*ssa.Function]bool{}
	add := func(f *ssa.Function) {
		if f == nil || seen[f] {
			return
		}
		for _, g := range WithClosures(f) {
			if !seen[g] {
				seen[g] = true
				out = append(out, g)
			}
		}
	}
	for _, m := range pkg.Members {
		switch x := m.(type) {
		case *ssa.Function:
			add(x)
		case *ssa.Type:
			for _, t := range []types.Type{x.Type(), types.NewPointer(x.Type())} {
				ms := pkg.Prog.MethodSets.MethodSet(t)
				for i := 0; i < ms.Len(); i++ {
					f := pkg.Prog.MethodValue(ms.At(i))
					if f != nil && f.Pkg == pkg && f.Synthetic == "" {
						add(f)
					}
				}
			}
		}
	}
	return out
}

var soleCallerMemo = map[*ssa.Function]ssa.Instruction{}

// soleStaticCaller returns the only call site of an unexported, non-closure
// function inside its package, provided its value is never taken otherwise.
func soleStaticCaller(fn *ssa.Function) ssa.Instruction {
	if in, ok := soleCallerMemo[fn]; ok {
		return in
	}
	soleCallerMemo[fn] = nil
	if fn.Pkg == nil || fn.Object() == nil || fn.Object().Exported() {
		return nil
	}
	// methods that may be called through an interface are excluded: unexported
	// method names cannot satisfy interfaces of other packages, and same-package
	// interfaces are covered by the address-taken scan below only for values;
	// stay conservative: require no interface in the package to have the method.
	if methodOfPkgInterface(fn) {
		return nil
	}
	var sites []ssa.Instruction
	bad := false
	if _, used := boundCallSites(fn); used {
		return nil // its method value is taken: called in ways the plain call sites do not show
	}
	for _, g := range PkgFuncs(fn.Pkg) {
		EachInstr(g, func(in ssa.Instruction) {
			if cc := CC(in); cc != nil && cc.StaticCallee() == fn {
				if _, isCall := in.(*ssa.Call); isCall {
					sites = append(sites, in)
				} else {
					bad = true
				}
				return
			}
			for _, op := range in.Operands(nil) {
				if op != nil && *op == ssa.Value(fn) {
					bad = true // value taken
				}
			}
		})
	}
	if bad || len(sites) != 1 {
		return nil
	}
	soleCallerMemo[fn] = sites[0]
	return sites[0]
}

// AssumeNonNil returns an edge filter that, at every If comparing a value
// satisfying pred with nil, only lets the non-nil edge through.
func AssumeNonNil(pred ValPred) func(from, to *ssa.BasicBlock) bool {
	return func(from, to *ssa.BasicBlock) bool {
		if len(from.Instrs) == 0 {
			return true
		}
		iff, ok := from.Instrs[len(from.Instrs)-1].(*ssa.If)
		if !ok || len(from.Succs) != 2 || from.Succs[0] == from.Succs[1] {
			return true
		}
		subj, pol := BoolSubject(iff.Cond)
		b, ok := subj.(*ssa.BinOp)
		if !ok || (b.Op != token.EQL && b.Op != token.NEQ) {
			return true
		}
		var other ssa.Value
		switch {
		case IsNilConst(b.Y):
			other = b.X
		case IsNilConst(b.X):
			other = b.Y
		default:
			return true
		}
		if !pred(other) {
			return true
		}
		// subject true means (other == nil) for EQL, (other != nil) for NEQ
		nonNilWhenSubj := b.Op == token.NEQ
		condForNonNil := nonNilWhenSubj == pol
		if condForNonNil {
			return to == from.Succs[0]
		}
		return to == from.Succs[1]
	}
}

// ErrWrappers are the functions whose result carries (wraps) an error argument.
var ErrWrappers = []Spec{
	{"fmt", "", "Errorf"},
	{"github.com/pkg/errors", "", "WithMessage"}, {"github.com/pkg/errors", "", "WithMessagef"},
	{"github.com/pkg/errors", "", "Wrap"}, {"github.com/pkg/errors", "", "Wrapf"},
	{"github.com/pkg/errors", "", "WithStack"},
	{"github.com/hashicorp/go-multierror", "", "Append"},
	{"./lib/errutil", "", "Join"},
	{"errors", "", "Join"},
	{"golang.org/x/xerrors", "", "Errorf"},
}

// ErrDerives reports whether error value v carries a value satisfying src:
// directly, or through the wrapping functions (any argument, incl. varargs elements).
func ErrDerives(v ssa.Value, src ValPred) bool {
	seen := map[ssa.Value]bool{}
	// bind: parameters of the helpers being looked into -> the arguments of the call that is being expanded
	bind := map[ssa.Value]ssa.Value{}
	var rec func(v ssa.Value) bool
	rec = func(v ssa.Value) bool {
		if seen[v] {
			return false
		}
		seen[v] = true
		if a, ok := bind[v]; ok {
			return rec(a)
		}
		for _, r := range Roots(v, false) {
			if src(r) {
				return true
			}
			if a, ok := bind[r]; ok {
				if rec(a) {
					return true
				}
				continue
			}
			call, _ := CallOfValue(r)
			if call == nil {
				continue
			}
			// a helper of the package that annotates the error it is given (subroutineFailed(err, "provider")): what it returns
			if sc := call.Call.StaticCallee(); sc != nil && len(sc.Blocks) > 0 && !MatchCC(&call.Call, ErrWrappers...) && call.Parent() != nil && PkgOf(sc) == PkgOf(call.Parent()) {
				for i, p := range sc.Params {
					if i < len(call.Call.Args) {
						bind[p] = call.Call.Args[i]
					}
				}
				for _, b := range sc.Blocks {
					if ret, ok := b.Instrs[len(b.Instrs)-1].(*ssa.Return); ok {
						for _, res := range ret.Results {
							if types.Identical(res.Type(), types.Universe.Lookup("error").Type()) && rec(res) {
								return true
							}
						}
					}
				}
				continue
			}
			if !MatchCC(&call.Call, ErrWrappers...) {
				continue
			}
			for _, a := range call.Call.Args {
				if rec(a) {
					return true
				}
				// varargs: slice of a local array filled by stores
				if sl, ok := a.(*ssa.Slice); ok {
					if arr, ok := sl.X.(*ssa.Alloc); ok && arr.Referrers() != nil {
						for _, ref := range *arr.Referrers() {
							if ia, ok := ref.(*ssa.IndexAddr); ok && ia.Referrers() != nil {
								for _, r2 := range *ia.Referrers() {
									if st, ok := r2.(*ssa.Store); ok && st.Addr == ia && rec(st.Val) {
										return true
									}
								}
							}
						}
					}
				}
			}
		}
		return false
	}
	return rec(v)
}

// predicateImplies: the call cl of a boolean function of the same package returned val; the facts that hold inside the
// callee on every return that can yield val (the conjuncts of `return a && b` for true, a guard's negation for an early
// `return false`, ...). Only facts common to all such returns are reported (compared by value identity, so in practice
// the single-expression predicates that refactorings extract).
func predicateImplies(cl *ssa.Call, ridx int, val bool, depth int) []BoolFact {
	alts := predicateAlts(cl, ridx, val, depth)
	if len(alts) == 0 {
		return nil
	}
	out := alts[0]
	for _, a := range alts[1:] {
		var keep []BoolFact
		for _, f := range out {
			for _, g := range a {
				if f.Subj == g.Subj && f.Val == g.Val {
					keep = append(keep, f)
					break
				}
			}
		}
		out = keep
	}
	return out
}

// PredicateAlternatives: the boolean result #ridx (-1: the only result) of the same-package call cl was val; for every
// return of the callee that can yield val, the facts that hold there. nil if the callee cannot be analysed.
func PredicateAlternatives(cl *ssa.Call, ridx int, val bool) [][]BoolFact {
	return predicateAlts(cl, ridx, val, 0)
}

func predicateAlts(cl *ssa.Call, ridx int, val bool, depth int) [][]BoolFact {
	callee := cl.Call.StaticCallee()
	if callee == nil || len(callee.Blocks) == 0 || depth > 2 {
		return nil
	}
	res := callee.Signature.Results()
	if ridx < 0 {
		if res.Len() != 1 {
			return nil
		}
		ridx = 0
	}
	if ridx >= res.Len() {
		return nil
	}
	if b, ok := res.At(ridx).Type().Underlying().(*types.Basic); !ok || b.Kind() != types.Bool {
		return nil
	}
	rootPkg := func(f *ssa.Function) *ssa.Package {
		for f.Parent() != nil {
			f = f.Parent()
		}
		return f.Pkg
	}
	if cl.Parent() == nil || rootPkg(callee) == nil || rootPkg(callee) != rootPkg(cl.Parent()) {
		return nil
	}
	var alts [][]BoolFact
	var expand func(v ssa.Value, at *ssa.BasicBlock, seen map[ssa.Value]bool)
	expand = func(v ssa.Value, at *ssa.BasicBlock, seen map[ssa.Value]bool) {
		if cv, isC := ConstCond(v); isC {
			if cv == val {
				alts = append(alts, boolFactsOfBlock(at, false))
			}
			return
		}
		if phi, ok := v.(*ssa.Phi); ok && !seen[phi] {
			seen[phi] = true
			for i, e := range phi.Edges {
				expand(e, phi.Block().Preds[i], seen)
			}
			return
		}
		subj, pol := BoolSubject(v)
		fs := append([]BoolFact{{subj, val == pol}}, boolFactsOfBlock(at, false)...)
		if c2, ok := subj.(*ssa.Call); ok {
			fs = append(fs, predicateImplies(c2, -1, val == pol, depth+1)...)
		}
		alts = append(alts, fs)
	}
	for _, b := range callee.Blocks {
		if len(b.Instrs) == 0 {
			continue
		}
		if ret, ok := b.Instrs[len(b.Instrs)-1].(*ssa.Return); ok && ridx < len(ret.Results) {
			expand(ret.Results[ridx], b, map[ssa.Value]bool{})
		}
	}
	return alts
}

// methodOfPkgInterface: fn is a method and some interface type declared in its package has a method of that name.
func methodOfPkgInterface(fn *ssa.Function) bool {
	if fn == nil || fn.Pkg == nil || fn.Signature.Recv() == nil {
		return false
	}
	for _, m := range fn.Pkg.Members {
		if t, ok := m.(*ssa.Type); ok {
			if it, ok := t.Type().Underlying().(*types.Interface); ok {
				for i := 0; i < it.NumMethods(); i++ {
					if it.Method(i).Name() == fn.Name() {
						return true
					}
				}
			}
		}
	}
	return false
}

var pkgCallersMemo = map[*ssa.Function][]ssa.Instruction{}

// pkgCallers returns the call sites (plain calls) of an unexported, never-address-taken function or method within its
// package, nil if it may be called in other ways.
func pkgCallers(fn *ssa.Function) []ssa.Instruction {
	if r, ok := pkgCallersMemo[fn]; ok {
		return r
	}
	pkgCallersMemo[fn] = nil
	if fn == nil || fn.Pkg == nil || fn.Parent() != nil || fn.Object() == nil || fn.Object().Exported() {
		return nil
	}
	var sites []ssa.Instruction
	bad := false
	if _, used := boundCallSites(fn); used {
		return nil // its method value is taken
	}
	if methodOfPkgInterface(fn) {
		return nil // may be called through an interface of its package
	}
	// the functions of the package, and the instantiations of its generic functions (they have no package of their own)
	scan := PkgFuncs(fn.Pkg)
	if curProg != nil {
		seen := map[*ssa.Function]bool{}
		for _, g := range scan {
			seen[g] = true
		}
		for _, g := range curProg.pandoraFuncs() {
			if !seen[g] && PkgOf(g) == PkgOf(fn) {
				scan = append(scan, g)
			}
		}
	}
	for _, g := range scan {
		EachInstr(g, func(in ssa.Instruction) {
			if cc := CC(in); cc != nil && cc.StaticCallee() == fn {
				if _, isCall := in.(*ssa.Call); isCall {
					sites = append(sites, in)
				} else if _, isDefer := in.(*ssa.Defer); isDefer {
					sites = append(sites, in)
				} else {
					bad = true
				}
				return
			}
			for _, op := range in.Operands(nil) {
				if op != nil && *op == ssa.Value(fn) {
					bad = true
				}
			}
		})
	}
	if bad {
		return nil
	}
	pkgCallersMemo[fn] = sites
	return sites
}

// ThroughReturns expands a value that is the result of a same-package function into the values that function returns
// (the matching result of every return; three levels); other values are returned as they are.
func ThroughReturns(v ssa.Value) []ssa.Value {
	var out []ssa.Value
	var walk func(v ssa.Value, d int)
	walk = func(v ssa.Value, d int) {
		cl, idx := CallOfValue(v)
		if cl == nil || d > 3 {
			out = append(out, v)
			return
		}
		sc := cl.Call.StaticCallee()
		if sc == nil || len(sc.Blocks) == 0 || cl.Parent() == nil || PkgOf(sc) != PkgOf(cl.Parent()) {
			out = append(out, v)
			return
		}
		if idx < 0 {
			idx = 0
		}
		n := 0
		for _, b := range sc.Blocks {
			ret, ok := b.Instrs[len(b.Instrs)-1].(*ssa.Return)
			if !ok || idx >= len(ret.Results) {
				continue
			}
			n++
			walk(ret.Results[idx], d+1)
		}
		if n == 0 {
			out = append(out, v)
		}
	}
	walk(v, 0)
	return out
}

// PkgCallers: see pkgCallers.
func PkgCallers(fn *ssa.Function) []ssa.Instruction { return pkgCallers(fn) }

// LiftTo returns the instruction of fn that (transitively, through sole call sites) contains the execution of in:
// in itself when it is in fn, the call of its function otherwise; nil if there is no such chain (three levels).
func LiftTo(fn *ssa.Function, in ssa.Instruction) ssa.Instruction {
	for d := 0; in != nil && d < 4; d++ {
		if in.Parent() == fn {
			return in
		}
		in = SoleCallSite(in.Parent())
	}
	return nil
}

// DerivesThrough: every root of v - followed through parameters (Roots), and through the results of helper functions of
// the package (ThroughReturns) - satisfies pred.
func DerivesThrough(v ssa.Value, pred ValPred) bool {
	var walk func(v ssa.Value, d int) bool
	walk = func(v ssa.Value, d int) bool {
		rs := Roots(v, false)
		if len(rs) == 0 {
			return false
		}
		for _, r := range rs {
			if pred(r) {
				continue
			}
			if d > 3 {
				return false
			}
			ts := throughReturns1(r) // one level at a time: pred is asked before each further expansion
			if len(ts) == 1 && ts[0] == r {
				return false
			}
			for _, t := range ts {
				if IsNilConst(t) {
					continue // the nil returned next to an error
				}
				if !walk(t, d+1) {
					return false
				}
			}
		}
		return true
	}
	return walk(v, 0)
}

// throughReturns1: ThroughReturns, one level only.
func throughReturns1(v ssa.Value) []ssa.Value {
	cl, idx := CallOfValue(v)
	if cl == nil {
		return []ssa.Value{v}
	}
	sc := cl.Call.StaticCallee()
	if sc == nil || len(sc.Blocks) == 0 || cl.Parent() == nil || PkgOf(sc) != PkgOf(cl.Parent()) {
		return []ssa.Value{v}
	}
	if idx < 0 {
		idx = 0
	}
	var out []ssa.Value
	for _, b := range sc.Blocks {
		if ret, ok := b.Instrs[len(b.Instrs)-1].(*ssa.Return); ok && idx < len(ret.Results) {
			out = append(out, ret.Results[idx])
		}
	}
	if len(out) == 0 {
		return []ssa.Value{v}
	}
	return out
}

// VRet is one way a function returns: a Return instruction, or - where the results of a Return are phis of its own
// block (named results assigned in the arms of an if / switch, then a bare `return`) - that Return taken through one
// unconditional predecessor edge, with the results the phis have on that edge.
type VRet struct {
	Ret     *ssa.Return
	At      ssa.Instruction // where the facts of this way of returning hold: the Return, or the jump that leads to it
	Results []ssa.Value
}

// VirtualReturns expands DelegatedReturns: merged returns are split per incoming edge (two levels) when every
// incoming edge is an unconditional jump; otherwise the Return is handed out as it is.
func VirtualReturns(fn *ssa.Function) []VRet {
	var out []VRet
	for _, r := range DelegatedReturns(fn) {
		out = append(out, splitReturn(VRet{Ret: r, At: r, Results: r.Results}, r.Block(), 0)...)
	}
	return out
}

func splitReturn(v VRet, blk *ssa.BasicBlock, depth int) []VRet {
	hasPhi := false
	for _, x := range v.Results {
		if phi, ok := x.(*ssa.Phi); ok && phi.Block() == blk {
			hasPhi = true
		}
	}
	if !hasPhi || depth > 2 || len(blk.Preds) < 2 {
		return []VRet{v}
	}
	// the block holds nothing but phis (and debug refs) before the point the results are used
	if depth > 0 {
		for _, in := range blk.Instrs[:len(blk.Instrs)-1] {
			switch in.(type) {
			case *ssa.Phi, *ssa.DebugRef:
			default:
				return []VRet{v}
			}
		}
	}
	for _, p := range blk.Preds {
		if _, isJump := p.Instrs[len(p.Instrs)-1].(*ssa.Jump); !isJump {
			return []VRet{v}
		}
	}
	var out []VRet
	for k, p := range blk.Preds {
		res := make([]ssa.Value, len(v.Results))
		for i, x := range v.Results {
			res[i] = x
			if phi, ok := x.(*ssa.Phi); ok && phi.Block() == blk {
				res[i] = phi.Edges[k]
			}
		}
		out = append(out, splitReturn(VRet{Ret: v.Ret, At: p.Instrs[len(p.Instrs)-1], Results: res}, p, depth+1)...)
	}
	return out
}
