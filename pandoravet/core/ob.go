package core

import (
	"bufio"
	"encoding/json"
	"fmt"
	"go/token"
	"os"
	"path/filepath"
	"sort"
	"strings"
)

// Verdicts.
const (
	Holds     = "holds"
	Violated  = "violated"
	Known     = "known"
	Undecided = "undecided"
)

// Obligation is one decided instance of a rule.
type Obligation struct {
	ID        string `json:"id"`        // O5.1
	Rule      string `json:"rule"`      // the rule applied, in words
	Construct string `json:"construct"` // stable key: function + construct descriptor
	Pos       string `json:"pos"`       // file:line (for the reader only)
	Verdict   string `json:"verdict"`
	Detail    string `json:"detail,omitempty"`
}

// Finding is an entry of known_findings.jsonl.
type Finding struct {
	Property   string `json:"property"`
	Obligation string `json:"obligation"`
	Construct  string `json:"construct"`
	Status     string `json:"status"` // known | fixed
	Commit     string `json:"commit,omitempty"`
	What       string `json:"what"`
}

// Ctx is handed to a rule pack.
type Ctx struct {
	P        *Prog
	Property string
	Tier     string
	Obs      []Obligation
	Floors   []FloorRec
	Notes    []string
	rules    map[string]string
}

type FloorRec struct {
	ID    string `json:"id"`
	What  string `json:"what"`
	Count int    `json:"count"`
	Floor int    `json:"floor"`
}

// Rule registers the text of a rule for an obligation id.
func (c *Ctx) Rule(id, text string) {
	if c.rules == nil {
		c.rules = map[string]string{}
	}
	c.rules[id] = text
}

func (c *Ctx) add(id, construct string, pos token.Pos, verdict, detail string) {
	c.Obs = append(c.Obs, Obligation{ID: id, Rule: c.rules[id], Construct: construct,
		Pos: c.P.Pos(pos), Verdict: verdict, Detail: detail})
}

// OK records a holding obligation.
func (c *Ctx) OK(id, construct string, pos token.Pos, detail string) {
	c.add(id, construct, pos, Holds, detail)
}

// Bad records a violated obligation.
func (c *Ctx) Bad(id, construct string, pos token.Pos, detail string) {
	c.add(id, construct, pos, Violated, detail)
}

// Unknown records an undecided obligation (counts as failure).
func (c *Ctx) Unknown(id, construct string, pos token.Pos, detail string) {
	c.add(id, construct, pos, Undecided, detail)
}

// Check records holds/violated from a boolean.
func (c *Ctx) Check(ok bool, id, construct string, pos token.Pos, detail string) bool {
	if ok {
		c.OK(id, construct, pos, detail)
	} else {
		c.Bad(id, construct, pos, detail)
	}
	return ok
}

// Anchor reports an unresolved anchor as a failure of rule "anchor".
func (c *Ctx) Anchor(id, what string) {
	c.Obs = append(c.Obs, Obligation{ID: id, Rule: "anchor: the mechanism named by the rule must be resolvable in the current tree (update the anchor table if it was renamed or moved)",
		Construct: "anchor:" + what, Pos: "-", Verdict: Undecided, Detail: "anchor not found: " + what})
}

// Floor asserts a minimal instance count for a rule.
func (c *Ctx) Floor(id, what string, count, floor int) {
	c.Floors = append(c.Floors, FloorRec{ID: id, What: what, Count: count, Floor: floor})
	if count < floor {
		c.Obs = append(c.Obs, Obligation{ID: id, Rule: "floor: a rule must match at least the number of instances confirmed by hand",
			Construct: "floor:" + what, Pos: "-", Verdict: Undecided,
			Detail: fmt.Sprintf("%s: matched %d instances, floor %d", what, count, floor)})
	}
}

// Merge adds the obligations of another configuration's run; constructs get a
// " [cfg]" suffix (ignored when matching known findings).
func (c *Ctx) Merge(o *Ctx, cfg string) {
	for _, ob := range o.Obs {
		ob.Construct += " [" + cfg + "]"
		c.Obs = append(c.Obs, ob)
	}
	for _, f := range o.Floors {
		f.What += " [" + cfg + "]"
		c.Floors = append(c.Floors, f)
	}
	for id, r := range o.rules {
		c.Rule(id, r)
	}
}

// Borrow evaluates another pack's rules (once per loaded program; name identifies the pack) and takes over the
// obligations and floors whose id is in remap under the new id - the same structural condition is necessary for more
// than one property. The rule text of the new id must have been declared with Rule.
func (c *Ctx) Borrow(name string, run func(*Ctx), remap map[string]string) {
	if c.P.packCache == nil {
		c.P.packCache = map[string]*Ctx{}
	}
	sub := c.P.packCache[name]
	if sub == nil {
		sub = &Ctx{P: c.P, Property: c.Property, Tier: c.Tier}
		run(sub)
		c.P.packCache[name] = sub
	}
	for _, ob := range sub.Obs {
		if nid := remap[ob.ID]; nid != "" {
			if strings.HasPrefix(ob.Rule, "anchor:") || strings.HasPrefix(ob.Rule, "floor:") {
				// keep the generic text
			} else {
				ob.Rule = c.rules[nid]
			}
			ob.Detail = ob.Detail + " [rule shared with " + ob.ID + "]"
			ob.ID = nid
			c.Obs = append(c.Obs, ob)
		}
	}
	for _, f := range sub.Floors {
		if nid := remap[f.ID]; nid != "" {
			f.ID = nid
			c.Floors = append(c.Floors, f)
		}
	}
}

func (c *Ctx) Note(f string, a ...any) { c.Notes = append(c.Notes, fmt.Sprintf(f, a...)) }

// LoadFindings reads known_findings.jsonl.
func LoadFindings(path string) ([]Finding, error) {
	f, err := os.Open(path)
	if err != nil {
		if os.IsNotExist(err) {
			return nil, nil
		}
		return nil, err
	}
	defer f.Close()
	var out []Finding
	sc := bufio.NewScanner(f)
	sc.Buffer(make([]byte, 1<<20), 1<<20)
	for sc.Scan() {
		line := strings.TrimSpace(sc.Text())
		if line == "" || strings.HasPrefix(line, "#") {
			continue
		}
		var fd Finding
		if err := json.Unmarshal([]byte(line), &fd); err != nil {
			return nil, fmt.Errorf("%s: %w", path, err)
		}
		out = append(out, fd)
	}
	return out, sc.Err()
}

// Result of finishing a pack.
type Result struct {
	Violations int
	Lines      []string
}

// Finish applies known findings, writes evidence and replay files, and returns
// the lines to print.
func (c *Ctx) Finish(findings []Finding, evidencePath, outDir string, wall float64, extra map[string]any) Result {
	var res Result
	known := map[string]Finding{}
	for _, f := range findings {
		if f.Property == c.Property && f.Status == "known" {
			known[f.Obligation+"|"+f.Construct] = f
		}
	}
	// de-duplicate identical obligations (same id+construct+verdict)
	seen := map[string]bool{}
	var obs []Obligation
	for _, o := range c.Obs {
		k := o.ID + "|" + o.Construct + "|" + o.Verdict + "|" + o.Pos
		if seen[k] {
			continue
		}
		seen[k] = true
		obs = append(obs, o)
	}
	c.Obs = obs
	sort.SliceStable(c.Obs, func(i, j int) bool {
		a, b := c.Obs[i], c.Obs[j]
		if a.ID != b.ID {
			return lessID(a.ID, b.ID)
		}
		return a.Construct < b.Construct
	})
	_ = os.MkdirAll(outDir, 0o755)
	old, _ := filepath.Glob(filepath.Join(outDir, c.Property+"-*.json"))
	for _, f := range old {
		_ = os.Remove(f)
	}
	discharged, nontrivial := 0, map[string]bool{}
	n := 0
	for i := range c.Obs {
		o := &c.Obs[i]
		if o.Verdict == Violated {
			base := o.Construct
			if i := strings.Index(base, " [tags="); i >= 0 {
				base = base[:i]
			}
			if f, ok := known[o.ID+"|"+base]; ok {
				o.Verdict = Known
				res.Lines = append(res.Lines, fmt.Sprintf("KNOWN-FINDING: property=%s %s %s: %s", c.Property, o.ID, o.Construct, f.What))
			}
		}
		switch o.Verdict {
		case Holds:
			discharged++
			nontrivial[o.ID+"|"+o.Construct] = true
		case Known:
			nontrivial[o.ID+"|"+o.Construct] = true
		case Violated, Undecided:
			nontrivial[o.ID+"|"+o.Construct] = true
			n++
			rp := filepath.Join(outDir, fmt.Sprintf("%s-%s-%d.json", c.Property, strings.ReplaceAll(o.ID, ".", "_"), n))
			b, _ := json.MarshalIndent(map[string]any{
				"property": c.Property, "obligation": o, "tags": c.P.Tags,
				"reproduce": fmt.Sprintf("cd /verif && ./check.sh %s quick   # then read the obligation %s %q in evidence/%s.json", c.Property, o.ID, o.Construct, c.Property),
			}, "", " ")
			_ = os.WriteFile(rp, b, 0o644)
			res.Lines = append(res.Lines, fmt.Sprintf("%s %s %s at %s: %s", strings.ToUpper(o.Verdict), o.ID, o.Construct, o.Pos, o.Detail))
			res.Lines = append(res.Lines, fmt.Sprintf("VIOLATION property=%s replay=%s", c.Property, rp))
			res.Violations++
		}
	}
	rules := []string{}
	ids := []string{}
	for id := range c.rules {
		ids = append(ids, id)
	}
	sort.Slice(ids, func(i, j int) bool { return lessID(ids[i], ids[j]) })
	for _, id := range ids {
		rules = append(rules, id+": "+c.rules[id])
	}
	samples := make([]any, 0, len(c.Obs))
	for _, o := range c.Obs {
		samples = append(samples, o)
	}
	cov := map[string]any{
		"explanation": "Static analysis of /repo's current working tree (go/packages LoadAllSyntax + go/ssa" +
			"): each obligation is one instance of a structural rule (pairing, ordering, guard, ownership, table agreement) that is a necessary condition of the property, decided on all paths of the anchored code. The behaviour as a whole is not decided. Every obligation evaluated is listed under samples with the rule, the construct, file:line and the verdict.",
		"obligations":         len(c.Obs),
		"discharged":          discharged,
		"evaluations":         len(c.Obs),
		"distinct_nontrivial": len(nontrivial),
		"rule":                "one evaluation = one obligation (rule instance anchored in a construct of the current source); distinct = distinct (obligation id, construct) pairs that matched code; rules: " + strings.Join(rules, " || "),
		"samples":             samples,
		"exhaustive":          true,
		"packages":            len(c.P.Root),
		"floors":              c.Floors,
		"build_tags":          c.P.Tags,
		"notes":               c.Notes,
		"load_s":              c.P.LoadS, "ssa_s": c.P.SSAS, "callgraph_s": c.P.CGS,
	}
	for k, v := range extra {
		cov[k] = v
	}
	ev := map[string]any{
		"property_id": c.Property,
		"tier":        c.Tier,
		"seed":        0,
		"level":       "other",
		"coverage":    cov,
		"assumptions": []string{
			"go/types, go/ssa and (where used) the VTA call graph of golang.org/x/tools v0.29.0 represent the program faithfully",
			"third-party libraries and the Go runtime behave as documented (trusted base)",
			"only the structural clauses listed as obligations are decided; numeric results, timing and interleavings are not",
		},
		"wall_s":     wall,
		"violations": res.Violations,
	}
	b, _ := json.MarshalIndent(ev, "", " ")
	_ = os.MkdirAll(filepath.Dir(evidencePath), 0o755)
	if err := os.WriteFile(evidencePath, b, 0o644); err != nil {
		res.Lines = append(res.Lines, "cannot write evidence: "+err.Error())
		res.Violations++
	}
	return res
}

func lessID(a, b string) bool {
	pa, pb := splitID(a), splitID(b)
	for i := 0; i < len(pa) && i < len(pb); i++ {
		if pa[i] != pb[i] {
			return pa[i] < pb[i]
		}
	}
	return len(pa) < len(pb)
}

func splitID(s string) []int {
	var out []int
	cur, in := 0, false
	for _, r := range s {
		if r >= '0' && r <= '9' {
			cur = cur*10 + int(r-'0')
			in = true
		} else if in {
			out = append(out, cur)
			cur, in = 0, false
		}
	}
	if in {
		out = append(out, cur)
	}
	return out
}
