package core

import (
	"bytes"
	_ "embed"
	"encoding/json"
	"fmt"
	"go/ast"
	"go/format"
	"go/token"
	"go/types"
	"os"
	"path/filepath"
	"sort"
	"strings"

	"golang.org/x/tools/go/packages"
	"golang.org/x/tools/go/ssa"
)

// Rename normalisation.
//
// The rule packs name unexported functions, fields, types, variables and constants of pandora. A rename of such an
// identifier changes no behaviour, so it must not change a verdict. Instead of teaching every rule every possible
// name, the loader compares the declarations of the current tree with a table recorded on the tree the packs were
// written for (symbols_baseline.json): a baseline identifier that is gone and a new identifier of the same kind, in
// the same package, with the same owner and the same shape (type, position, signature, callees) are taken to be one
// declaration under two names. The current tree is then type-checked a second time through an overlay in which every
// such identifier carries its baseline name, and all analyses run on that view. What was renamed is reported in the
// evidence notes; a declaration that cannot be matched uniquely is left alone (and the rule that needs it reports an
// unresolved anchor, as before).

//go:embed symbols_baseline.json
var symbolsBaselineJSON []byte

// Sym is one unexported declaration.
type Sym struct {
	Pkg   string   `json:"pkg"`   // package path relative to the module
	Kind  string   `json:"kind"`  // func | field | type | var | const
	Owner string   `json:"owner"` // receiver type (methods), struct type (fields)
	Name  string   `json:"name"`
	Type  string   `json:"type"`            // signature / field type / underlying shape / value type
	Index int      `json:"index,omitempty"` // field position
	Calls []string `json:"calls,omitempty"`
}

func relPkg(path string) string {
	return strings.TrimPrefix(strings.TrimPrefix(path, Mod), "/")
}

func typeStr(t types.Type) string {
	return types.TypeString(t, func(p *types.Package) string { return p.Path() })
}

func sigOf(sig *types.Signature) string {
	var ps, rs []string
	for i := 0; i < sig.Params().Len(); i++ {
		ps = append(ps, typeStr(sig.Params().At(i).Type()))
	}
	for i := 0; i < sig.Results().Len(); i++ {
		rs = append(rs, typeStr(sig.Results().At(i).Type()))
	}
	v := ""
	if sig.Variadic() {
		v = "..."
	}
	return "(" + strings.Join(ps, ", ") + v + ") (" + strings.Join(rs, ", ") + ")"
}

// astCallees: the names called in a function body (selector or identifier), a cheap fingerprint that needs no SSA.
func astCallees(fd *ast.FuncDecl) []string {
	set := map[string]bool{}
	if fd.Body == nil {
		return nil
	}
	ast.Inspect(fd.Body, func(n ast.Node) bool {
		ce, ok := n.(*ast.CallExpr)
		if !ok {
			return true
		}
		switch f := ce.Fun.(type) {
		case *ast.Ident:
			set[f.Name] = true
		case *ast.SelectorExpr:
			set["."+f.Sel.Name] = true
		}
		return true
	})
	var out []string
	for k := range set {
		out = append(out, k)
	}
	sort.Strings(out)
	return out
}

// collectSyms lists the unexported declarations of the production pandora packages, with the objects they declare.
func collectSyms(roots []*packages.Package) ([]Sym, map[int]types.Object) {
	var out []Sym
	objs := map[int]types.Object{}
	add := func(s Sym, o types.Object) {
		objs[len(out)] = o
		out = append(out, s)
	}
	for _, pk := range roots {
		if !IsProdPkg(pk.PkgPath) {
			continue
		}
		rel := relPkg(pk.PkgPath)
		for _, f := range pk.Syntax {
			fname := pk.Fset.Position(f.Pos()).Filename
			if !IsProdFile(fname) {
				continue
			}
			for _, d := range f.Decls {
				switch x := d.(type) {
				case *ast.FuncDecl:
					obj, _ := pk.TypesInfo.Defs[x.Name].(*types.Func)
					if obj == nil || obj.Exported() || x.Name.Name == "init" || x.Name.Name == "_" {
						continue
					}
					sig := obj.Type().(*types.Signature)
					owner := ""
					if sig.Recv() != nil {
						owner = RecvTypeName(obj)
					}
					add(Sym{Pkg: rel, Kind: "func", Owner: owner, Name: obj.Name(), Type: sigOf(sig), Calls: astCallees(x)}, obj)
				case *ast.GenDecl:
					for _, sp := range x.Specs {
						switch s := sp.(type) {
						case *ast.TypeSpec:
							tn, _ := pk.TypesInfo.Defs[s.Name].(*types.TypeName)
							if tn == nil {
								continue
							}
							if st, ok := tn.Type().Underlying().(*types.Struct); ok {
								for i := 0; i < st.NumFields(); i++ {
									fv := st.Field(i)
									if fv.Exported() || fv.Embedded() || fv.Name() == "_" {
										continue
									}
									add(Sym{Pkg: rel, Kind: "field", Owner: tn.Name(), Name: fv.Name(), Type: typeStr(fv.Type()), Index: i}, fv)
								}
							}
							if !tn.Exported() {
								shape := fmt.Sprintf("%T", tn.Type().Underlying())
								if st, ok := tn.Type().Underlying().(*types.Struct); ok {
									var fts []string
									for i := 0; i < st.NumFields(); i++ {
										fts = append(fts, typeStr(st.Field(i).Type()))
									}
									shape += "{" + strings.Join(fts, ";") + "}"
								} else {
									shape += ":" + typeStr(tn.Type().Underlying())
								}
								add(Sym{Pkg: rel, Kind: "type", Name: tn.Name(), Type: shape}, tn)
							}
						case *ast.ValueSpec:
							for _, id := range s.Names {
								o := pk.TypesInfo.Defs[id]
								if o == nil || o.Exported() || id.Name == "_" {
									continue
								}
								switch v := o.(type) {
								case *types.Var:
									add(Sym{Pkg: rel, Kind: "var", Name: v.Name(), Type: typeStr(v.Type())}, v)
								case *types.Const:
									add(Sym{Pkg: rel, Kind: "const", Name: v.Name(), Type: typeStr(v.Type()) + "=" + v.Val().ExactString()}, v)
								}
							}
						}
					}
				}
			}
		}
	}
	return out, objs
}

// DumpSymbols prints the baseline table for the loaded tree.
func (p *Prog) DumpSymbols() string {
	syms, _ := collectSyms(p.Root)
	sort.Slice(syms, func(i, j int) bool {
		a, b := syms[i], syms[j]
		if a.Pkg != b.Pkg {
			return a.Pkg < b.Pkg
		}
		if a.Kind != b.Kind {
			return a.Kind < b.Kind
		}
		if a.Owner != b.Owner {
			return a.Owner < b.Owner
		}
		return a.Name < b.Name
	})
	var buf bytes.Buffer
	buf.WriteString("[\n")
	for i, s := range syms {
		b, _ := json.Marshal(s)
		buf.Write(b)
		if i < len(syms)-1 {
			buf.WriteString(",")
		}
		buf.WriteString("\n")
	}
	buf.WriteString("]\n")
	return buf.String()
}

func jaccard(a, b []string) float64 {
	if len(a) == 0 && len(b) == 0 {
		return 1
	}
	set := map[string]bool{}
	for _, x := range a {
		set[x] = true
	}
	inter, union := 0, len(set)
	for _, x := range b {
		if set[x] {
			inter++
		} else {
			union++
		}
	}
	if union == 0 {
		return 1
	}
	return float64(inter) / float64(union)
}

// detectRenames matches baseline declarations that are gone with new declarations of the same shape and returns, for the
// objects of the current tree that were renamed, their baseline names.
func detectRenames(roots []*packages.Package) (map[types.Object]string, []string) {
	var base []Sym
	if err := json.Unmarshal(symbolsBaselineJSON, &base); err != nil || len(base) == 0 {
		return nil, nil
	}
	cur, objs := collectSyms(roots)
	type key struct{ pkg, kind, owner, name string }
	baseBy := map[key]Sym{}
	for _, s := range base {
		baseBy[key{s.Pkg, s.Kind, s.Owner, s.Name}] = s
	}
	curBy := map[key]int{}
	for i, s := range cur {
		curBy[key{s.Pkg, s.Kind, s.Owner, s.Name}] = i
	}
	out := map[types.Object]string{}
	var notes []string
	typeRen := map[string]string{} // pkg|newTypeName -> old
	// substitute renamed type names inside type strings (signatures mention them with their package path)
	subst := func(pkg, t string) string {
		for k, old := range typeRen {
			parts := strings.SplitN(k, "|", 2)
			full := Mod + "/" + parts[0] + "." + parts[1]
			if parts[0] == "" {
				full = Mod + "." + parts[1]
			}
			t = strings.ReplaceAll(t, full, strings.TrimSuffix(full, parts[1])+old)
		}
		return t
	}
	match := func(kind string) {
		// group the missing and the added by (pkg, owner)
		type grp struct{ pkg, owner string }
		missing := map[grp][]Sym{}
		added := map[grp][]int{}
		for _, s := range base {
			if s.Kind != kind {
				continue
			}
			if _, ok := curBy[key{s.Pkg, s.Kind, s.Owner, s.Name}]; !ok {
				missing[grp{s.Pkg, s.Owner}] = append(missing[grp{s.Pkg, s.Owner}], s)
			}
		}
		for i, s := range cur {
			if s.Kind != kind {
				continue
			}
			owner := s.Owner
			if old, ok := typeRen[s.Pkg+"|"+owner]; ok {
				owner = old
			}
			if _, ok := baseBy[key{s.Pkg, s.Kind, owner, s.Name}]; !ok {
				added[grp{s.Pkg, owner}] = append(added[grp{s.Pkg, owner}], i)
			}
		}
		for g, ms := range missing {
			cands := added[g]
			used := map[int]bool{}
			for _, m := range ms {
				best, second, bi := -1.0, -1.0, -1
				for _, ci := range cands {
					if used[ci] {
						continue
					}
					c := cur[ci]
					score := 0.0
					switch kind {
					case "func":
						if subst(c.Pkg, c.Type) != m.Type {
							continue
						}
						score = 0.3 + 0.7*jaccard(m.Calls, c.Calls)
					case "field":
						if subst(c.Pkg, c.Type) != m.Type {
							continue
						}
						score = 0.6
						if c.Index == m.Index {
							score = 1
						}
					case "type":
						if c.Type != m.Type {
							continue
						}
						score = 1
					default:
						if subst(c.Pkg, c.Type) != m.Type {
							continue
						}
						score = 1
					}
					if score > best {
						second, best, bi = best, score, ci
					} else if score > second {
						second = score
					}
				}
				if bi < 0 || best < 0.55 || second > best-0.1 {
					continue
				}
				// the baseline name must be free in the current tree
				if _, clash := curBy[key{m.Pkg, m.Kind, m.Owner, m.Name}]; clash {
					continue
				}
				used[bi] = true
				out[objs[bi]] = m.Name
				c := cur[bi]
				who := c.Name
				if c.Owner != "" {
					who = c.Owner + "." + c.Name
				}
				notes = append(notes, fmt.Sprintf("%s %s/%s is the baseline's %s (matched by shape)", kind, c.Pkg, who, m.Name))
				if kind == "type" {
					typeRen[c.Pkg+"|"+c.Name] = m.Name
				}
			}
		}
	}
	for _, k := range []string{"type", "field", "var", "const", "func"} {
		match(k)
	}
	sort.Strings(notes)
	return out, notes
}

// canonOverlay rewrites the identifiers of renamed objects to their baseline names and returns the changed files.
func canonOverlay(roots []*packages.Package, ren map[types.Object]string) (map[string][]byte, error) {
	changed := map[*ast.File]*packages.Package{}
	origin := func(o types.Object) types.Object {
		switch x := o.(type) {
		case *types.Func:
			return x.Origin()
		case *types.Var:
			return x.Origin()
		}
		return o
	}
	for _, pk := range roots {
		fileOf := func(pos token.Pos) *ast.File {
			for _, f := range pk.Syntax {
				if f.Pos() <= pos && pos <= f.End() {
					return f
				}
			}
			return nil
		}
		visit := func(id *ast.Ident, o types.Object) {
			if o == nil {
				return
			}
			// an embedded field is named after its type: it follows the type's rename
			if v, isVar := o.(*types.Var); isVar && v.Embedded() {
				t := v.Type()
				if pt, isP := t.(*types.Pointer); isP {
					t = pt.Elem()
				}
				if nt, isN := t.(*types.Named); isN {
					if nn, ok := ren[nt.Obj()]; ok && id.Name != nn {
						id.Name = nn
						if f := fileOf(id.Pos()); f != nil {
							changed[f] = pk
						}
					}
				}
				return
			}
			if nn, ok := ren[origin(o)]; ok && id.Name != nn {
				id.Name = nn
				if f := fileOf(id.Pos()); f != nil {
					changed[f] = pk
				}
			}
		}
		for id, o := range pk.TypesInfo.Defs {
			visit(id, o)
		}
		for id, o := range pk.TypesInfo.Uses {
			visit(id, o)
		}
	}
	out := map[string][]byte{}
	for f, pk := range changed {
		var buf bytes.Buffer
		if err := format.Node(&buf, pk.Fset, f); err != nil {
			return nil, err
		}
		out[pk.Fset.Position(f.Pos()).Filename] = buf.Bytes()
	}
	return out, nil
}

// writeBuildOverlay stores the overlay for `go build -overlay`.
func writeBuildOverlay(ov map[string][]byte) (string, func(), error) {
	dir, err := os.MkdirTemp("", "pvoverlay")
	if err != nil {
		return "", nil, err
	}
	repl := map[string]string{}
	i := 0
	for name, content := range ov {
		i++
		tmp := filepath.Join(dir, fmt.Sprintf("f%d.go", i))
		if err := os.WriteFile(tmp, content, 0o644); err != nil {
			return "", nil, err
		}
		repl[name] = tmp
	}
	b, _ := json.Marshal(map[string]any{"Replace": repl})
	js := filepath.Join(dir, "overlay.json")
	if err := os.WriteFile(js, b, 0o644); err != nil {
		return "", nil, err
	}
	return js, func() { os.RemoveAll(dir) }, nil
}

// Types declared after the baseline (a small carrier type a refactoring introduced: `type finisher struct{ log, ctx,
// cancel }` whose method replaces a closure) are transparent to the value-provenance helpers: a load of one of their
// fields resolves to the values stored into that field, as a captured variable resolves to the stores of its cell.
var (
	curProg  *Prog
	newTypes map[string]bool // "pkgpath.TypeName"
)

// newTypeField: v loads (or extracts) a field of a type that the baseline does not know; returns the field.
func newTypeField(v ssa.Value) *types.Var {
	if curProg == nil || len(newTypes) == 0 {
		return nil
	}
	var st *types.Struct
	var owner types.Type
	idx := -1
	switch x := v.(type) {
	case *ssa.UnOp:
		fa, ok := x.X.(*ssa.FieldAddr)
		if !ok {
			return nil
		}
		owner, idx = fa.X.Type(), fa.Field
	case *ssa.Field:
		owner, idx = x.X.Type(), x.Field
	default:
		return nil
	}
	if pt, ok := owner.Underlying().(*types.Pointer); ok {
		owner = pt.Elem()
	}
	nt, ok := owner.(*types.Named)
	if !ok || nt.Obj().Pkg() == nil || !newTypes[nt.Obj().Pkg().Path()+"."+nt.Obj().Name()] {
		return nil
	}
	st, _ = nt.Underlying().(*types.Struct)
	if st == nil || idx < 0 || idx >= st.NumFields() {
		return nil
	}
	return st.Field(idx)
}

// computeNewTypes: the unexported struct types of the production packages that the baseline table does not list.
func computeNewTypes(roots []*packages.Package) map[string]bool {
	var base []Sym
	if err := json.Unmarshal(symbolsBaselineJSON, &base); err != nil || len(base) == 0 {
		return nil
	}
	known := map[string]bool{}
	for _, s := range base {
		if s.Kind == "type" {
			known[s.Pkg+"|"+s.Name] = true
		}
	}
	out := map[string]bool{}
	cur, _ := collectSyms(roots)
	for _, s := range cur {
		if s.Kind == "type" && !known[s.Pkg+"|"+s.Name] && strings.HasPrefix(s.Type, "*types.Struct") {
			path := Mod
			if s.Pkg != "" {
				path = Mod + "/" + s.Pkg
			}
			out[path+"."+s.Name] = true
		}
	}
	return out
}
