package core

import (
	"golang.org/x/tools/go/ssa"
)

// LockState is the set of locks that are definitely held (must-analysis) for one mutex.
type LockState struct{ R, W bool }

func (a LockState) meet(b LockState) LockState { return LockState{a.R && b.R, a.W && b.W} }

// Locksets computes, for every instruction of fn, the lock state of the mutex
// identified by isMu (a predicate on the receiver argument of Lock/RLock/
// Unlock/RUnlock calls) that definitely holds before the instruction.
// Deferred unlocks release at function exit; DeferredW/DeferredR report them.
type Locksets struct {
	Before     map[ssa.Instruction]LockState
	AtExit     map[*ssa.BasicBlock]LockState // state at the terminator of exit blocks, deferred unlocks applied
	fn         *ssa.Function
	Operations int
}

var (
	sLock    = []Spec{{"sync", "RWMutex", "Lock"}, {"sync", "Mutex", "Lock"}}
	sUnlock  = []Spec{{"sync", "RWMutex", "Unlock"}, {"sync", "Mutex", "Unlock"}}
	sRLock   = []Spec{{"sync", "RWMutex", "RLock"}}
	sRUnlock = []Spec{{"sync", "RWMutex", "RUnlock"}}
)

func NewLocksets(fn *ssa.Function, isMu func(v ssa.Value) bool) *Locksets {
	ls := &Locksets{Before: map[ssa.Instruction]LockState{}, AtExit: map[*ssa.BasicBlock]LockState{}, fn: fn}
	if len(fn.Blocks) == 0 {
		return ls
	}
	apply := func(in ssa.Instruction, st LockState) LockState {
		cc := CC(in)
		if cc == nil || len(cc.Args) == 0 && !cc.IsInvoke() {
			return st
		}
		if _, isDefer := in.(*ssa.Defer); isDefer {
			return st
		}
		if _, isGo := in.(*ssa.Go); isGo {
			return st
		}
		if cc.IsInvoke() || len(cc.Args) == 0 || !isMu(cc.Args[0]) {
			return st
		}
		switch {
		case MatchCC(cc, sLock...):
			st.W = true
		case MatchCC(cc, sUnlock...):
			st.W = false
		case MatchCC(cc, sRLock...):
			st.R = true
		case MatchCC(cc, sRUnlock...):
			st.R = false
		}
		return st
	}
	in := map[*ssa.BasicBlock]LockState{}
	visited := map[*ssa.BasicBlock]bool{}
	out := map[*ssa.BasicBlock]LockState{}
	reach := Reachable(fn)
	work := []*ssa.BasicBlock{fn.Blocks[0]}
	in[fn.Blocks[0]] = LockState{}
	visited[fn.Blocks[0]] = true
	for len(work) > 0 {
		b := work[0]
		work = work[1:]
		st := in[b]
		for _, i := range b.Instrs {
			st = apply(i, st)
		}
		out[b] = st
		for _, s := range Succs(b) {
			if !reach[s] {
				continue
			}
			if !visited[s] {
				visited[s] = true
				in[s] = st
				work = append(work, s)
			} else {
				m := in[s].meet(st)
				if m != in[s] {
					in[s] = m
					work = append(work, s)
				}
			}
		}
	}
	// deferred unlocks
	defW, defR := false, false
	EachInstr(fn, func(i ssa.Instruction) {
		d, ok := i.(*ssa.Defer)
		if !ok || len(d.Call.Args) == 0 || d.Call.IsInvoke() || !isMu(d.Call.Args[0]) {
			return
		}
		if MatchCC(&d.Call, sUnlock...) {
			defW = true
		}
		if MatchCC(&d.Call, sRUnlock...) {
			defR = true
		}
	})
	for _, b := range fn.Blocks {
		if !visited[b] {
			continue
		}
		st := in[b]
		for _, i := range b.Instrs {
			ls.Before[i] = st
			ns := apply(i, st)
			if ns != st {
				ls.Operations++
			}
			st = ns
		}
		if k := ExitOf(b); k == ExitReturn || (k == ExitPanic && !IsSelectPanicBlock(b)) {
			e := st
			if defW {
				e.W = false
			}
			if defR {
				e.R = false
			}
			ls.AtExit[b] = e
		}
	}
	return ls
}

// RestrictFact returns an edge filter: at every If, an edge is pruned when the
// fact that holds on the *other* edge satisfies match (i.e. only paths on
// which matching facts are true remain... ) — precisely: if match(trueFact)
// only the true edge passes; if match(falseFact) only the false edge passes.
func RestrictFact(match func(Fact) bool) func(from, to *ssa.BasicBlock) bool {
	return func(from, to *ssa.BasicBlock) bool {
		if len(from.Instrs) == 0 {
			return true
		}
		iff, ok := from.Instrs[len(from.Instrs)-1].(*ssa.If)
		if !ok || len(from.Succs) != 2 || from.Succs[0] == from.Succs[1] {
			return true
		}
		t := CondFact(iff.Cond, true).Canon()
		f := CondFact(iff.Cond, false).Canon()
		if t.Y != nil && match(t) {
			return to == from.Succs[0]
		}
		if f.Y != nil && match(f) {
			return to == from.Succs[1]
		}
		return true
	}
}
