package core

import (
	"go/token"

	"golang.org/x/tools/go/ssa"
)

// maxVisits bounds how often one path may traverse a block: 2 lets a loop body run once.
const maxVisits = 2

// Path is one entry→exit path of a function (blocks in order).
type Path struct {
	Blocks []*ssa.BasicBlock
	idx    map[*ssa.BasicBlock]int
}

// EnumPaths enumerates the paths of fn from its entry to every Return/Panic
// exit over feasible edges, visiting each block at most twice per path (a loop
// body is traversed zero times or once). It stops after max paths and reports
// whether the enumeration is complete.
func EnumPaths(fn *ssa.Function, max int) (paths []*Path, complete bool) {
	if len(fn.Blocks) == 0 {
		return nil, true
	}
	complete = true
	var cur []*ssa.BasicBlock
	on := map[*ssa.BasicBlock]int{}
	var walk func(b *ssa.BasicBlock)
	walk = func(b *ssa.BasicBlock) {
		if !complete {
			return
		}
		if IsSelectPanicBlock(b) {
			return
		}
		cur = append(cur, b)
		on[b]++
		defer func() { cur = cur[:len(cur)-1]; on[b]-- }()
		if ExitOf(b) != ExitNone {
			if len(paths) >= max {
				complete = false
				return
			}
			p := &Path{Blocks: append([]*ssa.BasicBlock{}, cur...), idx: map[*ssa.BasicBlock]int{}}
			for i, x := range p.Blocks {
				p.idx[x] = i
			}
			paths = append(paths, p)
			return
		}
		for _, s := range Succs(b) {
			if on[s] < maxVisits {
				walk(s)
			}
		}
	}
	walk(fn.Blocks[0])
	return
}

// Has reports whether the path traverses the block.
func (p *Path) Has(b *ssa.BasicBlock) bool { _, ok := p.idx[b]; return ok }

// lastIndex returns the last position <= upto at which the path traverses b (-1 if none).
func (p *Path) lastIndex(b *ssa.BasicBlock, upto int) int {
	if upto >= len(p.Blocks) {
		upto = len(p.Blocks) - 1
	}
	for i := upto; i >= 0; i-- {
		if p.Blocks[i] == b {
			return i
		}
	}
	return -1
}

// ResolveAt follows phis along the path for a value used in the block at
// position pos: a phi is replaced by the edge value of the predecessor the
// path came from at the latest traversal of the phi's block not after pos.
// It returns the resolved value and the position at which that value is live.
func (p *Path) ResolveAt(v ssa.Value, pos int) (ssa.Value, int) {
	for i := 0; i < 64; i++ {
		phi, ok := v.(*ssa.Phi)
		if !ok {
			return v, pos
		}
		k := p.lastIndex(phi.Block(), pos)
		if k <= 0 {
			return v, pos
		}
		pred := p.Blocks[k-1]
		found := false
		for j, pb := range phi.Block().Preds {
			if pb == pred {
				v = phi.Edges[j]
				pos = k - 1
				found = true
				break
			}
		}
		if !found {
			return v, pos
		}
	}
	return v, pos
}

// Resolve resolves a value used at the end of the path.
func (p *Path) Resolve(v ssa.Value) ssa.Value {
	r, _ := p.ResolveAt(v, len(p.Blocks)-1)
	return r
}

// PosOf returns the position of the latest traversal (not after upto) of the
// block defining v, or upto if v has no block (parameters, constants).
func (p *Path) PosOf(v ssa.Value, upto int) int {
	if in, ok := v.(ssa.Instruction); ok && in.Block() != nil {
		if k := p.lastIndex(in.Block(), upto); k >= 0 {
			return k
		}
	}
	return upto
}

// Instrs returns the instructions of the path in execution order.
func (p *Path) Instrs() []ssa.Instruction {
	var out []ssa.Instruction
	for _, b := range p.Blocks {
		out = append(out, b.Instrs...)
	}
	return out
}

// Facts returns the branch facts taken along the path (comparisons and boolean
// subjects, with phis resolved along the path).
func (p *Path) Facts() (cmps []Fact, bools []BoolFact) {
	for i := 0; i+1 < len(p.Blocks); i++ {
		b := p.Blocks[i]
		iff, ok := b.Instrs[len(b.Instrs)-1].(*ssa.If)
		if !ok || len(b.Succs) != 2 || b.Succs[0] == b.Succs[1] {
			continue
		}
		pol := p.Blocks[i+1] == b.Succs[0]
		cond, _ := p.ResolveAt(iff.Cond, i)
		subj, sp := BoolSubject(cond)
		val := pol == sp
		bools = append(bools, BoolFact{subj, val})
		if bo, ok := subj.(*ssa.BinOp); ok {
			switch bo.Op {
			case token.EQL, token.NEQ, token.LSS, token.LEQ, token.GTR, token.GEQ:
				op := bo.Op
				if !val {
					op = negate(op)
				}
				x, _ := p.ResolveAt(bo.X, i)
				y, _ := p.ResolveAt(bo.Y, i)
				cmps = append(cmps, Fact{Op: op, X: x, Y: y})
			}
		}
	}
	return
}
