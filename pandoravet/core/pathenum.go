package core

import (
	"go/token"

	"golang.org/x/tools/go/ssa"
)

// Path is one acyclic entry→exit path of a function (blocks in order).
type Path struct {
	Blocks []*ssa.BasicBlock
	idx    map[*ssa.BasicBlock]int
}

// EnumPaths enumerates the paths of fn from its entry to every Return/Panic
// exit over feasible edges, visiting each block at most once per path (a loop
// body is traversed at most once). It stops after max paths and reports
// whether the enumeration is complete.
func EnumPaths(fn *ssa.Function, max int) (paths []*Path, complete bool) {
	if len(fn.Blocks) == 0 {
		return nil, true
	}
	complete = true
	var cur []*ssa.BasicBlock
	on := map[*ssa.BasicBlock]bool{}
	var walk func(b *ssa.BasicBlock)
	walk = func(b *ssa.BasicBlock) {
		if !complete {
			return
		}
		if IsSelectPanicBlock(b) {
			return
		}
		cur = append(cur, b)
		on[b] = true
		defer func() { cur = cur[:len(cur)-1]; on[b] = false }()
		if ExitOf(b) != ExitNone {
			if len(paths) >= max {
				complete = false
				return
			}
			p := &Path{Blocks: append([]*ssa.BasicBlock{}, cur...), idx: map[*ssa.BasicBlock]int{}}
			for i, x := range p.Blocks {
				p.idx[x] = i
			}
			paths = append(paths, p)
			return
		}
		for _, s := range Succs(b) {
			if !on[s] {
				walk(s)
			}
		}
	}
	walk(fn.Blocks[0])
	return
}

// Has reports whether the path traverses the block.
func (p *Path) Has(b *ssa.BasicBlock) bool { _, ok := p.idx[b]; return ok }

// Resolve follows phis along the path: a phi defined in a block of the path is
// replaced by the edge value of the predecessor the path came from.
func (p *Path) Resolve(v ssa.Value) ssa.Value {
	for i := 0; i < 32; i++ {
		phi, ok := v.(*ssa.Phi)
		if !ok {
			return v
		}
		k, on := p.idx[phi.Block()]
		if !on || k == 0 {
			return v
		}
		pred := p.Blocks[k-1]
		found := false
		for j, pb := range phi.Block().Preds {
			if pb == pred {
				v = phi.Edges[j]
				found = true
				break
			}
		}
		if !found {
			return v
		}
	}
	return v
}

// Instrs returns the instructions of the path in execution order.
func (p *Path) Instrs() []ssa.Instruction {
	var out []ssa.Instruction
	for _, b := range p.Blocks {
		out = append(out, b.Instrs...)
	}
	return out
}

// Facts returns the branch facts taken along the path (comparisons and boolean
// subjects, with phis resolved along the path).
func (p *Path) Facts() (cmps []Fact, bools []BoolFact) {
	for i := 0; i+1 < len(p.Blocks); i++ {
		b := p.Blocks[i]
		iff, ok := b.Instrs[len(b.Instrs)-1].(*ssa.If)
		if !ok || len(b.Succs) != 2 || b.Succs[0] == b.Succs[1] {
			continue
		}
		pol := p.Blocks[i+1] == b.Succs[0]
		subj, sp := BoolSubject(p.Resolve(iff.Cond))
		val := pol == sp
		bools = append(bools, BoolFact{subj, val})
		if bo, ok := subj.(*ssa.BinOp); ok {
			switch bo.Op {
			case token.EQL, token.NEQ, token.LSS, token.LEQ, token.GTR, token.GEQ:
				op := bo.Op
				if !val {
					op = negate(op)
				}
				cmps = append(cmps, Fact{Op: op, X: p.Resolve(bo.X), Y: p.Resolve(bo.Y)})
			}
		}
	}
	return
}
