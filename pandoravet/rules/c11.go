package rules

import (
	"fmt"
	"go/token"
	"go/types"
	"os"
	"sort"
	"strings"

	. "pandoravet/core"

	"golang.org/x/tools/go/ssa"
)

func init() {
	register(&Pack{Property: "C11", Title: "Instance isolation and data-race freedom", NeedsCG: true, Run: runC11})
}

// sharedWrite is one write (or call on a non-thread-safe object) found in code that several
// instances may execute at the same time.
type sharedWrite struct {
	Fn    *ssa.Function
	Instr ssa.Instruction
	What  string // "field T.f", "map T.f[...]", "elem", "call (*rand.Rand).Intn on T.f", "global g"
	Key   string
	Class string // why it is safe ("" = needs a reasoned entry)
}

// concurrentRoots: methods that several goroutines call on the same object.
func concurrentRoots(c *Ctx) []*ssa.Function {
	P := c.P
	var roots []*ssa.Function
	add := func(f *ssa.Function) {
		if f != nil && len(f.Blocks) > 0 {
			roots = append(roots, f)
		}
	}
	// guns: Shoot of every gun (different gun objects, but shared ammo / deps behind them)
	for _, f := range shootRoots(c) {
		add(f)
	}
	// providers: Acquire, Release
	for _, pr := range providers(c, "O11.1") {
		add(pr.Acquire)
		add(pr.Release)
	}
	// aggregators: Report; schedules: Next, Left, Start; client pool: Next
	for _, nt := range P.PandoraNamedTypes() {
		for _, m := range []string{"Report", "Next", "Left", "Start"} {
			f := P.MethodFn(nt, m)
			if f == nil {
				continue
			}
			switch m {
			case "Report":
				if f.Signature.Params().Len() == 1 && f.Signature.Results().Len() == 0 {
					add(f)
				}
			default:
				if strings.HasSuffix(PkgOf(f), "/core/schedule") || strings.HasSuffix(PkgOf(f), "/core/coreutil") {
					add(f)
				}
			}
		}
	}
	for _, f := range P.GenericMethodFns("Next") {
		if strings.HasSuffix(PkgOf(f), "/core/clientpool") {
			add(f)
		}
	}
	sort.Slice(roots, func(i, j int) bool { return roots[i].String() < roots[j].String() })
	return roots
}

// perInstanceTypes: objects of these types are created per instance (or per shot) and never shared:
// writes to their own fields are instance-local. Everything they point to is NOT covered.
func isPerInstance(t types.Type) (string, bool) {
	pk, n := NamedOf(t)
	switch {
	case strings.HasPrefix(pk, Mod+"/components/guns/") && (n == "BaseGun" || n == "Gun" || n == "ScenarioGun" || n == "gunWrapper"):
		return "gun object (one per instance, O11.2)", true
	case pk == Mod+"/core/aggregator/netsample" && n == "Sample":
		return "sample (owned by the shooter between Acquire and Report)", true
	case pk == "net/http" && (n == "Request" || n == "Header"):
		return "http.Request built per Acquire / per step", true
	case pk == "net/url" && n == "URL":
		return "URL of the per-shot request", true
	case pk == Mod+"/components/providers/http/ammo" && n == "GunAmmo":
		return "GunAmmo value created per Acquire", true
	case pk == Mod+"/components/guns/http_scenario" && n == "RequestParts":
		return "request parts built per step", true
	case pk == Mod+"/core/coreutil" && n == "Waiter":
		return "Waiter (documented goroutine-unsafe, one per instance / start loop)", true
	case pk == "strings" && n == "Builder", pk == "bytes" && n == "Buffer":
		return "local buffer", true
	}
	return "", false
}

var nonThreadSafe = map[string]bool{"math/rand.Rand": true, "bufio.Reader": true, "bufio.Writer": true, "bufio.Scanner": true, "strings.Builder": true, "bytes.Buffer": true, "text/template.Template": false,
	// antchfx/xpath v1.2: (*Expr).Evaluate / Select write into the compiled query tree (groupQuery.Clone does not clone its input)
	"github.com/antchfx/xpath.Expr": true}

func c11Writes(c *Ctx, reach map[*ssa.Function]bool) []sharedWrite {
	P := c.P
	var out []sharedWrite
	var fns []*ssa.Function
	for f := range reach {
		fns = append(fns, f)
	}
	sort.Slice(fns, func(i, j int) bool {
		if fns[i].Pos() != fns[j].Pos() {
			return fns[i].Pos() < fns[j].Pos()
		}
		return fns[i].String() < fns[j].String()
	})
	for _, fn := range fns {
		if o := fn.Origin(); o != nil && o != fn && reach[o] {
			continue
		}
		var ls *Locksets
		locked := func(in ssa.Instruction) bool {
			if ls == nil {
				ls = NewLocksets(fn, func(v ssa.Value) bool {
					// any sync.Mutex / RWMutex reachable as field or global
					p, n := NamedOf(v.Type())
					return p == "sync" && (n == "Mutex" || n == "RWMutex")
				})
			}
			st := ls.Before[in]
			return st.W
		}
		EachInstr(fn, func(in ssa.Instruction) {
			var target ssa.Value
			what := ""
			switch x := in.(type) {
			case *ssa.Store:
				switch a := x.Addr.(type) {
				case *ssa.FieldAddr:
					fv, _ := FieldOf(a)
					_, tn := NamedOf(a.X.Type())
					what = "field " + tn + "." + fv.Name()
					target = a.X
				case *ssa.IndexAddr:
					what = "element"
					target = a.X
				case *ssa.Global:
					what = "global " + a.Name()
					target = a
				case *ssa.FreeVar:
					// a captured variable: private to the call only if the variable itself is created by a function
					// that runs per call of the concurrent code; a variable captured when the component was built
					// is shared by every instance that runs the closure
					if cell, _ := CellOf(a); cell != nil && reach[cell.Parent()] {
						return
					}
					what = "captured variable " + a.Name()
					target = a
				case *ssa.Alloc, *ssa.Parameter:
					return
				default:
					// store through a computed pointer
					what = "pointer store"
					target = x.Addr
				}
			case *ssa.MapUpdate:
				what = "map entry"
				target = x.Map
			default:
				cc := CC(in)
				if cc == nil || cc.IsInvoke() || len(cc.Args) == 0 {
					return
				}
				f := CalleeObj(cc)
				if f == nil || f.Pkg() == nil {
					return
				}
				rt := RecvTypeName(f)
				if rt == "" || !nonThreadSafe[f.Pkg().Path()+"."+rt] {
					return
				}
				what = "call (" + f.Pkg().Name() + "." + rt + ")." + f.Name()
				target = cc.Args[0]
			}
			if target == nil {
				return
			}
			w := sharedWrite{Fn: fn, Instr: in, What: what}
			w.Class = classifyTarget(P, fn, in, target, locked)
			expr := P.ExprAt(fn, in.Pos())
			if expr == "" {
				expr = what
			}
			w.Key = "write:" + fk(fn) + ":" + expr
			out = append(out, w)
		})
	}
	return out
}

// classifyTarget says why a write to target cannot race ("" if unknown).
func classifyTarget(P *Prog, fn *ssa.Function, at ssa.Instruction, target ssa.Value, locked func(ssa.Instruction) bool) string {
	if locked != nil && at != nil && locked(at) {
		return "a sync.Mutex / RWMutex write lock is held at the write"
	}
	if onceClosure(fn) {
		return "inside a closure run by sync.Once.Do"
	}
	if callersHoldLock(P, fn) {
		return "every call site of " + fn.Name() + " holds a sync.Mutex / RWMutex write lock"
	}
	if calledOnlyUnderOnce(P, fn) {
		return "every call site of " + fn.Name() + " is inside a closure run by sync.Once.Do"
	}
	return classifyValue(P, target, 0)
}

// calledOnlyUnderOnce: fn is an unexported function / method that is only called (plain calls) from closures run by
// sync.Once.Do - the helper into which the body of such a closure was moved.
func calledOnlyUnderOnce(P *Prog, fn *ssa.Function) bool {
	if fn.Parent() != nil || fn.Object() == nil || fn.Object().Exported() {
		return false
	}
	sites := PkgCallers(fn)
	if len(sites) == 0 {
		return false
	}
	for _, s := range sites {
		if _, isCall := s.(*ssa.Call); !isCall || !onceClosure(s.Parent()) {
			return false
		}
	}
	return true
}

// onceClosure: fn is a closure used only as the argument of (*sync.Once).Do.
func onceClosure(fn *ssa.Function) bool {
	par := fn.Parent()
	if par == nil {
		return false
	}
	ok, n := true, 0
	EachInstr(par, func(in ssa.Instruction) {
		mc, isMC := in.(*ssa.MakeClosure)
		if !isMC || mc.Fn != ssa.Value(fn) || mc.Referrers() == nil {
			return
		}
		for _, r := range *mc.Referrers() {
			if _, isDbg := r.(*ssa.DebugRef); isDbg {
				continue
			}
			n++
			if !IsCall(r, Spec{"sync", "Once", "Do"}) {
				ok = false
			}
		}
	})
	return ok && n > 0
}

var classifyMemo = map[ssa.Value]string{}
var classifyBusy = map[ssa.Value]bool{}

// callSitesOf returns the argument lists with which fn may be entered from pandora code:
// static call sites plus interface calls of the same method name on an interface its receiver implements.
func callSitesOf(P *Prog, fn *ssa.Function) [][]ssa.Value {
	var out [][]ssa.Value
	for _, site := range P.StaticCallSites(fn) {
		out = append(out, CC(site).Args)
	}
	if fn.Signature.Recv() == nil {
		return out
	}
	recv := fn.Signature.Recv().Type()
	for _, g := range P.PandoraFuncs() {
		if !IsProdPkg(PkgOf(g)) || (g.Pos().IsValid() && !IsProdFile(P.File(g.Pos()))) {
			continue
		}
		EachInstr(g, func(in ssa.Instruction) {
			cc := CC(in)
			if cc == nil || !cc.IsInvoke() || cc.Method.Name() != fn.Name() {
				return
			}
			it, _ := cc.Value.Type().Underlying().(*types.Interface)
			if it == nil || !(types.Implements(recv, it) || types.Implements(types.NewPointer(recv), it)) {
				return
			}
			out = append(out, append([]ssa.Value{cc.Value}, cc.Args...))
		})
	}
	return out
}

func classifyValue(P *Prog, target ssa.Value, level int) string {
	if os.Getenv("PV_DEBUG_C11") != "" && target.Parent() != nil && strings.Contains(target.Parent().String(), os.Getenv("PV_DEBUG_C11")) {
		defer func() {
			fmt.Fprintf(os.Stderr, "classify L%d %s %T %s in %s -> %q\n", level, target.Name(), target, target.String(), target.Parent(), classifyMemo[target])
		}()
	}
	if r, ok := classifyMemo[target]; ok {
		return r
	}
	if classifyBusy[target] || level > 4 {
		return ""
	}
	classifyBusy[target] = true
	defer delete(classifyBusy, target)
	res := classifyValue1(P, target, level)
	classifyMemo[target] = res
	return res
}

func classifyValue1(P *Prog, target ssa.Value, level int) string {
	// walk the access path down to its roots
	seen := map[ssa.Value]bool{}
	var classes []string
	unknown := false
	var walk func(v ssa.Value, depth int)
	walk = func(v ssa.Value, depth int) {
		if v == nil || seen[v] || depth > 12 {
			return
		}
		seen[v] = true
		if why, ok := isPerInstance(v.Type()); ok {
			classes = append(classes, why)
			return
		}
		switch x := v.(type) {
		case *ssa.Alloc:
			classes = append(classes, "local variable / allocation of this call")
		case *ssa.MakeMap, *ssa.MakeSlice, *ssa.MakeChan:
			classes = append(classes, "map / slice made in this call")
		case *ssa.FieldAddr:
			walk(x.X, depth+1)
		case *ssa.Field:
			if isRefType(x.Type()) {
				unknown = true // a reference copied out of a struct value points to whatever the original did
				return
			}
			walk(x.X, depth+1)
		case *ssa.IndexAddr:
			walk(x.X, depth+1)
		case *ssa.Index:
			if isRefType(x.Type()) {
				unknown = true
				return
			}
			walk(x.X, depth+1)
		case *ssa.Slice:
			walk(x.X, depth+1)
		case *ssa.Phi:
			for _, e := range x.Edges {
				walk(e, depth+1)
			}
		case *ssa.ChangeType:
			walk(x.X, depth+1)
		case *ssa.Convert:
			walk(x.X, depth+1)
		case *ssa.MakeInterface:
			walk(x.X, depth+1)
		case *ssa.TypeAssert:
			walk(x.X, depth+1)
		case *ssa.Extract:
			walk(x.Tuple, depth+1)
		case *ssa.UnOp:
			if x.Op == token.ARROW {
				classes = append(classes, "value just received from a channel (handed over to exactly one receiver)")
				return
			}
			if x.Op == token.MUL {
				// load of a pointer: from a local cell -> its stores; from a field -> shared unless the owner is per-instance
				switch a := x.X.(type) {
				case *ssa.Alloc:
					for _, st := range StoresTo(a) {
						walk(st.Val, depth+1)
					}
					if len(StoresTo(a)) == 0 {
						classes = append(classes, "zero local")
					}
				case *ssa.FreeVar:
					for _, b := range BoundValues(a) {
						walk(b, depth+1)
					}
					if cell, _ := CellOf(a); cell != nil {
						for _, st := range StoresTo(cell) {
							walk(st.Val, depth+1)
						}
					}
				case *ssa.FieldAddr:
					// the pointee of a field: if the owner is a per-shot object, look at what is stored into that field
					if _, perInst := isPerInstance(a.X.Type()); perInst || classifyValue(P, a.X, level+1) != "" {
						fv, _ := FieldOf(a)
						stores := P.FieldStores(fv)
						if fv == nil || len(stores) == 0 {
							unknown = true
							return
						}
						for _, sv := range stores {
							if cls := classifyValue(P, sv, level+1); cls == "" {
								unknown = true
							} else {
								classes = append(classes, "value of the per-shot field "+fv.Name()+": "+cls)
							}
						}
						return
					}
					unknown = true
				case *ssa.Global:
					unknown = true
				default:
					unknown = true
				}
				return
			}
			walk(x.X, depth+1)
		case *ssa.Call:
			// value returned by a call: fresh if the callee allocates it
			if IsBuiltinCall(x, "append") {
				walk(x.Call.Args[0], depth+1)
				return
			}
			if sc := x.Call.StaticCallee(); sc != nil && returnsFresh(sc, 0) {
				classes = append(classes, "fresh value returned by "+sc.Name())
				return
			}
			if sc := x.Call.StaticCallee(); sc != nil {
				if pi := returnsParam(sc); pi >= 0 && pi < len(x.Call.Args) {
					walk(x.Call.Args[pi], depth+1)
					return
				}
			}
			if x.Call.IsInvoke() {
				// every pandora implementation returns a value it owns alone (fresh, or handed over through a channel)
				it, _ := x.Call.Value.Type().Underlying().(*types.Interface)
				nImpl, allOwned := 0, true
				var impls []*ssa.Function
				for _, nt := range P.PandoraNamedTypes() {
					if it != nil && Implements(nt, it) {
						if m := P.MethodFn(nt, x.Call.Method.Name()); m != nil {
							impls = append(impls, m)
						}
					}
				}
				for _, g := range P.GenericMethodFns(x.Call.Method.Name()) {
					if rt := g.Signature.Recv(); rt != nil && it != nil {
						impls = append(impls, g)
					}
				}
				for _, m := range impls {
					nImpl++
					if !returnsFresh(m, 0) && !returnsOwned(P, m, 0, level) {
						allOwned = false
					}
				}
				if nImpl > 0 && allOwned {
					classes = append(classes, "value owned by the caller as returned by every implementation of "+x.Call.Method.Name())
					return
				}
			}
			if sc := x.Call.StaticCallee(); sc != nil && IsPandora(PkgOf(sc)) && returnsOwned(P, sc, 0, level) {
				classes = append(classes, "value owned by the caller as returned by "+sc.Name())
				return
			}
			if f := CalleeObj(&x.Call); f != nil && f.Pkg() != nil && !IsPandora(f.Pkg().Path()) {
				switch f.Pkg().Path() + "." + f.Name() {
				case "net/http.NewRequest", "net/http.Clone", "maps.Clone", "bytes.NewBuffer", "bytes.NewReader", "strings.NewReader", "net/http.ReadRequest",
					"strings.Split", "strings.SplitN", "strings.Fields", "bytes.Split":
					classes = append(classes, "fresh value returned by "+f.Name())
					return
				}
				if f.Name() == "Clone" || f.Name() == "WithContext" {
					classes = append(classes, "fresh copy returned by "+f.Name())
					return
				}
			}
			unknown = true
		case *ssa.Parameter:
			// receiver / argument: per-instance types were handled above; otherwise what every caller passes
			pf := x.Parent()
			idx := -1
			for i, q := range pf.Params {
				if q == x {
					idx = i
				}
			}
			sites := callSitesOf(P, pf)
			if idx < 0 || len(sites) == 0 {
				unknown = true
				return
			}
			for _, args := range sites {
				if idx >= len(args) {
					unknown = true
					continue
				}
				if cls := classifyValue(P, args[idx], level+1); cls == "" {
					unknown = true
				} else {
					classes = append(classes, "argument of every caller: "+cls)
				}
			}
		case *ssa.Global:
			unknown = true
		case *ssa.FreeVar:
			unknown = true
		case *ssa.Lookup:
			if !isRefType(x.Type()) {
				walk(x.X, depth+1)
				return
			}
			// a reference read out of a map: what was stored under that key?
			key, isK := ConstString(x.Index)
			if !isK {
				unknown = true
				return
			}
			found := false
			for _, g := range P.PandoraFuncs() {
				if !IsProdPkg(PkgOf(g)) {
					continue
				}
				EachInstr(g, func(in ssa.Instruction) {
					mu, ok := in.(*ssa.MapUpdate)
					if !ok || !types.Identical(mu.Map.Type(), x.X.Type()) {
						return
					}
					if k2, ok := ConstString(mu.Key); !ok || k2 != key {
						return
					}
					found = true
					if cls := classifyValue(P, mu.Value, level+1); cls == "" {
						unknown = true
					} else {
						classes = append(classes, "value stored under key "+key+": "+cls)
					}
				})
			}
			if !found {
				unknown = true
			}
		case *ssa.Next:
			walk(x.Iter, depth+1)
		case *ssa.Range:
			walk(x.X, depth+1)
		default:
			unknown = true
		}
	}
	walk(target, 0)
	if unknown || len(classes) == 0 {
		return ""
	}
	sort.Strings(classes)
	return strings.Join(uniq(classes), "; ")
}

var freshMemo = map[*ssa.Function]int{}

// returnsFresh: every return of fn yields, as result #idx, a value allocated inside fn.
func returnsFresh(fn *ssa.Function, idx int) bool {
	if v, ok := freshMemo[fn]; ok {
		return v == 1
	}
	freshMemo[fn] = 0
	if len(fn.Blocks) == 0 {
		return false
	}
	ok := true
	n := 0
	for _, b := range fn.Blocks {
		r, isR := b.Instrs[len(b.Instrs)-1].(*ssa.Return)
		if !isR || len(r.Results) <= idx {
			continue
		}
		n++
		for _, rt := range Roots(r.Results[idx], false) {
			switch x := rt.(type) {
			case *ssa.Alloc, *ssa.MakeMap, *ssa.MakeSlice:
			case *ssa.Const:
			case *ssa.Call:
				if sc := x.Call.StaticCallee(); sc != nil && sc != fn && returnsFresh(sc, 0) {
					continue
				}
				ok = false
			default:
				ok = false
			}
		}
	}
	if ok && n > 0 {
		freshMemo[fn] = 1
	}
	return ok && n > 0
}

// c11Reasoned: writes that the classifier cannot place, each with the reason it cannot race.
var c11Reasoned = func() map[string]string {
	m := map[string]string{}
	why := "Reset is called only by Decoder.Release on the ammo being released: by O3.2 the instance that acquired it holds its only reference outside the provider (the gun never keeps it), and Release is the hand-back; for the http provider the released value is the GunAmmo wrapper, so this arm is not even taken"
	for _, f := range []string{"body", "header", "method", "tag", "url"} {
		m["write:(*components/providers/http/decoders/ammo.Ammo).Reset:field Ammo."+f] = why
	}
	for _, f := range []string{"buff", "commonHeaders", "filePosition", "tag"} {
		m["write:(*components/providers/http/decoders/ammo.RawAmmo).Reset:field RawAmmo."+f] = why
	}
	m["callback:(*core/aggregator.dataSinkAggregator).Run->newEncoder"] = "the flush-counter callback is created by Run and handed to the encoder that Run itself creates and drives: it runs only on the aggregator's own goroutine (it is in scope only because an unresolved func() call is resolved to every func() closure)"
	return m
}()

func runC11(c *Ctx) {
	c.Rule("O11.1", "shared-state discipline: in every function reachable from a method that several goroutines call concurrently (Gun.Shoot of every gun, Provider.Acquire/Release, Aggregator.Report, Schedule.Next/Left/Start, clientpool.Next), every write - store to a field, map update, element store, or call on a non-thread-safe standard object (*rand.Rand, bufio, strings.Builder, bytes.Buffer) - targets memory that is (a) written under a held mutex, (b) allocated in this call / per-instance by construction (gun, sample, per-shot request, Waiter), or (c) listed with the reason it cannot race")
	c.Rule("O11.2", "one gun per instance, one shooter per gun: newInstance calls deps.newGun() once and keeps the gun only in instance.gun; instance.gun.Shoot is called only from instance.Run; every instance.Run call is in its own goroutine")
	c.Rule("O11.3", "clone discipline: Clone() of both scenario ammo types copies every field of the struct except the id")
	c.Rule("O11.4", "copies before mutation: Request.GetHeaders / GetBody return fresh objects")
	c.Rule("O11.5", "a sample is not touched after it was reported: no use of the sample is reachable after Aggregator.Report(sample) in the same function (the aggregator's goroutine reads it and returns it to the pool)")
	roots := concurrentRoots(c)
	reach := c.P.Reach(roots)
	ws := c11Writes(c, reach)
	c.Note("%d concurrent entry points, %d reachable production functions, %d writes", len(roots), len(reach), len(ws))
	nLocal := 0
	byKey := map[string]bool{}
	for _, w := range ws {
		switch {
		case w.Class != "":
			nLocal++
			if strings.Contains(w.Class, "Mutex") {
				c.OK("O11.1", w.Key, w.Instr.Pos(), w.What+": "+w.Class)
			}
		case c11Reasoned[w.Key] != "":
			c.OK("O11.1", w.Key, w.Instr.Pos(), w.What+": reasoned: "+c11Reasoned[w.Key])
		case c11Reasoned[c11CallbackKey(c.P, w)] != "":
			c.OK("O11.1", w.Key, w.Instr.Pos(), w.What+": reasoned ("+c11CallbackKey(c.P, w)+"): "+c11Reasoned[c11CallbackKey(c.P, w)])
		default:
			if !byKey[w.Key+c.P.Pos(w.Instr.Pos())] {
				byKey[w.Key+c.P.Pos(w.Instr.Pos())] = true
				c.Bad("O11.1", w.Key, w.Instr.Pos(), w.What+" in code that several instances run at the same time: the target is not provably local to the shot / instance, no mutex is held, and the write is not listed with a reason")
			}
		}
	}
	c11Rest(c)
	c.OK("O11.1", "writes-to-call-local-or-per-instance-memory", 0, fmt.Sprintf("%d of %d writes target memory allocated in the call or per-instance objects (gun, sample, request, Waiter)", nLocal, len(ws)))
	c.Floor("O11.1", "writes inspected", len(ws), 100)
}

// returnsParam: every return of fn yields (as result #0) the same parameter; returns its index or -1.
func returnsParam(fn *ssa.Function) int {
	idx := -1
	for _, b := range fn.Blocks {
		r, ok := b.Instrs[len(b.Instrs)-1].(*ssa.Return)
		if !ok || len(r.Results) == 0 {
			continue
		}
		p, isP := r.Results[0].(*ssa.Parameter)
		if !isP {
			return -1
		}
		for i, q := range fn.Params {
			if q == p {
				if idx >= 0 && idx != i {
					return -1
				}
				idx = i
			}
		}
	}
	return idx
}

var ownedBusy = map[*ssa.Function]bool{}

// returnsOwned: every return of fn yields, as result #idx, a value that classifyValue can place
// (allocated in the call, received from a channel, per-instance object ...).
func returnsOwned(P *Prog, fn *ssa.Function, idx int, level int) bool {
	if ownedBusy[fn] || len(fn.Blocks) == 0 || level > 3 {
		return false
	}
	ownedBusy[fn] = true
	defer delete(ownedBusy, fn)
	n := 0
	for _, b := range fn.Blocks {
		r, ok := b.Instrs[len(b.Instrs)-1].(*ssa.Return)
		if !ok || len(r.Results) <= idx {
			continue
		}
		if IsNilConst(r.Results[idx]) {
			continue
		}
		n++
		if classifyValue(P, r.Results[idx], level+1) == "" {
			return false
		}
	}
	return n > 0
}

var callerLockMemo = map[*ssa.Function]int{}

// callersHoldLock: fn is only called statically, and at every call site the caller holds a write lock.
func callersHoldLock(P *Prog, fn *ssa.Function) bool {
	if v, ok := callerLockMemo[fn]; ok {
		return v == 1
	}
	callerLockMemo[fn] = 0
	sites := P.StaticCallSites(fn)
	if len(sites) == 0 || fn.Parent() != nil {
		return false
	}
	if fn.Object() != nil && fn.Object().Exported() {
		return false
	}
	for _, site := range sites {
		ls := NewLocksets(site.Parent(), func(v ssa.Value) bool {
			p, n := NamedOf(v.Type())
			return p == "sync" && (n == "Mutex" || n == "RWMutex")
		})
		if !ls.Before[site].W {
			return false
		}
	}
	callerLockMemo[fn] = 1
	return true
}

func c11Rest(c *Ctx) {
	P := c.P
	// ---- O11.2
	ni := P.Func("core/engine", "", "newInstance")
	run := P.Func("core/engine", "instance", "Run")
	if ni == nil || run == nil {
		c.Anchor("O11.2", "core/engine.newInstance / (*instance).Run")
	} else {
		n := 0
		var gunCall *ssa.Call
		EachInstr(ni, func(in ssa.Instruction) {
			if cc := CC(in); cc != nil && IsFieldCall(cc, "", "newGun") {
				n++
				gunCall, _ = in.(*ssa.Call)
			}
		})
		okStore := false
		if gunCall != nil {
			for f, v := range compositeFields(ni, "instance") {
				if f == "gun" && DerivesOnly(v, false, IsResultOf(gunCall, 0)) {
					okStore = true
				}
			}
			// the gun value goes only to Bind (receiver) and into instance.gun
			var gunVal ssa.Value = gunCall
			for _, r := range *gunCall.Referrers() {
				if ex, ok := r.(*ssa.Extract); ok && ex.Index == 0 {
					gunVal = ex
				}
			}
			for _, u := range UsesOf(gunVal, nil) {
				switch {
				case u.Kind == "store":
					// only into the gun field of the instance under construction
					st, _ := u.Instr.(*ssa.Store)
					fa, isFA := st.Addr.(*ssa.FieldAddr)
					if st == nil || !isFA {
						okStore = false
					} else if fv, base := FieldOf(fa); fv == nil {
						okStore = false
					} else if _, tn := NamedOf(base.Type()); tn != "instance" {
						// (the gun field, or another field of the same instance: the gun seen as io.Closer, say)
						okStore = false
					}
				case u.Kind == "cmp", strings.HasPrefix(u.Kind, "recv:"), u.Kind == "typeassert":
				default:
					okStore = false
				}
			}
		}
		c.Check(n == 1 && okStore, "O11.2", fk(ni)+":one-fresh-gun-per-instance", ni.Pos(), fmt.Sprintf("deps.newGun() calls: %d (want 1); result kept only in instance.gun and used as Bind receiver: %v", n, okStore))
		// Shoot on instance.gun only from instance.Run (and its closures)
		sp := P.SSAPkg("core/engine")
		nShoot, okShoot := 0, true
		for _, g := range PkgFuncs(sp) {
			if !IsProdFile(P.File(g.Pos())) {
				continue
			}
			EachInstr(g, func(in ssa.Instruction) {
				if IsCall(in, Spec{"./core", "Gun", "Shoot"}) {
					nShoot++
					// inside instance.Run: in it, in one of its closures, or in a helper only it calls
					if !P.WithinOnly(g, func(f *ssa.Function) bool { return f == run }, 4) || !IsFieldLoad(CC(in).Value, "instance", "gun") {
						okShoot = false
					}
				}
			})
		}
		c.Check(nShoot == 1 && okShoot, "O11.2", "core/engine:gun-shot-only-by-its-instance", run.Pos(), fmt.Sprintf("%d Gun.Shoot call(s) in core/engine, each on instance.gun inside instance.Run: %v", nShoot, okShoot))
		// every instance.Run call is inside a go closure
		nRun, okRun := 0, true
		for _, g := range PkgFuncs(sp) {
			if !IsProdFile(P.File(g.Pos())) {
				continue
			}
			EachInstr(g, func(in ssa.Instruction) {
				if cc := CC(in); cc != nil && cc.StaticCallee() == run {
					nRun++
					// g (an enclosing closure, or every caller of the helper it is in) is started by a go statement
					started := P.WithinOnly(g, func(f *ssa.Function) bool { return inGoClosure(f) || isGoTarget(P, f) }, 4)
					if !started {
						okRun = false
					}
				}
			})
		}
		c.Check(nRun >= 1 && okRun, "O11.2", "core/engine:each-instance-run-by-its-own-goroutine", run.Pos(), fmt.Sprintf("%d instance.Run call site(s), each reached only from a go statement: %v", nRun, okRun))
	}
	// ---- O11.3 clone discipline
	for _, t := range []struct{ rel, idField string }{{"components/guns/http_scenario", "ID"}, {"components/guns/grpc/scenario", "id"}} {
		cl := P.Func(t.rel, "Scenario", "Clone")
		pk := P.Pkg(t.rel)
		if cl == nil || pk == nil {
			c.Anchor("O11.3", t.rel+".(*Scenario).Clone")
			continue
		}
		tn, _ := pk.Types.Scope().Lookup("Scenario").(*types.TypeName)
		st := tn.Type().Underlying().(*types.Struct)
		got := compositeFields(cl, "Scenario")
		var missing, wrong []string
		for i := 0; i < st.NumFields(); i++ {
			f := st.Field(i)
			if f.Name() == t.idField {
				if _, set := got[f.Name()]; set {
					wrong = append(wrong, f.Name()+" (the id must be fresh per clone)")
				}
				continue
			}
			v, set := got[f.Name()]
			if !set {
				missing = append(missing, f.Name())
				continue
			}
			if !IsFieldLoad(v, "Scenario", f.Name()) {
				wrong = append(wrong, f.Name())
			}
		}
		c.Check(len(missing) == 0 && len(wrong) == 0, "O11.3", fk(cl)+":copies-every-field-but-the-id", cl.Pos(), fmt.Sprintf("fields not copied: %v; fields copied from something else: %v", missing, wrong))
	}
	// ---- O11.4
	for _, m := range []string{"GetHeaders", "GetBody"} {
		fn := P.Func("components/guns/http_scenario", "Request", m)
		if fn == nil {
			c.Anchor("O11.4", "http_scenario.(*Request)."+m)
			continue
		}
		ok := returnsFresh(fn, 0)
		if !ok {
			// []byte(*r.Body) is a conversion that copies
			ok = true
			for _, b := range fn.Blocks {
				if r, isR := b.Instrs[len(b.Instrs)-1].(*ssa.Return); isR {
					var rts []ssa.Value
					if cv, isCv := r.Results[0].(*ssa.Convert); isCv {
						rts = []ssa.Value{cv}
					} else {
						rts = rootsNoParam(r.Results[0])
					}
					for _, rt := range rts {
						switch x := rt.(type) {
						case *ssa.Const, *ssa.MakeMap, *ssa.MakeSlice, *ssa.Alloc:
						case *ssa.Convert:
							// string -> []byte copies
							if b, isB := x.X.Type().Underlying().(*types.Basic); !isB || b.Info()&types.IsString == 0 {
								ok = false
							}
						default:
							ok = false
						}
					}
				}
			}
		}
		c.Check(ok, "O11.4", fk(fn)+":returns-a-fresh-copy", fn.Pos(), m+" must return a map / slice made in the call (the templater writes into it; the step is shared by all instances)")
	}
	// ---- O11.5 no use after report
	n := 0
	for _, fn := range P.ProdFuncs() {
		if !strings.Contains(PkgOf(fn), "/components/guns/") && PkgOf(fn) != Mod+"/core/engine" {
			continue
		}
		EachInstr(fn, func(in ssa.Instruction) {
			if !isReport(in) {
				return
			}
			if _, isDefer := in.(*ssa.Defer); isDefer {
				return
			}
			n++
			arg := CC(in).Args[0]
			var later []string
			for _, r := range Roots(arg, false) {
				refs := r.Referrers()
				if refs == nil {
					continue
				}
				for _, u := range *refs {
					if u == in || u.Parent() != fn {
						continue
					}
					if _, isDbg := u.(*ssa.DebugRef); isDbg {
						continue
					}
					if CanReach(in, u) {
						later = append(later, P.Pos(u.Pos()))
					}
				}
			}
			// the deferred report of a closure: nothing follows it inside the closure
			c.Check(len(later) == 0, "O11.5", fk(fn)+":sample-not-used-after-report", in.Pos(), fmt.Sprintf("uses of the reported sample reachable after Report: %v", later))
		})
	}
	c.Floor("O11.5", "Report call sites in guns and engine", n, 5)
	// interprocedural: a callee that may have reported its sample parameter before returning with (without) an
	// error must not have that sample touched by its caller on the err != nil (== nil) edge
	nI := 0
	for _, fn := range P.ProdFuncs() {
		if !strings.Contains(PkgOf(fn), "/components/guns/") || fn.Parent() != nil {
			continue
		}
		pi := -1
		for i, p := range fn.Params {
			if _, nm := NamedOf(p.Type()); nm == "Sample" {
				pi = i
			}
		}
		if pi < 0 {
			continue
		}
		sm := reportSumm()
		onParam := func(in ssa.Instruction) (int, int) {
			if isReport(in) {
				if SliceAny(CC(in).Args[0], func(v ssa.Value) bool { return v == ssa.Value(fn.Params[pi]) }) {
					return 1, 1
				}
				return 0, 0
			}
			return sm.Weight(in)
		}
		errMax, nilMax := 0, 0
		hasErrResult := false
		for _, b := range fn.Blocks {
			r, ok := b.Instrs[len(b.Instrs)-1].(*ssa.Return)
			if !ok || b == fn.Recover {
				continue
			}
			iv := PathQuery{Fn: fn, Weight: onParam, Exit: func(x *ssa.BasicBlock) bool { return x == b }}.Count()
			if iv.NoPath {
				continue
			}
			isNil, known := retErrIsNil(r)
			if known {
				hasErrResult = true
			}
			if known && !isNil {
				if iv.Max > errMax {
					errMax = iv.Max
				}
			} else if iv.Max > nilMax {
				nilMax = iv.Max
			}
		}
		if errMax == 0 && nilMax == 0 {
			continue
		}
		for _, site := range P.StaticCallSites(fn) {
			call, ok := site.(*ssa.Call)
			if !ok || site.Parent() == fn {
				continue
			}
			nI++
			arg := call.Call.Args[pi]
			usesOn := func(edge func(from, to *ssa.BasicBlock) bool) []string {
				var out []string
				caller := call.Parent()
				for _, r := range Roots(arg, false) {
					if r.Referrers() == nil {
						continue
					}
					for _, u := range *r.Referrers() {
						if u == ssa.Instruction(call) || u.Parent() != caller {
							continue
						}
						if _, isDbg := u.(*ssa.DebugRef); isDbg {
							continue
						}
						iv := PathQuery{Fn: caller, Start: call, Edge: edge, StopBlock: loopHeaderOf(call.Block()), Weight: func(in ssa.Instruction) (int, int) {
							if in == u {
								return 1, 1
							}
							return 0, 0
						}}.Count()
						if !iv.NoPath && iv.Max > 0 {
							out = append(out, P.Pos(u.Pos()))
						}
					}
				}
				return out
			}
			isE := func(v ssa.Value) bool {
				e, _ := errResult(call)
				return e != nil && DerivesAny(v, false, func(r ssa.Value) bool { return r == e })
			}
			var bad []string
			if hasErrResult {
				if errMax > 0 {
					bad = append(bad, usesOn(AssumeNonNil(isE))...)
				}
				if nilMax > 0 {
					bad = append(bad, usesOn(assumeNil(isE))...)
				}
			} else {
				bad = append(bad, usesOn(nil)...)
			}
			c.Check(len(bad) == 0, "O11.5", fk(call.Parent())+":sample-not-used-after-"+fn.Name()+"-reported-it", call.Pos(),
				fmt.Sprintf("%s may report the sample it is given before returning (with an error: %v, without: %v); the caller touches that sample afterwards on such a path at %v (the aggregator goroutine already owns it and returns it to the pool)", fn.Name(), errMax > 0, nilMax > 0, bad))
		}
	}
	c.Floor("O11.5", "call sites of sample-reporting helpers", nI, 2)
}

// inGoClosure: fn is a closure whose MakeClosure is the callee of a go statement.
func inGoClosure(fn *ssa.Function) bool {
	par := fn.Parent()
	if par == nil {
		return false
	}
	found := false
	EachInstr(par, func(in ssa.Instruction) {
		if g, ok := in.(*ssa.Go); ok {
			if mc, ok := g.Call.Value.(*ssa.MakeClosure); ok && mc.Fn == ssa.Value(fn) {
				found = true
			}
		}
	})
	return found
}

func isRefType(t types.Type) bool {
	switch u := t.Underlying().(type) {
	case *types.Map, *types.Slice, *types.Pointer, *types.Chan, *types.Signature, *types.Interface:
		return true
	case *types.Tuple:
		for i := 0; i < u.Len(); i++ {
			if isRefType(u.At(i).Type()) {
				return true
			}
		}
	}
	return false
}

// isGoTarget: fn is a plain function / method that is only ever started with `go fn(...)`.
func isGoTarget(P *Prog, fn *ssa.Function) bool {
	if fn.Parent() != nil {
		return false
	}
	sites := P.StaticCallSites(fn)
	if len(sites) == 0 {
		return false
	}
	for _, s := range sites {
		if _, ok := s.(*ssa.Go); !ok {
			return false
		}
	}
	return true
}

// c11CallbackKey names a write by the flow that owns it, when the writing function is a callback - a closure, or a
// method used as a method value - made in one function G, handed over only as an argument of one call in G, and writing
// only to a local variable of G (captured, or the receiver the method value is bound to):
// "callback:<G>-><callee>", callee being the function called or the field the called function value is read from.
// Such a write is listed by what the callback is for, not by the name the closure happens to have.
func c11CallbackKey(P *Prog, w sharedWrite) string {
	fn := w.Fn
	var makers []*ssa.MakeClosure
	var scan []*ssa.Function
	if par := fn.Parent(); par != nil {
		scan = WithClosures(par)
	} else if fn.Pkg != nil {
		scan = PkgFuncs(fn.Pkg)
	}
	for _, g := range scan {
		EachInstr(g, func(in ssa.Instruction) {
			if mc, ok := in.(*ssa.MakeClosure); ok {
				if f, _ := mc.Fn.(*ssa.Function); f != nil && (f == fn || (f != fn && BoundTarget(f) == fn)) {
					makers = append(makers, mc)
				}
			}
		})
	}
	if len(makers) != 1 || makers[0].Referrers() == nil {
		return ""
	}
	mc := makers[0]
	g := mc.Parent()
	var call ssa.CallInstruction
	for _, r := range *mc.Referrers() {
		switch x := r.(type) {
		case *ssa.DebugRef:
		case ssa.CallInstruction:
			if x.Common().Value == ssa.Value(mc) || call != nil {
				return ""
			}
			call = x
		default:
			return ""
		}
	}
	if call == nil {
		return ""
	}
	// the target: a variable of g
	local := false
	switch st := w.Instr.(type) {
	case *ssa.Store:
		switch a := st.Addr.(type) {
		case *ssa.FreeVar:
			if cell, _ := CellOf(a); cell != nil && cell.Parent() == g {
				local = true
			}
		case *ssa.FieldAddr:
			if len(fn.Params) > 0 && a.X == ssa.Value(fn.Params[0]) && fn.Signature.Recv() != nil && len(mc.Bindings) == 1 {
				if al, ok := mc.Bindings[0].(*ssa.Alloc); ok && al.Parent() == g {
					local = true
				}
			}
		}
	}
	if !local {
		return ""
	}
	callee := ""
	cc := call.Common()
	if sc := cc.StaticCallee(); sc != nil {
		callee = sc.Name()
	} else if fv, _ := FieldOf(cc.Value); fv != nil {
		callee = fv.Name()
	}
	if callee == "" {
		return ""
	}
	return "callback:" + fk(g) + "->" + callee
}
