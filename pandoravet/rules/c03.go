package rules

import (
	"fmt"
	"go/token"
	"go/types"
	"strings"

	. "pandoravet/core"

	"golang.org/x/tools/go/ssa"
)

var (
	sAcquire    = Spec{"./core", "Provider", "Acquire"}
	sRelease    = Spec{"./core", "Provider", "Release"}
	sShoot      = Spec{"./core", "Gun", "Shoot"}
	sReport     = Spec{"./core", "Aggregator", "Report"}
	sWait       = Spec{"./core/coreutil", "Waiter", "Wait"}
	sIsFinished = Spec{"./core/coreutil", "Waiter", "IsFinished"}
	sIsSlowDown = Spec{"./core/coreutil", "Waiter", "IsSlowDown"}
	sNewWaiter  = Spec{"./core/coreutil", "", "NewWaiter"}
	sCounterAdd = Spec{"./lib/monitoring", "Counter", "Add"}
	sDiscarded  = Spec{"./core/aggregator/netsample", "", "DiscardedShootSample"}
)

func init() {
	register(&Pack{Property: "C03", Title: "Engine shot accounting", Run: runC03})
}

// engineLoop locates instance.Run and the function (Run itself, a closure or a
// same-package helper) that holds the Acquire call of the shooting loop.
func engineLoop(c *Ctx, id string) (run, body *ssa.Function, acq *ssa.Call) {
	run = c.P.Func("core/engine", "instance", "Run")
	if run == nil {
		c.Anchor(id, "core/engine.(*instance).Run")
		return
	}
	fs := FindFuncs(run, 2, func(f *ssa.Function) bool { return HasCall(f, sAcquire) })
	if len(fs) != 1 {
		c.Anchor(id, fmt.Sprintf("the one function under instance.Run calling Provider.Acquire (found %d)", len(fs)))
		return run, nil, nil
	}
	body = fs[0]
	calls := Calls(body, sAcquire)
	if len(calls) != 1 {
		c.Anchor(id, "exactly one Provider.Acquire call in the shooting loop")
		return run, nil, nil
	}
	acq, _ = calls[0].(*ssa.Call)
	if acq == nil {
		c.Anchor(id, "Provider.Acquire is a plain call")
		body = nil
	}
	return
}

func fk(fn *ssa.Function) string { return FuncKey(fn) }

func runC03(c *Ctx) {
	c.Rule("O3.8", "a drained shared profile says so: the engine stops acquiring ammo when Schedule.Left() reaches 0, so the token index of doAtSchedule is drawn exactly once per Next by one read-modify-write, is compared with n as drawn, and Left() is clamped at 0 (the rules of O2.1 and O2.8, shared) - an index pushed past n with an unclamped Left() leaves the instances acquiring and discarding ammo for ever")
	c.Borrow("C02", runC02, map[string]string{"O2.1": "O3.8", "O2.8": "O3.8"})
	c.Rule("O3.1", "acquire/release pairing: on every path on which Provider.Acquire returned ok, Provider.Release(that ammo) runs exactly once and never before Gun.Shoot; on the !ok path it runs zero times and the loop ends with the out-of-ammo sentinel the await loop recognises")
	c.Rule("O3.2", "no use after release: the acquired ammo is only passed to Release, Gun.Shoot and debug logging; it is not stored, sent, captured or returned")
	c.Rule("O3.3", "token after ammo, ammo only while tokens may remain: Waiter.Wait is dominated by the ok edge of Acquire; Acquire is dominated by the false edge of Waiter.IsFinished")
	c.Rule("O3.4", "one shot or one discard per token: on every path after Waiter.Wait returned true exactly one of Gun.Shoot(ammo) / Aggregator.Report(DiscardedShootSample()) occurs; after Wait returned false neither")
	c.Rule("O3.5", "counters bracket the shot: Request.Add(1) dominates every Shoot, Response.Add(1) post-dominates it, each at most once per token, never on the discard path")
	c.Rule("O3.6", "shared vs per-instance schedule: with rps-per-instance the schedule factory itself is handed to instances; otherwise one schedule built once and returned by a closure; newInstance draws exactly one schedule")
	c.Rule("O3.7", "the shared profile is not declared finished early: a composite profile answers ok=false only from its last part (the engine stops the pool on the first 'finished' answer, so an early one leaves the remaining tokens neither fired nor discarded); the same decision as O2.9, applied to C03's token count")
	c.Rule("O3.9", "with rps-per-instance every started instance fires a profile of its own: the schedule factory handed to the instances is made by the plugin registry, so each of its products must be built from a config decoded for that product - a factory that decodes the by-value config once hands every instance the same nested schedule objects (rps written as a list: CompositeConf.Nested) and the pool fires one profile in total (the rule of O18.2, shared)")
	c.Borrow("C18", runC18, map[string]string{"O18.2": "O3.9"})
	if cn, sn := c.P.Func("core/schedule", "compositeSchedule", "Next"), c.P.Func("core/schedule", "compositeSchedule", "startNext"); cn != nil && sn != nil {
		c02FinalOnlyFromLastPart(c, "O3.7", cn, sn)
	} else {
		c.Anchor("O3.7", "core/schedule.(*compositeSchedule).Next / startNext")
	}

	run, body, acq := engineLoop(c, "O3.1")
	if body == nil {
		return
	}
	bk := fk(body)
	okPred := func(v ssa.Value) bool { return DerivesOnly(v, false, IsResultOf(acq, 1)) }
	ammoPred := func(v ssa.Value) bool { return DerivesOnly(v, false, IsResultOf(acq, 0)) }
	isRelease := func(in ssa.Instruction) bool {
		if !IsCall(in, sRelease) {
			return false
		}
		cc := CC(in)
		return len(cc.Args) >= 1 && ammoPred(cc.Args[len(cc.Args)-1])
	}
	relW := func(in ssa.Instruction) (int, int) {
		if _, isGo := in.(*ssa.Go); isGo {
			return 0, 0
		}
		if isRelease(in) {
			return 1, 1
		}
		return 0, 0
	}
	// --- O3.1
	okPath := PathQuery{Fn: body, Start: acq, Weight: relW, Edge: RestrictBool(okPred, true)}.Count()
	c.Check(okPath.Is(1, 1), "O3.1", bk+":release-count-on-ok-path", acq.Pos(),
		fmt.Sprintf("Release(ammo) count on paths after Acquire ok = %v (want [1,1]); min %s max %s", okPath, PathString(okPath.MinPath), PathString(okPath.MaxPath)))
	noPath := PathQuery{Fn: body, Start: acq, Weight: relW, Edge: RestrictBool(okPred, false)}.Count()
	c.Check(noPath.Is(0, 0), "O3.1", bk+":release-count-on-!ok-path", acq.Pos(),
		fmt.Sprintf("Release count on the !ok path = %v (want [0,0])", noPath))
	anyRelease := false
	EachInstr(body, func(in ssa.Instruction) {
		if !IsCall(in, sRelease) {
			return
		}
		anyRelease = true
		if !isRelease(in) {
			c.Bad("O3.1", bk+":release-arg", in.Pos(), "Release is not given the value returned by this iteration's Acquire")
			return
		}
		if _, isDefer := in.(*ssa.Defer); isDefer {
			c.OK("O3.1", bk+":release-after-shoot", in.Pos(), "Release is deferred: it runs at function exit, after Shoot")
			return
		}
		for _, s := range Calls(body, sShoot) {
			if CanReach(in, s) {
				c.Bad("O3.1", bk+":release-after-shoot", in.Pos(), "a Gun.Shoot is reachable after this Release at "+c.P.Pos(s.Pos()))
				return
			}
		}
		c.OK("O3.1", bk+":release-after-shoot", in.Pos(), "no Shoot reachable after Release")
	})
	if !anyRelease {
		c.Bad("O3.1", bk+":release-arg", acq.Pos(), "no Provider.Release call in the loop body")
	}
	// the sentinel returned on !ok is the one awaitRun compares with
	sentinel := outOfAmmoGlobal(c)
	if sentinel != nil {
		ok, n := true, 0
		for _, b := range body.Blocks {
			ret, isRet := b.Instrs[len(b.Instrs)-1].(*ssa.Return)
			if !isRet || len(ret.Results) == 0 {
				continue
			}
			facts := BoolFactsAt(ret)
			if !HasBoolFact(facts, okPred, false) {
				continue
			}
			n++
			if !DerivesOnly(ret.Results[len(ret.Results)-1], false, IsGlobalLoad(sentinel)) {
				ok = false
			}
		}
		c.Check(ok && n > 0, "O3.1", bk+":out-of-ammo-sentinel", acq.Pos(),
			fmt.Sprintf("%d return(s) on the !ok edge; each must return the sentinel %s that runAwaitHandle.awaitRun compares instance results with", n, sentinel.Name()))
	}

	// --- O3.2
	var ammoVal ssa.Value
	if rs := acq.Referrers(); rs != nil {
		for _, r := range *rs {
			if e, ok := r.(*ssa.Extract); ok && e.Index == 0 {
				ammoVal = e
			}
		}
	}
	if ammoVal == nil {
		c.Unknown("O3.2", bk+":ammo-uses", acq.Pos(), "ammo result of Acquire is not extracted")
	} else {
		uses := UsesOf(ammoVal, func(f *ssa.Function) bool { return PkgOf(f) == PkgOf(body) })
		bad := []string{}
		for _, u := range uses {
			switch {
			case u.Kind == "arg:"+Mod+"/core.Provider.Release" || strings.HasSuffix(u.Kind, "core.Provider).Release"):
			case strings.HasPrefix(u.Kind, "arg:") && IsCall(u.Instr, sRelease, sShoot):
			case strings.HasPrefix(u.Kind, "arg:go.uber.org/zap."):
			case u.Kind == "cmp":
			default:
				bad = append(bad, u.Kind+" at "+c.P.Pos(u.Instr.Pos()))
			}
		}
		c.Check(len(bad) == 0, "O3.2", bk+":ammo-uses", acq.Pos(),
			fmt.Sprintf("%d uses of the acquired ammo; disallowed: %v", len(uses), bad))
	}

	// --- O3.3
	waits := Calls(body, sWait)
	if len(waits) != 1 {
		c.Anchor("O3.3", "exactly one Waiter.Wait in the shooting loop body")
		return
	}
	wait := waits[0].(*ssa.Call)
	c.Check(HasBoolFact(BoolFactsAt(wait), okPred, true), "O3.3", bk+":wait-after-acquire-ok", wait.Pos(),
		"Waiter.Wait (token withdrawal) must be dominated by the ok edge of Acquire")
	isFin := IsCallValue(-1, sIsFinished)
	c.Check(HasBoolFact(BoolFactsAt(acq), isFin, false), "O3.3", bk+":acquire-only-while-not-finished", acq.Pos(),
		"Acquire must be dominated by the false edge of Waiter.IsFinished (schedule may still have tokens)")
	// both waiter uses are the same waiter built on the instance schedule
	{
		okW := true
		for _, in := range append(Calls(run, sIsFinished), wait) {
			cc := CC(in)
			recv := cc.Args[0]
			// the instance's schedule: the field it is kept in, or what the per-instance schedule factory returned
			isInstSched := func(v ssa.Value) bool {
				if IsFieldLoad(v, "instance", "schedule") {
					return true
				}
				cl, _ := CallOfValue(v)
				return cl != nil && IsFieldCall(&cl.Call, "", "newSchedule")
			}
			isInstWaiter := func(v ssa.Value) bool {
				cl, _ := CallOfValue(v)
				return cl != nil && MatchCC(&cl.Call, sNewWaiter) && DerivesOnly(cl.Call.Args[0], false, isInstSched)
			}
			if !DerivesOnly(recv, false, func(v ssa.Value) bool {
				if isInstWaiter(v) {
					return true
				}
				// a Waiter made once for the instance and kept in a field of it
				if fv, _ := FieldOf(v); fv != nil {
					if _, tn := NamedOf(fv.Type()); tn == "Waiter" {
						sts := c.P.FieldStores(fv)
						for _, sv := range sts {
							if !DerivesOnly(sv, false, isInstWaiter) {
								return false
							}
						}
						return len(sts) > 0
					}
				}
				return false
			}) {
				okW = false
			}
		}
		c.Check(okW, "O3.3", bk+":waiter-on-instance-schedule", wait.Pos(), "IsFinished and Wait use one Waiter built by NewWaiter(instance.schedule)")
	}

	// --- O3.4
	waitOK := func(v ssa.Value) bool { return DerivesOnly(v, false, IsResultOf(wait, -1)) }
	isDiscardReport := func(in ssa.Instruction) bool {
		if !IsCall(in, sReport) {
			return false
		}
		cc := CC(in)
		return DerivesOnly(cc.Args[len(cc.Args)-1], false, IsCallValue(-1, sDiscarded))
	}
	isShoot := func(in ssa.Instruction) bool {
		if !IsCall(in, sShoot) {
			return false
		}
		if _, ok := in.(*ssa.Call); !ok {
			return false
		}
		cc := CC(in)
		return ammoPred(cc.Args[len(cc.Args)-1]) && DerivesOnly(cc.Value, false, IsFieldLoadPred("instance", "gun"))
	}
	evW := func(in ssa.Instruction) (int, int) {
		if isShoot(in) || IsCall(in, sReport) {
			return 1, 1
		}
		return 0, 0
	}
	t := PathQuery{Fn: body, Start: wait, Weight: evW, Edge: RestrictBool(waitOK, true), Exit: func(b *ssa.BasicBlock) bool { return ExitOf(b) == ExitReturn }}.Count()
	c.Check(t.Is(1, 1), "O3.4", bk+":one-shot-or-discard-per-token", wait.Pos(),
		fmt.Sprintf("Shoot(ammo)+Report count after Wait==true = %v (want [1,1]); min %s max %s", t, PathString(t.MinPath), PathString(t.MaxPath)))
	f := PathQuery{Fn: body, Start: wait, Weight: evW, Edge: RestrictBool(waitOK, false)}.Count()
	c.Check(f.Is(0, 0), "O3.4", bk+":nothing-without-token", wait.Pos(), fmt.Sprintf("Shoot+Report count after Wait==false = %v (want [0,0])", f))
	nShoot, nRep := 0, 0
	// the per-token code: the loop body and the helpers of the package it calls (shootOrDiscard, ...)
	region := FindFuncs(body, 2, func(*ssa.Function) bool { return true })
	eachRegionInstr := func(f func(ssa.Instruction)) {
		for _, g := range region {
			EachInstr(g, f)
		}
	}
	eachRegionInstr(func(in ssa.Instruction) {
		if IsCall(in, sShoot) {
			nShoot++
			c.Check(isShoot(in), "O3.4", bk+":shoot-target", in.Pos(), "Shoot is called on instance.gun with this iteration's ammo")
		}
		if IsCall(in, sReport) {
			nRep++
			c.Check(isDiscardReport(in), "O3.4", bk+":discard-sample", in.Pos(), "the engine only reports DiscardedShootSample()")
		}
	})
	c.Floor("O3.4", "Shoot and discard Report call sites in the loop body", nShoot+nRep, 2)

	// --- O3.5
	isCounter := func(in ssa.Instruction, field string) bool {
		if !IsCall(in, sCounterAdd) {
			return false
		}
		cc := CC(in)
		return DerivesOnly(cc.Args[0], false, IsFieldLoadPred("Metrics", field))
	}
	pds := map[*ssa.Function]*PostDom{}
	pdOf := func(f *ssa.Function) *PostDom {
		if pds[f] == nil {
			pds[f] = NewPostDom(f, false)
		}
		return pds[f]
	}
	var reqs, resps, shoots []ssa.Instruction
	eachRegionInstr(func(in ssa.Instruction) {
		switch {
		case isCounter(in, "Request"):
			reqs = append(reqs, in)
		case isCounter(in, "Response"):
			resps = append(resps, in)
		case isShoot(in):
			shoots = append(shoots, in)
		}
	})
	for _, in := range append(append([]ssa.Instruction{}, reqs...), resps...) {
		v, isC := ConstInt(CC(in).Args[1])
		c.Check(isC && v == 1, "O3.5", bk+":counter-increment-is-1", in.Pos(), "Add argument must be the constant 1")
	}
	postdomI := func(a, b ssa.Instruction) bool { // a after b on all normal paths
		if a.Parent() != b.Parent() {
			return false
		}
		if a.Block() == b.Block() {
			return InstrIndex(a) > InstrIndex(b)
		}
		return pdOf(a.Parent()).PostDominates(a.Block(), b.Block())
	}
	for _, s := range shoots {
		okReq, okResp := false, false
		for _, r := range reqs {
			if InstrDominates(r, s) {
				okReq = true
			}
		}
		for _, r := range resps {
			if postdomI(r, s) {
				okResp = true
			}
		}
		c.Check(okReq, "O3.5", bk+":request-counted-before-shoot", s.Pos(), "a Metrics.Request.Add(1) must dominate Shoot")
		c.Check(okResp, "O3.5", bk+":response-counted-after-shoot", s.Pos(), "a Metrics.Response.Add(1) must post-dominate Shoot")
	}
	for _, r := range reqs {
		ok := false
		for _, s := range shoots {
			if postdomI(s, r) {
				ok = true
			}
		}
		c.Check(ok, "O3.5", bk+":request-only-with-shoot", r.Pos(), "every Request.Add must be followed by Shoot on all paths (never on the discard path)")
	}
	for _, r := range resps {
		ok := false
		for _, s := range shoots {
			if InstrDominates(s, r) {
				ok = true
			}
		}
		c.Check(ok, "O3.5", bk+":response-only-after-shoot", r.Pos(), "every Response.Add must be dominated by Shoot")
	}
	cnt := func(list []ssa.Instruction) Interval {
		set := map[ssa.Instruction]bool{}
		for _, i := range list {
			set[i] = true
		}
		return PathQuery{Fn: body, Weight: func(in ssa.Instruction) (int, int) {
			if set[in] {
				return 1, 1
			}
			return 0, 0
		}}.Count()
	}
	rq, rs := cnt(reqs), cnt(resps)
	c.Check(rq.Max == 1 && rs.Max == 1, "O3.5", bk+":counters-at-most-once-per-token", acq.Pos(),
		fmt.Sprintf("Request.Add per iteration %v, Response.Add per iteration %v (max must be 1)", rq, rs))
	c.Floor("O3.5", "Request/Response counter sites", len(reqs)+len(resps), 2)

	// --- O3.6
	c03Schedule(c)
}

func outOfAmmoGlobal(c *Ctx) *ssa.Global {
	// the global compared with res.Err in awaitRun
	aw := c.P.Func("core/engine", "runAwaitHandle", "awaitRun")
	if aw == nil {
		c.Anchor("O3.1", "core/engine.(*runAwaitHandle).awaitRun")
		return nil
	}
	var g *ssa.Global
	// ... in awaitRun itself or in a helper it calls
	for _, f := range FindFuncs(aw, 3, func(*ssa.Function) bool { return true }) {
		EachInstr(f, func(in ssa.Instruction) {
			// errors.Is(res.Err, sentinel)
			if cl, isCall := in.(*ssa.Call); isCall && MatchCC(&cl.Call, sErrorsIsAll...) && len(cl.Call.Args) == 2 {
				if u, ok := cl.Call.Args[1].(*ssa.UnOp); ok && u.Op == token.MUL {
					if gl, ok := u.X.(*ssa.Global); ok && gl.Pkg == aw.Pkg && types.Identical(gl.Type().(*types.Pointer).Elem(), types.Universe.Lookup("error").Type()) {
						g = gl
					}
				}
			}
			b, ok := in.(*ssa.BinOp)
			if !ok || (b.Op != token.EQL && b.Op != token.NEQ) {
				return
			}
			for _, side := range []ssa.Value{b.X, b.Y} {
				if u, ok := side.(*ssa.UnOp); ok && u.Op == token.MUL {
					if gl, ok := u.X.(*ssa.Global); ok && gl.Pkg == aw.Pkg && types.Identical(gl.Type().(*types.Pointer).Elem(), types.Universe.Lookup("error").Type()) {
						g = gl
					}
				}
			}
		})
	}
	if g == nil {
		c.Anchor("O3.1", "the out-of-ammo sentinel compared in awaitRun")
	}
	return g
}

func c03Schedule(c *Ctx) {
	b := c.P.Func("core/engine", "instancePool", "buildNewInstanceSchedule")
	if b == nil {
		c.Anchor("O3.6", "core/engine.(*instancePool).buildNewInstanceSchedule")
		return
	}
	bk := fk(b)
	perInst := IsFieldLoadPred("InstancePoolConfig", "RPSPerInstance")
	isNewRPS := func(in ssa.Instruction) bool {
		cc := CC(in)
		return cc != nil && IsFieldCall(cc, "", "NewRPSSchedule")
	}
	w := func(in ssa.Instruction) (int, int) {
		if isNewRPS(in) {
			return 1, 1
		}
		return 0, 0
	}
	shared := PathQuery{Fn: b, Weight: w, Edge: RestrictBool(perInst, false)}.Count()
	per := PathQuery{Fn: b, Weight: w, Edge: RestrictBool(perInst, true)}.Count()
	c.Check(shared.Is(1, 1), "O3.6", bk+":shared-schedule-built-once", b.Pos(), fmt.Sprintf("NewRPSSchedule() calls on the shared path = %v (want [1,1])", shared))
	c.Check(per.Is(0, 0), "O3.6", bk+":per-instance-not-built-here", b.Pos(), fmt.Sprintf("NewRPSSchedule() calls on the rps-per-instance path = %v (want [0,0])", per))
	// returns
	nPer, nShared := 0, 0
	for _, blk := range b.Blocks {
		ret, ok := blk.Instrs[len(blk.Instrs)-1].(*ssa.Return)
		if !ok {
			continue
		}
		facts := BoolFactsAt(ret)
		v := ret.Results[0]
		if IsNilConst(v) {
			continue
		}
		switch {
		case HasBoolFact(facts, perInst, true):
			nPer++
			c.Check(DerivesOnly(v, false, IsFieldLoadPred("InstancePoolConfig", "NewRPSSchedule")), "O3.6", bk+":per-instance-returns-factory", ret.Pos(),
				"with rps-per-instance the configured schedule factory itself must be returned (one full profile per instance)")
		case HasBoolFact(facts, perInst, false):
			nShared++
			mc, _ := Strip(v).(*ssa.MakeClosure)
			ok := mc != nil
			if ok {
				cl := BoundTarget(mc.Fn.(*ssa.Function)) // a method value (shared.get) stands for the method
				// closure must not build schedules and must return a captured value deriving from the one NewRPSSchedule call
				EachInstr(cl, func(in ssa.Instruction) {
					if cc := CC(in); cc != nil {
						ok = false
					}
					if r, isRet := in.(*ssa.Return); isRet {
						if !DerivesAny(r.Results[0], true, func(v ssa.Value) bool {
							cl2, _ := CallOfValue(v)
							return cl2 != nil && (isNewRPS(cl2) || MatchCC(&cl2.Call, Spec{"./core/coreutil", "", "NewCallbackOnFinishSchedule"}))
						}) {
							ok = false
						}
					}
				})
			}
			c.Check(ok, "O3.6", bk+":shared-returns-one-schedule", ret.Pos(),
				"without rps-per-instance a closure returning the one captured schedule must be returned (all instances share its tokens)")
		default:
			c.Unknown("O3.6", bk+":return-not-under-rps-per-instance-test", ret.Pos(), "a non-nil factory is returned on a path not decided by RPSPerInstance")
		}
	}
	c.Floor("O3.6", "returns of buildNewInstanceSchedule classified", nPer+nShared, 2)
	ni := c.P.Func("core/engine", "", "newInstance")
	if ni == nil {
		c.Anchor("O3.6", "core/engine.newInstance")
		return
	}
	nk := fk(ni)
	cntField := func(field string) Interval {
		return PathQuery{Fn: ni, Weight: func(in ssa.Instruction) (int, int) {
			if cc := CC(in); cc != nil && IsFieldCall(cc, "", field) {
				return 1, 1
			}
			return 0, 0
		}, Exit: func(b *ssa.BasicBlock) bool {
			r, ok := b.Instrs[len(b.Instrs)-1].(*ssa.Return)
			return ok && !IsNilConst(r.Results[0])
		}}.Count()
	}
	s := cntField("newSchedule")
	c.Check(s.Is(1, 1), "O3.6", nk+":one-schedule-per-instance", ni.Pos(), fmt.Sprintf("deps.newSchedule() calls on paths returning an instance = %v (want [1,1])", s))
}

var sErrorsIsAll = []Spec{{"errors", "", "Is"}, {"github.com/pkg/errors", "", "Is"}, {"golang.org/x/xerrors", "", "Is"}}

// sentinelTest: v tests a value against the package-level sentinel g - `x == g`, `x != g` or errors.Is(x, g);
// whenTrue says whether a true result means "is the sentinel".
func sentinelTest(v ssa.Value, g *ssa.Global) (isTest, whenTrue bool) {
	switch x := v.(type) {
	case *ssa.BinOp:
		if (x.Op == token.EQL || x.Op == token.NEQ) && (IsGlobalLoad(g)(x.X) || IsGlobalLoad(g)(x.Y)) {
			return true, x.Op == token.EQL
		}
	case *ssa.Call:
		if MatchCC(&x.Call, sErrorsIsAll...) && len(x.Call.Args) == 2 && IsGlobalLoad(g)(x.Call.Args[1]) {
			return true, true
		}
	}
	return false, false
}
