package rules

import (
	"fmt"
	"go/token"
	"go/types"
	"os"
	"path/filepath"
	"regexp"
	"sort"
	"strings"

	. "pandoravet/core"

	"golang.org/x/tools/go/ssa"
)

func init() {
	register(&Pack{Property: "C15", Title: "Scenario execution", Run: runC15})
}

func runC15(c *Ctx) {
	c.Rule("O15.7", "each part of a step is rendered from its own template: the HTTP scenario templater's cache of parsed templates is keyed by the template text (see templateCacheRule) - a header named like a fixed part (url, body), or two scenario/step/part name triples that concatenate to the same string, must not be rendered from another part's template")
	templateCacheRule(c, "O15.7", "components/providers/scenario/http/templater")
	c.Rule("O15.1", "stop at first failing step: the step loop of shoot is a single range over the ammo's steps, and from the err != nil edge after shootStep no path reaches another shootStep")
	c.Rule("O15.2", "a failed HTTP step is reported as failed: reportErr sets proto code 0 and the error (net code) on the step's sample before reporting it")
	c.Rule("O15.3", "multiplicity and pauses: convertScenarioToAmmo appends the converted step exactly `count` times (for i := 0; i < count; i++), a `sleep(n)` item adds n ms to the last appended step (and needs one), the per-step pause comes from the second argument; ParseShootName takes count from args[0] and sleep from args[1]")
	c.Rule("O15.4", "variable tree keys: the map keys written by the guns (source, request, <step name>, preprocessor, postprocessor) are the path segments the documentation shows in templates")
	c.Rule("O15.5", "[next] is per path and atomic: every access to NextIterator.gs and to its rand.Rand happens with mx held; the counter lookup and the insertion of a missing counter are one critical section; the first value is 0 and later ones counter.Add(1); calcIndex asks Next with the path of the segment and reduces modulo the list length only when needed")
	c.Rule("O15.6", "weights: decodeAmmo appends each scenario names[sc.Name] times with names from SpreadNames(cfg.Scenarios), in configuration order")
	c15Loop(c)
	c15Convert(c)
	c15Keys(c)
	c15Next(c)
	c15CleanRenderBuffers(c)
	c15AssertionsReadTheBody(c)
}

func c15Loop(c *Ctx) {
	P := c.P
	n := 0
	for _, g := range []struct{ rel, recv, stepsField string }{{"components/guns/http_scenario", "ScenarioGun", "Requests"}, {"components/guns/grpc/scenario", "Gun", "Calls"}} {
		loop := P.Func(g.rel, g.recv, "shoot")
		step := P.Func(g.rel, g.recv, "shootStep")
		if loop == nil || step == nil {
			c.Anchor("O15.1", g.rel+".shoot/shootStep")
			continue
		}
		key := fk(loop)
		var calls []*ssa.Call
		EachInstr(loop, func(in ssa.Instruction) {
			if cl, ok := in.(*ssa.Call); ok && cl.Call.StaticCallee() == step {
				calls = append(calls, cl)
			}
		})
		if len(calls) != 1 {
			c.Bad("O15.1", key+":single-step-call", loop.Pos(), fmt.Sprintf("%d shootStep calls in the loop (want 1)", len(calls)))
			continue
		}
		n++
		call := calls[0]
		// the step handed over is element i of ammo.<steps>, i the range index of the only loop
		hdr := loopHeaderOf(call.Block())
		okRange := false
		if hdr != nil {
			// the step argument derives from an IndexAddr on ammo.<steps> with a range-index phi
			okRange = SliceAny(call.Call.Args[1], func(v ssa.Value) bool {
				var ia *ssa.IndexAddr
				switch x := v.(type) {
				case *ssa.IndexAddr:
					ia = x
				case *ssa.UnOp:
					ia, _ = x.X.(*ssa.IndexAddr)
				}
				if ia == nil {
					return false
				}
				fv, base := FieldOf(ia.X)
				if fv == nil || fv.Name() != g.stepsField || base != ssa.Value(loop.Params[1]) {
					return false
				}
				// classic loop: for i := 0; i < len(steps); i++ { steps[i] }
				if cphi, isPhi := ia.Index.(*ssa.Phi); isPhi {
					init0, incr := false, false
					for _, e := range cphi.Edges {
						if k, isK := ConstInt(e); isK && k == 0 {
							init0 = true
						}
						if bo, isB := e.(*ssa.BinOp); isB && bo.Op == token.ADD && bo.X == ssa.Value(cphi) {
							if one, isOne := ConstInt(bo.Y); isOne && one == 1 {
								incr = true
							}
						}
					}
					return init0 && incr && len(cphi.Edges) == 2
				}
				inc, ok := ia.Index.(*ssa.BinOp)
				if !ok || inc.Op != token.ADD {
					return false
				}
				phi, ok := inc.X.(*ssa.Phi)
				if !ok {
					return false
				}
				k, isK := ConstInt(phi.Edges[0])
				one, isOne := ConstInt(inc.Y)
				return isK && k == -1 && isOne && one == 1
			})
			// spilled copy (`for _, call := range ammo.Calls { &call }`): the Alloc is stored from such an element
			if !okRange {
				for _, r := range Roots(call.Call.Args[1], false) {
					if a, ok := r.(*ssa.Alloc); ok {
						for _, st := range StoresTo(a) {
							if u, ok := st.Val.(*ssa.UnOp); ok {
								if ia, ok := u.X.(*ssa.IndexAddr); ok {
									if fv, base := FieldOf(ia.X); fv != nil && fv.Name() == g.stepsField && base == ssa.Value(loop.Params[1]) {
										okRange = true
									}
								}
							}
						}
					}
				}
			}
		}
		c.Check(okRange, "O15.1", key+":steps-visited-in-ammo-order", call.Pos(), "shootStep receives element i of ammo."+g.stepsField+" for the ascending range index of the step loop")
		// after an error no further step
		isE := func(v ssa.Value) bool { return v == ssa.Value(call) }
		iv := PathQuery{Fn: loop, Start: call, Edge: AssumeNonNil(isE), Weight: func(in ssa.Instruction) (int, int) {
			if in == ssa.Instruction(call) {
				return 1, 1
			}
			return 0, 0
		}}.Count()
		c.Check(iv.Is(0, 0), "O15.1", key+":no-step-after-a-failed-step", call.Pos(), fmt.Sprintf("shootStep executions after a failed step = %v (want [0,0])", iv))
		// and the error is returned
		checkErrPropagated(c, "O15.1", key+":step-error-ends-the-scenario", call)
		// on success the loop continues: the nil edge reaches the call again (no early break)
		ivN := PathQuery{Fn: loop, Start: call, Edge: assumeNil(isE), Weight: func(in ssa.Instruction) (int, int) {
			if in == ssa.Instruction(call) {
				return 1, 1
			}
			return 0, 0
		}}.Count()
		c.Check(ivN.Max >= Inf || ivN.Max >= 1, "O15.1", key+":next-step-follows-a-successful-step", call.Pos(), fmt.Sprintf("shootStep executions after a successful step = %v (the loop must go on)", ivN))
	}
	c.Floor("O15.1", "scenario step loops", n, 2)
	// O15.2
	// the failed-step report: the Report of the step's sample that the step loop reaches on the error edge, in the
	// loop itself or in a helper it calls (reportErr)
	loopFn := P.Func("components/guns/http_scenario", "ScenarioGun", "shoot")
	if loopFn == nil {
		c.Anchor("O15.2", "components/guns/http_scenario.(*ScenarioGun).shoot")
		return
	}
	found := false
	for _, g := range FindFuncs(loopFn, 2, func(*ssa.Function) bool { return true }) {
		if g.Name() == "shootStep" || g.Parent() != nil && g.Parent().Name() == "shootStep" {
			continue // the success report of the step itself
		}
		var sp, se, rp ssa.Instruction
		EachInstr(g, func(in ssa.Instruction) {
			switch {
			case IsCall(in, sSetProto):
				if k, ok := ConstInt(CC(in).Args[1]); ok && k == 0 {
					sp = in
				}
			case IsCall(in, sSetErr):
				se = in
			case isReport(in):
				rp = in
			}
		})
		if rp == nil {
			continue
		}
		found = true
		sample := CC(rp).Args[len(CC(rp).Args)-1]
		same := func(in ssa.Instruction) bool { return in != nil && sameRoots(CC(in).Args[0], sample) }
		ok := sp != nil && se != nil && same(sp) && same(se) && InstrDominates(sp, rp) && InstrDominates(se, rp) && types.Identical(CC(se).Args[1].Type(), types.Universe.Lookup("error").Type())
		c.Check(ok, "O15.2", fk(g)+":failed-step-sample", rp.Pos(), "the failed step's sample gets proto code 0 and SetErr(err) before it is reported")
	}
	if !found {
		c.Bad("O15.2", fk(loopFn)+":failed-step-sample", loopFn.Pos(), "the step loop never reports a failed step")
	}
}

func c15Convert(c *Ctx) {
	P := c.P
	psn := P.Func("components/providers/scenario/config", "", "ParseShootName")
	if psn == nil {
		c.Anchor("O15.3", "scenario/config.ParseShootName")
	} else {
		// Atoi(args[0]) -> result 1, Atoi(args[1]) -> result 2, each under len(args) > k
		type res struct {
			idx   int64
			guard bool
		}
		byResult := map[int]res{}
		EachInstr(psn, func(in ssa.Instruction) {
			cl, ok := in.(*ssa.Call)
			if !ok || !MatchCC(&cl.Call, Spec{"strconv", "", "Atoi"}) {
				return
			}
			u, ok := cl.Call.Args[0].(*ssa.UnOp)
			if !ok {
				return
			}
			ia, ok := u.X.(*ssa.IndexAddr)
			if !ok {
				return
			}
			k, isK := ConstInt(ia.Index)
			if !isK {
				return
			}
			guard := false
			for _, f := range CmpFactsAt(cl) {
				f = f.Canon()
				// k < len(args)
				if f.Op == token.LSS {
					if kk, ok := ConstInt(f.X); ok && kk == k {
						if lc, ok := f.Y.(*ssa.Call); ok && IsBuiltinCall(lc, "len") {
							guard = true
						}
					}
				}
			}
			// which result does it feed
			for _, b := range psn.Blocks {
				if r, ok := b.Instrs[len(b.Instrs)-1].(*ssa.Return); ok && len(r.Results) == 4 {
					for i := 1; i <= 2; i++ {
						if DerivesAny(r.Results[i], false, IsResultOf(cl, 0)) {
							byResult[i] = res{k, guard}
						}
					}
				}
			}
		})
		// the helper form: count, err := optionalIntArg(args, 0, 1) - a function of the package that returns
		// Atoi(args[pos]) under pos < len(args) and its default argument otherwise
		defaults := map[int]int64{}
		EachInstr(psn, func(in ssa.Instruction) {
			cl, ok := in.(*ssa.Call)
			if !ok || cl.Call.StaticCallee() == nil || PkgOf(cl.Call.StaticCallee()) != PkgOf(psn) || len(cl.Call.StaticCallee().Blocks) == 0 {
				return
			}
			h := cl.Call.StaticCallee()
			// inside the helper: Atoi(<slice param>[<pos param>]) guarded by pos < len(slice)
			posIdx, guard := -1, false
			// the element <slice param>[<pos param>] of the helper that reaches strconv.Atoi (in the helper or one call further)
			for _, hg := range FindFuncs(h, 1, func(*ssa.Function) bool { return true }) {
				EachInstr(hg, func(i2 ssa.Instruction) {
					at, ok := i2.(*ssa.Call)
					if !ok || !MatchCC(&at.Call, Spec{"strconv", "", "Atoi"}) {
						return
					}
					SliceAny(at.Call.Args[0], func(v ssa.Value) bool {
						u, ok := v.(*ssa.UnOp)
						if !ok {
							return false
						}
						ia, ok := u.X.(*ssa.IndexAddr)
						if !ok || ia.Parent() != h {
							return false
						}
						for i, p := range h.Params {
							if ssa.Value(p) == ia.Index {
								posIdx = i
							}
						}
						for _, f := range CmpFactsAt(u) {
							f = f.Canon()
							if f.Op == token.LSS && f.X == ia.Index {
								if lc, ok := f.Y.(*ssa.Call); ok && IsBuiltinCall(lc, "len") {
									guard = true
								}
							}
						}
						return true
					})
				})
			}
			if posIdx < 0 || posIdx >= len(cl.Call.Args) {
				return
			}
			k, isK := ConstInt(cl.Call.Args[posIdx])
			if !isK {
				return
			}
			// the default: a parameter the helper returns on a nil-error path, passed as a constant here
			var def int64 = -1
			EachInstr(h, func(i2 ssa.Instruction) {
				if ret, ok := i2.(*ssa.Return); ok && len(ret.Results) == 2 && IsNilConst(ret.Results[1]) {
					for i, p := range h.Params {
						if ssa.Value(p) == ret.Results[0] && i < len(cl.Call.Args) {
							if d, isD := ConstInt(cl.Call.Args[i]); isD {
								def = d
							}
						}
					}
				}
			})
			for _, b := range psn.Blocks {
				if r, ok := b.Instrs[len(b.Instrs)-1].(*ssa.Return); ok && len(r.Results) == 4 {
					for i := 1; i <= 2; i++ {
						if DerivesAny(r.Results[i], false, IsResultOf(cl, 0)) {
							byResult[i] = res{k, guard}
							defaults[i] = def
						}
					}
				}
			}
		})
		ok := byResult[1] == res{0, true} && byResult[2] == res{1, true}
		c.Check(ok, "O15.3", fk(psn)+":count-then-sleep", psn.Pos(), fmt.Sprintf("count = Atoi(args[0]) under len(args) > 0, sleep = Atoi(args[1]) under len(args) > 1; found %v", byResult))
		// defaults: count 1, sleep 0
		okDef := false
		for _, b := range psn.Blocks {
			if r, ok := b.Instrs[len(b.Instrs)-1].(*ssa.Return); ok && len(r.Results) == 4 && IsNilConst(r.Results[3]) {
				hasOne, hasZero := false, false
				for _, rt := range rootsNoParam(r.Results[1]) {
					if k, ok := ConstInt(rt); ok && k == 1 {
						hasOne = true
					}
				}
				for _, rt := range rootsNoParam(r.Results[2]) {
					if k, ok := ConstInt(rt); ok && k == 0 {
						hasZero = true
					}
				}
				okDef = hasOne && hasZero
			}
		}
		if d1, has1 := defaults[1]; has1 {
			if d2, has2 := defaults[2]; has2 {
				okDef = d1 == 1 && d2 == 0
			}
		}
		c.Check(okDef, "O15.3", fk(psn)+":defaults", psn.Pos(), "without arguments the count is 1 and the pause 0")
	}
	n := 0
	for _, g := range []struct{ rel, field string }{{"components/providers/scenario/http", "Requests"}, {"components/providers/scenario/grpc", "Calls"}} {
		fn := P.Func(g.rel, "", "convertScenarioToAmmo")
		da := P.Func(g.rel, "", "decodeAmmo")
		if fn == nil || da == nil || psn == nil {
			c.Anchor("O15.3", g.rel+".convertScenarioToAmmo / decodeAmmo")
			continue
		}
		n++
		key := fk(fn)
		// the converter and the helpers of its package it calls (appendRepeated, millis, a builder's addShoot, ...)
		region := FindFuncs(fn, 2, func(*ssa.Function) bool { return true })
		var parse *ssa.Call
		for _, g2 := range region {
			EachInstr(g2, func(in ssa.Instruction) {
				if cl, ok := in.(*ssa.Call); ok && cl.Call.StaticCallee() == psn {
					parse = cl
				}
			})
		}
		if parse == nil {
			c.Anchor("O15.3", "ParseShootName call in "+key)
			continue
		}
		fromParse := func(v ssa.Value, idx int) bool {
			return SliceAny(v, func(r ssa.Value) bool { return IsResultOf(parse, idx)(r) })
		}
		// the step type: element type of result.<field>
		var stepT types.Type
		for _, g2 := range region {
			EachInstr(g2, func(in ssa.Instruction) {
				if fa, ok := in.(*ssa.FieldAddr); ok {
					if fv, _ := FieldOf(fa); fv != nil && fv.Name() == g.field {
						if sl, ok := fv.Type().Underlying().(*types.Slice); ok {
							stepT = sl.Elem()
						}
					}
				}
			})
		}
		// the append loop: append(<steps>, step) inside a counted loop i < count (here or in a helper that gets count)
		var app *ssa.Call
		for _, g2 := range region {
			EachInstr(g2, func(in ssa.Instruction) {
				cl, ok := in.(*ssa.Call)
				if !ok || !IsBuiltinCall(cl, "append") || stepT == nil {
					return
				}
				if sl, ok := cl.Call.Args[0].Type().Underlying().(*types.Slice); ok && types.Identical(sl.Elem(), stepT) {
					app = cl
				}
			})
		}
		okLoop := false
		if app != nil {
			if hdr := loopHeaderOf(app.Block()); hdr != nil {
				for _, in := range hdr.Instrs {
					phi, ok := in.(*ssa.Phi)
					if !ok || len(phi.Edges) != 2 {
						continue
					}
					k, isK := ConstInt(phi.Edges[0])
					inc, isInc := phi.Edges[1].(*ssa.BinOp)
					if !isK || k != 0 || !isInc || inc.Op != token.ADD || inc.X != ssa.Value(phi) {
						continue
					}
					if one, ok := ConstInt(inc.Y); !ok || one != 1 {
						continue
					}
					for _, f := range CmpFactsAt(app) {
						f = f.Canon()
						if f.Op == token.LSS && f.X == ssa.Value(phi) && fromParse(f.Y, 1) {
							okLoop = true
						}
					}
				}
			}
		}
		c.Check(okLoop, "O15.3", key+":step-appended-count-times", fn.Pos(), "append(result."+g.field+", step) runs in `for i := 0; i < count; i++` with count the parsed multiplicity")
		// the appended step is the conversion of reqs[name]
		okStep := false
		if app != nil {
			isConv := func(r ssa.Value) bool {
				cv, _ := CallOfValue(r)
				if cv == nil || cv.Call.StaticCallee() == nil || !strings.HasPrefix(cv.Call.StaticCallee().Name(), "convertConfigTo") {
					return false
				}
				return SliceAny(cv.Call.Args[0], func(r3 ssa.Value) bool {
					ex, ok := r3.(*ssa.Extract)
					if !ok {
						return false
					}
					lk, ok := ex.Tuple.(*ssa.Lookup)
					return ok && SliceAny(lk.X, func(m ssa.Value) bool { return m == ssa.Value(fn.Params[1]) }) && fromParse(lk.Index, 0)
				})
			}
			okStep = SliceAny(app.Call.Args[1], isConv)
		}
		c.Check(okStep, "O15.3", key+":appended-step-is-the-named-request", fn.Pos(), "the appended step is convertConfigTo*(reqs[name]) for the parsed name")
		// sleep item: adds to the last element, guarded by len > 0, amount = parsed first argument
		okSleep, okGuard := false, false
		eachRegion := func(f func(ssa.Instruction)) {
			for _, g2 := range region {
				EachInstr(g2, f)
			}
		}
		eachRegion(func(in ssa.Instruction) {
			st, ok := in.(*ssa.Store)
			if !ok {
				return
			}
			fa, ok := st.Addr.(*ssa.FieldAddr)
			if !ok {
				return
			}
			fv, _ := FieldOf(fa)
			if fv == nil || fv.Name() != "Sleep" {
				return
			}
			ia, ok := fa.X.(*ssa.IndexAddr)
			if !ok {
				return
			}
			// index = len(result.<field>) - 1
			bo, ok := ia.Index.(*ssa.BinOp)
			if !ok || bo.Op != token.SUB {
				return
			}
			if one, ok := ConstInt(bo.Y); !ok || one != 1 {
				return
			}
			lc, ok := bo.X.(*ssa.Call)
			if !ok || !IsBuiltinCall(lc, "len") {
				return
			}
			// dominated by name == "sleep" (in the converter; for a store inside a helper: at the helper's call)
			isSleep := false
			factsAt := ssa.Instruction(st)
			if lifted := LiftTo(parse.Parent(), st); lifted != nil {
				factsAt = lifted // (the facts of the function that parsed the item: the converter, or the helper it hands the item to)
			}
			for _, f := range CmpFactsAt(factsAt) {
				if f.Op == token.EQL {
					for _, side := range []ssa.Value{f.X, f.Y} {
						if s, ok := ConstString(side); ok && s == "sleep" {
							isSleep = true
						}
					}
				}
			}
			// the amount: the parsed first argument, directly or through a helper that scales it (millis(n))
			amount := fromParse(st.Val, 1)
			if !amount {
				SliceAny(st.Val, func(r ssa.Value) bool {
					if cl, _ := CallOfValue(r); cl != nil && cl.Call.StaticCallee() != nil && PkgOf(cl.Call.StaticCallee()) == PkgOf(fn) {
						for _, a := range cl.Call.Args {
							if fromParse(a, 1) {
								amount = true
							}
						}
					}
					return false
				})
			}
			okSleep = isSleep && amount
			for _, f := range CmpFactsAt(st) {
				f = f.Canon()
				// len != 0 / 0 < len
				if lx, ok := f.X.(*ssa.Call); ok && IsBuiltinCall(lx, "len") && f.Op == token.NEQ && isZero(f.Y) {
					okGuard = true
				}
				if ly, ok := f.Y.(*ssa.Call); ok && IsBuiltinCall(ly, "len") && f.Op == token.LSS && isZero(f.X) {
					okGuard = true
				}
				// the index itself is known non-negative: lastIdx := len - 1; if lastIdx < 0 { return err }
				if f.Y == ssa.Value(bo) && (f.Op == token.LEQ || f.Op == token.LSS) {
					if k, isK := ConstInt(f.X); isK && (f.Op == token.LEQ && k >= 0 || f.Op == token.LSS && k >= -1) {
						okGuard = true
					}
				}
			}
		})
		c.Check(okSleep, "O15.3", key+":sleep-item-pauses-after-the-last-step", fn.Pos(), "on name == \"sleep\" the parsed amount is added to result."+g.field+"[len-1].Sleep")
		c.Check(okGuard, "O15.3", key+":sleep-item-needs-a-preceding-step", fn.Pos(), "the last-step index is guarded by len(result."+g.field+") != 0 (a leading sleep() is a config error, not a panic)")
		// O15.6 weights
		var sn *ssa.Call
		EachInstr(da, func(in ssa.Instruction) {
			if IsCall(in, Spec{"./components/providers/scenario/config", "", "SpreadNames"}) {
				sn, _ = in.(*ssa.Call)
			}
		})
		okW := false
		if sn != nil && IsFieldLoad(sn.Call.Args[0], "AmmoConfig", "Scenarios") {
			EachInstr(da, func(in ssa.Instruction) {
				cl, ok := in.(*ssa.Call)
				if !ok || !IsBuiltinCall(cl, "append") {
					return
				}
				for _, f := range CmpFactsAt(cl) {
					f = f.Canon()
					if f.Op != token.LSS {
						continue
					}
					// bound = names[sc.Name]
					for _, r := range Roots(f.Y, false) {
						if ex, ok := r.(*ssa.Extract); ok {
							if lk, ok := ex.Tuple.(*ssa.Lookup); ok && DerivesOnly(lk.X, false, IsResultOf(sn, 0)) {
								if fv, _ := FieldOf(lk.Index); fv != nil && fv.Name() == "Name" {
									okW = true
								}
							}
						}
					}
				}
			})
		}
		c.Check(okW, "O15.6", fk(da)+":scenario-repeated-by-weight", da.Pos(), "each scenario is appended names[sc.Name] times, names = SpreadNames(cfg.Scenarios)")
	}
	c.Floor("O15.3", "scenario converters (http, grpc)", n, 2)
}

func rootsNoParam(v ssa.Value) []ssa.Value {
	if phi, ok := v.(*ssa.Phi); ok {
		return phi.Edges
	}
	return Roots(v, false)
}

func c15Keys(c *Ctx) {
	P := c.P
	// documented segments
	b, err := os.ReadFile(filepath.Join(P.Dir, "docs/eng/scenario-http-generator.md"))
	if err != nil {
		c.Anchor("O15.4", "docs/eng/scenario-http-generator.md")
		return
	}
	doc := string(b)
	docKeys := map[string]bool{}
	for _, m := range regexp.MustCompile(`\{\{\s*\.(source|request)\.`).FindAllStringSubmatch(doc, -1) {
		docKeys[m[1]] = true
	}
	for _, m := range regexp.MustCompile(`\.request\.[A-Za-z0-9_]+\.(preprocessor|postprocessor)\.`).FindAllStringSubmatch(doc, -1) {
		docKeys[m[1]] = true
	}
	var dk []string
	for k := range docKeys {
		dk = append(dk, k)
	}
	sort.Strings(dk)
	c.Check(strings.Join(dk, ",") == "postprocessor,preprocessor,request,source", "O15.4", "docs/eng/scenario-http-generator.md:documented-segments", token.NoPos, fmt.Sprintf("template path segments shown in the documentation: %v", dk))
	n := 0
	for _, g := range []struct{ rel, recv string }{{"components/guns/http_scenario", "ScenarioGun"}, {"components/guns/grpc/scenario", "Gun"}} {
		var fns []*ssa.Function
		for _, name := range []string{"Shoot", "shoot", "shootStep"} {
			if f := P.Func(g.rel, g.recv, name); f != nil {
				fns = append(fns, f)
			}
		}
		if len(fns) != 3 {
			c.Anchor("O15.4", g.rel+" Shoot/shoot/shootStep")
			continue
		}
		keys := map[string]bool{}
		stepNameKey := false
		for _, fn := range fns {
			EachInstr(fn, func(in ssa.Instruction) {
				mu, ok := in.(*ssa.MapUpdate)
				if !ok {
					return
				}
				if s, isS := ConstString(mu.Key); isS {
					keys[s] = true
					return
				}
				if fv, _ := FieldOf(mu.Key); fv != nil && fv.Name() == "Name" {
					stepNameKey = true
				}
			})
		}
		var ks []string
		for k := range keys {
			ks = append(ks, k)
		}
		sort.Strings(ks)
		n++
		okKeys := true
		for _, k := range ks {
			if !docKeys[k] {
				okKeys = false
			}
		}
		for _, need := range []string{"source", "request", "preprocessor", "postprocessor"} {
			if !keys[need] {
				okKeys = false
			}
		}
		c.Check(okKeys && stepNameKey, "O15.4", g.rel+":variable-tree-keys", fns[0].Pos(), fmt.Sprintf("constant map keys written while shooting: %v (documented: %v); per-step map stored under step.Name: %v", ks, dk, stepNameKey))
		// structure: templateVars["request"] = requestVars; requestVars[step.Name] = stepVars; stepVars[pre/post] = ...
		shoot, step := fns[1], fns[2]
		okTree := false
		EachInstr(shoot, func(in ssa.Instruction) {
			if mu, ok := in.(*ssa.MapUpdate); ok {
				if s, _ := ConstString(mu.Key); s == "request" && len(shoot.Params) >= 3 {
					// value is the requestVars map later passed to shootStep
					EachInstr(shoot, func(x ssa.Instruction) {
						if cl, ok := x.(*ssa.Call); ok && cl.Call.StaticCallee() == step {
							for _, a := range cl.Call.Args {
								if sameRoots(a, mu.Value) {
									okTree = true
								}
							}
						}
					})
				}
			}
		})
		c.Check(okTree, "O15.4", fk(shoot)+":request-subtree-shared-with-steps", shoot.Pos(), "templateVars[\"request\"] is the map the steps fill (variables of earlier steps are visible to later ones)")
	}
	c.Floor("O15.4", "scenario guns", n, 2)
}

func c15Next(c *Ctx) {
	P := c.P
	next := P.Func("lib/mp", "NextIterator", "Next")
	rnd := P.Func("lib/mp", "NextIterator", "Rand")
	ci := P.Func("lib/mp", "", "calcIndex")
	if next == nil || rnd == nil || ci == nil {
		c.Anchor("O15.5", "lib/mp.(*NextIterator).Next / Rand / calcIndex")
		return
	}
	muField := func(v ssa.Value) *types.Var {
		fv, _ := FieldOf(v)
		if fa, ok := v.(*ssa.FieldAddr); ok && fv == nil {
			fv, _ = FieldOf(fa)
		}
		if fv == nil {
			return nil
		}
		if p, n := NamedOf(fv.Type()); p == "sync" && (n == "Mutex" || n == "RWMutex") {
			return fv
		}
		return nil
	}
	// any mutex of the iterator; which one guards which object is decided by consistency below (one mutex may
	// guard the counters and another the random source)
	isMu := func(v ssa.Value) bool { return muField(v) != nil }
	var muFields []*types.Var
	if tn, ok := P.Pkg("lib/mp").Types.Scope().Lookup("NextIterator").(*types.TypeName); ok {
		if st, ok := tn.Type().Underlying().(*types.Struct); ok {
			for i := 0; i < st.NumFields(); i++ {
				if p, n := NamedOf(st.Field(i).Type()); p == "sync" && (n == "Mutex" || n == "RWMutex") {
					muFields = append(muFields, st.Field(i))
				}
			}
		}
	}
	c.Floor("O15.5", "mutex fields of NextIterator", len(muFields), 1)
	guardsOf := map[string]map[*types.Var]int{} // object (gs / rnd) -> mutex -> accesses made under it
	accOf := map[string]int{}
	sp := P.SSAPkg("lib/mp")
	nAcc := 0
	for _, fn := range PkgFuncs(sp) {
		if !IsProdFile(P.File(fn.Pos())) || fn.Name() == "NewNextIterator" {
			continue
		}
		var ls *Locksets
		perMu := map[*types.Var]*Locksets{}
		EachInstr(fn, func(in ssa.Instruction) {
			var what string
			write := false
			switch x := in.(type) {
			case *ssa.Lookup:
				if IsFieldLoad(x.X, "NextIterator", "gs") {
					what = "lookup in gs"
				}
			case *ssa.MapUpdate:
				if IsFieldLoad(x.Map, "NextIterator", "gs") {
					what, write = "insert into gs", true
				}
			case *ssa.Range:
				if IsFieldLoad(x.X, "NextIterator", "gs") {
					what = "range over gs"
				}
			default:
				if cc := CC(in); cc != nil && len(cc.Args) > 0 && IsFieldLoad(cc.Args[0], "NextIterator", "rnd") {
					what, write = "use of rnd ("+CalleeObj(cc).Name()+")", true
				}
			}
			if what == "" {
				return
			}
			nAcc++
			if ls == nil {
				ls = NewLocksets(fn, isMu)
			}
			st := ls.Before[in]
			ok := st.W || (!write && st.R)
			c.Check(ok, "O15.5", fmt.Sprintf("%s:%s-under-mx", fk(fn), strings.ReplaceAll(what, " ", "-")), in.Pos(), fmt.Sprintf("%s must happen with a mutex of the iterator held (write lock for writes): R=%v W=%v", what, st.R, st.W))
			obj := "gs"
			if strings.HasPrefix(what, "use of rnd") {
				obj = "rnd"
			}
			accOf[obj]++
			for _, mf := range muFields {
				mf := mf
				if perMu[mf] == nil {
					perMu[mf] = NewLocksets(fn, func(v ssa.Value) bool { return muField(v) == mf })
				}
				ms := perMu[mf].Before[in]
				if ms.W || (!write && ms.R) {
					if guardsOf[obj] == nil {
						guardsOf[obj] = map[*types.Var]int{}
					}
					guardsOf[obj][mf]++
				}
			}
		})
		if ls != nil {
			okExit := true
			for b, e := range ls.AtExit {
				if b != fn.Recover && (e.R || e.W) {
					okExit = false
				}
			}
			c.Check(okExit, "O15.5", fk(fn)+":mx-released-on-every-exit", fn.Pos(), "mx is released on every exit")
		}
	}
	c.Floor("O15.5", "accesses to NextIterator.gs / rnd", nAcc, 3)
	for _, obj := range []string{"gs", "rnd"} {
		common := ""
		for mf, k := range guardsOf[obj] {
			if k == accOf[obj] {
				common = mf.Name()
			}
		}
		c.Check(accOf[obj] == 0 || common != "", "O15.5", "lib/mp.NextIterator."+obj+":one-mutex-guards-every-access", next.Pos(), fmt.Sprintf("%d accesses to %s; a single mutex held at all of them: %q", accOf[obj], obj, common))
	}
	// check-then-insert atomic: no unlock between the lookup and the insert
	var lk *ssa.Lookup
	var ins *ssa.MapUpdate
	var allIns []*ssa.MapUpdate
	EachInstr(next, func(in ssa.Instruction) {
		switch x := in.(type) {
		case *ssa.Lookup:
			if IsFieldLoad(x.X, "NextIterator", "gs") {
				lk = x
			}
		case *ssa.MapUpdate:
			if IsFieldLoad(x.Map, "NextIterator", "gs") {
				allIns = append(allIns, x)
			}
		}
	})
	// the insert = the update made where the lookup missed; an update on the hit edge is the plain-integer form of
	// "advance the counter" (decided with the returned values below)
	for _, x := range allIns {
		if lk != nil && HasBoolFact(BoolFactsAt(x), IsResultOf(lk, 1), false) {
			ins = x
		}
	}
	if ins == nil && len(allIns) > 0 {
		ins = allIns[len(allIns)-1]
	}
	if lk == nil || ins == nil {
		c.Bad("O15.5", fk(next)+":lookup-and-insert", next.Pos(), "Next must look the path's counter up in gs and insert a missing one")
	} else {
		iv := PathQuery{Fn: next, Start: lk, Stop: func(in ssa.Instruction) bool { return in == ssa.Instruction(ins) }, Exit: func(*ssa.BasicBlock) bool { return false },
			Weight: func(in ssa.Instruction) (int, int) {
				if cc := CC(in); cc != nil {
					if _, isDefer := in.(*ssa.Defer); !isDefer {
						if f := CalleeObj(cc); f != nil && (f.Name() == "Unlock" || f.Name() == "RUnlock") && len(cc.Args) > 0 && isMu(cc.Args[0]) {
							return 1, 1
						}
					}
				}
				return 0, 0
			}}.Count()
		sameKey := sameRoots(lk.Index, ins.Key) && len(next.Params) == 2 && lk.Index == ssa.Value(next.Params[1])
		onMiss := HasBoolFact(BoolFactsAt(ins), IsResultOf(lk, 1), false)
		c.Check(iv.Is(0, 0) && sameKey && onMiss, "O15.5", fk(next)+":lookup-and-insert-are-one-critical-section", ins.Pos(),
			fmt.Sprintf("unlocks between the lookup and the insert = %v (want [0,0]: two first users of a path must not both insert a counter); same key (the segment argument): %v; insert only on the miss edge: %v", iv, sameKey, onMiss))
		// values: 0 on the miss edge, Add(1) of the found counter otherwise
		okVals := true
		nRet := 0
		for _, b := range next.Blocks {
			r, ok := b.Instrs[len(b.Instrs)-1].(*ssa.Return)
			if !ok || b == next.Recover {
				continue
			}
			nRet++
			miss := HasBoolFact(BoolFactsAt(r), IsResultOf(lk, 1), false)
			found := HasBoolFact(BoolFactsAt(r), IsResultOf(lk, 1), true)
			vals := Roots(r.Results[0], false)
			switch {
			case miss:
				for _, v := range vals {
					if k, ok := ConstInt(v); !ok || k != 0 {
						okVals = false
					}
				}
			case found:
				for _, v := range vals {
					// plain-integer counters: the value found plus one, written back under the same key before returning
					if bo, isB := v.(*ssa.BinOp); isB && bo.Op == token.ADD && DerivesOnly(bo.X, false, IsResultOf(lk, 0)) {
						one, isOne := ConstInt(bo.Y)
						stored := false
						for _, x := range allIns {
							if x != ins && Strip(x.Value) == ssa.Value(bo) && sameRoots(x.Key, lk.Index) && InstrDominates(x, r) {
								stored = true
							}
						}
						if isOne && one == 1 && stored {
							continue
						}
						okVals = false
						continue
					}
					cl, _ := CallOfValue(v)
					if cl == nil || CalleeObj(&cl.Call) == nil || CalleeObj(&cl.Call).Name() != "Add" || !DerivesOnly(cl.Call.Args[0], false, IsResultOf(lk, 0)) {
						okVals = false
					} else if one, ok := ConstInt(cl.Call.Args[1]); !ok || one != 1 {
						okVals = false
					}
				}
			default:
				// a single return after the join: accept phi of {0, Add(1)}
				for _, v := range rootsNoParam(r.Results[0]) {
					if k, ok := ConstInt(v); ok && k == 0 {
						continue
					}
					ok := DerivesOnly(v, false, func(x ssa.Value) bool {
						cl, _ := CallOfValue(x)
						return cl != nil && CalleeObj(&cl.Call) != nil && CalleeObj(&cl.Call).Name() == "Add"
					})
					if !ok {
						okVals = false
					}
				}
			}
		}
		c.Check(okVals && nRet >= 1, "O15.5", fk(next)+":consecutive-values", next.Pos(), "Next returns 0 when it creates the path's counter and counter.Add(1) afterwards")
	}
	// calcIndex: iter.Next(segment) with its segment parameter; modulo only when index >= length
	okNext, okMod := false, false
	EachInstr(ci, func(in ssa.Instruction) {
		cc := CC(in)
		if cc != nil && cc.IsInvoke() && cc.Method.Name() == "Next" && len(ci.Params) == 4 && cc.Args[0] == ssa.Value(ci.Params[1]) {
			okNext = true
			cl := in.(*ssa.Call)
			for _, r := range *cl.Referrers() {
				if bo, ok := r.(*ssa.BinOp); ok && bo.Op == token.REM && bo.Y == ssa.Value(ci.Params[2]) {
					for _, f := range CmpFactsAt(bo) {
						f = f.Canon()
						// length <= index
						if f.Op == token.LEQ && f.X == ssa.Value(ci.Params[2]) && f.Y == ssa.Value(cl) {
							okMod = true
						}
					}
				}
			}
		}
	})
	c.Check(okNext && okMod, "O15.5", fk(ci)+":next-index-by-path-modulo-length", ci.Pos(), fmt.Sprintf("index = iter.Next(<path of the segment>): %v; reduced modulo length on index >= length: %v", okNext, okMod))
	// the path that names a [next] counter is the path as written so far: in GetMapValue the builder whose String() goes
	// to extractFromSlice receives, per segment, "." and the whole (trimmed) segment - with its index expression - not a
	// part cut out of it: `regions[0].users[next]` and `regions[1].users[next]` are different lists with their own counters
	if gm := P.Func("lib/mp", "", "GetMapValue"); gm == nil {
		c.Anchor("O15.5", "lib/mp.GetMapValue")
	} else {
		var pathArg ssa.Value
		EachInstr(gm, func(in ssa.Instruction) {
			if cl, ok := in.(*ssa.Call); ok && cl.Call.StaticCallee() != nil && cl.Call.StaticCallee().Name() == "extractFromSlice" && len(cl.Call.Args) >= 3 {
				pathArg = cl.Call.Args[2]
			}
		})
		okKey, detail := false, "no extractFromSlice(value, index, <path so far>, iter) call"
		// ... or "." + strings.Join(segments[:i+1], "."): the prefix of the segments as they were split
		if b, isB := Strip(pathArg).(*ssa.BinOp); pathArg != nil && isB && b.Op == token.ADD {
			if dot, isS := ConstString(b.X); isS && dot == "." {
				if jc, _ := CallOfValue(b.Y); jc != nil && MatchCC(&jc.Call, Spec{"strings", "", "Join"}) {
					sep, isSep := ConstString(jc.Call.Args[1])
					if sl, isSl := Strip(jc.Call.Args[0]).(*ssa.Slice); isSl && isSep && sep == "." && sl.Low == nil {
						fromSplit := DerivesAny(sl.X, false, func(v ssa.Value) bool {
							cl, _ := CallOfValue(v)
							return cl != nil && MatchCC(&cl.Call, Spec{"strings", "", "Split"})
						})
						okKey = fromSplit
						detail = fmt.Sprintf("\".\" + strings.Join(<segments as split>[:i+1], \".\"): %v", fromSplit)
					}
				}
			}
		}
		if sc, _ := CallOfValue(pathArg); !okKey && sc != nil && MatchCC(&sc.Call, Spec{"strings", "Builder", "String"}) {
			builder := sc.Call.Args[0]
			nW := 0
			okKey = true
			EachInstr(gm, func(in ssa.Instruction) {
				cl, ok := in.(*ssa.Call)
				if !ok || !MatchCC(&cl.Call, Spec{"strings", "Builder", "WriteString"}) || !sameRoots(cl.Call.Args[0], builder) {
					return
				}
				nW++
				// the written text is the ranged segment itself, possibly trimmed - never a slice of it or a helper's result
				for _, r := range Roots(cl.Call.Args[1], false) {
					r = Strip(r)
					if tc, isC := r.(*ssa.Call); isC && MatchCC(&tc.Call, Spec{"strings", "", "TrimSpace"}) {
						r = Strip(tc.Call.Args[0])
						if rs := Roots(r, false); len(rs) == 1 {
							r = Strip(rs[0])
						}
					}
					switch x := r.(type) {
					case *ssa.UnOp: // the element of the ranged segments slice
						if _, isIA := x.X.(*ssa.IndexAddr); !isIA {
							okKey = false
						}
					case *ssa.Const:
					default:
						okKey = false
						detail = fmt.Sprintf("the builder receives %s, not the segment as written", r)
					}
				}
			})
			if nW == 0 {
				okKey = false
				detail = "nothing is written into the path builder"
			} else if okKey {
				detail = fmt.Sprintf("%d WriteString call(s), each with the whole segment", nW)
			}
		}
		c.Check(okKey, "O15.5", fk(gm)+":next-key-is-the-path-as-written", gm.Pos(), "the counter key handed to extractFromSlice is the accumulated path with every segment as written (index expressions included): "+detail)
	}
	// GetMapValue passes the accumulated path, one iterator per scenario
	for _, rel := range []string{"components/providers/scenario/http", "components/providers/scenario/grpc"} {
		fn := P.Func(rel, "", "convertScenarioToAmmo")
		if fn == nil {
			continue
		}
		var ni *ssa.Call
		EachInstr(fn, func(in ssa.Instruction) {
			if cl, ok := in.(*ssa.Call); ok && MatchCC(&cl.Call, Spec{"./lib/mp", "", "NewNextIterator"}) {
				ni = cl
			}
		})
		ok := ni != nil && loopHeaderOf(ni.Block()) == nil
		c.Check(ok, "O15.5", fk(fn)+":one-iterator-per-scenario", fn.Pos(), "the [next] counters are created once per scenario (outside the step loop) and shared by all its steps and instances")
	}
}

// ---- O15.8: every part is rendered into an empty buffer

// bufEffect: what a helper of the package does to a buffer it gets as parameter, given that the buffer is clean at entry.
type bufEffect struct {
	hasExec    bool // a template is executed into the buffer (here or further down)
	needsClean bool // ... before any Reset: the buffer must be empty when the helper is called
	writes           bool // the helper writes into the buffer at all
	okDirty, errDirty bool // the buffer may hold output at a return with a nil error (or any return of a helper without an error result) / with an error
	bad              string // an execution into a possibly dirty buffer inside the helper
}

var bufEffectMemo = map[string]*bufEffect{}

func bufEffectOf(f *ssa.Function, pi int, isExec func(ssa.Instruction) bool, depth int) *bufEffect {
	key := fmt.Sprintf("%p/%d", f, pi)
	if e, ok := bufEffectMemo[key]; ok {
		return e
	}
	e := &bufEffect{}
	bufEffectMemo[key] = e
	if depth > 3 || pi >= len(f.Params) {
		e.writes, e.okDirty, e.errDirty = true, true, true
		return e
	}
	par := ssa.Value(f.Params[pi])
	isBuf := func(v ssa.Value) bool {
		rs := Roots(v, false)
		if len(rs) == 1 && rs[0] == par {
			return true
		}
		return Strip(v) == par
	}
	r := mayDirty(f, isBuf, false, isExec, depth+1)
	atExit := r.atExit
	e.writes, e.hasExec = r.wrote, r.hasExec
	if len(r.dirtyExecs) > 0 {
		e.bad = "execution into a possibly dirty buffer in " + f.Name()
	}
	if r2 := mayDirty(f, isBuf, true, isExec, depth+1); len(r2.dirtyExecs) > len(r.dirtyExecs) {
		e.needsClean = true
	}
	for b, d := range atExit {
		ret, ok := b.Instrs[len(b.Instrs)-1].(*ssa.Return)
		if !ok || !d {
			continue
		}
		isErr := false
		if n := len(ret.Results); n > 0 && types.Identical(ret.Results[n-1].Type(), errType) && !IsNilConst(ret.Results[n-1]) {
			isErr = true
		}
		if isErr {
			e.errDirty = true
		} else {
			e.okDirty = true
		}
	}
	return e
}

// mayDirty computes, for one buffer object (identified by pred on the receiver / argument values), the instructions
// before which the buffer may hold earlier output: a forward may-analysis over the CFG with dirty=true after a write
// event and dirty=false after Reset. entryDirty is the state at function entry. A call of a helper of the package that
// takes the buffer is summarised (bufEffectOf); where the block ends with the test of that call's error, the two edges
// carry the helper's state for its error and its success returns.
type dirtyResult struct {
	before     map[ssa.Instruction]bool
	atExit     map[*ssa.BasicBlock]bool
	wrote      bool
	hasExec    bool
	dirtyExecs []ssa.Instruction // executions (or helper calls that execute before resetting) reached with a possibly dirty buffer
	helperBad  string
}

func mayDirty(fn *ssa.Function, isBuf func(ssa.Value) bool, entryDirty bool, isExec func(ssa.Instruction) bool, depth int) (res dirtyResult) {
	var before map[ssa.Instruction]bool
	var atExit map[*ssa.BasicBlock]bool
	wrote := false
	defer func() { res.before, res.atExit, res.wrote = before, atExit, wrote }()
	type ev struct {
		write, reset bool
		helper       *bufEffect
		call         *ssa.Call
	}
	event := func(in ssa.Instruction) ev {
		cc := CC(in)
		if cc == nil {
			return ev{}
		}
		if _, isDefer := in.(*ssa.Defer); isDefer {
			return ev{}
		}
		recvIsBuf := false
		args := cc.Args
		if cc.IsInvoke() {
			recvIsBuf = isBuf(cc.Value)
		} else if f := CalleeObj(cc); f != nil && RecvTypeName(f) != "" && len(args) > 0 && isBufferType(args[0].Type()) {
			recvIsBuf = isBuf(args[0])
			args = args[1:]
		}
		name := ""
		if f := CalleeObj(cc); f != nil {
			name = f.Name()
		}
		if recvIsBuf {
			switch name {
			case "Reset", "Truncate":
				return ev{reset: true}
			case "String", "Bytes", "Len", "Cap", "Available":
				return ev{}
			}
			return ev{write: true}
		}
		for i, a := range cc.Args {
			if !isBuf(a) {
				continue
			}
			if name == "Put" {
				return ev{}
			}
			if sc := cc.StaticCallee(); sc != nil && len(sc.Blocks) > 0 && PkgOf(sc) == PkgOf(fn) && isExec != nil {
				cl, _ := in.(*ssa.Call)
				return ev{helper: bufEffectOf(sc, i, isExec, depth), call: cl}
			}
			return ev{write: true} // handed to a callee that may write into it (tmpl.Execute(buf, data))
		}
		return ev{}
	}
	if len(fn.Blocks) == 0 {
		return
	}
	in := map[*ssa.BasicBlock]bool{}
	// out state per edge: out[b][k] for successor k
	out := map[*ssa.BasicBlock][]bool{}
	transfer := func(b *ssa.BasicBlock, d bool) []bool {
		var last ev
		for _, i := range b.Instrs {
			e := event(i)
			switch {
			case e.write:
				d, wrote = true, true
				last = ev{}
			case e.reset:
				d = false
				last = ev{}
			case e.helper != nil:
				if e.helper.writes {
					wrote = true
				}
				if e.helper.writes || e.helper.okDirty || e.helper.errDirty {
					d = d || e.helper.okDirty || e.helper.errDirty
					last = e
				}
			}
		}
		res := make([]bool, len(b.Succs))
		for k := range res {
			res[k] = d
		}
		// the block ends with the test of the last helper call's error: split the state
		if iff, ok := b.Instrs[len(b.Instrs)-1].(*ssa.If); ok && last.helper != nil && last.call != nil && len(b.Succs) == 2 {
			f := CondFact(iff.Cond, true).Canon()
			if f.Y != nil && IsNilConst(f.Y) && (f.Op == token.NEQ || f.Op == token.EQL) {
				if e, isE := Strip(f.X).(*ssa.Extract); isE && e.Tuple == ssa.Value(last.call) && types.Identical(e.Type(), errType) {
					errEdge, okEdge := 0, 1
					if f.Op == token.EQL {
						errEdge, okEdge = 1, 0
					}
					res[errEdge], res[okEdge] = last.helper.errDirty, last.helper.okDirty
				}
			}
		}
		return res
	}
	in[fn.Blocks[0]] = entryDirty
	for changed := true; changed; {
		changed = false
		for _, b := range fn.Blocks {
			d := false
			if b == fn.Blocks[0] {
				d = entryDirty
			}
			for _, p := range b.Preds {
				for k, s := range p.Succs {
					if s == b && k < len(out[p]) && out[p][k] {
						d = true
					}
				}
			}
			o := transfer(b, d)
			same := d == in[b] && len(o) == len(out[b])
			if same {
				for k := range o {
					if o[k] != out[b][k] {
						same = false
					}
				}
			}
			if !same {
				in[b], out[b] = d, o
				changed = true
			}
		}
	}
	before = map[ssa.Instruction]bool{}
	atExit = map[*ssa.BasicBlock]bool{}
	for _, b := range fn.Blocks {
		d := in[b]
		for _, i := range b.Instrs {
			before[i] = d
			e := event(i)
			if isExec != nil && isExec(i) && isBuf(CC(i).Args[1]) {
				res.hasExec = true
				if d {
					res.dirtyExecs = append(res.dirtyExecs, i)
				}
			}
			switch {
			case e.write:
				d = true
			case e.reset:
				d = false
			case e.helper != nil:
				if e.helper.hasExec {
					res.hasExec = true
				}
				if e.helper.needsClean && d {
					res.dirtyExecs = append(res.dirtyExecs, i)
				}
				if e.helper.bad != "" {
					res.helperBad = e.helper.bad
				}
				d = d || e.helper.okDirty || e.helper.errDirty
			}
		}
		if ExitOf(b) != ExitNone {
			atExit[b] = d
		}
	}
	return
}

func isBufferType(t types.Type) bool {
	if p, ok := t.Underlying().(*types.Pointer); ok {
		t = p.Elem()
	}
	pk, n := NamedOf(t)
	return (pk == "strings" && n == "Builder") || (pk == "bytes" && n == "Buffer") || (pk == "bufio" && n == "Writer")
}

func c15CleanRenderBuffers(c *Ctx) {
	c.Rule("O15.8", "every part is rendered from the shot's variables alone: the writer a template is executed into is empty at that moment - a buffer made in this call, or one taken from a sync.Pool that only ever receives reset buffers; on every path a Reset lies between two executions into the same buffer (helpers of the package that render into a buffer they are given are summarised: what state they leave it in on success and on error), and a pooled buffer is reset on every path to its Put (a failed Execute leaves its partial output behind, which the next shot would send as the start of its URI)")
	P := c.P
	sExec := []Spec{{"text/template", "Template", "Execute"}, {"html/template", "Template", "Execute"}}
	sPoolGet := Spec{"sync", "Pool", "Get"}
	sPoolPut := Spec{"sync", "Pool", "Put"}
	isExec := func(in ssa.Instruction) bool {
		if _, isCall := in.(*ssa.Call); !isCall {
			return false
		}
		return IsCall(in, sExec...)
	}
	n := 0
	for _, fn := range P.ProdFuncs() {
		// the buffers of this function that something is rendered into: arguments of Execute and of package helpers
		var roots []ssa.Value
		seen := map[ssa.Value]bool{}
		EachInstr(fn, func(in ssa.Instruction) {
			cl, ok := in.(*ssa.Call)
			if !ok {
				return
			}
			var cands []ssa.Value
			if isExec(in) {
				cands = append(cands, cl.Call.Args[1])
			} else if sc := cl.Call.StaticCallee(); sc != nil && len(sc.Blocks) > 0 && PkgOf(sc) == PkgOf(fn) {
				for _, a := range cl.Call.Args {
					if isBufferType(a.Type()) {
						cands = append(cands, a)
					}
				}
			}
			for _, w := range cands {
				rs := Roots(w, false)
				if len(rs) != 1 {
					if isExec(in) {
						n++
						c.Bad("O15.8", fk(fn)+":writer-is-one-buffer", in.Pos(), "the writer of template.Execute may be one of several objects; the rule follows one buffer")
					}
					continue
				}
				if !seen[rs[0]] {
					seen[rs[0]] = true
					roots = append(roots, rs[0])
				}
			}
		})
		for _, root := range roots {
			root := root
			isBuf := func(v ssa.Value) bool {
				rs := Roots(v, false)
				return len(rs) == 1 && rs[0] == root
			}
			pooled, fresh := false, false
			switch x := root.(type) {
			case *ssa.Alloc:
				fresh = true
			case *ssa.Call:
				pooled = MatchCC(&x.Call, sPoolGet)
			case *ssa.Extract:
				if cl, ok := x.Tuple.(*ssa.Call); ok {
					pooled = MatchCC(&cl.Call, sPoolGet)
				}
			case *ssa.TypeAssert:
				if cl, _ := CallOfValue(x.X); cl != nil {
					pooled = MatchCC(&cl.Call, sPoolGet)
				}
			case *ssa.Parameter:
				if len(PkgCallers(fn)) > 0 {
					continue // a helper that renders into the buffer it is given: summarised at its callers
				}
			}
			r := mayDirty(fn, isBuf, !fresh && !pooled, isExec, 0)
			if !r.hasExec {
				continue
			}
			n++
			key := fk(fn) + ":" + strings.TrimPrefix(types.TypeString(root.Type(), nil), "*")
			bad := r.helperBad
			for _, ex := range r.dirtyExecs {
				bad = "may hold earlier output at " + P.Pos(ex.Pos())
			}
			pos := fn.Pos()
			if in, ok := root.(ssa.Instruction); ok {
				pos = in.Pos()
			}
			if !fresh && !pooled {
				c.Check(bad == "", "O15.8", key+":reset-before-every-render", pos, "the buffer is neither made in this call nor taken from a pool (its state at entry is unknown): a Reset must precede every execution; "+bad)
				continue
			}
			c.Check(bad == "", "O15.8", key+":empty-at-every-render", pos, "a Reset lies between two executions into the same buffer on every path; "+bad)
			if pooled {
				// every Put of this buffer: direct -> clean before it; deferred -> clean at every exit after the defer
				badPut := ""
				EachInstr(fn, func(in ssa.Instruction) {
					cc := CC(in)
					if cc == nil || !MatchCC(cc, sPoolPut) || !isBuf(cc.Args[len(cc.Args)-1]) {
						return
					}
					if _, isDefer := in.(*ssa.Defer); isDefer {
						for b, d := range r.atExit {
							if d && (BlockCanReach(in.Block(), b) || in.Block() == b) {
								badPut = "deferred Put with the buffer possibly dirty at the exit " + P.Pos(b.Instrs[len(b.Instrs)-1].Pos())
							}
						}
					} else if r.before[in] {
						badPut = "Put of a possibly dirty buffer at " + P.Pos(in.Pos())
					}
				})
				c.Check(badPut == "", "O15.8", key+":pooled-buffer-is-put-back-empty", pos, "the pool only ever receives reset buffers (the next Get relies on it); "+badPut)
			}
		}
	}
	c.Floor("O15.8", "render buffers of template executions", n, 3)
}

// ---- O15.9: an assertion judges the response it is given

func c15AssertionsReadTheBody(c *Ctx) {
	c.Rule("O15.9", "a configured assertion judges the response: in the assert/response postprocessor every use of the body bytes (their length in the size test, their content in the pattern test) happens under some configuration condition (Size != nil, a pattern list being ranged over); on every path that is consistent with that condition - the same field tests answered the same way, a body reader present, no read error - the bytes come from a read of the body reader the processor was given (a size assertion that skips the read compares the expectation with 0 and fails or passes regardless of the response)")
	P := c.P
	fn := P.Func("components/providers/scenario/http/postprocessor", "AssertResponse", "Process")
	if fn == nil || len(fn.Params) < 3 {
		c.Anchor("O15.9", "components/providers/scenario/http/postprocessor.AssertResponse.Process(resp, body)")
		return
	}
	recv, body := ssa.Value(fn.Params[0]), ssa.Value(fn.Params[2])
	// the reads of the body: io.ReadAll(body) / body.Read / io.Copy(_, body) / ReadFrom(body)
	isRead := func(in ssa.Instruction) bool {
		cc := CC(in)
		if cc == nil {
			return false
		}
		if _, isDefer := in.(*ssa.Defer); isDefer {
			return false
		}
		uses := false
		for _, a := range cc.Args {
			if DerivesAny(a, false, func(v ssa.Value) bool { return v == body }) {
				uses = true
			}
		}
		if cc.IsInvoke() && DerivesAny(cc.Value, false, func(v ssa.Value) bool { return v == body }) {
			uses = true
		}
		return uses
	}
	var readVals []ssa.Value
	EachInstr(fn, func(in ssa.Instruction) {
		if v, ok := in.(ssa.Value); ok && isRead(in) {
			readVals = append(readVals, v)
		}
	})
	fromRead := func(v ssa.Value) bool {
		for _, r := range Roots(v, true) {
			for _, rv := range readVals {
				if cl, _ := CallOfValue(r); cl != nil && ssa.Value(cl) == rv {
					return true
				}
			}
		}
		return false
	}
	// field of the receiver a value is loaded from (a.Size, a.Body, a.Size.Val ...): the outermost receiver field
	recvField := func(v ssa.Value) *types.Var {
		for d := 0; d < 6; d++ {
			v = Strip(v)
			switch x := v.(type) {
			case *ssa.UnOp:
				v = x.X
			case *ssa.FieldAddr:
				if Strip(x.X) == recv || isSpillOf(x.X, recv) {
					return derefStructOf(x.X.Type()).Field(x.Field)
				}
				v = x.X
			case *ssa.Field:
				if Strip(x.X) == recv {
					return x.X.Type().Underlying().(*types.Struct).Field(x.Field)
				}
				v = x.X
			default:
				return nil
			}
		}
		return nil
	}
	n := 0
	EachInstr(fn, func(in ssa.Instruction) {
		// a use of the bytes: len(b) or a call taking b, where b may come from a read
		cc := CC(in)
		if cc == nil || isRead(in) {
			return
		}
		if _, isDefer := in.(*ssa.Defer); isDefer {
			return
		}
		usesBytes := false
		for _, a := range cc.Args {
			if sl, ok := a.Type().Underlying().(*types.Slice); ok {
				if bt, ok := sl.Elem().Underlying().(*types.Basic); ok && bt.Kind() == types.Byte && fromRead(a) {
					usesBytes = true
				}
			}
		}
		if !usesBytes {
			return
		}
		n++
		// the configuration conditions the use stands under
		var as []Assumption
		var conds []string
		for _, f := range DomFacts(in.Block()) {
			f := f.Canon()
			if f.Y == nil {
				continue
			}
			switch {
			case (f.Op == token.NEQ || f.Op == token.EQL) && IsNilConst(f.Y) && recvField(f.X) != nil:
				fv, op := recvField(f.X), f.Op
				conds = append(conds, fv.Name()+" "+op.String()+" nil")
				as = append(as, Assumption{Pred: func(v ssa.Value) bool {
					b, ok := v.(*ssa.BinOp)
					return ok && b.Op == op && IsNilConst(b.Y) && recvField(b.X) == fv
				}, Val: true}, Assumption{Pred: func(v ssa.Value) bool {
					b, ok := v.(*ssa.BinOp)
					return ok && b.Op == negateTok(op) && IsNilConst(b.Y) && recvField(b.X) == fv
				}, Val: false})
			case f.Op == token.LSS:
				// idx < len(a.F): the list is not empty
				if cl, ok := f.Y.(*ssa.Call); ok {
					if bi, isB := cl.Call.Value.(*ssa.Builtin); isB && bi.Name() == "len" && recvField(cl.Call.Args[0]) != nil {
						fv := recvField(cl.Call.Args[0])
						conds = append(conds, "len("+fv.Name()+") > 0")
						as = append(as, Assumption{Pred: func(v ssa.Value) bool {
							b, ok := v.(*ssa.BinOp)
							if !ok {
								return false
							}
							g := Fact{Op: b.Op, X: b.X, Y: b.Y}.Canon()
							k, isK := ConstInt(g.X)
							c2, isC := g.Y.(*ssa.Call)
							if !isK || k != 0 || g.Op != token.LSS || !isC {
								return false
							}
							bi2, isB2 := c2.Call.Value.(*ssa.Builtin)
							return isB2 && bi2.Name() == "len" && recvField(c2.Call.Args[0]) == fv
						}, Val: true})
					}
				}
			}
		}
		// a body reader is there, and reading it does not fail
		as = append(as,
			Assumption{Pred: func(v ssa.Value) bool {
				b, ok := v.(*ssa.BinOp)
				return ok && b.Op == token.NEQ && IsNilConst(b.Y) && DerivesAny(b.X, false, func(x ssa.Value) bool { return x == body })
			}, Val: true},
			Assumption{Pred: func(v ssa.Value) bool {
				b, ok := v.(*ssa.BinOp)
				return ok && b.Op == token.EQL && IsNilConst(b.Y) && DerivesAny(b.X, false, func(x ssa.Value) bool { return x == body })
			}, Val: false},
			Assumption{Pred: func(v ssa.Value) bool {
				b, ok := v.(*ssa.BinOp)
				return ok && b.Op == token.NEQ && IsNilConst(b.Y) && types.Identical(b.X.Type(), errType)
			}, Val: false},
			Assumption{Pred: func(v ssa.Value) bool {
				b, ok := v.(*ssa.BinOp)
				return ok && b.Op == token.EQL && IsNilConst(b.Y) && types.Identical(b.X.Type(), errType)
			}, Val: true})
		iv := PathQuery{Fn: fn, Shallow: true, Assume: as,
			Stop: func(i2 ssa.Instruction) bool { return i2 == in },
			Exit: func(*ssa.BasicBlock) bool { return false },
			Weight: func(i2 ssa.Instruction) (int, int) {
				if isRead(i2) {
					return 1, 1
				}
				return 0, 0
			}}.Count()
		sort.Strings(conds)
		c.Check(!iv.NoPath && iv.Min >= 1, "O15.9", fmt.Sprintf("%s:body-read-before-%s#%d-under-%s", fk(fn), strings.ReplaceAll(cc.Value.Name(), " ", "-"), n, strings.Join(conds, "&")), in.Pos(),
			fmt.Sprintf("reads of the body on the paths to this use under {%s}, a body present and no read error = %v (want at least 1 on every path); witness %s", strings.Join(conds, ", "), iv, PathString(iv.MinPath)))
	})
	c.Floor("O15.9", "uses of the body bytes in AssertResponse.Process", n, 2)
}

// isSpillOf: v is the local cell a value receiver / parameter was copied into.
func isSpillOf(v, param ssa.Value) bool {
	cell, ok := Strip(v).(*ssa.Alloc)
	if !ok {
		return false
	}
	sts := StoresTo(cell)
	return len(sts) == 1 && sts[0].Val == param
}
