package rules

import (
	"go/constant"
	"fmt"
	"strings"
	"go/token"
	"go/types"

	. "pandoravet/core"

	"golang.org/x/tools/go/ssa"
)

func init() {
	register(&Pack{Property: "C14", Title: "preload is behaviour-preserving; chosencases", Run: runC14})
}

// loadAmmoUnbounded decides the two facts that make "LoadAmmo cannot end with
// ErrAmmoLimit" true: (1) protoDecoder.LoadAmmo stores Limit=0 and Passes=1 into
// the decoder config before the scan loop and restores the saved values on
// every exit; (2) every return of ErrAmmoLimit in the decoders package is
// dominated by Limit != 0. If c != nil the facts are recorded as O14.4.
func loadAmmoUnbounded(P *Prog, c *Ctx) bool {
	la := P.Func("components/providers/http/decoders", "protoDecoder", "LoadAmmo")
	if la == nil {
		if c != nil {
			c.Anchor("O14.4", "decoders.(*protoDecoder).LoadAmmo")
		}
		return false
	}
	k := fk(la)
	ok := true
	rec := func(cond bool, construct, detail string, pos token.Pos) {
		if c != nil {
			c.Check(cond, "O14.4", construct, pos, detail)
		}
		if !cond {
			ok = false
		}
	}
	// the scan calls (dynamic calls of the func parameter)
	var scans []ssa.Instruction
	EachInstr(la, func(in ssa.Instruction) {
		if cc := CC(in); cc != nil && !cc.IsInvoke() && cc.StaticCallee() == nil {
			if _, isB := cc.Value.(*ssa.Builtin); !isB {
				if p, isP := cc.Value.(*ssa.Parameter); isP && p.Parent() == la {
					scans = append(scans, in)
				}
			}
		}
	})
	rec(len(scans) >= 1, k+":scan-calls", "LoadAmmo drives the scan function it is given", la.Pos())
	if len(scans) == 0 {
		return false
	}
	for _, fld := range []struct {
		name string
		val  int64
	}{{"Limit", 0}, {"Passes", 1}} {
		var force, restore []*ssa.Store
		var saved ssa.Value
		EachInstr(la, func(in ssa.Instruction) {
			v, isSt := StoreToField(in, "Config", fld.name)
			if !isSt {
				return
			}
			if kk, isC := ConstInt(v); isC && kk == fld.val {
				force = append(force, in.(*ssa.Store))
			} else {
				restore = append(restore, in.(*ssa.Store))
				saved = v
			}
		})
		okForce := len(force) == 1
		if okForce {
			for _, sc := range scans {
				if !InstrDominates(force[0], sc) {
					okForce = false
				}
			}
		}
		rec(okForce, k+":"+fld.name+"-forced-before-scan", fmt.Sprintf("config.%s = %d must be stored before every scan call (one unbounded pass)", fld.name, fld.val), la.Pos())
		// restore: the saved value is a load of the same field taken before the forcing store; the restoring store post-dominates the loop
		okRestore := len(restore) == 1 && saved != nil && IsFieldLoad(saved, "Config", fld.name)
		if okRestore {
			ld := saved.(ssa.Instruction)
			okRestore = okForce && InstrDominates(ld, force[0])
			iv := PathQuery{Fn: la, Weight: func(in ssa.Instruction) (int, int) {
				if in == ssa.Instruction(restore[0]) {
					return 1, 1
				}
				return 0, 0
			}}.Count()
			if !iv.Is(1, 1) {
				okRestore = false
			}
			for _, sc := range scans {
				if CanReach(restore[0], sc) {
					okRestore = false
				}
			}
		}
		// ... or restored by a deferred closure armed before the scans: defer func() { d.config.X = saved }()
		if !okRestore && okForce && len(restore) == 0 {
			EachInstr(la, func(in ssa.Instruction) {
				df, isD := in.(*ssa.Defer)
				if !isD {
					return
				}
				mc, isMC := df.Call.Value.(*ssa.MakeClosure)
				if !isMC {
					return
				}
				for _, sc := range scans {
					if !InstrDominates(df, sc) {
						return
					}
				}
				clo := mc.Fn.(*ssa.Function)
				n, good := 0, true
				EachInstr(clo, func(i2 ssa.Instruction) {
					v, isSt := StoreToField(i2, "Config", fld.name)
					if !isSt {
						return
					}
					n++
					// the stored value: the field as loaded in LoadAmmo before the forcing store (captured)
					okV := false
					for _, r := range Roots(v, false) {
						if ld, isLd := r.(ssa.Instruction); isLd && IsFieldLoad(r, "Config", fld.name) && ld.Parent() == la && InstrDominates(ld, force[0]) {
							okV = true
						}
					}
					if !okV {
						good = false
					}
				})
				iv := PathQuery{Fn: clo, Weight: func(i2 ssa.Instruction) (int, int) {
					if _, isSt := StoreToField(i2, "Config", fld.name); isSt {
						return 1, 1
					}
					return 0, 0
				}}.Count()
				if n >= 1 && good && iv.Is(1, 1) {
					okRestore = true
				}
			})
		}
		rec(okRestore, k+":"+fld.name+"-restored-on-every-exit", "the saved config."+fld.name+" must be restored exactly once on every exit, after the last scan", la.Pos())
	}
	// (2) ErrAmmoLimit only under Limit != 0
	sp := P.SSAPkg("components/providers/http/decoders")
	g, _ := sp.Members["ErrAmmoLimit"].(*ssa.Global)
	if g == nil {
		if c != nil {
			c.Anchor("O14.4", "decoders.ErrAmmoLimit")
		}
		return false
	}
	n := 0
	for _, fn := range PkgFuncs(sp) {
		if !IsProdFile(P.File(fn.Pos())) {
			continue
		}
		EachInstr(fn, func(in ssa.Instruction) {
			r, isRet := in.(*ssa.Return)
			if !isRet || len(r.Results) == 0 {
				return
			}
			if !DerivesAny(r.Results[len(r.Results)-1], false, IsGlobalLoad(g)) {
				return
			}
			n++
			guarded := false
			for _, f := range CmpFactsAt(r) {
				if f.Op == token.NEQ {
					if kk, isC := ConstInt(f.Y); isC && kk == 0 && IsFieldLoad(f.X, "Config", "Limit") {
						guarded = true
					}
				}
			}
			rec(guarded, fk(fn)+":ErrAmmoLimit-only-with-a-limit", "ErrAmmoLimit must be returned only on a path dominated by config.Limit != 0", r.Pos())
		})
	}
	rec(n >= 4, "decoders:ErrAmmoLimit-returns", fmt.Sprintf("%d returns of ErrAmmoLimit found in the decoders (floor 4)", n), la.Pos())
	return ok
}

func runC14(c *Ctx) {
	c.Rule("O14.7", "an entry means the same on every pass and in both modes: it is decoded into storage made for it, so its tag - what chosencases filters by - does not depend on the entry read before it (the rule of O7.6, shared); streaming re-decodes the file on every pass while preload decodes it once")
	c.Rule("O14.9", "an entry keeps its own headers while the rest of the file is read: preload decodes the whole file before anything is delivered, so an entry's header map must be its own (fresh, or never mutated) - not the decoder's running [Header: value] accumulator, directly or as returned by a merge helper; otherwise every preloaded entry carries the headers that stand at the end of the file while the streaming path delivers them as they stood at the entry (the rule of O7.5, shared)")
	c.Borrow("C07", runC07, map[string]string{"O7.6": "O14.7", "O7.5": "O14.9"})
	c.Rule("O14.1", "both paths end the same way: neither the streaming arm nor the preload arm of the http provider's Run may return the limit/pass sentinels")
	c.Rule("O14.2", "the chosencases filter precedes the limit count: a function that skips entries failing IsChosenCase and enforces a limit must count only entries that passed the filter; a decoder that already counts entries must run without limit when a filter is configured")
	c.Rule("O14.3", "both paths apply the same filter: IsChosenCase(ammo.Tag(), Config.ChosenCases)")
	c.Rule("O14.4", "LoadAmmo is one unbounded pass and restores the bounds: Limit=0 and Passes=1 are forced before the scan loop and the saved values restored on every exit; ErrAmmoLimit is only returned under Limit != 0")
	c.Rule("O14.5", "Release is a no-op under preload: the decoder's pool must not recycle ammo that stays in the preloaded ring")
	c.Rule("O14.6", "a replayed entry yields the same request again: with preload the same decoded entries are delivered pass after pass, so BuildRequest of both entry types builds the request (and its body reader) anew from the entry's fields on every call - it does not hand out a request kept in the entry or a Clone of one (Clone shares the Body, which the first delivery has consumed)")
	freshRequestRule(c, "O14.6", "Ammo")
	freshRequestRule(c, "O14.6", "RawAmmo")
	c.Rule("O14.8", "an empty selection is not an empty file: the streaming arm ends cleanly when chosencases leaves nothing to deliver (the decoder saw entries), so the preload arm may answer 'no ammo in file' (ErrNoAmmo) only for the list LoadAmmo returned - never on the emptiness of the list that is left after the chosencases filter")
	c14EmptySelection(c)
	P := c.P
	loadAmmoUnbounded(P, c)
	run := P.Func("components/providers/http/provider", "Provider", "Run")
	full := P.Func("components/providers/http/provider", "Provider", "runFullScan")
	pre := P.Func("components/providers/http/provider", "Provider", "runPreloaded")
	load := P.Func("components/providers/http/provider", "Provider", "loadAmmo")
	rel := P.Func("components/providers/http/provider", "Provider", "Release")
	for n, f := range map[string]*ssa.Function{"Run": run, "runFullScan": full, "runPreloaded": pre, "loadAmmo": load, "Release": rel} {
		if f == nil {
			c.Anchor("O14.1", "http/provider.(*Provider)."+n)
			return
		}
	}
	// ---- O14.1: per arm
	sa := newLimitSentinels(P)
	if sa == nil {
		c.Anchor("O14.1", "decoders.ErrAmmoLimit / ErrPassLimit")
		return
	}
	armMay := func(edgeWant bool) []string {
		// sentinels that may be stored to / returned from Run on paths restricted to one arm of the Preload test
		isPre := IsFieldLoadPred("Config", "Preload")
		names := map[string]bool{}
		// collect calls executed on the arm and evaluate the function's return on the restricted CFG: approximate by
		// evaluating the whole function (sound for "may") and attributing through the calls that are arm-specific
		EachInstr(run, func(in ssa.Instruction) {
			cl, ok := in.(*ssa.Call)
			if !ok {
				return
			}
			sc := cl.Call.StaticCallee()
			if sc == nil || (sc != full && sc != pre && sc != load) {
				return
			}
			if !HasBoolFact(BoolFactsAt(cl), isPre, edgeWant) {
				return
			}
			_ = sc
		})
		for g := range sa.MayReturn(run) {
			names[g.Name()] = true
		}
		var out []string
		for n := range names {
			out = append(out, n)
		}
		return out
	}
	_ = armMay
	// which arm a callee belongs to
	isPre := IsFieldLoadPred("Config", "Preload")
	nArm := 0
	EachInstr(run, func(in ssa.Instruction) {
		cl, ok := in.(*ssa.Call)
		if !ok {
			return
		}
		sc := cl.Call.StaticCallee()
		if sc != full && sc != pre && sc != load {
			return
		}
		nArm++
		arm := "?"
		switch {
		case HasBoolFact(BoolFactsAt(cl), isPre, true):
			arm = "preload"
		case HasBoolFact(BoolFactsAt(cl), isPre, false):
			arm = "streaming"
		}
		wantArm := "preload"
		if sc == full {
			wantArm = "streaming"
		}
		c.Check(arm == wantArm, "O14.1", fk(run)+":"+sc.Name()+"-on-the-"+wantArm+"-arm", cl.Pos(), "call is on the "+arm+" arm of the Preload test")
	})
	c.Floor("O14.1", "arm calls in Provider.Run", nArm, 3)
	may := sa.MayReturn(run)
	var names []string
	for g := range may {
		names = append(names, g.Name())
	}
	c.Check(len(names) == 0, "O14.1", fk(run)+":both-arms-end-without-sentinel", run.Pos(), fmt.Sprintf("Run may return %v (callee summaries: runFullScan %v, runPreloaded %v, loadAmmo %v)", names, gnames(sa.MayReturn(full)), gnames(sa.MayReturn(pre)), gnames(sa.MayReturn(load))))

	// ---- O14.3 same filter arguments
	sChosen := Spec{"./lib/confutil", "", "IsChosenCase"}
	nF := 0
	_ = sChosen
	for _, fn := range []*ssa.Function{full, load} {
		fcs := chosenFilterCalls(fn)
		var calls []ssa.Instruction
		for _, fc := range fcs {
			calls = append(calls, fc.in)
		}
		if len(calls) != 1 {
			c.Bad("O14.3", fk(fn)+":filter-present", fn.Pos(), fmt.Sprintf("%d IsChosenCase calls (want 1)", len(calls)))
			continue
		}
		nF++
		cc := &ssa.CallCommon{Args: []ssa.Value{fcs[0].tag, fcs[0].cases}}
		tagOK := DerivesOnly(cc.Args[0], false, IsCallValue(-1, Spec{"./components/providers/http/decoders", "DecodedAmmo", "Tag"}))
		casesOK := DerivesOnly(cc.Args[1], false, IsFieldLoadPred("Config", "ChosenCases"))
		c.Check(tagOK && casesOK, "O14.3", fk(fn)+":filter-arguments", calls[0].Pos(), fmt.Sprintf("IsChosenCase(ammo.Tag(): %v, Config.ChosenCases: %v)", tagOK, casesOK))
		// the entry filtered is the one delivered / kept
		cl := calls[0].(*ssa.Call)
		tagCall, _ := CallOfValue(cc.Args[0])
		if tagCall != nil {
			entry := tagCall.Call.Value
			kept := false
			// the function and the helpers of its package that do the delivery (p.sendAmmo(ctx, ammo))
			for _, g := range FindFuncs(fn, 2, func(g *ssa.Function) bool { return PkgOf(g) == PkgOf(fn) }) {
				EachInstr(g, func(in ssa.Instruction) {
					if sel, ok := in.(*ssa.Select); ok {
						for _, st := range sel.States {
							if st.Send != nil && sameRoots(st.Send, entry) && HasBoolFact(BoolFactsAt(sel), func(v ssa.Value) bool { return v == ssa.Value(cl) }, true) {
								kept = true
							}
						}
					}
					if IsBuiltinCall(in, "append") && HasBoolFact(BoolFactsAt(in), func(v ssa.Value) bool { return v == ssa.Value(cl) }, true) {
						kept = true
					}
				})
			}
			c.Check(kept, "O14.3", fk(fn)+":only-chosen-entries-kept", cl.Pos(), "the entry is delivered/kept only on the true edge of IsChosenCase for that same entry")
		}
	}
	c.Floor("O14.3", "filter sites (streaming, preload)", nF, 2)

	// ---- O14.2
	{
		// (i) in runFullScan the counter compared with Limit is incremented only after the filter passed
		tests := limitTests(full, map[string]bool{"Limit": true})
		var calls []ssa.Instruction
		for _, fc := range chosenFilterCalls(full) {
			calls = append(calls, fc.in)
		}
		if len(tests) == 0 || len(calls) != 1 {
			c.Bad("O14.2", fk(full)+":limit-counts-chosen-entries", full.Pos(), "the streaming path filters by chosencases but has no limit of its own: the decoder's limit counts filtered-out entries")
		} else {
			cl := calls[0].(*ssa.Call)
			isInc := incrementOf(full, tests[0].Counter)
			okInc, nInc := true, 0
			EachInstr(full, func(in ssa.Instruction) {
				if isInc(in) {
					nInc++
					if !HasBoolFact(BoolFactsAt(in), func(v ssa.Value) bool { return v == ssa.Value(cl) }, true) {
						okInc = false
					}
				}
			})
			c.Check(okInc && nInc >= 1, "O14.2", fk(full)+":limit-counts-chosen-entries", cl.Pos(), fmt.Sprintf("%d increment(s) of the limit counter; each must be on the true edge of IsChosenCase", nInc))
		}
		// (ii) the decoder is built without limit when a filter is configured
		np := P.Func("components/providers/http", "", "NewProvider")
		if np == nil {
			c.Anchor("O14.2", "components/providers/http.NewProvider")
		} else {
			nd := Calls(np, Spec{"./components/providers/http/decoders", "", "NewDecoder"})
			ok := false
			if len(nd) == 1 {
				// the config passed: a copy whose Limit is stored 0 under len(ChosenCases) > 0
				// ... in NewProvider itself or in a helper of the package that prepares the decoder's config
				for _, g := range FindFuncs(np, 2, func(*ssa.Function) bool { return true }) {
					EachInstr(g, func(in ssa.Instruction) {
						v, isSt := StoreToField(in, "Config", "Limit")
						if !isSt {
							return
						}
						if kk, isC := ConstInt(v); !isC || kk != 0 {
							return
						}
						underFilter := false
						for _, f := range CmpFactsAt(in) {
							f = f.Canon()
							isLenCC := func(x ssa.Value) bool {
								lc, isCall := x.(*ssa.Call)
								return isCall && IsBuiltinCall(lc, "len") && IsFieldLoad(lc.Call.Args[0], "Config", "ChosenCases")
							}
							kx, isCx := ConstInt(f.X)
							ky, isCy := ConstInt(f.Y)
							// 0 < len(cc), len(cc) != 0, 1 <= len(cc)
							if isCx && isLenCC(f.Y) && (kx == 0 && (f.Op == token.LSS || f.Op == token.NEQ) || kx == 1 && f.Op == token.LEQ) {
								underFilter = true
							}
							if isCy && ky == 0 && isLenCC(f.X) && f.Op == token.NEQ {
								underFilter = true
							}
						}
						if !underFilter {
							return
						}
						// the store (or the call of the helper it is in) comes before the decoder is created
						at := ssa.Instruction(in)
						for d := 0; at != nil && at.Parent() != np && d < 3; d++ {
							at = SoleCallSite(at.Parent())
						}
						if at != nil && at.Parent() == np && (InstrDominates(at, nd[0]) || CanReach(at, nd[0])) {
							ok = true
						}
					})
				}
			}
			c.Check(ok, "O14.2", fk(np)+":decoder-without-limit-under-filter", np.Pos(), "with chosencases configured the decoder must be created with Limit=0 (it counts every decoded entry, the provider counts the chosen ones)")
		}
		// (iii) loadAmmo filters after an unbounded load (O14.4) and runPreloaded counts delivered entries only
		c.Check(len(Calls(load, Spec{"./components/providers/http/decoders", "Decoder", "LoadAmmo"})) == 1, "O14.2", fk(load)+":loads-through-LoadAmmo", load.Pos(), "the preload path loads through Decoder.LoadAmmo (unbounded, see O14.4) and filters afterwards")
		// (iv) loadAmmo itself applies no bound: the limit/passes of the preload path are enforced where entries are
		// delivered (runPreloaded, O8.1); truncating the loaded list before or while filtering counts filtered-out entries.
		{
			la := Calls(load, Spec{"./components/providers/http/decoders", "Decoder", "LoadAmmo"})
			nBound := 0
			EachInstr(load, func(in ssa.Instruction) {
				if v, ok := in.(ssa.Value); ok && (IsFieldLoad(v, "Config", "Limit") || IsFieldLoad(v, "Config", "Passes")) {
					nBound++
				}
			})
			okRange := false
			if len(la) == 1 {
				// the filtered loop ranges over exactly the loaded slice
				EachInstr(load, func(in ssa.Instruction) {
					if ia, ok := in.(*ssa.IndexAddr); ok && DerivesOnly(ia.X, false, IsResultOf(la[0].(*ssa.Call), 0)) {
						if _, sliced := Strip(ia.X).(*ssa.Slice); !sliced {
							okRange = true
						}
					}
				})
				EachInstr(load, func(in ssa.Instruction) {
					if sl, ok := in.(*ssa.Slice); ok && DerivesAny(sl.X, false, IsResultOf(la[0].(*ssa.Call), 0)) {
						okRange = false
					}
				})
			}
			c.Check(okRange, "O14.2", fk(load)+":preload-filters-the-whole-loaded-list", load.Pos(),
				fmt.Sprintf("loadAmmo must filter the whole list returned by LoadAmmo (ranges over the unsliced result: %v; reads of Limit/Passes in loadAmmo: %d): truncating before the filter counts filtered-out entries against the limit", okRange, nBound))
		}
	}
	// ---- O14.5
	{
		isPreF := IsFieldLoadPred("Config", "Preload")
		iv := PathQuery{Fn: rel, Edge: RestrictBool(isPreF, true), Weight: func(in ssa.Instruction) (int, int) {
			if IsCall(in, Spec{"./components/providers/http/decoders", "Decoder", "Release"}) {
				return 1, 1
			}
			return 0, 0
		}}.Count()
		iv2 := PathQuery{Fn: rel, Edge: RestrictBool(isPreF, false), Weight: func(in ssa.Instruction) (int, int) {
			if IsCall(in, Spec{"./components/providers/http/decoders", "Decoder", "Release"}) {
				return 1, 1
			}
			return 0, 0
		}}.Count()
		c.Check(iv.Is(0, 0) && iv2.Is(1, 1), "O14.5", fk(rel)+":no-recycling-under-preload", rel.Pos(), fmt.Sprintf("Decoder.Release calls with preload: %v (want [0,0]); without: %v (want [1,1])", iv, iv2))
	}
	c14ReplayedNotRecycled(c, rel)
}

// c14ReplayedNotRecycled decides O14.10.
func c14ReplayedNotRecycled(c *Ctx, rel *ssa.Function) {
	c.Rule("O14.10", "an entry that will be delivered again is not recycled: a decoder that keeps decoded entries in a ring for the next pass (the jsonline decoder for a JSON array) delivers the same objects pass after pass, and its Release resets whatever matches its entry type and puts it back into the pool; so what the http provider hands to Decoder.Release must not be able to be a decoded entry (today: the GunAmmo that Acquire made, which no decoder's type test matches) - otherwise the second pass of the streaming arm delivers emptied entries while preload (which never releases) delivers them intact")
	P := c.P
	acq := P.Func("components/providers/http/provider", "Provider", "Acquire")
	if acq == nil || rel == nil {
		c.Anchor("O14.10", "Provider.Acquire / Provider.Release")
		return
	}
	// the entry types a ring-keeping decoder recycles in Release
	recycled := map[string]bool{}
	var ringRelease []*ssa.Function
	for _, nt := range decoderImpls(c, "O14.10") {
		st, _ := nt.Underlying().(*types.Struct)
		r := P.MethodFn(nt, "Release")
		if r == nil || len(r.Blocks) == 0 {
			continue
		}
		rec := false
		EachInstr(r, func(in ssa.Instruction) {
			ta, ok := in.(*ssa.TypeAssert)
			if !ok || len(r.Params) < 2 || Strip(ta.X) != ssa.Value(r.Params[1]) {
				return
			}
			used := false
			EachInstr(r, func(i2 ssa.Instruction) {
				cc := CC(i2)
				if cc == nil {
					return
				}
				isPut := MatchCC(cc, Spec{"sync", "Pool", "Put"})
				isReset := cc.StaticCallee() != nil && cc.StaticCallee().Name() == "Reset"
				if !isPut && !isReset {
					return
				}
				for _, a := range cc.Args {
					for _, root := range Roots(a, false) {
						if ex, isEx := root.(*ssa.Extract); isEx && ex.Tuple == ssa.Value(ta) {
							used = true
						}
					}
					if DerivesAny(a, false, func(v ssa.Value) bool { return v == ssa.Value(ta) }) {
						used = true
					}
				}
			})
			if used {
				rec = true
				if hasAmmosRing(st) {
					recycled[types.TypeString(ta.AssertedType, nil)] = true
				}
			}
		})
		if rec && hasAmmosRing(st) {
			ringRelease = append(ringRelease, r)
		}
	}
	c.Floor("O14.10", "decoders that replay stored entries and recycle in Release", len(ringRelease), 1)
	// the dynamic types of what Acquire hands out with ok possibly true (the engine releases exactly those: O3.1)
	acquired := map[string]bool{}
	unknown := ""
	for _, b := range acq.Blocks {
		r, isRet := b.Instrs[len(b.Instrs)-1].(*ssa.Return)
		if !isRet || len(r.Results) < 2 {
			continue
		}
		if k, isK := r.Results[1].(*ssa.Const); isK && !constant.BoolVal(k.Value) {
			continue
		}
		var walk func(v ssa.Value)
		seen := map[ssa.Value]bool{}
		walk = func(v ssa.Value) {
			if seen[v] {
				return
			}
			seen[v] = true
			switch x := v.(type) {
			case *ssa.MakeInterface:
				acquired[types.TypeString(x.X.Type(), nil)] = true
			case *ssa.ChangeInterface:
				walk(x.X)
			case *ssa.Phi:
				for _, e := range x.Edges {
					walk(e)
				}
			case *ssa.Const:
			default:
				unknown = "Acquire returns a value whose dynamic type is not visible: " + v.String()
			}
		}
		walk(r.Results[0])
	}
	n := 0
	EachInstr(rel, func(in ssa.Instruction) {
		if !IsCall(in, Spec{"./components/providers/http/decoders", "Decoder", "Release"}) {
			return
		}
		n++
		cc := CC(in)
		arg := cc.Args[len(cc.Args)-1]
		why := ""
		var walk func(v ssa.Value)
		seen := map[ssa.Value]bool{}
		walk = func(v ssa.Value) {
			if seen[v] || why != "" {
				return
			}
			seen[v] = true
			switch x := v.(type) {
			case *ssa.Parameter:
				if unknown != "" {
					why = unknown
				}
				for t := range acquired {
					if recycled[t] {
						why = "Acquire hands out a " + t + ", which a replaying decoder's Release recycles"
					}
				}
			case *ssa.MakeInterface:
				if t := types.TypeString(x.X.Type(), nil); recycled[t] {
					why = "a " + t + " is handed to Decoder.Release"
				}
			case *ssa.ChangeInterface:
				walk(x.X)
			case *ssa.Phi:
				for _, e := range x.Edges {
					walk(e)
				}
			default:
				why = "the value handed to Decoder.Release is not the released ammo itself (" + v.String() + "): it may be the decoded entry"
			}
		}
		walk(arg)
		c.Check(why == "" || len(ringRelease) == 0, "O14.10", fk(rel)+":replayed-entries-are-not-recycled", in.Pos(), why)
	})
	c.Floor("O14.10", "Decoder.Release calls in Provider.Release", n, 1)
}

func gnames(m map[*ssa.Global]bool) []string {
	var out []string
	for g := range m {
		out = append(out, g.Name())
	}
	return out
}

// newLimitSentinels builds the may-return analysis for ErrAmmoLimit/ErrPassLimit with the LoadAmmo kill.
func newLimitSentinels(P *Prog) *Sentinels {
	sp := P.SSAPkg("components/providers/http/decoders")
	if sp == nil {
		return nil
	}
	sa := &Sentinels{P: P, Set: map[*ssa.Global]bool{}}
	var ammoLimit *ssa.Global
	for _, n := range []string{"ErrAmmoLimit", "ErrPassLimit"} {
		g, ok := sp.Members[n].(*ssa.Global)
		if !ok {
			return nil
		}
		sa.Set[g] = true
		if n == "ErrAmmoLimit" {
			ammoLimit = g
		}
	}
	la := P.Func("components/providers/http/decoders", "protoDecoder", "LoadAmmo")
	unbounded := loadAmmoUnbounded(P, nil)
	sa.Kill = func(fn *ssa.Function, g *ssa.Global) bool {
		return unbounded && fn == la && g == ammoLimit
	}
	return sa
}

// c14EmptySelection decides O14.8.
func c14EmptySelection(c *Ctx) {
	P := c.P
	pre := P.Func("components/providers/http/provider", "Provider", "runPreloaded")
	load := P.Func("components/providers/http/provider", "Provider", "loadAmmo")
	run := P.Func("components/providers/http/provider", "Provider", "Run")
	if pre == nil || load == nil || run == nil {
		c.Anchor("O14.8", "http/provider.(*Provider).Run / loadAmmo / runPreloaded")
		return
	}
	var noAmmo *ssa.Global
	if dp := P.SSAPkg("components/providers/http/decoders"); dp != nil {
		noAmmo, _ = dp.Members["ErrNoAmmo"].(*ssa.Global)
	}
	if noAmmo == nil {
		c.Anchor("O14.8", "decoders.ErrNoAmmo")
		return
	}
	// the field that keeps the entries that passed the filter: what loadAmmo appends to under IsChosenCase
	filtered := map[*types.Var]bool{}
	for _, g := range FindFuncs(load, 2, func(g *ssa.Function) bool { return PkgOf(g) == PkgOf(load) }) {
		EachInstr(g, func(in ssa.Instruction) {
			st, ok := in.(*ssa.Store)
			if !ok {
				return
			}
			fa, ok := st.Addr.(*ssa.FieldAddr)
			if !ok {
				return
			}
			fv, _ := FieldOf(fa)
			if fv == nil {
				return
			}
			if DerivesAny(st.Val, false, func(v ssa.Value) bool { cl, isC := v.(*ssa.Call); return isC && IsBuiltinCall(cl, "append") }) {
				filtered[fv] = true
			}
		})
	}
	c.Floor("O14.8", "fields holding the filtered entries", len(filtered), 1)
	n := 0
	seen := map[*ssa.Function]bool{}
	for _, root := range []*ssa.Function{run, pre, load} {
		for _, g := range FindFuncs(root, 2, func(g *ssa.Function) bool { return PkgOf(g) == PkgOf(run) }) {
			if seen[g] {
				continue
			}
			seen[g] = true
			for _, b := range g.Blocks {
				r, ok := b.Instrs[len(b.Instrs)-1].(*ssa.Return)
				if !ok || len(r.Results) == 0 {
					continue
				}
				if !DerivesAny(r.Results[len(r.Results)-1], false, IsGlobalLoad(noAmmo)) {
					continue
				}
				n++
				onFiltered, onLoaded := false, false
				for _, f := range CmpFactsAt(r) {
					for _, side := range []ssa.Value{f.X, f.Y} {
						DerivesAny(side, true, func(v ssa.Value) bool {
							cl, isC := v.(*ssa.Call)
							if !isC || !IsBuiltinCall(cl, "len") {
								return false
							}
							arg := cl.Call.Args[0]
							if fv, _ := FieldOf(arg); fv != nil && filtered[fv] {
								onFiltered = true
							}
							if DerivesOnly(arg, false, func(x ssa.Value) bool {
								lc, _ := CallOfValue(x)
								return lc != nil && lc.Call.IsInvoke() && lc.Call.Method.Name() == "LoadAmmo"
							}) {
								onLoaded = true
							}
							return false
						})
					}
				}
				c.Check(!onFiltered, "O14.8", fk(g)+":no-ammo-only-for-an-empty-file", r.Pos(),
					fmt.Sprintf("ErrNoAmmo is returned on the emptiness of the list left by the chosencases filter (test on the filtered list: %v, on LoadAmmo's result: %v): with a selection that matches nothing preload fails the run where streaming ends it cleanly", onFiltered, onLoaded))
			}
		}
	}
	c.Note("O14.8: %d ErrNoAmmo returns in the preload call tree", n)
}

type chosenFilterCall struct {
	in         ssa.Instruction
	tag, cases ssa.Value
}

// chosenFilterCalls: the chosencases tests of fn - confutil.IsChosenCase(tag, cases), or the call f(tag) of a filter
// function that a function of lib/confutil made from the cases (confutil.NewChosenCasesFilter(cases)).
func chosenFilterCalls(fn *ssa.Function) []chosenFilterCall {
	var out []chosenFilterCall
	EachInstr(fn, func(in ssa.Instruction) {
		cl, ok := in.(*ssa.Call)
		if !ok {
			return
		}
		if MatchCC(&cl.Call, Spec{"./lib/confutil", "", "IsChosenCase"}) && len(cl.Call.Args) == 2 {
			out = append(out, chosenFilterCall{in, cl.Call.Args[0], cl.Call.Args[1]})
			return
		}
		if cl.Call.IsInvoke() || cl.Call.StaticCallee() != nil || len(cl.Call.Args) != 1 {
			return
		}
		if b, isB := cl.Type().Underlying().(*types.Basic); !isB || b.Kind() != types.Bool {
			return
		}
		for _, r := range Roots(cl.Call.Value, false) {
			mk, _ := CallOfValue(r)
			if mk == nil || mk.Call.StaticCallee() == nil || !strings.HasSuffix(PkgOf(mk.Call.StaticCallee()), "/lib/confutil") || len(mk.Call.Args) != 1 {
				continue
			}
			if _, isSlice := mk.Call.Args[0].Type().Underlying().(*types.Slice); isSlice {
				out = append(out, chosenFilterCall{in, cl.Call.Args[0], mk.Call.Args[0]})
				return
			}
		}
	})
	return out
}
