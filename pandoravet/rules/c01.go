package rules

import (
	"fmt"
	"go/token"
	"go/types"
	"strings"

	. "pandoravet/core"

	"golang.org/x/tools/go/ssa"
)

func init() {
	register(&Pack{Property: "C01", Title: "RPS schedules realise the configured load profile", Run: runC01})
}

func isIntType(t types.Type) bool {
	b, ok := t.Underlying().(*types.Basic)
	return ok && b.Info()&types.IsInteger != 0
}
func isFloatType(t types.Type) bool {
	b, ok := t.Underlying().(*types.Basic)
	return ok && b.Info()&types.IsFloat != 0
}

// reachesAvoiding: is there a path from a successor of `from` to `to` that does not enter `avoid`?
func reachesAvoiding(from, to, avoid *ssa.BasicBlock) bool {
	seen := map[*ssa.BasicBlock]bool{avoid: true}
	stack := append([]*ssa.BasicBlock{}, Succs(from)...)
	for len(stack) > 0 {
		x := stack[len(stack)-1]
		stack = stack[:len(stack)-1]
		if seen[x] {
			continue
		}
		seen[x] = true
		if x == to {
			return true
		}
		stack = append(stack, Succs(x)...)
	}
	return false
}

func runC01(c *Ctx) {
	c.Rule("O1.7", "a step profile is a succession of constant levels laid end to end: the composite that NewStep builds starts each part at the time the previous part reported as its finish - the argument of startNext is the time returned by the current part's Next() on its !ok edge, read in the critical section that shifts (the rule of O2.5, shared)")
	c.Borrow("C02", runC02, map[string]string{"O2.5": "O1.7"})
	c.Rule("O1.1", "no truncating integer arithmetic before float conversion in core/schedule: a float conversion must not be applied to a non-constant integer quotient/remainder/shift (that is how fractional-second durations lose their fraction)")
	c.Rule("O1.2", "the configured duration reaches the schedule unchanged: NewConst/NewLine pass their duration parameter to NewDoAtSchedule, NewOnce passes 0; New*Conf constructors pass each config field to the parameter of the same name")
	c.Rule("O1.3", "finish time: doAtSchedule.Next returns start.Add(duration), false exactly on the index >= n edge and start.Add(doAt(index)), true otherwise")
	c.Rule("O1.4", "step = succession of const profiles: NewStep appends NewConst(level, duration) for level = from; level <= to; level += step and returns the composite of exactly that slice")
	c.Rule("O1.5", "a once profile releases all operations at its start: its DoAt function returns 0 on every path")
	c.Rule("O1.6", "token count and token time use the exact duration in seconds: in NewConst/NewLine the seconds value is float64(duration)/1e9 and both the token budget n and (for line) the slope derive from it")
	P := c.P
	sp := P.SSAPkg("core/schedule")
	if sp == nil {
		c.Anchor("O1.1", "package core/schedule")
		return
	}
	c01ClosedForms(c)
	// ---- O1.1
	{
		n := 0
		for _, g := range PkgFuncs(sp) {
			if !IsProdFile(P.File(g.Pos())) {
				continue
			}
			EachInstr(g, func(in ssa.Instruction) {
				cv, ok := in.(*ssa.Convert)
				if !ok || !isFloatType(cv.Type()) || !isIntType(cv.X.Type()) {
					return
				}
				n++
				bad := ""
				for _, r := range Roots(cv.X, false) {
					if b, ok := r.(*ssa.BinOp); ok && (b.Op == token.QUO || b.Op == token.REM || b.Op == token.SHR) && isIntType(b.X.Type()) {
						if _, isC := b.X.(*ssa.Const); !isC {
							bad = "operand is the integer " + b.Op.String() + " " + b.String()
						}
					}
				}
				key := "int-to-float-conversion"
				if bad != "" {
					key = "int-division-before-float"
				}
				c.Check(bad == "", "O1.1", fk(g)+":"+key, cv.Pos(), "float conversion of an integer value; "+bad)
			})
		}
		c.Floor("O1.1", "int-to-float conversions in core/schedule", n, 4)
	}
	sNewDoAt := Spec{"./core/schedule", "", "NewDoAtSchedule"}
	// ---- O1.2 / O1.6
	for _, name := range []string{"NewConst", "NewLine"} {
		fn := P.Func("core/schedule", "", name)
		if fn == nil {
			c.Anchor("O1.2", "core/schedule."+name)
			continue
		}
		var dur *ssa.Parameter
		for _, p := range fn.Params {
			if _, n := NamedOf(p.Type()); n == "Duration" {
				dur = p
			}
		}
		allCalls := Calls(fn, sNewDoAt)
		// the call that builds the schedule with tokens; a separate early return of a zero-token schedule
		// (NewDoAtSchedule(duration, 0, ...)) only has to pass the duration on
		var calls []ssa.Instruction
		for _, cl := range allCalls {
			c.Check(CC(cl).Args[0] == ssa.Value(dur), "O1.2", fk(fn)+":duration-passed-unchanged", cl.Pos(), "NewDoAtSchedule's duration must be the constructor's duration parameter itself")
			if k, isK := ConstInt(CC(cl).Args[1]); isK && k == 0 {
				continue
			}
			calls = append(calls, cl)
		}
		if dur == nil || len(calls) != 1 {
			c.Anchor("O1.2", name+": one NewDoAtSchedule call and a time.Duration parameter")
			continue
		}
		cc := CC(calls[0])
		// (that the token budget and the slope are computed from the exact seconds value is implied by the identities of
		// O1.8, which read the whole expression; only the uses of the duration parameter are checked here)
		_ = cc
		// every use of the duration in arithmetic goes through the exact seconds value or straight to NewDoAtSchedule
		badUse := ""
		if rs := dur.Referrers(); rs != nil {
			for _, r := range *rs {
				switch x := r.(type) {
				case *ssa.DebugRef:
				case *ssa.Convert:
					if !isFloatType(x.Type()) {
						badUse = "converted to " + x.Type().String()
					}
				case *ssa.BinOp:
					badUse = "integer arithmetic " + x.String()
				case ssa.CallInstruction:
				default:
				}
			}
		}
		c.Check(badUse == "", "O1.6", fk(fn)+":duration-only-used-as-exact-float", fn.Pos(), "the duration parameter must only be converted to float or passed on; found: "+badUse)
	}
	if once := P.Func("core/schedule", "", "NewOnce"); once == nil {
		c.Anchor("O1.2", "core/schedule.NewOnce")
	} else {
		calls := Calls(once, sNewDoAt)
		ok := len(calls) == 1
		if ok {
			cc := CC(calls[0])
			k, isC := ConstInt(cc.Args[0])
			ok = isC && k == 0 && cc.Args[1] == ssa.Value(once.Params[0])
			// O1.5
			var body *ssa.Function
			switch f := Strip(cc.Args[2]).(type) {
			case *ssa.MakeClosure:
				body = f.Fn.(*ssa.Function)
			case *ssa.Function:
				body = f
			}
			ok5 := body != nil
			if body != nil {
				EachInstr(body, func(in ssa.Instruction) {
					if r, isR := in.(*ssa.Return); isR {
						if k, isC := ConstInt(r.Results[0]); !isC || k != 0 {
							ok5 = false
						}
					}
				})
			}
			c.Check(ok5, "O1.5", fk(once)+":doAt-returns-zero", calls[0].Pos(), "the once profile's DoAt must return 0 on every path")
		}
		c.Check(ok, "O1.2", fk(once)+":zero-duration-n-times", once.Pos(), "NewOnce(n) = NewDoAtSchedule(0, n, ...)")
	}
	// config constructors: field -> parameter of the same name
	{
		n := 0
		for _, m := range sp.Members {
			fn, ok := m.(*ssa.Function)
			if !ok || !strings.HasSuffix(fn.Name(), "Conf") || !strings.HasPrefix(fn.Name(), "New") || len(fn.Params) != 1 {
				continue
			}
			EachInstr(fn, func(in ssa.Instruction) {
				cl, ok := in.(*ssa.Call)
				if !ok {
					return
				}
				sc := cl.Call.StaticCallee()
				if sc == nil || sc.Pkg != sp || sc.Signature.Variadic() {
					return
				}
				for i, a := range cl.Call.Args {
					fv, _ := FieldOf(a)
					if fv == nil {
						if f, ok := a.(*ssa.Field); ok {
							fv = f.X.Type().Underlying().(*types.Struct).Field(f.Field)
						}
					}
					if fv == nil || i >= len(sc.Params) {
						continue
					}
					n++
					pn := strings.ToLower(sc.Params[i].Name())
					fnm := strings.ToLower(fv.Name())
					okName := pn == fnm || strings.HasPrefix(fnm, pn) || strings.HasPrefix(pn, fnm) ||
						(fnm == "times" && pn == "n") || (fnm == "stepduration" && pn == "stepduration")
					c.Check(okName, "O1.2", fk(fn)+":config-field-"+fv.Name()+"-to-parameter", cl.Pos(),
						fmt.Sprintf("config field %s is passed as parameter %q of %s", fv.Name(), sc.Params[i].Name(), sc.Name()))
				}
			})
		}
		c.Floor("O1.2", "config fields passed to schedule constructors", n, 12)
	}
	// ---- O1.3
	if nx := P.Func("core/schedule", "doAtSchedule", "Next"); nx == nil {
		c.Anchor("O1.3", "core/schedule.(*doAtSchedule).Next")
	} else {
		nFin, nTok := 0, 0
		// (where Next ends with `return s.tokenTime(i)`, the returns of that helper)
		for _, vr := range VirtualReturns(nx) {
			// (r: the results and the place of this way of returning - a merged bare return is taken per incoming edge)
			r := struct {
				Results []ssa.Value
				At      ssa.Instruction
				ret     *ssa.Return
			}{vr.Results, vr.At, vr.Ret}
			if len(r.Results) != 2 {
				continue
			}
			okv, isC := ConstCond(r.Results[1])
			if !isC {
				c.Bad("O1.3", fk(nx)+":ok-result-constant-per-branch", r.ret.Pos(), "ok result must be a constant per branch")
				continue
			}
			// start.Add(...) here, or in a helper of the type that computes the time (operationTime(i), finishTime())
			var cl *ssa.Call
			if ts := ThroughReturns(r.Results[0]); len(ts) == 1 {
				cl, _ = CallOfValue(ts[0])
			}
			var off ssa.Value
			if cl != nil && MatchCC(&cl.Call, Spec{"time", "Time", "Add"}) && DerivesOnly(cl.Call.Args[0], false, IsFieldLoadPred("doAtSchedule", "start")) {
				off = cl.Call.Args[1]
			} else if fv, _ := FieldOf(Strip(r.Results[0])); fv != nil && !okv {
				// the finish time kept in a field: every store to it is <what start is set to>.Add(duration), made where
				// start is stored (or the zero time plus duration in the constructor, matching the zero start)
				stores := P.FieldStores(fv)
				all := len(stores) > 0
				for _, sv := range stores {
					ac, _ := CallOfValue(Strip(sv))
					if ac == nil || !MatchCC(&ac.Call, Spec{"time", "Time", "Add"}) {
						all = false
						continue
					}
					durOK := DerivesOnly(ac.Call.Args[1], false, func(v ssa.Value) bool {
						if IsFieldLoad(v, "doAtSchedule", "duration") {
							return true
						}
						pr, isP := v.(*ssa.Parameter)
						return isP && pr.Name() == "duration"
					})
					startOK := false
					fn2 := ac.Parent()
					EachInstr(fn2, func(in ssa.Instruction) {
						if sv2, ok := StoreToField(in, "doAtSchedule", "start"); ok && (sameRoots(sv2, ac.Call.Args[0]) || Strip(sv2) == Strip(ac.Call.Args[0])) {
							startOK = true
						}
					})
					if IsFieldLoad(ac.Call.Args[0], "doAtSchedule", "start") {
						startOK = true
					}
					if _, isZero := Strip(ac.Call.Args[0]).(*ssa.Const); isZero && fn2.Parent() == nil && len(FieldStoresIn([]*ssa.Function{fn2}, "doAtSchedule", "start")) == 0 {
						startOK = true // constructor: start is still the zero time
					}
					if !durOK || !startOK {
						all = false
					}
				}
				if all {
					for _, sv := range stores {
						if ac, _ := CallOfValue(Strip(sv)); ac != nil && IsFieldLoad(ac.Call.Args[1], "doAtSchedule", "duration") {
							off = ac.Call.Args[1]
						}
					}
				}
			}
			if off == nil {
				c.Bad("O1.3", fk(nx)+":time-is-start-plus-offset", r.ret.Pos(), "returned time must be start.Add(...)")
				continue
			}
			// facts: index >= n ?
			exhausted, within := false, false
			for _, f := range CmpFactsAt(r.At) {
				f = f.Canon()
				if IsFieldLoad(f.X, "doAtSchedule", "n") && f.Op == token.LEQ { // n <= idx
					exhausted = true
				}
				if IsFieldLoad(f.Y, "doAtSchedule", "n") && f.Op == token.LSS { // idx < n
					within = true
				}
			}
			if !okv {
				nFin++
				c.Check(exhausted && IsFieldLoad(off, "doAtSchedule", "duration"), "O1.3", fk(nx)+":exhausted-returns-start-plus-duration", r.ret.Pos(),
					fmt.Sprintf("the ok=false return must be on the index >= n edge (%v) and return start.Add(duration)", exhausted))
			} else {
				nTok++
				oc, _ := CallOfValue(off)
				c.Check(within && oc != nil && IsFieldCall(&oc.Call, "doAtSchedule", "doAt"), "O1.3", fk(nx)+":token-returns-start-plus-doAt", r.ret.Pos(),
					fmt.Sprintf("the ok=true return must be on the index < n edge (%v) and return start.Add(doAt(index))", within))
			}
		}
		c.Floor("O1.3", "returns of doAtSchedule.Next", nFin+nTok, 2)
		c.Check(nFin >= 1 && nTok >= 1, "O1.3", fk(nx)+":both-outcomes-present", nx.Pos(), "Next must have an exhausted and a token return")
	}
	// ---- O1.4
	if st := P.Func("core/schedule", "", "NewStep"); st == nil {
		c.Anchor("O1.4", "core/schedule.NewStep")
	} else if len(st.Params) != 4 {
		c.Anchor("O1.4", "NewStep(from, to, step, duration)")
	} else {
		from, to, step, dur := ssa.Value(st.Params[0]), ssa.Value(st.Params[1]), ssa.Value(st.Params[2]), ssa.Value(st.Params[3])
		// the level loop: in NewStep itself or in a helper of the package it calls (stepLevels(from, to, step, duration))
		stRegion := FindFuncs(st, 2, func(*ssa.Function) bool { return true })
		var loopConst *ssa.Call
		for _, g := range stRegion {
			EachInstr(g, func(in ssa.Instruction) {
				cl, ok := in.(*ssa.Call)
				if ok && MatchCC(&cl.Call, Spec{"./core/schedule", "", "NewConst"}) && BlockCanReach(cl.Block(), cl.Block()) {
					loopConst = cl
				}
			})
		}
		// v is NewStep's parameter p, directly or as the parameter of the helper that receives it at its only call site
		is := func(v, p ssa.Value) bool {
			for d := 0; d < 3; d++ {
				if v == p {
					return true
				}
				pr, ok := v.(*ssa.Parameter)
				if !ok {
					return false
				}
				site := SoleCallSite(pr.Parent())
				if site == nil {
					return false
				}
				found := false
				for i, q := range pr.Parent().Params {
					if a := ArgOfParam(site, pr.Parent(), i); q == pr && a != nil {
						v, found = a, true
					}
				}
				if !found {
					return false
				}
			}
			return false
		}
		if loopConst == nil {
			c.Bad("O1.4", fk(st)+":const-per-level", st.Pos(), "no NewConst call inside a loop")
		} else {
			phi, isPhi := loopConst.Call.Args[0].(*ssa.Phi)
			okLoop := isPhi && is(loopConst.Call.Args[1], dur)
			detail := "NewConst(level, duration) with level the loop variable"
			if okLoop {
				nInit, nBack := 0, 0
				for _, e := range phi.Edges {
					if is(e, from) {
						nInit++
					} else if b, ok := e.(*ssa.BinOp); ok && b.Op == token.ADD && b.X == ssa.Value(phi) {
						if cv, ok := b.Y.(*ssa.Convert); ok && is(cv.X, step) {
							nBack++
						}
					}
				}
				okCond := false
				for _, f := range CmpFactsAt(loopConst) {
					f = f.Canon()
					if f.Op == token.LEQ && f.X == ssa.Value(phi) && is(f.Y, to) {
						okCond = true
					}
				}
				okLoop = nInit == 1 && nBack == 1 && okCond
				detail = fmt.Sprintf("level starts at from (%d), advances by step (%d), runs while level <= to (%v)", nInit, nBack, okCond)
			}
			c.Check(okLoop, "O1.4", fk(st)+":const-per-level", loopConst.Pos(), detail)
		}
		okRet := false
		EachInstr(st, func(in ssa.Instruction) {
			r, ok := in.(*ssa.Return)
			if !ok {
				return
			}
			cl, _ := CallOfValue(r.Results[0])
			if cl != nil && MatchCC(&cl.Call, Spec{"./core/schedule", "", "NewCompositeConf"}, Spec{"./core/schedule", "", "NewComposite"}) {
				okRet = true
			}
		})
		c.Check(okRet, "O1.4", fk(st)+":returns-composite-of-levels", st.Pos(), "the levels are returned as one composite")
		apps := 0
		appFns := []*ssa.Function{st}
		if loopConst != nil && loopConst.Parent() != st {
			appFns = append(appFns, loopConst.Parent())
		}
		for _, g := range appFns {
			EachInstr(g, func(in ssa.Instruction) {
				if IsBuiltinCall(in, "append") {
					apps++
				}
			})
		}
		c.Check(apps == 1, "O1.4", fk(st)+":one-append-per-level", st.Pos(), fmt.Sprintf("%d append calls (want 1)", apps))
		// every level becomes a part: the NewConst of an iteration is what is appended, and no path of the loop body
		// goes from the NewConst back to the loop head without passing the append (a level that is skipped - say,
		// because it has no tokens - no longer occupies its duration, and every later level starts early)
		if loopConst != nil {
			var app ssa.Instruction
			EachInstr(loopConst.Parent(), func(in ssa.Instruction) {
				if IsBuiltinCall(in, "append") {
					app = in
				}
			})
			okEvery, detail := false, "no append in the function that holds the level loop"
			if app != nil {
				isLevel := SliceAny(CC(app).Args[len(CC(app).Args)-1], func(v ssa.Value) bool { return Strip(v) == ssa.Value(loopConst) })
				head := loopConst.Block()
				if phi, ok := loopConst.Call.Args[0].(*ssa.Phi); ok {
					head = phi.Block()
				}
				skips := app.Block() != loopConst.Block() && reachesAvoiding(loopConst.Block(), head, app.Block())
				okEvery = isLevel && !skips && BlockCanReach(app.Block(), app.Block())
				detail = fmt.Sprintf("the appended element is this iteration's NewConst (%v); a path from NewConst to the loop head avoids the append (%v)", isLevel, skips)
			}
			c.Check(okEvery, "O1.4", fk(st)+":every-level-is-appended", loopConst.Pos(), detail)
		}
	}
	// composite keeps order: NewComposite stores the given slice itself
	if nc := P.Func("core/schedule", "", "NewComposite"); nc == nil {
		c.Anchor("O1.4", "core/schedule.NewComposite")
	} else {
		ok := false
		EachInstr(nc, func(in ssa.Instruction) {
			if v, isSt := StoreToField(in, "compositeSchedule", "scheds"); isSt && v == ssa.Value(nc.Params[0]) {
				ok = true
			}
		})
		c.Check(ok, "O1.4", fk(nc)+":parts-kept-in-given-order", nc.Pos(), "the composite stores the given slice of parts unchanged (order of succession)")
	}
}

// ---- O1.8: the closed forms, read as exact algebra

func c01ClosedForms(c *Ctx) {
	c.Rule("O1.8", "closed forms (float arithmetic read as exact real arithmetic, rounding not modelled): with s = duration in seconds and r(t) the configured rate - r = ops for const, r(t) = from + (to-from)*t/s for line - the time T(i) that the profile's DoAt function returns for token i satisfies integral_0^T r = i identically in (i, rates, duration), on the branch of the square root that gives the earliest non-negative instant; the token budget handed to NewDoAtSchedule is the truncation of integral_0^s r; and a line with from == to is the const profile of that rate")
	P := c.P
	sNewDoAt := Spec{"./core/schedule", "", "NewDoAtSchedule"}
	billion := AlgInt(1_000_000_000)
	for _, name := range []string{"NewConst", "NewLine"} {
		fn := P.Func("core/schedule", "", name)
		if fn == nil {
			c.Anchor("O1.8", "core/schedule."+name)
			continue
		}
		env := &AlgEnv{Bind: map[ssa.Value]Alg{}, NonNeg: map[string]bool{}}
		var rates []Alg
		var dur *ssa.Parameter
		for _, p := range fn.Params {
			if isFloatType(p.Type()) {
				env.Bind[p] = AlgVar(p.Name())
				env.NonNeg[p.Name()] = true
				rates = append(rates, AlgVar(p.Name()))
			} else if _, n := NamedOf(p.Type()); n == "Duration" {
				env.Bind[p] = AlgVar("D")
				dur = p
			}
		}
		want := 1
		if name == "NewLine" {
			want = 2
		}
		if dur == nil || len(rates) != want {
			c.Anchor("O1.8", name+"(rate..., duration)")
			continue
		}
		s, _ := AlgVar("D").Div(billion) // seconds
		// integral of the rate from 0 to t
		integral := func(t Alg) (Alg, bool) {
			if name == "NewConst" {
				return rates[0].Mul(t)
			}
			// from*t + (to-from)*t^2/(2s)
			a, _ := rates[0].Mul(t)
			d, _ := rates[1].Sub(rates[0])
			tt, ok := t.Mul(t)
			if !ok {
				return Alg{}, false
			}
			b, ok := d.Mul(tt)
			if !ok {
				return Alg{}, false
			}
			twoS, _ := AlgInt(2).Mul(s)
			b, ok = b.Div(twoS)
			if !ok {
				return Alg{}, false
			}
			return a.Add(b, 1)
		}
		nSched := 0
		for _, cl := range Calls(fn, sNewDoAt) {
			cc := CC(cl)
			if k, isK := ConstInt(cc.Args[1]); isK && k == 0 {
				continue // a zero-token schedule (pause): nothing to schedule
			}
			nSched++
			// token budget
			env.Truncs, env.Why = 0, ""
			n, ok := env.Eval(cc.Args[1], 0)
			total, _ := integral(s)
			if !ok {
				c.Unknown("O1.8", fk(fn)+":token-budget-is-the-integral-over-the-duration", cl.Pos(), "the token budget is not an arithmetic expression this rule can read: "+env.Why)
			} else {
				c.Check(n.Eq(total) && env.Truncs == 1, "O1.8", fk(fn)+":token-budget-is-the-integral-over-the-duration", cl.Pos(),
					fmt.Sprintf("n = trunc(%s); integral of the rate over the duration = %s; float->int truncations on the way: %d (want exactly the final one)", n, total, env.Truncs))
			}
			// token time
			env.Truncs, env.Why = 0, ""
			tNs, ok := env.ClosureResult(cc.Args[2], []Alg{AlgVar("i")}, 0)
			if !ok {
				c.Unknown("O1.8", fk(fn)+":token-time-inverts-the-integral", cl.Pos(), "the DoAt function is not a closed form this rule can read: "+env.Why)
				continue
			}
			t, _ := tNs.Div(billion)
			it, ok := integral(t)
			c.Check(ok && it.Eq(AlgVar("i")), "O1.8", fk(fn)+":token-time-inverts-the-integral", cl.Pos(),
				fmt.Sprintf("T(i) = %s ns; integral of the rate up to T(i) = %s (want i)", tNs, it))
			if name == "NewLine" {
				// earliest instant: the root taken is (sqrt(...) - b)/a, i.e. the coefficient of the square root times the slope is a positive constant
				q, rad := tNs.RootCoefficient()
				d, _ := rates[1].Sub(rates[0])
				slope, _ := d.Div(s)
				qa, _ := q.Mul(slope)
				k, isK := qa.ConstValue()
				c.Check(rad != nil && isK && k.Sign() > 0, "O1.8", fk(fn)+":earliest-root", cl.Pos(),
					fmt.Sprintf("coefficient of the square root times the slope = %s (want a positive constant: the other root is negative for rising lines and the later crossing for falling ones)", qa))
			}
		}
		c.Floor("O1.8", "token-carrying NewDoAtSchedule calls in "+name, nSched, 1)
		if name == "NewLine" {
			// from == to: delegated to the const profile of that rate and the same duration
			nDel := 0
			EachInstr(fn, func(in ssa.Instruction) {
				ret, ok := in.(*ssa.Return)
				if !ok || len(ret.Results) != 1 {
					return
				}
				cl, _ := CallOfValue(ret.Results[0])
				if cl == nil || MatchCC(&cl.Call, sNewDoAt) {
					return
				}
				nDel++
				okDel := MatchCC(&cl.Call, Spec{"./core/schedule", "", "NewConst"}) && len(cl.Call.Args) == 2 && cl.Call.Args[1] == ssa.Value(dur)
				if okDel {
					r, ok := env.Eval(cl.Call.Args[0], 0)
					okDel = ok && (r.Eq(rates[0]) || r.Eq(rates[1]))
					eq := false
					for _, f := range CmpFactsAt(ret) {
						if f.Op == token.EQL && ((f.X == ssa.Value(fn.Params[0]) && f.Y == ssa.Value(fn.Params[1])) || (f.X == ssa.Value(fn.Params[1]) && f.Y == ssa.Value(fn.Params[0]))) {
							eq = true
						}
					}
					okDel = okDel && eq
				}
				c.Check(okDel, "O1.8", fk(fn)+":flat-line-is-the-const-profile", ret.Pos(), "a return that does not build the line's own schedule must be NewConst(from, duration) on the from == to edge (the slope is 0 there and the quadratic form divides by it)")
			})
			_ = nDel
		}
	}
}
