package rules

import (
	"path/filepath"
	"fmt"
	"go/token"
	"go/types"
	"os"
	"reflect"
	"sort"
	"strings"

	. "pandoravet/core"

	"golang.org/x/tools/go/ssa"
)

func init() {
	register(&Pack{Property: "C16", Title: "HCL and YAML mean the same", Run: runC16})
}

// yamlKey returns the key yaml.v2 emits for a struct field ("" = skipped).
func yamlKey(f *types.Var, tag string) (key string, omitempty, inline bool) {
	if !f.Exported() {
		return "", false, false
	}
	t, ok := reflect.StructTag(tag).Lookup("yaml")
	name := ""
	if ok {
		parts := strings.Split(t, ",")
		name = parts[0]
		for _, p := range parts[1:] {
			switch p {
			case "omitempty":
				omitempty = true
			case "inline":
				inline = true
			}
		}
		if name == "-" && len(parts) == 1 {
			return "", false, false
		}
	}
	if name == "" {
		name = strings.ToLower(f.Name())
	}
	return name, omitempty, inline
}

// decodeKey returns the key mapstructure (TagName config) accepts for a field ("" = not decodable).
func decodeKey(f *types.Var, tag string) (key string, squash bool) {
	if !f.Exported() {
		return "", false
	}
	t, ok := reflect.StructTag(tag).Lookup("config")
	name := ""
	if ok {
		parts := strings.Split(t, ",")
		name = parts[0]
		for _, p := range parts[1:] {
			if p == "squash" {
				squash = true
			}
		}
		if name == "-" {
			return "", false
		}
	}
	if name == "" {
		name = f.Name()
	}
	return name, squash
}

func deref(t types.Type) types.Type {
	for {
		p, ok := t.Underlying().(*types.Pointer)
		if !ok {
			return t
		}
		t = p.Elem()
	}
}

func elemOf(t types.Type) (types.Type, bool) {
	t = deref(t)
	if s, ok := t.Underlying().(*types.Slice); ok {
		return deref(s.Elem()), true
	}
	return t, false
}

type c16 struct {
	c *Ctx
	// plugin interface -> config struct types of its registered constructors
	pluginConfs map[string][]*types.Named
	pluginNames map[string]bool
	visited     map[string]bool
	nFields     int
}

func (x *c16) collectPlugins() {
	P := x.c.P
	ws := c18Wrappers(P)
	byFn := map[*ssa.Function]*regWrapper{}
	for _, w := range ws {
		byFn[w.Fn] = w
	}
	x.pluginConfs = map[string][]*types.Named{}
	x.pluginNames = map[string]bool{}
	for fn := range P.AllFuncs() {
		if !IsProdPkg(PkgOf(fn)) || len(fn.Blocks) == 0 {
			continue
		}
		EachInstr(fn, func(in ssa.Instruction) {
			cc := CC(in)
			if cc == nil || cc.StaticCallee() == nil {
				return
			}
			w := byFn[cc.StaticCallee()]
			if w == nil || byFn[fn] != nil {
				return
			}
			mi, ok := cc.Args[1].(*ssa.MakeInterface)
			if !ok {
				return
			}
			sig, ok := mi.X.Type().Underlying().(*types.Signature)
			if !ok {
				return
			}
			key := ifaceKey(w)
			x.pluginNames[key] = true
			if sig.Params().Len() == 1 {
				if nt, ok := deref(sig.Params().At(0).Type()).(*types.Named); ok {
					x.pluginConfs[key] = append(x.pluginConfs[key], nt)
				}
			}
		})
	}
}

func ifaceKey(w *regWrapper) string { return w.Key }

// decodableFields lists the decode keys of a struct (flattening squash / embedded).
func decodableFields(st *types.Struct) map[string]*types.Var {
	out := map[string]*types.Var{}
	for i := 0; i < st.NumFields(); i++ {
		f := st.Field(i)
		k, squash := decodeKey(f, st.Tag(i))
		if k == "" {
			continue
		}
		if squash {
			if inner, ok := deref(f.Type()).Underlying().(*types.Struct); ok {
				for k2, v2 := range decodableFields(inner) {
					out[k2] = v2
				}
				continue
			}
		}
		out[strings.ToLower(k)] = f
	}
	return out
}

// kindClass reduces a type to the shape that must agree between the two notations.
func kindClass(t types.Type) string {
	t = deref(t)
	switch u := t.Underlying().(type) {
	case *types.Basic:
		switch {
		case u.Info()&types.IsString != 0:
			return "string"
		case u.Info()&types.IsInteger != 0:
			return "int"
		case u.Info()&types.IsFloat != 0:
			return "float"
		case u.Info()&types.IsBoolean != 0:
			return "bool"
		}
		return u.Name()
	case *types.Slice:
		return "[]" + kindClass(u.Elem())
	case *types.Map:
		return "map[" + kindClass(u.Key()) + "]" + kindClass(u.Elem())
	case *types.Struct:
		return "struct"
	case *types.Interface:
		if u.NumMethods() == 0 {
			return "any"
		}
		return "plugin"
	}
	return t.String()
}

// pair compares one HCL struct with the config type(s) it is decoded into.
func (x *c16) pair(hclT *types.Named, targets []*types.Named, allowType bool, path string) {
	c := x.c
	key := hclT.Obj().Name() + "<->" + targetNames(targets)
	if x.visited[key] {
		return
	}
	x.visited[key] = true
	hs, ok := hclT.Underlying().(*types.Struct)
	if !ok {
		return
	}
	type tgt struct {
		nt     *types.Named
		fields map[string]*types.Var
	}
	var ts []tgt
	for _, t := range targets {
		if st, ok := t.Underlying().(*types.Struct); ok {
			ts = append(ts, tgt{t, decodableFields(st)})
		}
	}
	used := map[string]bool{}
	for i := 0; i < hs.NumFields(); i++ {
		f := hs.Field(i)
		yk, _, _ := yamlKey(f, hs.Tag(i))
		if yk == "" {
			continue
		}
		x.nFields++
		ck := hclT.Obj().Name() + "." + f.Name()
		if allowType && strings.ToLower(yk) == "type" {
			c.OK("O16.1", ck+":plugin-selector", f.Pos(), "emitted as the plugin selector `type`")
			continue
		}
		var match *types.Var
		var owner *types.Named
		for _, t := range ts {
			if v, ok := t.fields[strings.ToLower(yk)]; ok {
				match, owner = v, t.nt
				break
			}
		}
		if match == nil {
			c.Bad("O16.1", ck+":yaml-key-is-decodable", f.Pos(), fmt.Sprintf("the HCL struct emits YAML key %q, which no field of %s decodes (the strict decoder rejects it, or the value is lost): HCL and YAML descriptions would differ", yk, targetNames(targets)))
			continue
		}
		used[strings.ToLower(yk)] = true
		c.OK("O16.1", ck+":yaml-key-is-decodable", f.Pos(), fmt.Sprintf("YAML key %q -> %s.%s", yk, owner.Obj().Name(), match.Name()))
		// kinds
		hk, tk := kindClass(f.Type()), kindClass(match.Type())
		he, _ := elemOf(f.Type())
		te, _ := elemOf(match.Type())
		okKind := hk == tk || kindSubsumes(tk, hk)
		if !okKind {
			// struct (block) on the HCL side vs plugin interface / struct on the config side
			hes, hIsStruct := he.Underlying().(*types.Struct)
			_ = hes
			if hIsStruct {
				switch te.Underlying().(type) {
				case *types.Interface, *types.Struct:
					okKind = strings.HasPrefix(hk, "[]") == strings.HasPrefix(tk, "[]")
				}
			}
		}
		c.Check(okKind, "O16.2", ck+":kinds-agree", f.Pos(), fmt.Sprintf("HCL %s (%s) vs config %s.%s %s (%s)", f.Type(), hk, owner.Obj().Name(), match.Name(), match.Type(), tk))
		// recurse
		if hn, ok := he.(*types.Named); ok {
			if _, isStruct := hn.Underlying().(*types.Struct); isStruct {
				switch tu := te.Underlying().(type) {
				case *types.Struct:
					if tn, ok := te.(*types.Named); ok {
						x.pair(hn, []*types.Named{tn}, false, path+"."+f.Name())
					}
					_ = tu
				case *types.Interface:
					ip, inm := NamedOf(te)
					in := ip + "." + inm
					if !x.pluginNames[in] {
						c.Unknown("O16.1", ck+":plugin-target-registered", f.Pos(), "the config field is of interface type "+te.String()+" for which no registration wrapper was found")
					} else {
						x.pair(hn, x.pluginConfs[in], true, path+"."+f.Name())
					}
				}
			}
		}
	}
	// O16.3 reverse direction
	for _, t := range ts {
		var ks []string
		for k := range t.fields {
			ks = append(ks, k)
		}
		sort.Strings(ks)
		for _, k := range ks {
			if used[k] {
				continue
			}
			ck := t.nt.Obj().Name() + "." + t.fields[k].Name()
			if why, ok := c16YamlOnly[ck]; ok {
				c.OK("O16.3", ck+":has-an-hcl-counterpart", t.fields[k].Pos(), "named YAML-only field: "+why)
				continue
			}
			c.Bad("O16.3", ck+":has-an-hcl-counterpart", t.fields[k].Pos(), fmt.Sprintf("config key %q of %s cannot be written in HCL: %s has no field emitting it", k, t.nt.Obj().Name(), hclT.Obj().Name()))
		}
	}
}

// c16YamlOnly lists config fields that deliberately have no HCL field.
var c16YamlOnly = map[string]string{
	"AmmoConfig.Locals":            "HCL evaluates `locals` blocks itself before conversion; YAML keeps the key for anchors (docs/eng/scenario-http-generator.md)",
	"VariableSourceCsv.Name":       "emitted through the block label `name` (present in SourceHCL as Name,label)",
	"VariableSourceJSON.Name":      "emitted through the block label `name`",
	"VariableSourceVariables.Name": "emitted through the block label `name`",
}

func targetNames(ts []*types.Named) string {
	var n []string
	for _, t := range ts {
		n = append(n, t.Obj().Name())
	}
	sort.Strings(n)
	return "{" + strings.Join(n, ",") + "}"
}

func runC16(c *Ctx) {
	c.Rule("O16.1", "every field of the HCL structs is emitted under a YAML key (yaml tag, else yaml.v2's lower-cased field name) that a field of the paired config type decodes (config tag, else case-insensitive field name), or is the plugin selector `type`; pairing follows the decode: struct fields pair with struct fields, plugin-interface fields with the config structs of the constructors registered for that interface")
	c.Rule("O16.2", "kinds agree modulo pointer/optional: string/int/bool/float, []T, map[K]V, and block (struct) vs struct or plugin")
	c.Rule("O16.3", "every decodable field of the paired config types has an HCL counterpart, except the named YAML-only fields")
	c.Rule("O16.5", "both notations end in the same decoder: ConvertHCLToAmmo and ParseAmmoConfig return DecodeMap's result; ReadAmmoConfig reaches ParseHCLFile+ConvertHCLToAmmo only on the .hcl suffix edge and ParseAmmoConfig on the YAML edge; DecodeMap decodes through config.DecodeAndValidate into AmmoConfig")
	c.Rule("O16.7", "each description is parsed from its own bytes: hclparse.Parser remembers every file it parsed under the file's name and answers a second ParseHCL for that name from its memory without looking at the bytes, so the parser that parses an ammo file is created for that call (hclparse.NewParser() in the same function), never a package-level or otherwise shared one")
	c.Rule("O16.6", "locals are fully evaluated before the body is decoded: decodeLocals dominates gohcl.DecodeBody and its context is the one passed; every locals block is evaluated against the locals accumulated so far, and a later definition of a name replaces the earlier one (as YAML key order does)")
	c16OwnParser(c)
	P := c.P
	pk := P.Pkg("components/providers/scenario/config")
	if pk == nil {
		c.Anchor("O16.1", "package components/providers/scenario/config")
		return
	}
	look := func(n string) *types.Named {
		tn, ok := pk.Types.Scope().Lookup(n).(*types.TypeName)
		if !ok {
			return nil
		}
		nt, _ := tn.Type().(*types.Named)
		return nt
	}
	ah, ac := look("AmmoHCL"), look("AmmoConfig")
	if ah == nil || ac == nil {
		c.Anchor("O16.1", "config.AmmoHCL / config.AmmoConfig")
		return
	}
	x := &c16{c: c, visited: map[string]bool{}}
	x.collectPlugins()
	x.pair(ah, []*types.Named{ac}, false, "AmmoHCL")
	c.Floor("O16.1", "HCL struct fields compared", x.nFields, 45)
	c.Floor("O16.1", "HCL/config struct pairings", len(x.visited), 10)
	var pairs []string
	for k := range x.visited {
		pairs = append(pairs, k)
	}
	sort.Strings(pairs)
	c.Note("pairings derived from the decode path and the plugin registrations: %v", pairs)

	// ---------------- O16.5
	dm := P.Func("components/providers/scenario/config", "", "DecodeMap")
	conv := P.Func("components/providers/scenario/config", "", "ConvertHCLToAmmo")
	pac := P.Func("components/providers/scenario/config", "", "ParseAmmoConfig")
	rac := P.Func("components/providers/scenario/config", "", "ReadAmmoConfig")
	phf := P.Func("components/providers/scenario/config", "", "ParseHCLFile")
	if dm == nil || conv == nil || pac == nil || rac == nil || phf == nil {
		c.Anchor("O16.5", "config.DecodeMap / ConvertHCLToAmmo / ParseAmmoConfig / ReadAmmoConfig / ParseHCLFile")
	} else {
		for _, fn := range []*ssa.Function{conv, pac} {
			// some success return yields DecodeMap's result - directly, or through a helper of the package both
			// front-ends share (decodeYAMLBytes)
			isDM := func(v ssa.Value) bool {
				cl, idx := CallOfValue(v)
				return cl != nil && cl.Call.StaticCallee() == dm && idx <= 0
			}
			ok := false
			EachInstr(fn, func(in ssa.Instruction) {
				r, isR := in.(*ssa.Return)
				if !isR || len(r.Results) != 2 {
					return
				}
				for _, rt := range Roots(r.Results[0], false) {
					if isDM(rt) {
						ok = true
						continue
					}
					if cl, _ := CallOfValue(rt); cl != nil && cl.Call.StaticCallee() != nil && cl.Call.StaticCallee() != dm {
						EachInstr(cl.Call.StaticCallee(), func(i2 ssa.Instruction) {
							if r2, isR2 := i2.(*ssa.Return); isR2 && len(r2.Results) == 2 && DerivesOnly(r2.Results[0], false, isDM) {
								ok = true
							}
						})
					}
				}
			})
			c.Check(ok, "O16.5", fk(fn)+":ends-in-DecodeMap", fn.Pos(), "the returned config is DecodeMap's result")
		}
		// ConvertHCLToAmmo marshals exactly its argument
		okM := false
		// (yaml.Marshal(v), or an Encoder's Encode(v), here or in a helper of the package it hands the value to)
		for _, g := range FindFuncs(conv, 2, func(g *ssa.Function) bool { return PkgOf(g) == PkgOf(conv) && g.Parent() == nil }) {
			EachInstr(g, func(in ssa.Instruction) {
				var arg ssa.Value
				switch {
				case IsCall(in, Spec{"gopkg.in/yaml.v2", "", "Marshal"}, Spec{"gopkg.in/yaml.v3", "", "Marshal"}):
					arg = CC(in).Args[0]
				case IsCall(in, Spec{"gopkg.in/yaml.v2", "Encoder", "Encode"}, Spec{"gopkg.in/yaml.v3", "Encoder", "Encode"}):
					arg = CC(in).Args[1]
				default:
					return
				}
				if g != conv && SoleCallSite(g) == nil {
					return
				}
				okM = DerivesOnly(arg, true, func(v ssa.Value) bool { return v == ssa.Value(conv.Params[0]) })
			})
		}
		c.Check(okM, "O16.5", fk(conv)+":marshals-the-parsed-hcl", conv.Pos(), "yaml.Marshal receives the parsed AmmoHCL value")
		// ... as it was parsed: the conversion re-encodes, it does not edit - nothing in ConvertHCLToAmmo (or a helper of
		// the package it calls) stores into the parsed description or into the slices and maps it holds (every documented
		// field must arrive unchanged: a normalised body differs from the YAML twin that spells the same bytes out)
		param := ssa.Value(conv.Params[0])
		rootedAtParam := func(addr ssa.Value) bool {
			for d := 0; d < 12; d++ {
				switch x := addr.(type) {
				case *ssa.FieldAddr:
					addr = x.X
				case *ssa.IndexAddr:
					addr = x.X
				case *ssa.UnOp:
					addr = x.X
				case *ssa.Alloc:
					for _, st := range StoresTo(x) {
						if st.Addr == ssa.Value(x) && st.Val == param {
							return true // the local copy of the parameter
						}
					}
					return false
				case *ssa.Parameter:
					return x == param
				default:
					return false
				}
			}
			return false
		}
		edited := ""
		for _, g := range FindFuncs(conv, 2, func(g *ssa.Function) bool { return PkgOf(g) == PkgOf(conv) && g.Parent() == nil }) {
			if g != conv {
				continue // helpers get copies or their own values; edits through pointers they are handed are seen below
			}
			EachInstr(g, func(in ssa.Instruction) {
				switch x := in.(type) {
				case *ssa.Store:
					if x.Addr != nil {
						if _, isAlloc := x.Addr.(*ssa.Alloc); isAlloc {
							return
						}
						if rootedAtParam(x.Addr) {
							edited = P.Pos(x.Pos())
						}
					}
				case *ssa.MapUpdate:
					if rootedAtParam(x.Map) {
						edited = P.Pos(x.Pos())
					}
				}
			})
		}
		c.Check(edited == "", "O16.5", fk(conv)+":parsed-description-is-not-edited", conv.Pos(), "no store into the parsed HCL description before it is re-encoded; edited at "+edited)
		// DecodeMap: yaml.Unmarshal into a map, then DecodeAndValidate(map, &AmmoConfig)
		okD := false
		EachInstr(dm, func(in ssa.Instruction) {
			if IsCall(in, Spec{"./core/config", "", "DecodeAndValidate"}) {
				cc := CC(in)
				if mi, ok := cc.Args[1].(*ssa.MakeInterface); ok {
					if _, n := NamedOf(mi.X.Type()); n == "AmmoConfig" {
						okD = true
					}
				}
			}
		})
		c.Check(okD, "O16.5", fk(dm)+":strict-decode-into-AmmoConfig", dm.Pos(), "DecodeMap decodes with config.DecodeAndValidate into *AmmoConfig")
		// ReadAmmoConfig branches
		sufFact := func(in ssa.Instruction, suf string, want bool) bool {
			for _, bf := range BoolFactsAt(in) {
				cl, _ := CallOfValue(bf.Subj)
				if cl == nil || bf.Val != want {
					continue
				}
				if MatchCC(&cl.Call, Spec{"strings", "", "HasSuffix"}) {
					if s, ok := ConstString(cl.Call.Args[1]); ok && s == suf {
						return true
					}
				}
			}
			// ... or filepath.Ext(name) == ".hcl" (if or switch form)
			for _, f := range CmpFactsAt(in) {
				op := token.EQL
				if !want {
					op = token.NEQ
				}
				if f.Op != op || f.Y == nil {
					continue
				}
				for _, pr := range [][2]ssa.Value{{f.X, f.Y}, {f.Y, f.X}} {
					if s, ok := ConstString(pr[1]); ok && s == suf {
						if cl, _ := CallOfValue(pr[0]); cl != nil && MatchCC(&cl.Call, Spec{"path/filepath", "", "Ext"}, Spec{"path", "", "Ext"}) {
							return true
						}
					}
				}
			}
			return false
		}
		okH, okY := false, false
		EachInstr(rac, func(in ssa.Instruction) {
			cl, ok := in.(*ssa.Call)
			if !ok {
				return
			}
			switch cl.Call.StaticCallee() {
			case phf, conv:
				if sufFact(cl, ".hcl", true) {
					okH = true
				} else {
					okH = false
				}
			case pac:
				okY = sufFact(cl, ".hcl", false)
			}
		})
		c.Check(okH && okY, "O16.5", fk(rac)+":notation-chosen-by-extension", rac.Pos(), fmt.Sprintf("ParseHCLFile/ConvertHCLToAmmo only on the .hcl edge: %v; ParseAmmoConfig only on the non-.hcl edge: %v", okH, okY))
		// an extension is the END of the file name: every test of the name against a constant that looks like an
		// extension is strings.HasSuffix, and every extension the "file extension should be ..." message promises is
		// tested (a description in scenario.yml must load like its .yaml and .hcl twins)
		tested := map[string]bool{}
		// (filepath.Ext(name) == ext is a suffix test too)
		EachInstr(rac, func(in ssa.Instruction) {
			b, ok := in.(*ssa.BinOp)
			if !ok || (b.Op != token.EQL && b.Op != token.NEQ) {
				return
			}
			for _, pr := range [][2]ssa.Value{{b.X, b.Y}, {b.Y, b.X}} {
				if ext, isS := ConstString(pr[1]); isS && len(ext) > 1 && ext[0] == '.' {
					if cl, _ := CallOfValue(pr[0]); cl != nil && MatchCC(&cl.Call, Spec{"path/filepath", "", "Ext"}, Spec{"path", "", "Ext"}) {
						tested[ext] = true
					}
				}
			}
		})
		EachInstr(rac, func(in ssa.Instruction) {
			cl, ok := in.(*ssa.Call)
			if !ok || len(cl.Call.Args) != 2 {
				return
			}
			f := CalleeObj(&cl.Call)
			if f == nil || f.Pkg() == nil || f.Pkg().Path() != "strings" {
				return
			}
			ext, isS := ConstString(cl.Call.Args[1])
			if !isS || len(ext) < 2 || ext[0] != '.' {
				return
			}
			if f.Name() == "HasSuffix" {
				tested[ext] = true
				return
			}
			c.Bad("O16.5", fk(rac)+":extension-tested-as-suffix:"+ext, cl.Pos(), fmt.Sprintf("the file name is tested against %q with strings.%s: an extension must be tested with HasSuffix (a file named scenario%s is rejected, one named %sfoo accepted)", ext, f.Name(), ext, ext))
		})
		EachInstr(rac, func(in ssa.Instruction) {
			cl, ok := in.(*ssa.Call)
			if !ok || !MatchCC(&cl.Call, Spec{"fmt", "", "Errorf"}) {
				return
			}
			msg, isS := ConstString(cl.Call.Args[0])
			if !isS || !strings.Contains(msg, "extension") {
				return
			}
			for _, w := range strings.FieldsFunc(msg, func(r rune) bool { return r == ' ' || r == ',' }) {
				if len(w) > 1 && w[0] == '.' {
					c.Check(tested[w], "O16.5", fk(rac)+":promised-extension-is-accepted:"+w, cl.Pos(), "the error message names "+w+" as an accepted extension; a HasSuffix test for it must exist")
				}
			}
		})
	}

	// ---------------- O16.6
	dl := P.Func("components/providers/scenario/config", "", "decodeLocals")
	dlb := P.Func("components/providers/scenario/config", "", "decodeLocalBlock")
	if phf == nil || dl == nil || dlb == nil {
		c.Anchor("O16.6", "config.ParseHCLFile / decodeLocals / decodeLocalBlock")
		return
	}
	var dlc, body *ssa.Call
	// in ParseHCLFile or in the helper of the package it hands the body to (decodeHCLBody)
	for _, g := range FindFuncs(phf, 2, func(*ssa.Function) bool { return true }) {
		EachInstr(g, func(in ssa.Instruction) {
			cl, ok := in.(*ssa.Call)
			if !ok {
				return
			}
			if cl.Call.StaticCallee() == dl {
				dlc = cl
			}
			if MatchCC(&cl.Call, Spec{"github.com/hashicorp/hcl/v2/gohcl", "", "DecodeBody"}) {
				// the decoding of the description itself (into AmmoHCL), not of a nested block
				isAmmo := false
				SliceAny(cl.Call.Args[2], func(v ssa.Value) bool {
					if pt, ok := v.Type().Underlying().(*types.Pointer); ok {
						if _, n := NamedOf(pt.Elem()); n == "AmmoHCL" {
							isAmmo = true
						}
					}
					return false
				})
				if isAmmo || body == nil && g == phf {
					body = cl
				}
			}
		})
	}
	ok := false
	if dlc != nil && body != nil {
		// both lifted to ParseHCLFile: the locals are evaluated (here or in a helper) before the body is decoded (here or in
		// another helper), and the context travels from one to the other
		a, b := LiftTo(phf, dlc), LiftTo(phf, body)
		ok = a != nil && b != nil && a != b && InstrDominates(a, b) && DerivesThrough(body.Call.Args[1], IsResultOf(dlc, 0))
		if a == b && a != nil {
			ok = InstrDominates(dlc, body) && DerivesThrough(body.Call.Args[1], IsResultOf(dlc, 0))
		}
	}
	if os.Getenv("PV_DEBUG") != "" && dlc != nil && body != nil {
		a, b := LiftTo(phf, dlc), LiftTo(phf, body)
		fmt.Fprintln(os.Stderr, "O16.6 debug:", dlc.Parent(), body.Parent(), a, b, DerivesThrough(body.Call.Args[1], IsResultOf(dlc, 0)))
	}
	c.Check(ok, "O16.6", fk(phf)+":locals-evaluated-before-the-body", phf.Pos(), "gohcl.DecodeBody is dominated by decodeLocals and receives its evaluation context")
	// inside decodeLocals
	var blk, merge, build *ssa.Call
	var mergeFn *ssa.Function
	// in decodeLocals or in a helper of the package it calls per block (a method of a small scope type, ...); "in the
	// loop" = inside a loop of its function, or inside a helper that is called from inside the loop of decodeLocals
	inLoop := func(in ssa.Instruction) bool {
		if loopHeaderOf(in.Block()) != nil {
			return true
		}
		if at := LiftTo(dl, in); at != nil && at != in {
			return loopHeaderOf(at.Block()) != nil
		}
		return false
	}
	for _, g := range FindFuncs(dl, 2, func(*ssa.Function) bool { return true }) {
		if g == dlb {
			continue
		}
		EachInstr(g, func(in ssa.Instruction) {
			cl, isC := in.(*ssa.Call)
			if !isC || cl.Call.StaticCallee() == nil {
				return
			}
			sc := cl.Call.StaticCallee()
			switch {
			case sc == dlb:
				blk = cl
			case sc.Name() == "buildHclContext" && inLoop(cl):
				build = cl
			case strings.HasPrefix(sc.Name(), "mergeMaps"):
				merge = cl
				mergeFn = sc
			case isGenericStd(cl, "maps", "Copy") && len(cl.Call.Args) == 2 && inLoop(cl):
				merge = cl // maps.Copy(vars, newVars) written out in the loop
				mergeFn = nil
			}
		})
	}
	// ... or one context kept for all blocks whose "local" object is replaced after every block:
	// ctx.Variables["local"] = cty.ObjectVal(<merged locals>)
	var inPlace *ssa.MapUpdate
	if build == nil {
		for _, g := range FindFuncs(dl, 2, func(*ssa.Function) bool { return true }) {
			EachInstr(g, func(in ssa.Instruction) {
				mu, ok := in.(*ssa.MapUpdate)
				if !ok || !inLoop(mu) {
					return
				}
				if k, isS := ConstString(mu.Key); !isS || k != "local" {
					return
				}
				if fv, base := FieldOf(Strip(mu.Map)); fv != nil && fv.Name() == "Variables" {
					if _, tn := NamedOf(base.Type()); tn == "EvalContext" {
						inPlace = mu
					}
				}
			})
		}
	}
	if blk != nil && merge != nil && build == nil && inPlace != nil {
		c16LocalsInPlace(c, dl, dlb, blk, merge, mergeFn, inPlace)
		return
	}
	if blk == nil || merge == nil || build == nil {
		c.Anchor("O16.6", "decodeLocalBlock / mergeMaps / buildHclContext calls in the loop of decodeLocals")
		return
	}
	// which parameter of mergeMaps is overwritten (to) and which is ranged (from)
	toIdx, fromIdx := -1, -1
	if mergeFn == nil {
		toIdx, fromIdx = 0, 1 // maps.Copy(dst, src)
	}
	eachMergeInstr := func(f func(ssa.Instruction)) {
		if mergeFn != nil {
			EachInstr(mergeFn, f)
		}
	}
	eachMergeInstr(func(in ssa.Instruction) {
		switch x := in.(type) {
		case *ssa.MapUpdate:
			for i, p := range mergeFn.Params {
				if x.Map == ssa.Value(p) {
					toIdx = i
				}
			}
		case *ssa.Range:
			for i, p := range mergeFn.Params {
				if x.X == ssa.Value(p) {
					fromIdx = i
				}
			}
		case *ssa.Call:
			// maps.Copy(to, from)
			if sc := x.Call.StaticCallee(); sc != nil && len(x.Call.Args) == 2 {
				o := sc
				if sc.Origin() != nil {
					o = sc.Origin()
				}
				if o.Name() == "Copy" && o.Pkg != nil && strings.HasSuffix(o.Pkg.Pkg.Path(), "maps") {
					for i, p := range mergeFn.Params {
						if DerivesOnly(x.Call.Args[0], false, func(v ssa.Value) bool { return v == ssa.Value(p) }) {
							toIdx = i
						}
						if DerivesOnly(x.Call.Args[1], false, func(v ssa.Value) bool { return v == ssa.Value(p) }) {
							fromIdx = i
						}
					}
				}
			}
		}
	})
	okMerge := toIdx >= 0 && fromIdx >= 0 && toIdx != fromIdx
	okOrder, okAcc, okCtx := false, false, false
	if okMerge {
		// from = this block's result; to = the accumulator (not a block result)
		okOrder = DerivesOnly(merge.Call.Args[fromIdx], false, IsResultOf(blk, 0)) && !DerivesAny(merge.Call.Args[toIdx], false, IsResultOf(blk, 0))
		// the accumulator is one map made before the loop (or the previous merge result)
		okAcc = DerivesOnly(merge.Call.Args[toIdx], false, func(v ssa.Value) bool {
			if mm, ok := v.(*ssa.MakeMap); ok {
				return loopHeaderOf(mm.Block()) == nil
			}
			return v == ssa.Value(merge)
		})
		// the context for the next block is built from the merged map (or the accumulator itself), and the block is evaluated under the running context
		okCtx = DerivesOnly(build.Call.Args[0], false, func(v ssa.Value) bool {
			if v == ssa.Value(merge) {
				return true
			}
			return sameRoots(v, merge.Call.Args[toIdx]) && InstrDominates(merge, build)
		})
	}
	c.Check(okMerge && okOrder, "O16.6", fk(dl)+":later-definition-replaces-earlier", merge.Pos(), fmt.Sprintf("mergeMaps overwrites its parameter #%d with the entries of #%d; the overwriting argument must be the block just evaluated and the overwritten one the accumulated locals (order ok: %v)", toIdx, fromIdx, okOrder))
	c.Check(okAcc && okCtx, "O16.6", fk(dl)+":locals-accumulate-across-blocks", merge.Pos(), fmt.Sprintf("one accumulator made before the loop: %v; the next context is built from the merged locals: %v", okAcc, okCtx))
	// the block is evaluated under the running context (phi of initial and rebuilt contexts)
	okEval := SliceAny(blk.Call.Args[1], func(v ssa.Value) bool { return v == ssa.Value(build) })
	c.Check(okEval, "O16.6", fk(dl)+":blocks-see-earlier-locals", blk.Pos(), "decodeLocalBlock is evaluated with the context rebuilt after the previous block")
	// decodeLocalBlock evaluates every attribute with the given context
	okAttr := false
	EachInstr(dlb, func(in ssa.Instruction) {
		cc := CC(in)
		if cc != nil && cc.IsInvoke() && cc.Method.Name() == "Value" && len(cc.Args) == 1 && cc.Args[0] == ssa.Value(dlb.Params[1]) {
			okAttr = true
		}
	})
	c.Check(okAttr, "O16.6", fk(dlb)+":attributes-evaluated-in-context", dlb.Pos(), "every locals attribute expression is evaluated with the accumulated context")
	_ = token.NoPos
	c16FunctionTable(c, dl)
}

// c16LocalsInPlace: the form of O16.6 in which one evaluation context serves all blocks and its "local" object is
// replaced after each block.
func c16LocalsInPlace(c *Ctx, dl, dlb *ssa.Function, blk, merge *ssa.Call, mergeFn *ssa.Function, up *ssa.MapUpdate) {
	// the updated context is the one the block was evaluated with, and it was made by buildHclContext
	_, ctxOfUpdate := FieldOf(Strip(up.Map))
	sameCtx := ctxOfUpdate != nil && (sameRoots(ctxOfUpdate, blk.Call.Args[1]) || sameFieldLoad(ctxOfUpdate, blk.Call.Args[1]))
	built := DerivesThrough(blk.Call.Args[1], func(v ssa.Value) bool {
		cl, _ := CallOfValue(v)
		return cl != nil && cl.Call.StaticCallee() != nil && cl.Call.StaticCallee().Name() == "buildHclContext"
	})
	// the new object is made from the merge of the accumulated locals and this block's
	ov, _ := CallOfValue(up.Value)
	fromMerge := ov != nil && CalleeObj(&ov.Call) != nil && CalleeObj(&ov.Call).Name() == "ObjectVal" && len(ov.Call.Args) == 1 &&
		(DerivesOnly(ov.Call.Args[0], false, func(v ssa.Value) bool { return v == ssa.Value(merge) }) || (InstrDominates(merge, ov) && sameRootsOrField(ov.Call.Args[0], merge.Call.Args[0])))
	c.Check(sameCtx && built && fromMerge, "O16.6", fk(dl)+":locals-accumulate-across-blocks", up.Pos(),
		fmt.Sprintf("one context for all blocks: the context whose `local` object is replaced is the one the block was evaluated with: %v; it was made by buildHclContext: %v; the new object is cty.ObjectVal(<merged locals>): %v", sameCtx, built, fromMerge))
	c.Check(sameCtx, "O16.6", fk(dl)+":blocks-see-earlier-locals", blk.Pos(), "decodeLocalBlock is evaluated with the context that the previous block updated")
	// merge order: the overwritten map is the accumulator, the overwriting one this block's result
	toIdx, fromIdx := 0, 1
	if mergeFn != nil {
		toIdx, fromIdx = -1, -1
		EachInstr(mergeFn, func(in ssa.Instruction) {
			switch x := in.(type) {
			case *ssa.MapUpdate:
				for i, p := range mergeFn.Params {
					if x.Map == ssa.Value(p) {
						toIdx = i
					}
				}
			case *ssa.Range:
				for i, p := range mergeFn.Params {
					if x.X == ssa.Value(p) {
						fromIdx = i
					}
				}
			case *ssa.Call:
				if isGenericStd(x, "maps", "Copy") && len(x.Call.Args) == 2 {
					for i, p := range mergeFn.Params {
						if DerivesOnly(x.Call.Args[0], false, func(v ssa.Value) bool { return v == ssa.Value(p) }) {
							toIdx = i
						}
						if DerivesOnly(x.Call.Args[1], false, func(v ssa.Value) bool { return v == ssa.Value(p) }) {
							fromIdx = i
						}
					}
				}
			}
		})
	}
	okOrder := toIdx >= 0 && fromIdx >= 0 && toIdx != fromIdx &&
		DerivesOnly(merge.Call.Args[fromIdx], false, IsResultOf(blk, 0)) && !DerivesAny(merge.Call.Args[toIdx], false, IsResultOf(blk, 0))
	c.Check(okOrder, "O16.6", fk(dl)+":later-definition-replaces-earlier", merge.Pos(), "the merge overwrites the accumulated locals with the block just evaluated")
	okAttr := false
	EachInstr(dlb, func(in ssa.Instruction) {
		cc := CC(in)
		if cc != nil && cc.IsInvoke() && cc.Method.Name() == "Value" && len(cc.Args) == 1 && cc.Args[0] == ssa.Value(dlb.Params[1]) {
			okAttr = true
		}
	})
	c.Check(okAttr, "O16.6", fk(dlb)+":attributes-evaluated-in-context", dlb.Pos(), "every locals attribute expression is evaluated with the accumulated context")
	c16FunctionTable(c, dl)
}

// sameFieldLoad: both values are loads of the same struct field.
func sameFieldLoad(a, b ssa.Value) bool {
	fa, _ := FieldOf(Strip(a))
	fb, _ := FieldOf(Strip(b))
	return fa != nil && fa == fb
}

func sameRootsOrField(a, b ssa.Value) bool { return sameRoots(a, b) || sameFieldLoad(a, b) }

// c16FunctionTable: O16.8.
func c16FunctionTable(c *Ctx, dl *ssa.Function) {
	c.Rule("O16.8", "the documented HCL functions are available in every description, with or without locals: every successful return of decodeLocals (nil diagnostics) hands out a context made by buildHclContext - never nil, never a context assembled elsewhere - and buildHclContext puts a Functions table into it that holds every function listed under 'HCL functions' in docs/eng/scenario/functions.md")
	P := c.P
	bctx := P.Func("components/providers/scenario/config", "", "buildHclContext")
	if bctx == nil {
		c.Anchor("O16.8", "config.buildHclContext")
		return
	}
	nRet := 0
	for _, r := range DelegatedReturns(dl) {
		if len(r.Results) != 2 || !IsNilConst(r.Results[1]) {
			continue
		}
		nRet++
		okCtx := DerivesOnly(r.Results[0], false, func(v ssa.Value) bool {
			cl, _ := CallOfValue(v)
			return cl != nil && cl.Call.StaticCallee() == bctx
		})
		c.Check(okCtx, "O16.8", fk(dl)+":success-returns-a-built-context", r.Pos(), "a return with nil diagnostics must return what buildHclContext made (a nil or hand-made context has no function table: `merge(...)` then fails with 'Function calls not allowed' although the YAML twin loads)")
	}
	c.Floor("O16.8", "successful returns of decodeLocals", nRet, 1)
	// the function table
	keys := map[string]bool{}
	var fnMap ssa.Value
	EachInstr(bctx, func(in ssa.Instruction) {
		if v, ok := StoreToField(in, "EvalContext", "Functions"); ok {
			fnMap = v
		}
	})
	if fnMap != nil {
		EachInstr(bctx, func(in ssa.Instruction) {
			if mu, ok := in.(*ssa.MapUpdate); ok && sameRoots(mu.Map, fnMap) {
				if k, isS := ConstString(mu.Key); isS {
					keys[k] = true
				}
			}
		})
		// a package-level table filled by the package initialiser and assigned nowhere else
		if u, ok := Strip(fnMap).(*ssa.UnOp); ok && u.Op == token.MUL {
			if g, isG := u.X.(*ssa.Global); isG && g.Pkg != nil {
				writtenElsewhere := false
				for _, h := range PkgFuncs(g.Pkg) {
					isInit := h.Name() == "init" && h.Parent() == nil
					EachInstr(h, func(in ssa.Instruction) {
						st, isSt := in.(*ssa.Store)
						if !isSt || st.Addr != ssa.Value(g) {
							return
						}
						if !isInit {
							writtenElsewhere = true
							return
						}
						EachInstr(h, func(i2 ssa.Instruction) {
							if mu, ok := i2.(*ssa.MapUpdate); ok && sameRoots(mu.Map, st.Val) {
								if k, isS := ConstString(mu.Key); isS {
									keys[k] = true
								}
							}
						})
					})
				}
				if writtenElsewhere {
					keys = map[string]bool{}
				}
			}
		}
	}
	okRet := fnMap != nil
	EachInstr(bctx, func(in ssa.Instruction) {
		if r, ok := in.(*ssa.Return); ok && len(r.Results) == 1 && IsNilConst(r.Results[0]) {
			okRet = false
		}
	})
	c.Check(okRet, "O16.8", fk(bctx)+":context-carries-a-function-table", bctx.Pos(), fmt.Sprintf("buildHclContext stores a Functions map into the context it returns and never returns nil (%d functions)", len(keys)))
	b, err := os.ReadFile(filepath.Join(P.Dir, "docs/eng/scenario/functions.md"))
	if err != nil {
		c.Anchor("O16.8", "docs/eng/scenario/functions.md")
		return
	}
	in, nDoc := false, 0
	for _, line := range strings.Split(string(b), "\n") {
		t := strings.TrimSpace(line)
		if strings.HasPrefix(t, "#") {
			in = strings.Contains(strings.ToLower(t), "hcl functions")
			continue
		}
		if t == "---" {
			in = false // the navigation links below the list
		}
		if !in || !strings.HasPrefix(t, "- [") || !strings.Contains(t, "/functions/") {
			continue
		}
		name := t[3:]
		if i := strings.Index(name, "]"); i > 0 {
			name = name[:i]
			nDoc++
			c.Check(keys[name], "O16.8", "docs/eng/scenario/functions.md:"+name, bctx.Pos(), "documented HCL function "+name+" is a key of the Functions table")
		}
	}
	c.Floor("O16.8", "documented HCL functions", nDoc, 10)
}

// kindSubsumes: the config-side kind accepts every value of the HCL-side kind
// (an `any` element accepts the HCL notation's narrower element type).
func kindSubsumes(cfg, hcl string) bool {
	if cfg == "any" {
		return true
	}
	for _, pre := range []string{"[]", "map[string]"} {
		if strings.HasPrefix(cfg, pre) && strings.HasPrefix(hcl, pre) {
			return kindSubsumes(strings.TrimPrefix(cfg, pre), strings.TrimPrefix(hcl, pre)) || strings.TrimPrefix(cfg, pre) == strings.TrimPrefix(hcl, pre)
		}
	}
	return false
}

// c16OwnParser decides O16.7.
func c16OwnParser(c *Ctx) {
	P := c.P
	n := 0
	for _, g := range P.PandoraFuncs() {
		if !IsProdFile(P.File(g.Pos())) {
			continue
		}
		EachInstr(g, func(in ssa.Instruction) {
			cl, ok := in.(*ssa.Call)
			if !ok || !MatchCC(&cl.Call, Spec{"github.com/hashicorp/hcl/v2/hclparse", "Parser", "ParseHCL"}, Spec{"github.com/hashicorp/hcl/v2/hclparse", "Parser", "ParseHCLFile"}, Spec{"github.com/hashicorp/hcl/v2/hclparse", "Parser", "ParseJSON"}) {
				return
			}
			n++
			own := DerivesOnly(cl.Call.Args[0], false, func(v ssa.Value) bool {
				c2, _ := CallOfValue(v)
				return c2 != nil && c2.Parent() == g && MatchCC(&c2.Call, Spec{"github.com/hashicorp/hcl/v2/hclparse", "", "NewParser"})
			})
			c.Check(own, "O16.7", fk(g)+":parser-made-for-this-file", cl.Pos(), "the hclparse.Parser must be created in the function that parses the file: a shared parser returns the first description it saw under a file name for every later one")
		})
	}
	c.Floor("O16.7", "hclparse.Parser parse calls", n, 1)
}
