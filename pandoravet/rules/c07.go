package rules

import (
	"fmt"
	"go/token"
	"go/types"
	"strings"

	. "pandoravet/core"

	"golang.org/x/tools/go/ssa"
)

func init() {
	register(&Pack{Property: "C07", Title: "Ammo decoding fidelity", Run: runC07})
}

var (
	sReadString = []Spec{{"bufio", "Reader", "ReadString"}, {"bufio", "Reader", "ReadBytes"}, {"bufio", "Reader", "ReadLine"}}
	sSeek       = []Spec{{"io", "Seeker", "Seek"}, {"io", "ReadSeeker", "Seek"}, {"github.com/spf13/afero", "File", "Seek"}}
	sTrimSpace  = Spec{"strings", "", "TrimSpace"}
)

// decoderImpls returns the production Decoder implementations with their own Scan.
func decoderImpls(c *Ctx, id string) []*types.Named {
	it := c.P.Iface("components/providers/http/decoders", "Decoder")
	if it == nil {
		c.Anchor(id, "decoders.Decoder")
		return nil
	}
	var out []*types.Named
	for _, nt := range c.P.Impls(it, false) {
		scan := c.P.MethodFn(nt, "Scan")
		if scan == nil || scan.Synthetic != "" || len(scan.Blocks) == 0 {
			continue
		}
		out = append(out, nt)
	}
	return out
}

func runC07(c *Ctx) {
	c.Rule("O7.1", "data returned together with io.EOF is not discarded: after bufio.Reader.ReadString/ReadBytes, every path taken with a non-nil error inspects the data result before it leaves the iteration (a last line without final newline is an entry)")
	c.Rule("O7.2", "in-file header accumulator is forgotten at each pass: in decoders with an http.Header accumulator field, every seek to the start of the file is preceded, in the same loop, by storing a fresh header map to that field")
	c.Rule("O7.3", "buffered reader re-synchronised after seek: after every successful Seek the scanner/reader/JSON decoder is recreated from the file or Reset(file) exactly once before reading again")
	c.Rule("O7.4", "blank lines are skipped: the len(TrimSpace(line)) == 0 edge neither counts an entry nor returns an error")
	c.Rule("O7.6", "entries are decoded into fresh storage: the target handed to json Decode/Unmarshal for an ammo entry is a local variable allocated (zero) for this entry - not a decoder field or other storage that survives from one entry to the next (encoding/json merges into existing maps and keeps absent fields)")
	c.Rule("O7.5", "entry fields reach the ammo: the arguments of Ammo.Setup / RawAmmo.Setup derive from the parsed entry (method, URL, body, tag) and BuildRequest builds from exactly those fields")
	c.Rule("O7.7", "an entry's bytes are its own: a slice that aliases the internal buffer of a reader - the result of bufio.Reader.Peek / ReadSlice / ReadLine, bufio.Scanner.Bytes, or Bytes / Next of a bytes.Buffer that outlives the call - is only looked at or copied (string conversion, append/copy source, json decoding, formatting, comparison) in the ammo providers; it is never returned, stored or sent on, because the next read overwrites it while the entry is still in use")
	c07Borrowed(c)
	P := c.P
	impls := decoderImpls(c, "O7.1")
	c.Floor("O7.1", "Decoder implementations", len(impls), 4)
	sp := P.SSAPkg("components/providers/http/decoders")
	if sp == nil {
		return
	}
	var fns []*ssa.Function
	for _, f := range PkgFuncs(sp) {
		if IsProdFile(P.File(f.Pos())) {
			fns = append(fns, f)
		}
	}
	// ---- O7.1
	nRS := 0
	for _, fn := range fns {
		EachInstr(fn, func(in ssa.Instruction) {
			cl, ok := in.(*ssa.Call)
			if !ok || !MatchCC(&cl.Call, sReadString...) {
				return
			}
			nRS++
			var data, errv ssa.Value
			if rs := cl.Referrers(); rs != nil {
				for _, r := range *rs {
					if e, ok := r.(*ssa.Extract); ok {
						if e.Index == 0 {
							data = e
						} else if types.Identical(e.Type(), errType) {
							errv = e
						}
					}
				}
			}
			if data == nil || errv == nil {
				c.Bad("O7.1", fk(fn)+":read-results-used", cl.Pos(), "both the data and the error of the read must be used")
				return
			}
			// inspection = any use of data (len, TrimSpace, conversion, passing on)
			isInspect := func(i2 ssa.Instruction) bool {
				for _, op := range i2.Operands(nil) {
					if op != nil && *op == data {
						if _, isDbg := i2.(*ssa.DebugRef); !isDbg {
							return true
						}
					}
				}
				return false
			}
			// assume the error is non-nil / io.EOF at every test of this error value
			errNonNil := RestrictFact(func(f Fact) bool {
				isErr := func(v ssa.Value) bool { return v != nil && Strip(v) == errv }
				switch f.Op {
				case token.NEQ:
					return (isErr(f.X) && IsNilConst(f.Y)) || (isErr(f.Y) && IsNilConst(f.X))
				case token.EQL:
					// err == io.EOF
					isEOF := func(v ssa.Value) bool {
						u, ok := v.(*ssa.UnOp)
						if !ok || u.Op != token.MUL {
							return false
						}
						g, ok := u.X.(*ssa.Global)
						return ok && g.Name() == "EOF" && g.Pkg.Pkg.Path() == "io"
					}
					return (isErr(f.X) && isEOF(f.Y)) || (isErr(f.Y) && isEOF(f.X))
				}
				return false
			})
			// ... and likewise at errors.Is(err, io.EOF)
			errIsEOF := RestrictBool(func(v ssa.Value) bool {
				c2, ok := v.(*ssa.Call)
				if !ok || !MatchCC(&c2.Call, Spec{"errors", "", "Is"}) || len(c2.Call.Args) != 2 {
					return false
				}
				u, ok := c2.Call.Args[1].(*ssa.UnOp)
				if !ok || u.Op != token.MUL {
					return false
				}
				g, ok := u.X.(*ssa.Global)
				return ok && g.Name() == "EOF" && g.Pkg.Pkg.Path() == "io" && Strip(c2.Call.Args[0]) == errv
			}, true)
			both := func(from, to *ssa.BasicBlock) bool { return errNonNil(from, to) && errIsEOF(from, to) }
			iv := PathQuery{Fn: fn, Start: cl, Edge: both, Weight: func(i2 ssa.Instruction) (int, int) {
				if isInspect(i2) {
					return 1, 1
				}
				return 0, 0
			}, Stop: func(i2 ssa.Instruction) bool { return i2 != ssa.Instruction(cl) && IsCall(i2, sReadString...) }}.Count()
			c.Check(!iv.NoPath && iv.Min >= 1, "O7.1", fk(fn)+":data-with-eof-inspected", cl.Pos(),
				fmt.Sprintf("uses of the data result on paths where the read error is non-nil = %v (min must be >= 1: bufio returns the last unterminated line together with io.EOF); witness %s", iv, PathString(iv.MinPath)))
		})
	}
	c.Floor("O7.1", "bufio.Reader line reads in the decoders", nRS, 1)

	// ---- O7.2 / O7.3 per decoder
	nHdr, nSeek := 0, 0
	for _, nt := range impls {
		scan := P.MethodFn(nt, "Scan")
		st, _ := nt.Underlying().(*types.Struct)
		var hdrFields, readerFields []string
		for i := 0; st != nil && i < st.NumFields(); i++ {
			f := st.Field(i)
			if p, n := NamedOf(f.Type()); p == "net/http" && n == "Header" {
				hdrFields = append(hdrFields, f.Name())
			}
			if p, n := NamedOf(f.Type()); (p == "bufio" && (n == "Scanner" || n == "Reader")) || (p == "encoding/json" && n == "Decoder") {
				readerFields = append(readerFields, f.Name())
			}
		}
		var seeks []*ssa.Call
		tree := FindFuncs(scan, 2, func(*ssa.Function) bool { return true })
		for _, g := range tree {
			EachInstr(g, func(in ssa.Instruction) {
				if cl, ok := in.(*ssa.Call); ok && MatchCC(&cl.Call, sSeek...) {
					// only seeks to the start: offset 0, whence 0
					off, ok1 := ConstInt(cl.Call.Args[len(cl.Call.Args)-2])
					wh, ok2 := ConstInt(cl.Call.Args[len(cl.Call.Args)-1])
					if ok1 && ok2 && off == 0 && wh == 0 {
						seeks = append(seeks, cl)
					}
				}
			})
		}
		if arr := hasAmmosRing(st); len(seeks) == 0 && !arr {
			c.Bad("O7.3", fk(scan)+":wraps-around", scan.Pos(), "the decoder never seeks back to the start of the file")
		}
		for _, sk := range seeks {
			nSeek++
			g := sk.Parent()
			// O7.2
			for _, hf := range hdrFields {
				nHdr++
				ok := false
				EachInstr(g, func(in ssa.Instruction) {
					v, isSt := StoreToField(in, "", hf)
					if !isSt {
						return
					}
					fresh := false
					switch x := Strip(v).(type) {
					case *ssa.MakeMap:
						fresh = true
						_ = x
					}
					if fresh && InstrDominates(in, sk) && sameInnermostLoop(in.Block(), sk.Block()) {
						ok = true
					}
				})
				// ... or emptied in place with clear(acc): the same for the decoder, and nobody else can see it because
				// every entry owns its header map (O7.5 entry-owns-its-header-map)
				EachInstr(g, func(in ssa.Instruction) {
					cl, isCall := in.(*ssa.Call)
					if !isCall || !IsBuiltinCall(cl, "clear") || len(cl.Call.Args) != 1 {
						return
					}
					if IsFieldLoad(cl.Call.Args[0], "", hf) && InstrDominates(in, sk) && sameInnermostLoop(in.Block(), sk.Block()) {
						ok = true
					}
				})
				// ... or after the seek, before anything else can happen: every path from the seek to a return that is not
				// the seek's own failure, or back into the loop, passes the reset
				if !ok {
					seekErr, _ := errResult(sk)
					EachInstr(g, func(in ssa.Instruction) {
						isReset := false
						if v, isSt := StoreToField(in, "", hf); isSt {
							_, isReset = Strip(v).(*ssa.MakeMap)
						}
						if cl, isCall := in.(*ssa.Call); isCall && IsBuiltinCall(cl, "clear") && len(cl.Call.Args) == 1 && IsFieldLoad(cl.Call.Args[0], "", hf) {
							isReset = true
						}
						if isReset && resetCoversSeek(sk, in, seekErr) {
							ok = true
						}
					})
				}
				c.Check(ok, "O7.2", fk(g)+":"+hf+"-reset-before-seek", sk.Pos(), "the header accumulator "+hf+" must be replaced by a fresh map where the decoder seeks back to the start - before the seek in the same loop, or on every path from the seek to a successful return / the next round (in-file headers are forgotten at each new pass)")
			}
			// O7.3
			errv, _ := errResult(sk)
			var edge func(a, b *ssa.BasicBlock) bool
			if errv != nil {
				edge = RestrictFact(func(f Fact) bool {
					return f.Op == token.EQL && ((Strip(f.X) == errv && IsNilConst(f.Y)) || (Strip(f.Y) == errv && IsNilConst(f.X)))
				})
			}
			isResync := func(in ssa.Instruction) bool {
				for _, rf := range readerFields {
					if v, isSt := StoreToField(in, "", rf); isSt {
						if cl, _ := CallOfValue(v); cl != nil {
							if f := CalleeObj(&cl.Call); f != nil && strings.HasPrefix(f.Name(), "New") {
								return true
							}
						}
					}
				}
				if cl, ok := in.(*ssa.Call); ok {
					if f := CalleeObj(&cl.Call); f != nil && f.Name() == "Reset" && f.Pkg() != nil && f.Pkg().Path() == "bufio" {
						return true
					}
				}
				return false
			}
			isRead := func(in ssa.Instruction) bool {
				if in == ssa.Instruction(sk) {
					return false
				}
				if cc := CC(in); cc != nil {
					if sc := cc.StaticCallee(); sc != nil && sc != g && PkgOf(sc) == PkgOf(g) {
						// a helper of the package that reads (directly, or through another helper: readBlock -> readAmmoLine)
						var readsIn func(f *ssa.Function, d int) bool
						readsIn = func(f *ssa.Function, d int) bool {
							reads := false
							EachInstr(f, func(i2 ssa.Instruction) {
								if IsCall(i2, sReadString...) || IsCall(i2, sScannerScan...) || IsCall(i2, Spec{"encoding/json", "Decoder", "Decode"}) {
									reads = true
								}
								if c2 := CC(i2); c2 != nil && d < 3 && !reads {
									if s2 := c2.StaticCallee(); s2 != nil && s2 != f && s2 != g && PkgOf(s2) == PkgOf(g) && len(s2.Blocks) > 0 {
										reads = readsIn(s2, d+1)
									}
								}
							})
							return reads
						}
						if readsIn(sc, 0) {
							return true
						}
					}
				}
				if IsCall(in, sReadString...) || IsCall(in, sScannerScan...) || IsCall(in, Spec{"encoding/json", "Decoder", "Decode"}, Spec{"io", "", "ReadFull"}) {
					return true
				}
				return false
			}
			// up to the next read, or up to the return of a helper that holds the end-of-pass sequence
			iv := PathQuery{Fn: g, Start: sk, Edge: edge, Stop: isRead, Exit: func(b *ssa.BasicBlock) bool { return ExitOf(b) == ExitReturn }, Weight: func(in ssa.Instruction) (int, int) {
				if isResync(in) {
					return 1, 1
				}
				return 0, 0
			}}.Count()
			c.Check(iv.Is(1, 1), "O7.3", fk(g)+":reader-resynchronised-after-seek", sk.Pos(),
				fmt.Sprintf("re-creations/Reset of the buffered reader between a successful seek and the next read (or the return) = %v (want [1,1])", iv))
		}
	}
	c.Floor("O7.2", "header accumulators checked at seeks", nHdr, 2)
	c.Floor("O7.3", "seeks to the start of the ammo file", nSeek, 4)

	// ---- O7.4
	nBlank := 0
	for _, fn := range fns {
		for _, b := range fn.Blocks {
			iff, ok := b.Instrs[len(b.Instrs)-1].(*ssa.If)
			if !ok {
				continue
			}
			f := CondFact(iff.Cond, true).Canon()
			if f.Y == nil || (f.Op != token.EQL && f.Op != token.NEQ) {
				continue
			}
			lenCall, isCall := Strip(f.X).(*ssa.Call)
			k, isC := ConstInt(f.Y)
			if !isCall || !isC || k != 0 || !IsBuiltinCall(lenCall, "len") {
				continue
			}
			if !DerivesOnly(lenCall.Call.Args[0], false, IsCallValue(-1, sTrimSpace)) {
				continue
			}
			nBlank++
			blank := b.Succs[0]
			if f.Op == token.NEQ {
				blank = b.Succs[1]
			}
			// on the blank edge: no ammoNum store until the loop comes round / function returns; returns are (nil, nil)
			iv := Interval{}
			if hdr := loopHeaderOf(b); hdr == nil || blank != hdr {
				iv = PathQuery{Fn: fn, StartBlock: blank, StopBlock: hdr, Weight: func(in ssa.Instruction) (int, int) {
					if _, isSt := StoreToField(in, "", "ammoNum"); isSt {
						return 1, 1
					}
					return 0, 0
				}}.Count()
			}
			okRet := true
			for _, rb := range fn.Blocks {
				r, isRet := rb.Instrs[len(rb.Instrs)-1].(*ssa.Return)
				if !isRet || !EdgeDominates(b, blank, rb) {
					continue
				}
				for _, v := range r.Results {
					if !IsNilConst(v) {
						okRet = false
					}
				}
			}
			// entries are counted only for non-blank lines
			nonBlank := b.Succs[1]
			if blank == b.Succs[1] {
				nonBlank = b.Succs[0]
			}
			counted := true
			nStores := 0
			EachInstr(fn, func(in ssa.Instruction) {
				if _, isSt := StoreToField(in, "", "ammoNum"); isSt {
					nStores++
					if !EdgeDominates(b, nonBlank, in.Block()) {
						counted = false
					}
				}
			})
			if nStores == 0 {
				// the caller counts: it must do so only for a non-nil result of this function
				for _, site := range P.StaticCallSites(fn) {
					caller := site.Parent()
					cl, isCall := site.(*ssa.Call)
					if !isCall {
						continue
					}
					EachInstr(caller, func(in ssa.Instruction) {
						if _, isSt := StoreToField(in, "", "ammoNum"); !isSt {
							return
						}
						nStores++
						ok := false
						for _, f := range CmpFactsAt(in) {
							if f.Op == token.NEQ && IsNilConst(f.Y) && DerivesOnly(f.X, false, IsResultOf(cl, 0)) {
								ok = true
							}
						}
						if !ok {
							counted = false
						}
					})
				}
			}
			c.Check(counted && nStores > 0, "O7.4", fk(fn)+":only-non-blank-lines-counted", iff.Pos(),
				fmt.Sprintf("%d store(s) to the entry counter; each must be on the non-blank edge (or, in the caller, on the non-nil result edge)", nStores))
			c.Check(iv.Is(0, 0) && okRet, "O7.4", fk(fn)+":blank-line-skipped", iff.Pos(),
				fmt.Sprintf("on the blank-line edge: entry counter stores %v (want [0,0]); returns only (nil, nil): %v", iv, okRet))
		}
	}
	c.Floor("O7.4", "blank-line tests in the decoders", nBlank, 3)

	// ---- O7.5
	c07Setup(c, fns)
	c07FreshTarget(c)
}

func hasAmmosRing(st *types.Struct) bool {
	for i := 0; st != nil && i < st.NumFields(); i++ {
		if st.Field(i).Name() == "ammos" {
			return true
		}
	}
	return false
}

// loopHeaderOf returns the header of the innermost natural loop containing b (nil if none).
func loopHeaderOf(b *ssa.BasicBlock) *ssa.BasicBlock {
	fn := b.Parent()
	var best *ssa.BasicBlock
	for _, h := range fn.Blocks {
		isHeader := false
		for _, p := range h.Preds {
			if h.Dominates(p) {
				isHeader = true
			}
		}
		if !isHeader || !h.Dominates(b) || !(BlockCanReach(b, h)) {
			continue
		}
		if best == nil || best.Dominates(h) {
			best = h
		}
	}
	return best
}

// resetCoversSeek: every path from the seek call to a return of the function (other than under "the seek failed"),
// or round to a loop header that the seek sits in, passes the instruction reset.
func resetCoversSeek(sk *ssa.Call, reset ssa.Instruction, seekErr ssa.Value) bool {
	seen := map[*ssa.BasicBlock]bool{}
	var walk func(b *ssa.BasicBlock, from int) bool
	walk = func(b *ssa.BasicBlock, from int) bool {
		for i := from; i < len(b.Instrs); i++ {
			in := b.Instrs[i]
			if in == reset {
				return true
			}
			if r, isRet := in.(*ssa.Return); isRet {
				for _, f := range CmpFactsAt(r) {
					if f.Op == token.NEQ && seekErr != nil && ((Strip(f.X) == seekErr && IsNilConst(f.Y)) || (Strip(f.Y) == seekErr && IsNilConst(f.X))) {
						return true
					}
				}
				return false
			}
		}
		for _, su := range b.Succs {
			if su.Dominates(sk.Block()) && su != sk.Block() {
				return false // next round of a loop around the seek
			}
			if su == sk.Block() {
				return false
			}
			if seen[su] {
				continue
			}
			seen[su] = true
			if !walk(su, 0) {
				return false
			}
		}
		return true
	}
	idx := -1
	for i, in := range sk.Block().Instrs {
		if in == ssa.Instruction(sk) {
			idx = i
		}
	}
	return idx >= 0 && walk(sk.Block(), idx+1)
}

func sameInnermostLoop(a, b *ssa.BasicBlock) bool {
	// (both outside any loop: a helper such as nextPass() that holds the whole end-of-pass sequence)
	return loopHeaderOf(a) == loopHeaderOf(b)
}

func c07Setup(c *Ctx, fns []*ssa.Function) {
	P := c.P
	sSetup := Spec{"./components/providers/http/decoders/ammo", "Ammo", "Setup"}
	sRawSetup := Spec{"./components/providers/http/decoders/ammo", "RawAmmo", "Setup"}
	// does Setup itself copy the header it is given?
	setupCopiesHeader := false
	if setup := P.Func("components/providers/http/decoders/ammo", "Ammo", "Setup"); setup != nil {
		EachInstr(setup, func(in ssa.Instruction) {
			if v, isSt := StoreToField(in, "Ammo", "header"); isSt {
				if cl, ok := v.(*ssa.Call); ok && MatchCC(&cl.Call, Spec{"net/http", "Header", "Clone"}) {
					setupCopiesHeader = true
				}
			}
		})
	}
	n := 0
	for _, fn := range fns {
		EachInstr(fn, func(in ssa.Instruction) {
			cl, ok := in.(*ssa.Call)
			if !ok {
				return
			}
			k := fk(fn)
			switch {
			case MatchCC(&cl.Call, sSetup):
				n++
				a := cl.Call.Args // recv, method, url, body, header, tag
				fromCall := func(v ssa.Value, idx int, specs ...Spec) bool {
					return DerivesAny(v, true, func(r ssa.Value) bool {
						c2, i := CallOfValue(r)
						return c2 != nil && MatchCC(&c2.Call, specs...) && (idx < 0 || i == idx)
					})
				}
				fromEntity := func(v ssa.Value, field string) bool {
					return SliceAny(v, func(r ssa.Value) bool {
						fv, _ := FieldOf(r)
						if fv == nil {
							if f, ok := r.(*ssa.Field); ok {
								fv = f.X.Type().Underlying().(*types.Struct).Field(f.Field)
							}
						}
						return fv != nil && fv.Name() == field
					})
				}
				// the header map handed to the entry is its own: on every alternative it is the result of Header.Clone()
				// or a map made here, never the caller's accumulator / the decoder's configured headers themselves
				// (a later in-file header line, or a per-entry header, would rewrite the entries already produced)
				shared := c07SharedLeaves(P, a[4])
				why := ""
				for _, sh := range shared {
					if sh.why != "" {
						why = sh.why
						break
					}
				}
				if why == "" && len(shared) > 0 {
					// shared with a map nobody mutates: still wrong if this function writes through the shared value
					tainted := map[ssa.Value]bool{}
					for _, sh := range shared {
						for _, v := range sh.via {
							tainted[v] = true
						}
					}
					EachInstr(fn, func(in2 ssa.Instruction) {
						if mu, ok := in2.(*ssa.MapUpdate); ok && tainted[mu.Map] {
							why = "the entry's header values are written into a map that is shared with the decoder"
						}
						if cc := CC(in2); cc != nil && MatchCC(cc, Spec{"net/http", "Header", "Set"}, Spec{"net/http", "Header", "Add"}, Spec{"net/http", "Header", "Del"}) && len(cc.Args) > 0 && tainted[cc.Args[0]] {
							why = "the entry's header values are written (Set/Add/Del) into a map that is shared with the decoder"
						}
					})
				}
				c.Check(setupCopiesHeader || why == "", "O7.5", k+":entry-owns-its-header-map", cl.Pos(),
					"the header map given to Ammo.Setup must be the entry's own (Header.Clone() / make), or a map that nothing mutates: "+why)
				m, isConst := ConstString(a[1])
				switch {
				case strings.HasSuffix(k, "uriDecoder).readLine"):
					ok := isConst && m == "GET" && fromCall(a[2], 0, Spec{"strings", "", "Cut"}) && IsNilConst(a[3]) && fromCall(a[5], 1, Spec{"strings", "", "Cut"})
					c.Check(ok, "O7.5", k+":setup-from-entry", cl.Pos(), "uri entry: Setup(\"GET\", <first field of the line>, nil, header, <rest of the line as tag>)")
				case strings.HasSuffix(k, "uripostDecoder).readBlock"):
					sDec := Spec{"./components/providers/http/decoders/uripost", "", "DecodeURI"}
					okBody := DerivesAny(a[3], true, func(r ssa.Value) bool {
						c2, i := CallOfValue(r)
						return c2 != nil && c2.Call.StaticCallee() != nil && c2.Call.StaticCallee().Name() == "readAmmoBytes" && i == 0
					})
					ok := isConst && m == "POST" && fromCall(a[2], 1, sDec) && okBody && fromCall(a[5], 2, sDec)
					c.Check(ok, "O7.5", k+":setup-from-entry", cl.Pos(), "uripost entry: Setup(\"POST\", uri, <size bytes read after the header line>, header, tag) from DecodeURI")
				default:
					// jsonline forms
					ok := fromEntity(a[1], "Method") && fromEntity(a[2], "Host") && fromEntity(a[2], "URI") && fromEntity(a[3], "Body") && fromEntity(a[5], "Tag")
					c.Check(ok, "O7.5", k+":setup-from-entry", cl.Pos(), "json entry: Setup(entry.Method, \"http://\"+entry.Host+entry.URI, entry.Body, header, entry.Tag)")
				}
			case MatchCC(&cl.Call, sRawSetup):
				n++
				a := cl.Call.Args // recv, buff, tag, position, header
				if IsNilConst(a[1]) {
					// zero-size entry
					okZero := false
					for _, f := range CmpFactsAt(cl) {
						if kk, isC := ConstInt(f.Y); isC && kk == 0 && f.Op == token.EQL {
							okZero = true
						}
					}
					c.Check(okZero, "O7.5", k+":raw-empty-entry", cl.Pos(), "an entry without payload is only built on the size == 0 edge")
					return
				}
				okBuf := DerivesAny(a[1], true, func(r ssa.Value) bool {
					c2, i := CallOfValue(r)
					return c2 != nil && c2.Call.StaticCallee() != nil && c2.Call.StaticCallee().Name() == "readAmmoBytes" && i == 0
				})
				okTag := DerivesAny(a[2], true, func(r ssa.Value) bool {
					c2, i := CallOfValue(r)
					return c2 != nil && MatchCC(&c2.Call, Spec{"./components/providers/http/decoders/raw", "", "DecodeHeader"}) && i == 1
				})
				c.Check(okBuf && okTag, "O7.5", k+":setup-from-entry", cl.Pos(), "raw entry: Setup(<size bytes read after the header line>, <tag of the header line>, position, config headers)")
			}
		})
	}
	c.Floor("O7.5", "Setup call sites in the decoders", n, 5)
	// Setup stores parameter i into the field BuildRequest reads
	for _, t := range []struct {
		typ    string
		fields map[string]int // field -> Setup parameter index (incl. receiver)
	}{
		{"Ammo", map[string]int{"method": 1, "url": 2, "body": 3, "header": 4, "tag": 5}},
		{"RawAmmo", map[string]int{"buff": 1, "tag": 2}},
	} {
		setup := P.Func("components/providers/http/decoders/ammo", t.typ, "Setup")
		build := P.Func("components/providers/http/decoders/ammo", t.typ, "BuildRequest")
		tagFn := P.Func("components/providers/http/decoders/ammo", t.typ, "Tag")
		if setup == nil || build == nil || tagFn == nil {
			c.Anchor("O7.5", "decoders/ammo."+t.typ+" Setup/BuildRequest/Tag")
			continue
		}
		for f, idx := range t.fields {
			ok := false
			EachInstr(setup, func(in ssa.Instruction) {
				if v, isSt := StoreToField(in, t.typ, f); isSt && idx < len(setup.Params) {
					p := ssa.Value(setup.Params[idx])
					if cl, isCall := v.(*ssa.Call); isCall && MatchCC(&cl.Call, Spec{"net/http", "Header", "Clone"}) && len(cl.Call.Args) > 0 {
						v = cl.Call.Args[0] // a defensive copy of the parameter
					}
					if v == p {
						ok = true
					}
				}
			})
			c.Check(ok, "O7.5", fk(setup)+":stores-"+f, setup.Pos(), fmt.Sprintf("Setup stores its parameter #%d into field %s", idx, f))
		}
		if t.typ == "Ammo" {
			// BuildRequest: http.NewRequest(a.method, a.url, reader over a.body)
			okNR := false
			EachInstr(build, func(in ssa.Instruction) {
				if cl, ok := in.(*ssa.Call); ok && MatchCC(&cl.Call, Spec{"net/http", "", "NewRequest"}) {
					okBody := DerivesAny(cl.Call.Args[2], true, func(r ssa.Value) bool {
						c2, _ := CallOfValue(r)
						return c2 != nil && MatchCC(&c2.Call, Spec{"bytes", "", "NewReader"}) && IsFieldLoad(c2.Call.Args[0], "Ammo", "body")
					})
					okNR = IsFieldLoad(cl.Call.Args[0], "Ammo", "method") && IsFieldLoad(cl.Call.Args[1], "Ammo", "url") && okBody
				}
			})
			c.Check(okNR, "O7.5", fk(build)+":request-from-fields", build.Pos(), "BuildRequest = http.NewRequest(a.method, a.url, bytes.NewReader(a.body))")
		} else {
			okDR := false
			EachInstr(build, func(in ssa.Instruction) {
				if cl, ok := in.(*ssa.Call); ok && MatchCC(&cl.Call, Spec{"./components/providers/http/decoders/raw", "", "DecodeRequest"}) {
					okDR = IsFieldLoad(cl.Call.Args[0], "RawAmmo", "buff")
				}
			})
			c.Check(okDR, "O7.5", fk(build)+":request-from-fields", build.Pos(), "BuildRequest parses a.buff")
		}
		okTag := false
		EachInstr(tagFn, func(in ssa.Instruction) {
			if r, ok := in.(*ssa.Return); ok && IsFieldLoad(r.Results[0], t.typ, "tag") {
				okTag = true
			}
		})
		c.Check(okTag, "O7.5", fk(tagFn)+":returns-tag", tagFn.Pos(), "Tag() returns the tag given to Setup")
	}
}

// resetJustBefore: the place addr points to is overwritten with a zero value (a zero constant, or a struct literal
// without fields set) by a store that dominates the call in the same block, with no other call / store to it between.
func resetJustBefore(call *ssa.Call, addr ssa.Value) bool {
	blk := call.Block()
	var reset *ssa.Store
	for _, in := range blk.Instrs {
		if in == ssa.Instruction(call) {
			break
		}
		st, ok := in.(*ssa.Store)
		if !ok {
			continue
		}
		same := st.Addr == addr
		if !same {
			fa1, ok1 := st.Addr.(*ssa.FieldAddr)
			fa2, ok2 := addr.(*ssa.FieldAddr)
			same = ok1 && ok2 && fa1.Field == fa2.Field && fa1.X == fa2.X
		}
		if !same {
			// a store into a part of the place (a field of it, an element) after the reset: filled in again
			// (`*p = T{Headers: p.Headers}` is built in place: zero store, then the field stores)
			part := st.Addr
			for part != nil && !same {
				switch x := part.(type) {
				case *ssa.FieldAddr:
					part = x.X
				case *ssa.IndexAddr:
					part = x.X
				default:
					part = nil
				}
				if part == addr {
					same = true
				}
				if fa1, ok1 := part.(*ssa.FieldAddr); ok1 {
					if fa2, ok2 := addr.(*ssa.FieldAddr); ok2 && fa1.Field == fa2.Field && fa1.X == fa2.X {
						same = true
					}
				}
			}
			if same {
				if k, isK := st.Val.(*ssa.Const); !isK || !(k.Value == nil || isZeroConst(k)) {
					reset = nil
				}
			}
			continue
		}
		reset = nil
		switch v := st.Val.(type) {
		case *ssa.Const:
			if v.Value == nil || isZeroConst(v) {
				reset = st
			}
		case *ssa.UnOp:
			// *t with t a fresh local that nothing was stored into: the zero value of the struct (T{})
			if a, isA := v.X.(*ssa.Alloc); isA && v.Op == token.MUL && len(StoresTo(a)) == 0 {
				fieldsSet := false
				if a.Referrers() != nil {
					for _, r := range *a.Referrers() {
						if fa, isFA := r.(*ssa.FieldAddr); isFA && fa.Referrers() != nil {
							for _, r2 := range *fa.Referrers() {
								if _, isSt := r2.(*ssa.Store); isSt {
									fieldsSet = true
								}
							}
						}
					}
				}
				if !fieldsSet {
					reset = st
				}
			}
		}
	}
	return reset != nil
}

// c07FreshTarget decides O7.6 over every JSON decode call of the ammo
// provider packages.
func c07FreshTarget(c *Ctx) {
	P := c.P
	decodeSpecs := []Spec{
		{"encoding/json", "Decoder", "Decode"}, {"encoding/json", "", "Unmarshal"},
		{"github.com/json-iterator/go", "", "Unmarshal"}, {"github.com/json-iterator/go", "Decoder", "Decode"},
		{"github.com/json-iterator/go", "API", "Unmarshal"}, {"gopkg.in/yaml.v2", "", "Unmarshal"},
	}
	n := 0
	for _, rel := range []string{"components/providers/http/decoders", "components/providers/grpc/grpcjson", "components/providers/http/decoders/ammo", "components/providers/grpc"} {
		sp := P.SSAPkg(rel)
		if sp == nil {
			continue
		}
		for _, fn := range PkgFuncs(sp) {
			if !IsProdFile(P.File(fn.Pos())) {
				continue
			}
			EachInstr(fn, func(in ssa.Instruction) {
				cl, ok := in.(*ssa.Call)
				if !ok || !MatchCC(&cl.Call, decodeSpecs...) {
					return
				}
				target := cl.Call.Args[len(cl.Call.Args)-1]
				// only entry-shaped targets (struct / slice of struct / map), not tokens
				n++
				fresh := true
				why := ""
				for _, r := range Roots(target, false) {
					a, isA := Strip(r).(*ssa.Alloc)
					if !isA {
						// storage that outlives the entry is as good as fresh when it is zeroed for this entry: a store of
						// the zero composite (T{}) to the same place in the same block just before the decode, nothing
						// touching it in between
						if resetJustBefore(cl, Strip(r)) {
							continue
						}
						fresh = false
						why = "the target is not a local variable: " + r.String()
						continue
					}
					if a.Parent() != fn || !InstrDominates(a, cl) {
						fresh = false
						why = "the target variable is not allocated for this entry (declared outside / captured)"
						continue
					}
					// decoded in a loop into a variable declared before the loop: every element after the first is
					// decoded over the previous one
					if BlockCanReach(cl.Block(), cl.Block()) && !BlockCanReach(cl.Block(), a.Block()) {
						fresh = false
						why = "the decode runs in a loop and its target variable is declared outside that loop: one variable serves all entries"
						continue
					}
					// no store into the variable (or its fields) before the call other than zero values
					for _, ref := range *a.Referrers() {
						var st *ssa.Store
						switch x := ref.(type) {
						case *ssa.Store:
							if x.Addr == ssa.Value(a) {
								st = x
							}
						case *ssa.FieldAddr:
							for _, r2 := range *x.Referrers() {
								if s2, ok := r2.(*ssa.Store); ok && s2.Addr == ssa.Value(x) {
									st = s2
								}
							}
						}
						if st != nil && CanReach(st, cl) {
							if k, isK := st.Val.(*ssa.Const); !isK || (k.Value != nil && !isZeroConst(k)) {
								fresh = false
								why = "the target variable is pre-filled before decoding"
							}
						}
					}
				}
				c.Check(fresh, "O7.6", fk(fn)+":decode-target-is-fresh", cl.Pos(), "JSON decoding of an ammo entry must fill a fresh zero variable: "+why)
			})
		}
	}
	c.Floor("O7.6", "JSON decode calls in the ammo provider packages", n, 3)
}

func isZeroConst(k *ssa.Const) bool {
	if k.Value == nil {
		return true
	}
	if v, ok := ConstInt(k); ok && v == 0 {
		return true
	}
	if s, ok := ConstString(k); ok && s == "" {
		return true
	}
	if b, ok := ConstCond(k); ok && !b {
		return true
	}
	return false
}

// c07SharedLeaves resolves the header value handed to Ammo.Setup through phis, type changes and (package-local)
// parameters down to its sources, and returns those that are not fresh maps (Header.Clone() results or make). For each
// it says, in why, what mutates the underlying map (empty: nothing does - a decoder field that is only read).
type c07Shared struct {
	via []ssa.Value // the values between the Setup argument and this leaf
	why string
}

func c07SharedLeaves(P *Prog, v ssa.Value) []c07Shared {
	var out []c07Shared
	seen := map[ssa.Value]bool{}
	var walk func(v ssa.Value, via []ssa.Value)
	walk = func(v ssa.Value, via []ssa.Value) {
		if seen[v] {
			return
		}
		seen[v] = true
		via = append(append([]ssa.Value{}, via...), v)
		switch x := v.(type) {
		case *ssa.Phi:
			for _, e := range x.Edges {
				walk(e, via)
			}
			return
		case *ssa.ChangeType:
			walk(x.X, via)
			return
		case *ssa.MakeMap:
			return
		case *ssa.Call:
			if MatchCC(&x.Call, Spec{"net/http", "Header", "Clone"}) {
				return
			}
			// a helper of the package that builds the map (withConfigHeaders): what it returns
			if sc := x.Call.StaticCallee(); sc != nil && len(sc.Blocks) > 0 && PkgOf(sc) == PkgOf(x.Parent()) && len(via) < 8 {
				nRet := 0
				EachInstr(sc, func(in ssa.Instruction) {
					if ret, ok := in.(*ssa.Return); ok && len(ret.Results) > 0 {
						nRet++
						walk(ret.Results[0], via)
					}
				})
				if nRet > 0 {
					return
				}
			}
		case *ssa.Parameter:
			sites := P.StaticCallSites(x.Parent())
			idx := -1
			for i, p := range x.Parent().Params {
				if p == x {
					idx = i
				}
			}
			if len(sites) > 0 && idx >= 0 {
				for _, s := range sites {
					if cc := CC(s); cc != nil && idx < len(cc.Args) {
						walk(cc.Args[idx], via)
					}
				}
				return
			}
		case *ssa.UnOp:
			if fa, ok := x.X.(*ssa.FieldAddr); ok && x.Op == token.MUL {
				fv := derefStructOf(fa.X.Type()).Field(fa.Field)
				out = append(out, c07Shared{via, c07FieldMutated(P, fa.Parent().Pkg, fv)})
				return
			}
		}
		out = append(out, c07Shared{via, "its source is neither a fresh map nor a decoder field (" + v.String() + ")"})
	}
	walk(v, nil)
	return out
}

func derefStructOf(t types.Type) *types.Struct {
	if p, ok := t.Underlying().(*types.Pointer); ok {
		t = p.Elem()
	}
	st, _ := t.Underlying().(*types.Struct)
	return st
}

// c07FieldMutated: is the map held in field fv written anywhere in pkg? Every load of the field is followed through
// phis and type changes; reading uses (Clone/Get/Values, range, lookup, len, nil test, being handed to a Setup) are
// fine, a map update or Set/Add/Del is a mutation, and anything else is conservatively taken as one.
func c07FieldMutated(P *Prog, pkg *ssa.Package, fv *types.Var) string {
	why := ""
	for _, fn := range PkgFuncs(pkg) {
		if !IsProdFile(P.File(fn.Pos())) {
			continue
		}
		EachInstr(fn, func(in ssa.Instruction) {
			ld, ok := in.(*ssa.UnOp)
			if !ok || ld.Op != token.MUL {
				return
			}
			fa, ok := ld.X.(*ssa.FieldAddr)
			if !ok || derefStructOf(fa.X.Type()) == nil || derefStructOf(fa.X.Type()).Field(fa.Field) != fv {
				return
			}
			seen := map[ssa.Value]bool{}
			var uses func(v ssa.Value)
			uses = func(v ssa.Value) {
				if seen[v] {
					return
				}
				seen[v] = true
				for _, r := range *v.Referrers() {
					switch u := r.(type) {
					case *ssa.Phi:
						uses(u)
					case *ssa.ChangeType:
						uses(u)
					case *ssa.Range, *ssa.Lookup, *ssa.BinOp, *ssa.DebugRef, *ssa.If:
					case *ssa.MapUpdate:
						if u.Map == v {
							why = "field " + fv.Name() + " is written at " + P.Fset.Position(u.Pos()).String()
						}
					case *ssa.Store:
						if u.Val == v {
							if fa2, ok := u.Addr.(*ssa.FieldAddr); ok && derefStructOf(fa2.X.Type()) != nil {
								continue // kept in another field: judged where that field is used
							}
							why = "field " + fv.Name() + " escapes at " + P.Fset.Position(u.Pos()).String()
						}
					default:
						cc := CC(r)
						switch {
						case cc == nil:
							why = "field " + fv.Name() + " is used in an unrecognised way at " + P.Fset.Position(r.Pos()).String()
						case IsBuiltinCall(r, "len"):
						case MatchCC(cc, Spec{"net/http", "Header", "Clone"}, Spec{"net/http", "Header", "Get"}, Spec{"net/http", "Header", "Values"}):
						case MatchCC(cc, Spec{"net/http", "Header", "Set"}, Spec{"net/http", "Header", "Add"}, Spec{"net/http", "Header", "Del"}):
							if len(cc.Args) > 0 && cc.Args[0] == v {
								why = "field " + fv.Name() + " is written at " + P.Fset.Position(r.Pos()).String()
							}
						case cc.StaticCallee() != nil && cc.StaticCallee().Name() == "Setup":
						case cc.StaticCallee() != nil && cc.StaticCallee().Pkg == pkg:
							// a package-local helper: follow the parameter
							for i, a := range cc.Args {
								if a == v && i < len(cc.StaticCallee().Params) {
									uses(cc.StaticCallee().Params[i])
								}
							}
						default:
							why = "field " + fv.Name() + " is handed to " + cc.String() + " at " + P.Fset.Position(r.Pos()).String()
						}
					}
				}
			}
			uses(ld)
		})
	}
	return why
}

var c07BorrowSpecs = []Spec{
	{"bufio", "Reader", "Peek"}, {"bufio", "Reader", "ReadSlice"}, {"bufio", "Reader", "ReadLine"},
	{"bufio", "Scanner", "Bytes"},
	{"bytes", "Buffer", "Bytes"}, {"bytes", "Buffer", "Next"},
}

// packages whose functions look at or copy a byte slice they are given and do not keep it
var c07CopyingPkgs = map[string]bool{
	"bytes": true, "strings": true, "strconv": true, "unicode/utf8": true, "fmt": true, "errors": true,
	"encoding/json": true, "github.com/json-iterator/go": true, "github.com/pkg/errors": true, "golang.org/x/xerrors": true,
	"encoding/hex": true, "encoding/base64": true, "hash/crc32": true, "go.uber.org/zap": true,
	"gopkg.in/yaml.v2": true, "gopkg.in/yaml.v3": true,
}

// c07Borrowed decides O7.7 over the ammo provider packages.
func c07Borrowed(c *Ctx) {
	P := c.P
	n := 0
	for _, pk := range P.Root {
		rel := strings.TrimPrefix(strings.TrimPrefix(pk.PkgPath, Mod), "/")
		if !IsProdPkg(pk.PkgPath) || !(strings.HasPrefix(rel, "components/providers") || rel == "core/provider" || rel == "core/datasource") {
			continue
		}
		sp := P.SSA.Package(pk.Types)
		if sp == nil {
			continue
		}
		for _, fn := range PkgFuncs(sp) {
			if !IsProdFile(P.File(fn.Pos())) {
				continue
			}
			EachInstr(fn, func(in ssa.Instruction) {
				cl, ok := in.(*ssa.Call)
				if !ok || cl.Call.IsInvoke() || !MatchCC(&cl.Call, c07BorrowSpecs...) {
					return
				}
				// a bytes.Buffer made in this function and not kept: its bytes are nobody else's
				if f := CalleeObj(&cl.Call); f != nil && RecvTypeName(f) == "Buffer" {
					if a, isA := cl.Call.Args[0].(*ssa.Alloc); isA && !allocEscapes(a) {
						return
					}
				}
				n++
				where := borrowEscape(P, cl, map[ssa.Value]bool{}, 0)
				c.Check(where == "", "O7.7", fk(fn)+":"+CalleeObj(&cl.Call).Name()+"-result-not-kept", cl.Pos(),
					"the result of "+CalleeObj(&cl.Call).Name()+" aliases the reader's buffer (overwritten by the next read) and "+where)
			})
		}
	}
	c.Floor("O7.7", "borrowed-buffer reads in the provider packages", n, 1)
}

// allocEscapes: the address of the local is stored, returned, captured or sent somewhere (calls with it as receiver or
// argument of a method of its own type do not count).
func allocEscapes(a *ssa.Alloc) bool {
	if a.Referrers() == nil {
		return true
	}
	for _, r := range *a.Referrers() {
		switch x := r.(type) {
		case *ssa.DebugRef, *ssa.UnOp, *ssa.FieldAddr:
		case *ssa.Store:
			if x.Val == ssa.Value(a) {
				return true
			}
		case ssa.CallInstruction:
			if _, isGo := x.(*ssa.Go); isGo {
				return true
			}
		case *ssa.MakeInterface:
			// handed to a function as io.Writer / io.Reader for the duration of the call
			if x.Referrers() != nil {
				for _, r2 := range *x.Referrers() {
					if _, isCall := r2.(*ssa.Call); !isCall {
						if _, isD := r2.(*ssa.DebugRef); !isD {
							return true
						}
					}
				}
			}
		default:
			return true
		}
	}
	return false
}

// borrowEscape follows a borrowed slice; returns "" when it is only read or copied, otherwise what keeps it.
func borrowEscape(P *Prog, v ssa.Value, seen map[ssa.Value]bool, depth int) string {
	if seen[v] || depth > 6 {
		return ""
	}
	seen[v] = true
	refs := v.Referrers()
	if refs == nil {
		return ""
	}
	for _, r := range *refs {
		switch x := r.(type) {
		case *ssa.DebugRef, *ssa.Index, *ssa.Lookup, *ssa.Range, *ssa.BinOp, *ssa.If:
		case *ssa.Extract:
			if x.Index == 0 {
				if w := borrowEscape(P, x, seen, depth); w != "" {
					return w
				}
			}
		case *ssa.Slice, *ssa.Phi, *ssa.ChangeType:
			if w := borrowEscape(P, x.(ssa.Value), seen, depth); w != "" {
				return w
			}
		case *ssa.Convert:
			if b, ok := x.Type().Underlying().(*types.Basic); ok && b.Info()&types.IsString != 0 {
				continue // string(b) copies
			}
			if w := borrowEscape(P, x, seen, depth); w != "" {
				return w
			}
		case *ssa.IndexAddr:
			// &b[i]: reading an element is fine; the address itself must not travel
			if x.Referrers() != nil {
				for _, r2 := range *x.Referrers() {
					switch r2.(type) {
					case *ssa.UnOp, *ssa.DebugRef, *ssa.Store:
					default:
						return "the address of one of its elements is passed on at " + P.Pos(r2.Pos())
					}
				}
			}
		case *ssa.MakeInterface:
			if w := borrowEscape(P, x, seen, depth); w != "" {
				return w
			}
		case *ssa.Store:
			if x.Val != v {
				continue
			}
			switch a := x.Addr.(type) {
			case *ssa.Alloc:
				// a local variable: follow its loads
				if a.Referrers() != nil {
					for _, r2 := range *a.Referrers() {
						if u, ok := r2.(*ssa.UnOp); ok {
							if w := borrowEscape(P, u, seen, depth); w != "" {
								return w
							}
						}
						if mc, ok := r2.(*ssa.MakeClosure); ok {
							return "is captured by a closure at " + P.Pos(mc.Pos())
						}
					}
				}
			case *ssa.IndexAddr:
				// the argument array of a variadic call
				if arr, ok := a.X.(*ssa.Alloc); ok && arr.Referrers() != nil {
					for _, r2 := range *arr.Referrers() {
						if sl, ok := r2.(*ssa.Slice); ok {
							if w := borrowEscape(P, sl, seen, depth); w != "" {
								return w
							}
						}
					}
					continue
				}
				return "is stored into an element at " + P.Pos(x.Pos())
			default:
				return "is stored at " + P.Pos(x.Pos())
			}
		case *ssa.Return:
			fn := x.Parent()
			sites := PkgCallers(fn)
			if len(sites) == 0 || depth > 3 {
				return "is returned from " + fk(fn) + " at " + P.Pos(x.Pos())
			}
			idx := -1
			for i, rv := range x.Results {
				if rv == v {
					idx = i
				}
			}
			for _, s := range sites {
				sv, ok := s.(ssa.Value)
				if !ok {
					return "is returned from " + fk(fn) + " (deferred / started call)"
				}
				if len(x.Results) == 1 {
					if w := borrowEscape(P, sv, seen, depth+1); w != "" {
						return w
					}
					continue
				}
				if sv.Referrers() != nil {
					for _, r2 := range *sv.Referrers() {
						if ex, ok := r2.(*ssa.Extract); ok && ex.Index == idx {
							if w := borrowEscape(P, ex, seen, depth+1); w != "" {
								return w
							}
						}
					}
				}
			}
		case *ssa.Send:
			if x.X == v {
				return "is sent on a channel at " + P.Pos(x.Pos())
			}
		case *ssa.MapUpdate:
			if x.Value == v || x.Key == v {
				return "is put into a map at " + P.Pos(x.Pos())
			}
		case *ssa.MakeClosure:
			return "is captured by a closure at " + P.Pos(x.Pos())
		case ssa.CallInstruction:
			cc := x.Common()
			if b, ok := cc.Value.(*ssa.Builtin); ok {
				switch b.Name() {
				case "len", "cap", "copy", "print", "println":
					continue
				case "append":
					if len(cc.Args) > 0 && cc.Args[0] == v {
						if w := borrowEscape(P, x.(ssa.Value), seen, depth); w != "" {
							return w
						}
					}
					continue // append(dst, b...) copies the bytes of b
				}
				continue
			}
			if _, isGo := x.(*ssa.Go); isGo {
				return "is handed to a goroutine at " + P.Pos(x.Pos())
			}
			if f := CalleeObj(cc); f != nil && f.Pkg() != nil && c07CopyingPkgs[f.Pkg().Path()] {
				continue
			}
			sc := cc.StaticCallee()
			if sc != nil && len(sc.Blocks) > 0 && IsPandora(PkgOf(sc)) && depth < 3 {
				escaped := ""
				for i, a := range cc.Args {
					if a == v && i < len(sc.Params) {
						if w := borrowEscape(P, sc.Params[i], seen, depth+1); w != "" {
							escaped = w
						}
					}
				}
				if escaped != "" {
					return escaped
				}
				continue
			}
			if cc.IsInvoke() {
				return "is passed to " + cc.Method.Name() + " of an interface value at " + P.Pos(x.Pos()) + " (what the implementation keeps is not known)"
			}
			name := "a function value"
			if f := CalleeObj(cc); f != nil {
				name = f.FullName()
			}
			return "is passed to " + name + " at " + P.Pos(x.Pos()) + " (not known to copy)"
		default:
			return fmt.Sprintf("is used by %T at %s", r, P.Pos(r.Pos()))
		}
	}
	return ""
}
