package rules

import (
	"fmt"
	"go/token"
	"go/types"
	"strings"

	. "pandoravet/core"

	"golang.org/x/tools/go/ssa"
)

func init() {
	register(&Pack{Property: "C20", Title: "gRPC wire fidelity", Run: runC20})
}

var (
	sInvokeRPC   = Spec{"github.com/jhump/protoreflect/dynamic/grpcdynamic", "Stub", "InvokeRpc"}
	sNewMessage  = Spec{"github.com/jhump/protoreflect/dynamic", "", "NewMessage"}
	sUnmarshalJS = Spec{"github.com/jhump/protoreflect/dynamic", "Message", "UnmarshalJSON"}
	sMDNew       = Spec{"google.golang.org/grpc/metadata", "", "New"}
	sMDOutgoing  = Spec{"google.golang.org/grpc/metadata", "", "NewOutgoingContext"}
	sWithTimeout = Spec{"context", "", "WithTimeout"}
)

type grpcSite struct {
	fn        *ssa.Function
	entry     ssa.Value // the ammo / step parameter
	callField string    // field of the entry naming the method
	mdField   string
	payField  string
	services  func(v ssa.Value) bool // the method table
	conf      func(v ssa.Value, f string) bool
}

func runC20(c *Ctx) {
	c.Rule("O20.7", "payload and metadata are rendered from their own templates: the gRPC scenario templater (one per gun, shared by all scenarios and calls) keys its cache of parsed templates by the template text (see templateCacheRule) - metadata named 'payload', or two scenario/call pairs whose names concatenate to the same string, must not get another template")
	templateCacheRule(c, "O20.7", "components/guns/grpc/scenario")
	c.Rule("O20.1", "method: the descriptor handed to Stub.InvokeRpc is the one looked up in the gun's method table under the entry's call name; a missing method returns without invoking")
	c.Rule("O20.2", "message: the request message is dynamic.NewMessage(method.GetInputType()) filled by UnmarshalJSON from the entry's payload (JSON-marshalled map, or the rendered template); an unmarshal error returns without invoking, with code 400")
	c.Rule("O20.3", "metadata and timeout: the context of InvokeRpc is NewOutgoingContext(ctx, metadata.New(<entry metadata>)) over context.WithTimeout(_, t) with t = Conf.Timeout on its non-zero edge and the default otherwise; cancel is deferred")
	c.Rule("O20.4", "method table: Gun.Services is written only in Bind from SharedDeps.services, which is filled only from the target's reflection listing under the method's fully qualified name")
	c.Rule("O20.5", "scenario metadata is rendered per shot: the map given to the templater is a fresh copy of the step's metadata made in this shot, and that same map is what metadata.New receives; the shared step's map is never written by the gun")
	c.Rule("O20.6", "entries are independent: a JSON ammo entry is decoded into fresh storage and copied into the pooled ammo with all four fields (tag, call, metadata, payload) by Reset, which also clears id and validity")
	P := c.P
	plain := P.Func("components/guns/grpc", "Gun", "shoot")
	scen := P.Func("components/guns/grpc/scenario", "Gun", "shootStep")
	if plain == nil || scen == nil {
		c.Anchor("O20.1", "components/guns/grpc.(*Gun).shoot / grpc/scenario.(*Gun).shootStep")
		return
	}
	sites := []grpcSite{
		{fn: plain, entry: plain.Params[1], callField: "Call", mdField: "Metadata", payField: "Payload"},
		{fn: scen, entry: scen.Params[1], callField: "Call", mdField: "Metadata", payField: "Payload"},
	}
	for _, s := range sites {
		c20Site(c, s)
	}
	c20Table(c)
	c20Entries(c)
	c20Target(c)
}

func fieldOfEntry(v ssa.Value, entry ssa.Value, name string) bool {
	return SliceAny(v, func(r ssa.Value) bool {
		fv, base := FieldOf(r)
		if fv == nil || fv.Name() != name {
			return false
		}
		// the entry itself, or the parameter of a helper that receives the entry
		return base == entry || SliceAny(base, func(b ssa.Value) bool { return b == entry })
	})
}

func c20Site(c *Ctx, s grpcSite) {
	fn := s.fn
	key := fk(fn)
	// the invocation: Stub.InvokeRpc in the shooting function, or in a helper of the package that only it calls
	// (g.invoke(method, message, md)); `inv` then is the call of that helper - the place of the invocation in the
	// shooting function - and invArg(k) the k-th argument of InvokeRpc as the shooting function sees it (a parameter
	// of the helper stands for the argument it is given)
	var inv, rpc *ssa.Call
	EachInstr(fn, func(in ssa.Instruction) {
		if cl, ok := in.(*ssa.Call); ok && MatchCC(&cl.Call, sInvokeRPC) {
			inv, rpc = cl, cl
		}
	})
	if inv == nil {
		EachInstr(fn, func(in ssa.Instruction) {
			cl, ok := in.(*ssa.Call)
			if !ok || cl.Call.StaticCallee() == nil || PkgOf(cl.Call.StaticCallee()) != PkgOf(fn) || SoleCallSite(cl.Call.StaticCallee()) != in {
				return
			}
			EachInstr(cl.Call.StaticCallee(), func(i2 ssa.Instruction) {
				if c2, ok := i2.(*ssa.Call); ok && MatchCC(&c2.Call, sInvokeRPC) {
					inv, rpc = cl, c2
				}
			})
		})
	}
	if inv == nil {
		c.Anchor("O20.1", "Stub.InvokeRpc in "+key)
		return
	}
	invArg := func(k int) ssa.Value {
		a := rpc.Call.Args[k]
		if rpc == inv {
			return a
		}
		if pr, ok := Strip(a).(*ssa.Parameter); ok {
			for i, q := range pr.Parent().Params {
				if q == pr {
					if v := ArgOfParam(inv, pr.Parent(), i); v != nil {
						return v
					}
				}
			}
		}
		return a
	}
	iv := countCalls(fn, func(in ssa.Instruction) bool { return IsCall(in, sInvokeRPC) })
	c.Check(iv.Max == 1, "O20.1", key+":at-most-one-rpc-per-entry", inv.Pos(), fmt.Sprintf("InvokeRpc calls per path = %v (want at most 1)", iv))
	// ---- O20.1: method = Services[entry.Call], comma-ok
	var lk *ssa.Lookup
	EachInstr(fn, func(in ssa.Instruction) {
		if l, ok := in.(*ssa.Lookup); ok && l.CommaOk {
			if fv, _ := FieldOf(l.X); fv != nil && fv.Name() == "Services" {
				lk = l
			}
		}
	})
	if lk == nil {
		c.Bad("O20.1", key+":method-looked-up-by-entry-call", fn.Pos(), "no comma-ok lookup in the Services table")
	} else {
		okKey := fieldOfEntry(lk.Index, s.entry, s.callField)
		// arg 2 of InvokeRpc (receiver is arg 0): address of the looked-up descriptor
		okArg := DerivesAny(invArg(2), true, func(v ssa.Value) bool {
			if a, ok := v.(*ssa.Alloc); ok {
				for _, st := range StoresTo(a) {
					if IsResultOf(lk, 0)(st.Val) {
						return true
					}
				}
			}
			return IsResultOf(lk, 0)(v)
		})
		// the call is on the ok edge
		okEdge := HasBoolFact(BoolFactsAt(inv), IsResultOf(lk, 1), true)
		c.Check(okKey && okArg && okEdge, "O20.1", key+":method-looked-up-by-entry-call", lk.Pos(),
			fmt.Sprintf("Services[entry.%s]: %v; InvokeRpc receives that descriptor: %v; only on the found edge: %v", s.callField, okKey, okArg, okEdge))
	}
	// ---- O20.2: message
	var nm, um *ssa.Call
	EachInstr(fn, func(in ssa.Instruction) {
		cl, ok := in.(*ssa.Call)
		if !ok {
			return
		}
		if MatchCC(&cl.Call, sNewMessage) && InstrDominates(cl, inv) {
			nm = cl
		}
		if MatchCC(&cl.Call, sUnmarshalJS) && InstrDominates(cl, inv) {
			um = cl
		}
	})
	if nm == nil || um == nil {
		c.Bad("O20.2", key+":message-built-from-payload", fn.Pos(), "dynamic.NewMessage / UnmarshalJSON before InvokeRpc not found")
	} else {
		okIn := false
		if gi, _ := CallOfValue(nm.Call.Args[0]); gi != nil && MatchCC(&gi.Call, Spec{"github.com/jhump/protoreflect/desc", "MethodDescriptor", "GetInputType"}) {
			okIn = lk != nil && DerivesAny(gi.Call.Args[0], true, func(v ssa.Value) bool {
				if a, ok := v.(*ssa.Alloc); ok {
					for _, st := range StoresTo(a) {
						if IsResultOf(lk, 0)(st.Val) {
							return true
						}
					}
				}
				return IsResultOf(lk, 0)(v)
			})
		}
		okMsg := DerivesOnly(invArg(3), false, func(v ssa.Value) bool { return v == ssa.Value(nm) }) && um.Call.Args[0] == ssa.Value(nm)
		// payload provenance
		okPay := false
		// the JSON handed to UnmarshalJSON: produced here, or by a helper of the package (renderStep(...))
		for _, rt := range Roots(um.Call.Args[1], false) {
			for _, src := range ThroughReturns(rt) {
				if mj, _ := CallOfValue(src); mj != nil && MatchCC(&mj.Call, Spec{"encoding/json", "", "Marshal"}) {
					okPay = fieldOfEntry(mj.Call.Args[0], s.entry, s.payField)
				}
				if ap, _ := CallOfValue(src); ap != nil && ap.Call.IsInvoke() && ap.Call.Method.Name() == "Apply" {
					okPay = fieldOfEntry(ap.Call.Args[0], s.entry, s.payField)
				}
			}
		}
		c.Check(okIn && okMsg && okPay, "O20.2", key+":message-built-from-payload", nm.Pos(),
			fmt.Sprintf("NewMessage(method.GetInputType()): %v; that message is unmarshalled and sent: %v; JSON comes from the entry's %s: %v", okIn, okMsg, s.payField, okPay))
		// unmarshal error edge: no invoke, code 400
		isE := func(v ssa.Value) bool {
			return DerivesAny(v, false, func(r ssa.Value) bool { return r == ssa.Value(um) })
		}
		ivE := PathQuery{Fn: fn, Start: um, Edge: AssumeNonNil(isE), Weight: func(in ssa.Instruction) (int, int) {
			if in == ssa.Instruction(inv) {
				return 1, 1
			}
			return 0, 0
		}, Exit: func(b *ssa.BasicBlock) bool { return ExitOf(b) == ExitReturn && b != fn.Recover }}.Count()
		ok400 := false
		EachInstr(fn, func(in ssa.Instruction) {
			st, ok := in.(*ssa.Store)
			if !ok {
				return
			}
			if k, isK := ConstInt(st.Val); isK && k == 400 {
				for _, f := range CmpFactsAt(st) {
					if f.Op == token.NEQ && IsNilConst(f.Y) && isE(f.X) {
						ok400 = true
					}
				}
			}
		})
		c.Check(ivE.Is(0, 0) && ok400, "O20.2", key+":bad-payload-is-not-sent", um.Pos(), fmt.Sprintf("InvokeRpc after an unmarshal error = %v (want [0,0]); code 400 stored on that edge: %v", ivE, ok400))
	}
	// ---- O20.3 context
	var og, mdn, wt *ssa.Call
	// in the shooting function itself or in the helpers of the package it calls (callContext(md), ...)
	region := FindFuncs(fn, 2, func(*ssa.Function) bool { return true })
	for _, g := range region {
		EachInstr(g, func(in ssa.Instruction) {
			cl, ok := in.(*ssa.Call)
			if !ok {
				return
			}
			switch {
			case MatchCC(&cl.Call, sMDOutgoing):
				og = cl
			case MatchCC(&cl.Call, sMDNew):
				mdn = cl
			case MatchCC(&cl.Call, sWithTimeout):
				wt = cl
			}
		})
	}
	// all values v resolves to (through the results of helpers) satisfy pred
	allThrough := func(v ssa.Value, pred func(ssa.Value) bool) bool {
		for _, r := range Roots(v, false) {
			for _, t := range ThroughReturns(r) {
				ok := false
				for _, r2 := range Roots(t, false) {
					if pred(r2) {
						ok = true
					} else {
						ok = false
						break
					}
				}
				if !ok {
					return false
				}
			}
		}
		return true
	}
	if og == nil || mdn == nil || wt == nil {
		c.Bad("O20.3", key+":context-wiring", fn.Pos(), "metadata.NewOutgoingContext / metadata.New / context.WithTimeout not all present")
		return
	}
	okCtx := allThrough(invArg(1), func(v ssa.Value) bool { return v == ssa.Value(og) }) &&
		allThrough(og.Call.Args[0], IsResultOf(wt, 0)) && allThrough(og.Call.Args[1], func(v ssa.Value) bool { return v == ssa.Value(mdn) })
	c.Check(okCtx, "O20.3", key+":context-wiring", og.Pos(), "InvokeRpc(ctx) with ctx = NewOutgoingContext(WithTimeout(...) ctx, metadata.New(...))")
	// metadata source
	mdArg := mdn.Call.Args[0]
	direct := fieldOfEntry(mdArg, s.entry, s.mdField)
	if fn.Name() == "shootStep" {
		// O20.5: a per-shot copy filled from the entry's metadata, the same map given to the templater
		// the map made for this shot: made here, or by a helper of the package called here (copyMetadata(step.Metadata))
		var mm *ssa.MakeMap
		var mmVal ssa.Value // the value of the shooting function that stands for the copy
		for _, r := range Roots(mdArg, false) {
			for _, t := range ThroughReturns(r) {
				for _, r2 := range Roots(t, false) {
					if m, ok := r2.(*ssa.MakeMap); ok {
						inRegion := false
						for _, g := range region {
							if m.Parent() == g {
								inRegion = true
							}
						}
						if inRegion {
							mm, mmVal = m, r
						}
					}
				}
			}
		}
		okCopy, okTempl := false, false
		if mm != nil {
			// filled by ranging over entry.Metadata
			EachInstr(mm.Parent(), func(in ssa.Instruction) {
				if mu, ok := in.(*ssa.MapUpdate); ok && mu.Map == ssa.Value(mm) {
					okCopy = rangedOver(mu.Key, func(m ssa.Value) bool { return fieldOfEntry(m, s.entry, s.mdField) }) &&
						rangedOver(mu.Value, func(m ssa.Value) bool { return fieldOfEntry(m, s.entry, s.mdField) })
				}
				// maps.Copy(copy, entry.Metadata)
				if cl, ok := in.(*ssa.Call); ok && isGenericStd(cl, "maps", "Copy") && len(cl.Call.Args) == 2 {
					if DerivesOnly(cl.Call.Args[0], false, func(v ssa.Value) bool { return v == ssa.Value(mm) }) && fieldOfEntry(cl.Call.Args[1], s.entry, s.mdField) {
						okCopy = true
					}
				}
			})
			for _, g2 := range region {
				EachInstr(g2, func(in ssa.Instruction) {
					if cc := CC(in); cc != nil && cc.IsInvoke() && cc.Method.Name() == "Apply" && len(cc.Args) >= 2 {
						if g2 == fn {
							okTempl = (cc.Args[1] == ssa.Value(mm) || cc.Args[1] == mmVal) && InstrDominates(in, mdn)
						} else if g2 == mm.Parent() {
							// copy and rendering live together in a helper that returns the rendered copy
							okTempl = cc.Args[1] == ssa.Value(mm)
						}
					}
				})
			}
		}
		if cl, _ := CallOfValue(mdArg); cl != nil && MatchCC(&cl.Call, Spec{"maps", "", "Clone"}) {
			okCopy = fieldOfEntry(cl.Call.Args[0], s.entry, s.mdField)
			EachInstr(fn, func(in ssa.Instruction) {
				if cc := CC(in); cc != nil && cc.IsInvoke() && cc.Method.Name() == "Apply" && len(cc.Args) >= 2 {
					okTempl = cc.Args[1] == ssa.Value(cl) && InstrDominates(in, mdn)
				}
			})
		}
		c.Check(okCopy && okTempl && !direct, "O20.5", key+":metadata-rendered-into-a-per-shot-copy", mdn.Pos(),
			fmt.Sprintf("metadata.New receives a map made in this shot and filled from step.Metadata: %v; the templater rendered that same map: %v; the shared step map is not what is sent/rendered: %v", okCopy, okTempl, !direct))
		// the gun never writes the shared map
		nW := 0
		EachInstr(fn, func(in ssa.Instruction) {
			if mu, ok := in.(*ssa.MapUpdate); ok && fieldOfEntry(mu.Map, s.entry, s.mdField) {
				nW++
			}
			if cc := CC(in); cc != nil && cc.IsInvoke() && cc.Method.Name() == "Apply" && len(cc.Args) >= 2 && fieldOfEntry(cc.Args[1], s.entry, s.mdField) {
				nW++
			}
		})
		c.Check(nW == 0, "O20.5", key+":shared-step-metadata-not-written", fn.Pos(), fmt.Sprintf("%d writes / in-place renderings of the shared step's metadata map (want 0)", nW))
	} else {
		c.Check(direct, "O20.3", key+":metadata-is-the-entry-metadata", mdn.Pos(), "metadata.New(ammo.Metadata)")
	}
	// timeout
	okT := false
	tArg := wt.Call.Args[1]
	var roots []ssa.Value
	for _, t := range ThroughReturns(tArg) { // the value itself, or what a helper (requestTimeout()) returns
		if phi, ok := t.(*ssa.Phi); ok {
			roots = append(roots, phi.Edges...)
		} else {
			roots = append(roots, Roots(t, false)...)
		}
	}
	hasConf, hasDefault := false, false
	for _, r := range roots {
		if IsFieldLoad(r, "GunConfig", "Timeout") {
			// on the != 0 edge
			if in, ok := r.(ssa.Instruction); ok {
				for _, f := range CmpFactsAt(in) {
					if f.Op == token.NEQ && isZero(f.Y) && IsFieldLoad(f.X, "GunConfig", "Timeout") {
						hasConf = true
					}
				}
			}
			continue
		}
		if _, isK := ConstInt(r); isK {
			hasDefault = true
		}
	}
	okT = hasConf && hasDefault
	// cancel deferred
	okCancel := false
	// (in the function that makes the context: the shooting function or the helper that invokes)
	for _, g := range []*ssa.Function{fn, wt.Parent()} {
		EachInstr(g, func(in ssa.Instruction) {
			if d, ok := in.(*ssa.Defer); ok && allThrough(d.Call.Value, IsResultOf(wt, 1)) {
				okCancel = true
			}
		})
	}
	c.Check(okT && okCancel, "O20.3", key+":timeout-from-config-or-default", wt.Pos(), fmt.Sprintf("WithTimeout(_, Conf.Timeout on its non-zero edge | default constant): %v; cancel deferred: %v", okT, okCancel))
	bg := false
	if cl, _ := CallOfValue(wt.Call.Args[0]); cl != nil && MatchCC(&cl.Call, Spec{"context", "", "Background"}) {
		bg = true
	}
	c.Check(bg, "O20.3", key+":call-not-cancelled-with-the-run", wt.Pos(), "the call's context starts from context.Background(): a request in flight finishes (or times out) when the run is cancelled")
}

func c20Table(c *Ctx) {
	P := c.P
	// writers of Gun.Services
	n, ok := 0, true
	for _, fn := range P.ProdFuncs() {
		EachInstr(fn, func(in ssa.Instruction) {
			v, isSt := storeExact(in, "Gun", "Services")
			if !isSt || PkgOf(fn) != Mod+"/components/guns/grpc" && PkgOf(fn) != Mod+"/components/guns/grpc/scenario" {
				return
			}
			n++
			okW := fn.Name() == "Bind" && IsFieldLoad(v, "SharedDeps", "services")
			if !okW {
				ok = false
			}
			c.Check(okW, "O20.4", fk(fn)+":Services-writer", in.Pos(), "Gun.Services may only be assigned SharedDeps.services in Bind")
		})
		EachInstr(fn, func(in ssa.Instruction) {
			if mu, isMU := in.(*ssa.MapUpdate); isMU {
				if fv, _ := FieldOf(mu.Map); fv != nil && fv.Name() == "Services" {
					ok = false
					c.Bad("O20.4", fk(fn)+":Services-map-update", in.Pos(), "the method table is mutated after warm-up")
				}
			}
		})
	}
	c.Floor("O20.4", "assignments of Gun.Services", n, 1)
	_ = ok
	pm := P.Func("components/guns/grpc", "Gun", "prepareMethodList")
	cs := P.Func("components/guns/grpc", "Gun", "createSharedDeps")
	if pm == nil || cs == nil {
		c.Anchor("O20.4", "grpc.(*Gun).prepareMethodList / createSharedDeps")
		return
	}
	// services[m.GetFullyQualifiedName()] = *m
	okKey := false
	nUpd := 0
	// in prepareMethodList or in the helpers of the package it calls (collectMethods, addServiceMethods)
	var pmRegion []ssa.Instruction
	for _, g := range FindFuncs(pm, 3, func(*ssa.Function) bool { return true }) {
		EachInstr(g, func(in ssa.Instruction) { pmRegion = append(pmRegion, in) })
	}
	for _, in := range pmRegion {
		mu, isMU := in.(*ssa.MapUpdate)
		if !isMU {
			continue
		}
		if _, n := NamedOf(mu.Map.Type().Underlying().(*types.Map).Elem()); n != "MethodDescriptor" {
			continue
		}
		nUpd++
		kc, _ := CallOfValue(mu.Key)
		if kc == nil || !MatchCC(&kc.Call, Spec{"github.com/jhump/protoreflect/desc", "MethodDescriptor", "GetFullyQualifiedName"}) {
			continue
		}
		// the value is the dereferenced descriptor the name was taken from
		if u, isU := mu.Value.(*ssa.UnOp); isU && u.Op == token.MUL && u.X == kc.Call.Args[0] {
			okKey = true
		}
	}
	c.Check(okKey && nUpd == 1, "O20.4", fk(pm)+":methods-keyed-by-full-name", pm.Pos(), "services[m.GetFullyQualifiedName()] = *m for the same m; single writer")
	okShared := false
	var pmc *ssa.Call
	EachInstr(cs, func(in ssa.Instruction) {
		if cl, isC := in.(*ssa.Call); isC && cl.Call.StaticCallee() == pm {
			pmc = cl
		}
	})
	if pmc != nil {
		for k, v := range compositeFields(cs, "SharedDeps") {
			if k == "services" && DerivesOnly(v, false, IsResultOf(pmc, 0)) {
				okShared = true
			}
		}
		checkErrPropagated(c, "O20.4", fk(cs)+":listing-error-fails-warm-up", pmc)
	}
	c.Check(okShared, "O20.4", fk(cs)+":shared-table-is-the-reflection-listing", cs.Pos(), "SharedDeps.services = prepareMethodList()")
}

func c20Entries(c *Ctx) {
	P := c.P
	rs := P.Func("components/providers/grpc", "Ammo", "Reset")
	if rs == nil || len(rs.Params) != 5 {
		c.Anchor("O20.6", "components/providers/grpc.(*Ammo).Reset(tag, call, metadata, payload)")
		return
	}
	// fields stored from same-named parameters; id and isInvalid zeroed
	want := map[string]int{"Tag": 1, "Call": 2, "Metadata": 3, "Payload": 4}
	got := map[string]bool{}
	zeroed := map[string]bool{}
	// *a = Ammo{...}: a composite built in a local then stored whole, or field stores
	EachInstr(rs, func(in ssa.Instruction) {
		st, ok := in.(*ssa.Store)
		if !ok {
			return
		}
		fa, ok := st.Addr.(*ssa.FieldAddr)
		if !ok {
			return
		}
		fv, _ := FieldOf(fa)
		if fv == nil {
			return
		}
		if i, has := want[fv.Name()]; has && st.Val == ssa.Value(rs.Params[i]) {
			got[fv.Name()] = true
		}
		if k, isK := st.Val.(*ssa.Const); isK && isZeroConst(k) {
			zeroed[fv.Name()] = true
		}
	})
	// whole-struct store to the receiver
	whole := false
	EachInstr(rs, func(in ssa.Instruction) {
		if st, ok := in.(*ssa.Store); ok && st.Addr == ssa.Value(rs.Params[0]) {
			whole = true
		}
	})
	pk := P.Pkg("components/providers/grpc")
	nFields := 0
	if tn, ok := pk.Types.Scope().Lookup("Ammo").(*types.TypeName); ok {
		nFields = tn.Type().Underlying().(*types.Struct).NumFields()
	}
	okAll := len(got) == 4 && (whole || (zeroed["id"] && zeroed["isInvalid"]))
	c.Check(okAll && nFields == 6, "O20.6", fk(rs)+":all-fields-replaced", rs.Pos(), fmt.Sprintf("fields set from their parameters: %v; whole struct replaced (id, validity cleared): %v; Ammo has %d fields (6 known: a new field must be reset too)", got, whole, nFields))
	// decodeAmmo: Unmarshal into a fresh local, then Reset(local.Tag, local.Call, local.Metadata, local.Payload)
	da := P.Func("components/providers/grpc/grpcjson", "", "decodeAmmo")
	if da == nil {
		c.Anchor("O20.6", "components/providers/grpc/grpcjson.decodeAmmo")
		return
	}
	var um, rc *ssa.Call
	EachInstr(da, func(in ssa.Instruction) {
		cl, ok := in.(*ssa.Call)
		if !ok {
			return
		}
		if MatchCC(&cl.Call, Spec{"github.com/json-iterator/go", "", "Unmarshal"}, Spec{"encoding/json", "", "Unmarshal"}) {
			um = cl
		}
		if cl.Call.StaticCallee() == rs {
			rc = cl
		}
	})
	ok := um != nil && rc != nil && InstrDominates(um, rc)
	if ok {
		var local *ssa.Alloc
		for _, r := range Roots(um.Call.Args[1], false) {
			if a, isA := Strip(r).(*ssa.Alloc); isA && a.Parent() == da {
				local = a
			}
		}
		ok = local != nil && rc.Call.Args[0] == ssa.Value(da.Params[1])
		if ok {
			names := []string{"Tag", "Call", "Metadata", "Payload"}
			for i, n := range names {
				fv, base := FieldOf(rc.Call.Args[i+1])
				if fv == nil || fv.Name() != n || base != ssa.Value(local) {
					ok = false
				}
			}
		}
		checkErrPropagated(c, "O20.6", fk(da)+":decode-error-returned", um)
	}
	c.Check(ok, "O20.6", fk(da)+":entry-decoded-fresh-and-copied-whole", da.Pos(), "decodeAmmo unmarshals into a fresh local and calls am.Reset(local.Tag, local.Call, local.Metadata, local.Payload) on the pooled ammo (no field of the previous entry survives)")
}

// isGenericStd: a call of (an instantiation of) the generic standard-library function pkg.name.
func isGenericStd(cl *ssa.Call, pkg, name string) bool {
	sc := cl.Call.StaticCallee()
	if sc == nil {
		return false
	}
	if o := sc.Origin(); o != nil {
		sc = o
	}
	if sc.Name() != name || sc.Pkg == nil {
		return false
	}
	p := sc.Pkg.Pkg.Path()
	return p == pkg || p == "golang.org/x/exp/"+pkg // the x/exp predecessors of maps / slices
}

// ---- O20.8: every client the guns shoot through is connected to the configured target

var sGrpcDial = []Spec{
	{"google.golang.org/grpc", "", "DialContext"},
	{"google.golang.org/grpc", "", "Dial"},
	{"google.golang.org/grpc", "", "NewClient"},
}
var sNewStub = Spec{"github.com/jhump/protoreflect/dynamic/grpcdynamic", "", "NewStub"}

// c20ConnTarget classifies where the *grpc.ClientConn value v was dialed to: the roots of the target strings of the
// grpc.Dial* calls it can come from, followed through the connection helpers of the package (results of callees,
// parameters to the arguments of all call sites). ok=false: some origin of the value is not a dial.
func c20ConnTarget(v ssa.Value, env map[*ssa.Parameter]ssa.Value, depth int, seen map[ssa.Value]bool) (targets []ssa.Value, ok bool) {
	if depth > 6 {
		return nil, false
	}
	ok = true
	for _, r := range Roots(v, false) {
		r = Strip(r)
		if seen[r] {
			continue
		}
		seen[r] = true
		if IsNilConst(r) {
			continue
		}
		if p, isP := r.(*ssa.Parameter); isP {
			if a, bound := env[p]; bound {
				t, k := c20ConnTarget(a, env, depth+1, seen)
				targets, ok = append(targets, t...), ok && k
				continue
			}
			sites := PkgCallers(p.Parent())
			if len(sites) == 0 {
				return nil, false
			}
			for _, site := range sites {
				for i, q := range p.Parent().Params {
					if q == p {
						a := ArgOfParam(site, p.Parent(), i)
						if a == nil {
							return nil, false
						}
						t, k := c20ConnTarget(a, env, depth+1, seen)
						targets, ok = append(targets, t...), ok && k
					}
				}
			}
			continue
		}
		// a named result spilled into a cell (the function defers): what was stored into it
		var cell *ssa.Alloc
		if u, isU := r.(*ssa.UnOp); isU && u.Op == token.MUL {
			cell, _ = u.X.(*ssa.Alloc)
		} else if a, isA := r.(*ssa.Alloc); isA {
			cell = a
		}
		if cell != nil {
			sts := StoresTo(cell)
			if len(sts) == 0 {
				return nil, false
			}
			for _, st := range sts {
				t, k := c20ConnTarget(st.Val, env, depth+1, seen)
				targets, ok = append(targets, t...), ok && k
			}
			continue
		}
		cl, _ := CallOfValue(r)
		if cl == nil {
			return nil, false
		}
		if MatchCC(&cl.Call, sGrpcDial...) {
			idx := 0
			if MatchCC(&cl.Call, sGrpcDial[0]) {
				idx = 1
			}
			targets = append(targets, c20TargetRoots(cl.Call.Args[idx], env, 0)...)
			continue
		}
		sc := cl.Call.StaticCallee()
		if sc == nil || len(sc.Blocks) == 0 || sc.Pkg == nil || !IsPandora(sc.Pkg.Pkg.Path()) {
			return nil, false
		}
		env2 := map[*ssa.Parameter]ssa.Value{}
		for k, v := range env {
			env2[k] = v
		}
		for i, p := range sc.Params {
			if a := ArgOfParam(cl, sc, i); a != nil {
				env2[p] = a
			}
		}
		n := 0
		EachInstr(sc, func(in ssa.Instruction) {
			if ret, isR := in.(*ssa.Return); isR && len(ret.Results) > 0 {
				n++
				t, k := c20ConnTarget(ret.Results[0], env2, depth+1, seen)
				targets, ok = append(targets, t...), ok && k
			}
		})
		if n == 0 {
			return nil, false
		}
	}
	return targets, ok
}

// c20TargetRoots: the roots of a dial target string, parameters replaced by what the call chain bound them to.
func c20TargetRoots(v ssa.Value, env map[*ssa.Parameter]ssa.Value, depth int) []ssa.Value {
	var out []ssa.Value
	for _, r := range Roots(v, false) {
		if p, isP := Strip(r).(*ssa.Parameter); isP && depth < 6 {
			if a, bound := env[p]; bound {
				out = append(out, c20TargetRoots(a, env, depth+1)...)
				continue
			}
		}
		out = append(out, Strip(r))
	}
	return out
}

func c20Target(c *Ctx) {
	c.Rule("O20.8", "calls reach the configured target: every grpcdynamic.Stub the guns shoot through (NewStub in components/guns/grpc..., per instance or in the shared client pool) is made from a connection whose every origin is a grpc dial of the gun's Conf.Target itself - never the reflection connection (Target with reflect_port substituted), whose only uses are the reflection client and Close")
	P := c.P
	n := 0
	for _, fn := range P.ProdFuncs() {
		if !strings.HasPrefix(PkgOf(fn), Mod+"/components/guns/grpc") {
			continue
		}
		EachInstr(fn, func(in ssa.Instruction) {
			cl, ok := in.(*ssa.Call)
			if !ok || !MatchCC(&cl.Call, sNewStub) {
				return
			}
			n++
			targets, okDial := c20ConnTarget(cl.Call.Args[0], map[*ssa.Parameter]ssa.Value{}, 0, map[ssa.Value]bool{})
			bad := ""
			for _, t := range targets {
				fv, _ := FieldOf(t)
				if fv == nil || fv.Name() != "Target" {
					bad = "a dial target that is not Conf.Target: " + t.String()
					if t.Pos().IsValid() {
						bad += " at " + P.Pos(t.Pos())
					}
				}
			}
			c.Check(okDial && len(targets) > 0 && bad == "", "O20.8", fk(fn)+":stub-connection-dials-Conf.Target", cl.Pos(),
				fmt.Sprintf("every origin of the connection is a grpc dial: %v; %d dial target(s) %s", okDial, len(targets), bad))
		})
	}
	c.Floor("O20.8", "grpcdynamic.NewStub calls in the gRPC guns", n, 2)
}
