package rules

import (
	"bufio"
	"fmt"
	"go/constant"
	"go/token"
	"go/types"
	"os"
	"path/filepath"
	"regexp"
	"sort"
	"strconv"
	"strings"

	. "pandoravet/core"

	"golang.org/x/tools/go/ssa"
)

func init() {
	register(&Pack{Property: "C10", Title: "Sample result coding", Run: runC10})
}

var (
	sNetsampleAgg = Spec{"./core/aggregator/netsample", "Aggregator", "Report"}
	sCoreAgg      = Spec{"./core", "Aggregator", "Report"}
	sSetProto     = Spec{"./core/aggregator/netsample", "Sample", "SetProtoCode"}
	sSetErr       = Spec{"./core/aggregator/netsample", "Sample", "SetErr"}
	sAddTag       = Spec{"./core/aggregator/netsample", "Sample", "AddTag"}
	sSampleTags   = Spec{"./core/aggregator/netsample", "Sample", "Tags"}
	sAcquireSmp   = Spec{"./core/aggregator/netsample", "", "Acquire"}
)

func isReport(in ssa.Instruction) bool { return IsCall(in, sNetsampleAgg, sCoreAgg) }

// reportSumm counts Aggregator.Report calls, descending into pandora callees,
// deferred closures and immediately invoked closures.
func reportSumm() *Summ {
	return &Summ{Base: func(in ssa.Instruction) (int, int, bool) {
		if isReport(in) {
			return 1, 1, true
		}
		return 0, 0, false
	}}
}

// errClassExit: the Return's error result is provably non-nil (carries a fmt.Errorf / wrapped value) or
// it is dominated by an `x != nil` fact on an error value.
func retErrIsNil(r *ssa.Return) (isNil, known bool) {
	if len(r.Results) == 0 {
		return false, false
	}
	last := r.Results[len(r.Results)-1]
	if !types.Identical(last.Type(), errType) {
		return false, false
	}
	if IsNilConst(last) {
		return true, true
	}
	// results of functions with defers are spilled to a cell: look at the stores reaching the return
	nNil, nAll := 0, 0
	for _, rt := range Roots(last, false) {
		nAll++
		if IsNilConst(rt) {
			nNil++
		}
	}
	if nAll > 0 && nNil == nAll {
		return true, true
	}
	if nNil > 0 {
		return false, false // mixed
	}
	// all roots are calls producing errors (fmt.Errorf etc.) or make-interface values
	all := true
	for _, rt := range Roots(last, false) {
		switch x := rt.(type) {
		case *ssa.Call:
			if !MatchCC(&x.Call, ErrWrappers...) && !MatchCC(&x.Call, Spec{"errors", "", "New"}) {
				all = false
			}
		case *ssa.MakeInterface, *ssa.Alloc:
		case *ssa.UnOp:
			// a package-level sentinel error (var errX = errors.New(...)): non-nil by construction
			if g, ok := x.X.(*ssa.Global); !ok || !sentinelInitialised(g) {
				// an error received from a callee under the edge on which it is known non-nil
				if !errKnownNonNil(x, r) {
					all = false
				}
			}
		case *ssa.Extract:
			if !errKnownNonNil(x, r) {
				all = false
			}
		default:
			all = false
		}
	}
	if all {
		return false, true
	}
	return false, false
}

// sentinelInitialised: the global is assigned exactly once, in its package's init, from an error constructor.
func sentinelInitialised(g *ssa.Global) bool {
	if g.Pkg == nil {
		return false
	}
	n, ok := 0, false
	for _, f := range PkgFuncs(g.Pkg) {
		EachInstr(f, func(in ssa.Instruction) {
			st, isSt := in.(*ssa.Store)
			if !isSt || st.Addr != ssa.Value(g) {
				return
			}
			n++
			if cl, _ := CallOfValue(st.Val); cl != nil && f.Name() == "init" &&
				(MatchCC(&cl.Call, ErrWrappers...) || MatchCC(&cl.Call, Spec{"errors", "", "New"}, Spec{"github.com/pkg/errors", "", "New"}, Spec{"github.com/pkg/errors", "", "Errorf"})) {
				ok = true
			}
		})
	}
	return n == 1 && ok
}

// errKnownNonNil: the comparisons dominating the return say v != nil.
func errKnownNonNil(v ssa.Value, at ssa.Instruction) bool {
	for _, f := range CmpFactsAt(at) {
		if f.Op == token.NEQ && (f.X == v && IsNilConst(f.Y) || f.Y == v && IsNilConst(f.X)) {
			return true
		}
	}
	return false
}

func runC10(c *Ctx) {
	c.Rule("O10.7", "the tag reported is the tag of this entry: an ammo entry is decoded into storage made for it, so a field the entry does not set (tag, headers, host) is empty and not the previous entry's (the rule of O7.6, shared)")
	c.Borrow("C07", runC07, map[string]string{"O7.6": "O10.7"})
	c.Rule("O10.1", "exactly one sample per request on every path: every exit of each gun's shoot function has reported exactly one sample for the request (HTTP: BaseGun.Shoot; gRPC: Gun.shoot; scenarios: per step, shootStep reports once itself or returns an error that the loop turns into exactly one failed sample); named exception: the optional Connect hook exit")
	c.Rule("O10.2", "gRPC status table: ConvertGrpcStatus maps every gRPC code exactly as the table in docs/eng/grpc-generator.md says, and every code not in the table (and the default) to the documented 'unknown' value")
	c.Rule("O10.3", "proto code provenance: SetProtoCode receives the received status (res.StatusCode / ConvertGrpcStatus(grpcErr)); once a response was received every path to the exit sets it exactly from that response")
	c.Rule("O10.4", "net code: SetErr(err) is called with the exchange error exactly on its non-nil edge; getErrno returns 110 on the timeout edge and ProtoCodeError (999) on the default edge, an errno only from a syscall.Errno")
	c.Rule("O10.5", "tags: auto-tag is added on Enabled && (!NoTagOnly || Tags()==\"\"); __EMPTY__ exactly on Tags()==\"\"; scenario samples are acquired with ammo.Name + \".\" + step name (HTTP) / call tag (gRPC); plain samples with the ammo's tag")
	c.Rule("O10.6", "ids: provider id counters are atomic integers whose only writer is Add(1), and every id handed to ammo is the result of that Add")
	P := c.P
	c10OneSample(c)
	c10GrpcTable(c)
	c10ProtoCode(c)
	c10NetCode(c)
	c10Tags(c)
	c10IDs(c)
	_ = P
}

func c10OneSample(c *Ctx) {
	P := c.P
	// ---- HTTP BaseGun.Shoot
	if shoot := P.Func("components/guns/http", "BaseGun", "Shoot"); shoot == nil {
		c.Anchor("O10.1", "components/guns/http.(*BaseGun).Shoot")
	} else {
		key := fk(shoot)
		s := reportSumm()
		isConnect := IsFieldLoadPred("BaseGun", "Connect")
		// exits reachable with the Connect hook absent (nil): all must be [1,1]
		iv := PathQuery{Fn: shoot, Weight: s.Weight, Edge: func(from, to *ssa.BasicBlock) bool {
			// take only the Connect == nil edge
			if len(from.Instrs) == 0 {
				return true
			}
			iff, ok := from.Instrs[len(from.Instrs)-1].(*ssa.If)
			if !ok {
				return true
			}
			subj, pol := BoolSubject(iff.Cond)
			bo, ok := subj.(*ssa.BinOp)
			if !ok || !(IsNilConst(bo.Y) && isConnect(bo.X)) {
				return true
			}
			nonNilOnTrue := (bo.Op == token.NEQ) == pol
			if nonNilOnTrue {
				return to == from.Succs[1]
			}
			return to == from.Succs[0]
		}, Exit: func(b *ssa.BasicBlock) bool { return ExitOf(b) == ExitReturn && b != shoot.Recover }}.Count()
		c.Check(iv.Is(1, 1), "O10.1", key+":one-sample-per-shot", shoot.Pos(), fmt.Sprintf("Report count over all return paths (Connect hook absent) = %v (want [1,1]); min %s max %s", iv, PathString(iv.MinPath), PathString(iv.MaxPath)))
		// named exception: the Connect hook's failure exit reports nothing itself
		c.Note("named exception O10.1: BaseGun.Shoot returns without a sample when the optional Connect hook fails - the hook reports its own failure (base_test.go 'Connect should report fail in sample itself'); no built-in gun sets the hook")
		nHook := 0
		for _, g := range P.ProdFuncs() {
			EachInstr(g, func(in ssa.Instruction) {
				if _, ok := StoreToField(in, "BaseGun", "Connect"); ok {
					nHook++
					c.Bad("O10.1", fk(g)+":sets-Connect-hook", in.Pos(), "a built-in gun sets BaseGun.Connect: its failure exit must then report a sample")
				}
			})
		}
		c.OK("O10.1", "components/guns:no-built-in-gun-sets-the-Connect-hook", shoot.Pos(), fmt.Sprintf("%d stores to BaseGun.Connect in production code", nHook))
	}
	// ---- gRPC Gun.shoot
	if shoot := P.Func("components/guns/grpc", "Gun", "shoot"); shoot == nil {
		c.Anchor("O10.1", "components/guns/grpc.(*Gun).shoot")
	} else {
		s := reportSumm()
		iv := PathQuery{Fn: shoot, Weight: s.Weight, Exit: func(b *ssa.BasicBlock) bool { return ExitOf(b) == ExitReturn && b != shoot.Recover }}.Count()
		c.Check(iv.Is(1, 1), "O10.1", fk(shoot)+":one-sample-per-shot", shoot.Pos(), fmt.Sprintf("Report count over all return paths = %v (want [1,1])", iv))
	}
	// ---- scenario guns
	type scen struct {
		rel, recv string
		reportErr bool // the loop reports failed steps itself
	}
	for _, sc := range []scen{{"components/guns/http_scenario", "ScenarioGun", true}, {"components/guns/grpc/scenario", "Gun", false}} {
		step := P.Func(sc.rel, sc.recv, "shootStep")
		loop := P.Func(sc.rel, sc.recv, "shoot")
		if step == nil || loop == nil {
			c.Anchor("O10.1", sc.rel+".(*"+sc.recv+").shoot/shootStep")
			continue
		}
		s := reportSumm()
		// per class of exit
		var nilIv, errIv Interval
		nNil, nErr, nUnknown := 0, 0, 0
		for _, b := range step.Blocks {
			r, ok := b.Instrs[len(b.Instrs)-1].(*ssa.Return)
			if !ok || b == step.Recover {
				continue
			}
			isNil, known := retErrIsNil(r)
			iv := PathQuery{Fn: step, Weight: s.Weight, Exit: func(x *ssa.BasicBlock) bool { return x == b }}.Count()
			if iv.NoPath {
				continue
			}
			switch {
			case !known:
				nUnknown++
				c.Unknown("O10.1", fk(step)+":exit-class", r.Pos(), "cannot classify this return as error / success")
			case isNil:
				if nNil == 0 {
					nilIv = iv
				} else {
					nilIv = joinIv(nilIv, iv)
				}
				nNil++
			default:
				if nErr == 0 {
					errIv = iv
				} else {
					errIv = joinIv(errIv, iv)
				}
				nErr++
			}
		}
		if sc.reportErr {
			// shootStep reports only on success; the loop reports the failed step through reportErr
			c.Check(nNil >= 1 && nilIv.Is(1, 1), "O10.1", fk(step)+":success-exit-reports-once", step.Pos(), fmt.Sprintf("Report count on success exits = %v over %d exit(s) (want [1,1])", nilIv, nNil))
			c.Check(nErr >= 1 && errIv.Is(0, 0), "O10.1", fk(step)+":error-exits-leave-the-report-to-the-loop", step.Pos(), fmt.Sprintf("Report count on error exits = %v over %d exit(s) (want [0,0]: shoot reports the failed step)", errIv, nErr))
			{
				// in the loop: on the err != nil edge of shootStep the step's sample is reported exactly once before the
				// loop ends (directly or through a helper such as reportErr(sample, err)); on the nil edge not at all
				okLoop := false
				var stepCall *ssa.Call
				EachInstr(loop, func(in ssa.Instruction) {
					if cl, ok := in.(*ssa.Call); ok && cl.Call.StaticCallee() == step {
						stepCall = cl
					}
				})
				if stepCall != nil {
					isE := func(v ssa.Value) bool {
						return P.DerivesAnyIP(v, func(r ssa.Value) bool { return r == ssa.Value(stepCall) })
					}
					w := func(in ssa.Instruction) (int, int) {
						if !isReport(in) {
							return 0, 0
						}
						cc := CC(in)
						// the sample handed to shootStep
						if P.DerivesAnyIP(cc.Args[len(cc.Args)-1], func(r ssa.Value) bool {
							for _, r2 := range Roots(stepCall.Call.Args[2], false) {
								if r == r2 {
									return true
								}
							}
							return false
						}) {
							return 1, 1
						}
						return 2, 2 // another sample: counts as a mismatch
					}
					ivErr := PathQuery{Fn: loop, Start: stepCall, Weight: w, Edge: AssumeNonNil(isE), StopBlock: loopHeaderOf(stepCall.Block())}.Count()
					ivNil := PathQuery{Fn: loop, Start: stepCall, Weight: w, Edge: assumeNil(isE), StopBlock: loopHeaderOf(stepCall.Block())}.Count()
					okLoop = ivErr.Is(1, 1) && ivNil.Is(0, 0)
					c.Check(okLoop, "O10.1", fk(loop)+":failed-step-reported-once-by-the-loop", stepCall.Pos(), fmt.Sprintf("reports of the step's sample after a failed step = %v (want [1,1]), after a successful step = %v (want [0,0])", ivErr, ivNil))
				} else {
					c.Anchor("O10.1", "call of shootStep in "+fk(loop))
				}
			}
		} else {
			// shootStep reports on every exit (deferred)
			all := PathQuery{Fn: step, Weight: s.Weight, Exit: func(b *ssa.BasicBlock) bool { return ExitOf(b) == ExitReturn && b != step.Recover }}.Count()
			c.Check(all.Is(1, 1) && nUnknown == 0, "O10.1", fk(step)+":every-exit-reports-once", step.Pos(), fmt.Sprintf("Report count over all exits = %v (want [1,1]); %d success, %d error exits", all, nNil, nErr))
			// the loop itself reports nothing
			n := 0
			EachInstr(loop, func(in ssa.Instruction) {
				if isReport(in) {
					n++
				}
			})
			c.Check(n == 0, "O10.1", fk(loop)+":loop-reports-nothing-itself", loop.Pos(), fmt.Sprintf("%d direct Report calls in the step loop (want 0: shootStep reports)", n))
		}
		// one fresh sample per step: Acquire inside the loop, handed to shootStep
		var stepCall *ssa.Call
		EachInstr(loop, func(in ssa.Instruction) {
			if cl, ok := in.(*ssa.Call); ok && cl.Call.StaticCallee() == step {
				stepCall = cl
			}
		})
		if stepCall != nil {
			acq, _ := CallOfValue(stepCall.Call.Args[2])
			okAcq := acq != nil && MatchCC(&acq.Call, sAcquireSmp) && sameInnermostLoop(acq.Block(), stepCall.Block()) && loopHeaderOf(acq.Block()) != nil
			c.Check(okAcq, "O10.1", fk(loop)+":fresh-sample-per-step", stepCall.Pos(), "each step gets a sample acquired in the same loop iteration")
		}
	}
}

func joinIv(a, b Interval) Interval {
	if b.Min < a.Min {
		a.Min = b.Min
	}
	if b.Max > a.Max {
		a.Max = b.Max
	}
	return a
}

// assumeNil: at every If comparing a value satisfying pred with nil only the nil edge passes.
func assumeNil(pred ValPred) func(from, to *ssa.BasicBlock) bool {
	nn := AssumeNonNil(pred)
	return func(from, to *ssa.BasicBlock) bool {
		if len(from.Succs) != 2 {
			return true
		}
		// the edge is allowed iff the other edge is the non-nil edge
		a, b := nn(from, from.Succs[0]), nn(from, from.Succs[1])
		if a && b {
			return true
		}
		if to == from.Succs[0] {
			return !a
		}
		return !b
	}
}

// ---- O10.2

func c10GrpcTable(c *Ctx) {
	P := c.P
	fn := P.Func("components/guns/grpc", "", "ConvertGrpcStatus")
	if fn == nil {
		c.Anchor("O10.2", "components/guns/grpc.ConvertGrpcStatus")
		return
	}
	key := fk(fn)
	// documented table
	doc := filepath.Join(P.Dir, "docs/eng/grpc-generator.md")
	f, err := os.Open(doc)
	if err != nil {
		c.Anchor("O10.2", "docs/eng/grpc-generator.md")
		return
	}
	defer f.Close()
	want := map[int64]int64{}
	names := map[int64]string{}
	var unknown int64 = -1
	row := regexp.MustCompile(`^\|\s*([A-Za-z]+)[^|]*\|\s*([0-9-]+)\s*\|\s*([0-9]+)\s*\|`)
	sc := bufio.NewScanner(f)
	for sc.Scan() {
		m := row.FindStringSubmatch(sc.Text())
		if m == nil {
			continue
		}
		http, _ := strconv.ParseInt(m[3], 10, 64)
		if m[2] == "-" {
			unknown = http
			continue
		}
		code, _ := strconv.ParseInt(m[2], 10, 64)
		want[code] = http
		names[code] = m[1]
	}
	c.Floor("O10.2", "rows of the documented gRPC->HTTP table", len(want), 14)
	if unknown < 0 {
		c.Anchor("O10.2", "the 'unknown' row of the documented table")
		return
	}
	// the switched value: Code() of status.Convert(err)
	var codeCall *ssa.Call
	EachInstr(fn, func(in ssa.Instruction) {
		if cl, ok := in.(*ssa.Call); ok && MatchCC(&cl.Call, Spec{"google.golang.org/grpc/status", "Status", "Code"}, Spec{"google.golang.org/grpc/internal/status", "Status", "Code"}) {
			codeCall = cl
		}
	})
	// the one-call spelling status.Code(err) (the same value, for a nil error as well: codes.OK)
	direct := false
	if codeCall == nil {
		EachInstr(fn, func(in ssa.Instruction) {
			if cl, ok := in.(*ssa.Call); ok && MatchCC(&cl.Call, Spec{"google.golang.org/grpc/status", "", "Code"}) {
				codeCall, direct = cl, true
			}
		})
	}
	if codeCall == nil {
		c.Anchor("O10.2", "status.Convert(err).Code() in ConvertGrpcStatus")
		return
	}
	okSrc := direct && len(fn.Params) == 1 && codeCall.Call.Args[0] == ssa.Value(fn.Params[0])
	if conv, _ := CallOfValue(codeCall.Call.Args[0]); conv != nil && MatchCC(&conv.Call, Spec{"google.golang.org/grpc/status", "", "Convert"}) && len(fn.Params) == 1 && conv.Call.Args[0] == ssa.Value(fn.Params[0]) {
		okSrc = true
	}
	c.Check(okSrc, "O10.2", key+":switches-on-the-status-of-its-argument", codeCall.Pos(), "the code switched on must be status.Convert(err).Code() of the function's argument")
	// evaluate every return: facts code == k (case) or all != (default)
	// evaluate the function for a given code: follow the branches that compare the code with constants (any arrangement
	// of switch cases, grouped cases, if chains) down to the constant that is returned
	// a package-level array used as the table: its elements as stored by the package initialiser (and nowhere else)
	tableOf := func(g *ssa.Global) (map[int64]int64, bool) {
		tbl := map[int64]int64{}
		ok := true
		for _, f := range PkgFuncs(g.Pkg) {
			EachInstr(f, func(in ssa.Instruction) {
				st, isSt := in.(*ssa.Store)
				if !isSt {
					return
				}
				ia, isIA := st.Addr.(*ssa.IndexAddr)
				if isIA && ia.X == ssa.Value(g) {
					i, okI := ConstInt(ia.Index)
					v, okV := ConstInt(st.Val)
					if !okI || !okV || f.Name() != "init" {
						ok = false
						return
					}
					tbl[i] = v
					return
				}
				if st.Addr == ssa.Value(g) {
					ok = false // the table is replaced somewhere
				}
			})
		}
		return tbl, ok
	}
	// a package-level map used as the table: made and filled with constants by the package initialiser, written nowhere else
	mapTableOf := func(g *ssa.Global) (map[int64]int64, bool) {
		tbl := map[int64]int64{}
		ok := true
		var made ssa.Value
		for _, f := range PkgFuncs(g.Pkg) {
			EachInstr(f, func(in ssa.Instruction) {
				switch x := in.(type) {
				case *ssa.Store:
					if x.Addr == ssa.Value(g) {
						if _, isMk := x.Val.(*ssa.MakeMap); !isMk || f.Name() != "init" || made != nil {
							ok = false
							return
						}
						made = x.Val
					}
				case *ssa.MapUpdate:
					fromG := x.Map == made && made != nil
					if u, isU := x.Map.(*ssa.UnOp); isU && u.X == ssa.Value(g) {
						fromG = true
					}
					if mk, isMk := x.Map.(*ssa.MakeMap); isMk && f.Name() == "init" {
						// the literal is filled before it is stored: accept when this MakeMap is the one stored into g
						for _, r := range *mk.Referrers() {
							if st, isSt := r.(*ssa.Store); isSt && st.Addr == ssa.Value(g) {
								fromG = true
							}
						}
					}
					if !fromG {
						return
					}
					kk, okK := ConstInt(x.Key)
					vv, okV := ConstInt(x.Value)
					if !okK || !okV || f.Name() != "init" {
						ok = false
						return
					}
					tbl[kk] = vv
				case *ssa.Call:
					// delete(table, k) / clear(table) anywhere
					if b, isB := x.Call.Value.(*ssa.Builtin); isB && (b.Name() == "delete" || b.Name() == "clear") && len(x.Call.Args) > 0 {
						if u, isU := x.Call.Args[0].(*ssa.UnOp); isU && u.X == ssa.Value(g) {
							ok = false
						}
					}
				}
			})
		}
		return tbl, ok && made != nil
	}
	// table[code] of such a map: (value, present, resolved)
	mapLookup := func(lk *ssa.Lookup, k int64, iv func(ssa.Value, int64, int) (int64, bool), d int) (int64, bool, bool) {
		u, isU := lk.X.(*ssa.UnOp)
		if !isU {
			return 0, false, false
		}
		g, isG := u.X.(*ssa.Global)
		if !isG {
			return 0, false, false
		}
		if _, isMap := g.Type().Underlying().(*types.Pointer).Elem().Underlying().(*types.Map); !isMap {
			return 0, false, false
		}
		key, okK := iv(lk.Index, k, d+1)
		tbl, okT := mapTableOf(g)
		if !okK || !okT {
			return 0, false, false
		}
		v, present := tbl[key]
		return v, present, true
	}
	// the integer value of v when the code is k
	var intVal func(v ssa.Value, k int64, d int) (int64, bool)
	intVal = func(v ssa.Value, k int64, d int) (int64, bool) {
		if d > 6 {
			return 0, false
		}
		if c2, isC := ConstInt(v); isC {
			return c2, true
		}
		if v == ssa.Value(codeCall) {
			return k, true
		}
		switch x := v.(type) {
		case *ssa.Convert:
			return intVal(x.X, k, d+1)
		case *ssa.ChangeType:
			return intVal(x.X, k, d+1)
		case *ssa.Lookup:
			if !x.CommaOk {
				if val, _, ok := mapLookup(x, k, intVal, d); ok {
					return val, true // the zero value where the key is absent
				}
			}
		case *ssa.Extract:
			if lk, isLk := x.Tuple.(*ssa.Lookup); isLk && lk.CommaOk && x.Index == 0 {
				if val, _, ok := mapLookup(lk, k, intVal, d); ok {
					return val, true
				}
			}
		case *ssa.Phi:
			// not followed: evalFor walks one concrete path and never needs a merge of two returns
		case *ssa.UnOp:
			// table[code]
			if ia, ok := x.X.(*ssa.IndexAddr); ok && x.Op == token.MUL {
				if g, isG := ia.X.(*ssa.Global); isG {
					if arr, isArr := g.Type().Underlying().(*types.Pointer).Elem().Underlying().(*types.Array); isArr {
						idx, okI := intVal(ia.Index, k, d+1)
						tbl, okT := tableOf(g)
						if okI && okT && idx >= 0 && idx < arr.Len() {
							return tbl[idx], true
						}
					}
				}
			}
		case *ssa.Index:
			if u, ok := x.X.(*ssa.UnOp); ok {
				if g, isG := u.X.(*ssa.Global); isG {
					if arr, isArr := g.Type().Underlying().(*types.Pointer).Elem().Underlying().(*types.Array); isArr {
						idx, okI := intVal(x.Index, k, d+1)
						tbl, okT := tableOf(g)
						if okI && okT && idx >= 0 && idx < arr.Len() {
							return tbl[idx], true
						}
					}
				}
			}
		}
		return 0, false
	}
	evalFor := func(k int64) (int64, bool) {
		b := fn.Blocks[0]
		for steps := 0; steps < 4*len(fn.Blocks)+8; steps++ {
			switch last := b.Instrs[len(b.Instrs)-1].(type) {
			case *ssa.Return:
				if len(last.Results) != 1 {
					return 0, false
				}
				return intVal(last.Results[0], k, 0)
			case *ssa.Jump:
				b = b.Succs[0]
			case *ssa.If:
				subj, pol := BoolSubject(last.Cond)
				// `v, ok := table[code]; if ok`
				if ex, isEx := subj.(*ssa.Extract); isEx && ex.Index == 1 {
					if lk, isLk := ex.Tuple.(*ssa.Lookup); isLk && lk.CommaOk {
						_, present, okL := mapLookup(lk, k, intVal, 0)
						if !okL {
							return 0, false
						}
						if present == pol {
							b = b.Succs[0]
						} else {
							b = b.Succs[1]
						}
						continue
					}
				}
				bo, ok := subj.(*ssa.BinOp)
				if !ok {
					return 0, false
				}
				x, okX := intVal(bo.X, k, 0)
				y, okY := intVal(bo.Y, k, 0)
				if !okX || !okY {
					return 0, false
				}
				var truth bool
				switch bo.Op {
				case token.EQL:
					truth = x == y
				case token.NEQ:
					truth = x != y
				case token.LSS:
					truth = x < y
				case token.LEQ:
					truth = x <= y
				case token.GTR:
					truth = x > y
				case token.GEQ:
					truth = x >= y
				default:
					return 0, false
				}
				if truth == pol {
					b = b.Succs[0]
				} else {
					b = b.Succs[1]
				}
			default:
				return 0, false
			}
		}
		return 0, false
	}
	got := map[int64]int64{}
	def, okDef := evalFor(1 << 40) // a value no case names
	nDefault := 0
	if okDef {
		nDefault = 1
	} else {
		def = -1
	}
	nonConst := false
	for _, b := range fn.Blocks {
		if r, ok := b.Instrs[len(b.Instrs)-1].(*ssa.Return); ok && len(r.Results) == 1 {
			if _, isK := ConstInt(r.Results[0]); !isK {
				if _, okT := intVal(r.Results[0], 0, 0); okT {
					continue // an element of a constant package-level table
				}
				nonConst = true
				c.Bad("O10.2", key+":constant-results", r.Pos(), "ConvertGrpcStatus must return table constants")
			}
		}
	}
	_ = nonConst
	// every grpc code constant
	codesPkg := P.ByPkg["google.golang.org/grpc/codes"]
	if codesPkg == nil {
		c.Anchor("O10.2", "package google.golang.org/grpc/codes")
		return
	}
	codeT := codesPkg.Types.Scope().Lookup("Code")
	var all []int64
	cname := map[int64]string{}
	for _, n := range codesPkg.Types.Scope().Names() {
		if cst, ok := codesPkg.Types.Scope().Lookup(n).(*types.Const); ok && codeT != nil && types.Identical(cst.Type(), codeT.Type()) {
			if v, ok := constant.Int64Val(cst.Val()); ok && !strings.HasPrefix(n, "_") {
				all = append(all, v)
				cname[v] = n
			}
		}
	}
	sort.Slice(all, func(i, j int) bool { return all[i] < all[j] })
	c.Floor("O10.2", "constants of codes.Code", len(all), 17)
	for _, k := range all {
		if v, ok := evalFor(k); ok {
			got[k] = v
		} else {
			c.Unknown("O10.2", fmt.Sprintf("%s:code-%d-evaluates", key, k), fn.Pos(), "cannot follow the branches of ConvertGrpcStatus for this code (a condition that is not a comparison of the code with a constant)")
		}
	}
	c.Check(nDefault == 1 && def == unknown, "O10.2", key+":default-is-the-documented-unknown", fn.Pos(), fmt.Sprintf("default returns %d, documented 'unknown' -> %d", def, unknown))
	for _, k := range all {
		w, documented := want[k]
		if !documented {
			w = unknown
		}
		g, has := got[k]
		if !has {
			g = def
		}
		c.Check(g == w, "O10.2", fmt.Sprintf("%s:code-%d-%s", key, k, cname[k]), fn.Pos(), fmt.Sprintf("codes.%s (%d) -> %d, documented %d (row present: %v)", cname[k], k, g, w, documented))
	}
	// the documented names agree with the grpc constant names (guards the table parser)
	for k, n := range names {
		if cname[k] != "" && !strings.EqualFold(cname[k], n) {
			c.Bad("O10.2", fmt.Sprintf("docs/eng/grpc-generator.md:row-%d", k), fn.Pos(), fmt.Sprintf("documented name %q for code %d, grpc calls it %q", n, k, cname[k]))
		}
	}
}

// ---- O10.3

func c10ProtoCode(c *Ctx) {
	P := c.P
	// HTTP
	if shoot := P.Func("components/guns/http", "BaseGun", "Shoot"); shoot != nil {
		// the function that performs the exchange: Shoot itself or a helper it hands the request to
		holder, do := findCallIn(shoot, "Do")
		if holder != nil {
			shoot = holder
		}
		key := fk(shoot)
		if do == nil {
			c.Anchor("O10.3", "Client.Do in BaseGun.Shoot")
		} else {
			isStatus := func(v ssa.Value) bool {
				for _, r := range Roots(v, false) {
					fv, base := FieldOf(r)
					if fv == nil || fv.Name() != "StatusCode" || !DerivesOnly(base, false, IsResultOf(do, 0)) {
						return false
					}
				}
				return true
			}
			e, _ := errResult(do)
			// err lives in a cell shared with the deferred report (whose own store is always visible): "derives any"
			isE := func(v ssa.Value) bool {
				return e != nil && DerivesAny(v, false, func(r ssa.Value) bool { return r == e })
			}
			w := func(in ssa.Instruction) (int, int) {
				if IsCall(in, sSetProto) {
					if isStatus(CC(in).Args[1]) {
						return 1, 1
					}
					return 5, 5
				}
				return 0, 0
			}
			iv := PathQuery{Fn: shoot, Start: do, Weight: w, Edge: assumeNil(isE), Exit: func(b *ssa.BasicBlock) bool { return ExitOf(b) == ExitReturn && b != shoot.Recover }}.Count()
			c.Check(iv.Is(1, 1), "O10.3", key+":received-status-recorded-on-every-path", do.Pos(), fmt.Sprintf("after Client.Do succeeded, SetProtoCode(res.StatusCode) per path to the exit = %v (want [1,1]: a body read failure must not lose the status)", iv))
			ivE := PathQuery{Fn: shoot, Start: do, Weight: func(in ssa.Instruction) (int, int) {
				if IsCall(in, sSetProto) {
					return 1, 1
				}
				return 0, 0
			}, Edge: AssumeNonNil(isE), Exit: func(b *ssa.BasicBlock) bool { return ExitOf(b) == ExitReturn && b != shoot.Recover }}.Count()
			c.Check(ivE.Is(0, 0), "O10.3", key+":no-status-without-response", do.Pos(), fmt.Sprintf("after Client.Do failed, SetProtoCode calls = %v (want [0,0])", ivE))
		}
	} else {
		c.Anchor("O10.3", "components/guns/http.(*BaseGun).Shoot")
	}
	// HTTP scenario: success path sets resp.StatusCode before Report
	if step := P.Func("components/guns/http_scenario", "ScenarioGun", "shootStep"); step != nil {
		var do *ssa.Call
		EachInstr(step, func(in ssa.Instruction) {
			if cl, ok := in.(*ssa.Call); ok && cl.Call.IsInvoke() && cl.Call.Method.Name() == "Do" {
				do = cl
			}
		})
		ok := false
		if do != nil {
			EachInstr(step, func(in ssa.Instruction) {
				if !isReport(in) {
					return
				}
				EachInstr(step, func(sp ssa.Instruction) {
					if IsCall(sp, sSetProto) && InstrDominates(sp, in) {
						for _, r := range Roots(CC(sp).Args[1], false) {
							fv, base := FieldOf(r)
							if fv != nil && fv.Name() == "StatusCode" && DerivesOnly(base, false, IsResultOf(do, 0)) && sameRoots(CC(sp).Args[0], CC(in).Args[0]) {
								ok = true
							}
						}
					}
				})
			})
		}
		c.Check(ok, "O10.3", fk(step)+":reported-sample-carries-the-received-status", step.Pos(), "the sample reported by shootStep has SetProtoCode(resp.StatusCode) of this step's response")
	} else {
		c.Anchor("O10.3", "components/guns/http_scenario.(*ScenarioGun).shootStep")
	}
	// gRPC guns: the deferred SetProtoCode(code) reads the variable assigned ConvertGrpcStatus(grpcErr) after InvokeRpc
	for _, g := range []struct{ rel, recv, name string }{{"components/guns/grpc", "Gun", "shoot"}, {"components/guns/grpc/scenario", "Gun", "shootStep"}} {
		fn := P.Func(g.rel, g.recv, g.name)
		if fn == nil {
			c.Anchor("O10.3", g.rel+"."+g.name)
			continue
		}
		key := fk(fn)
		var inv *ssa.Call
		EachInstr(fn, func(in ssa.Instruction) {
			if cl, ok := in.(*ssa.Call); ok && MatchCC(&cl.Call, Spec{"github.com/jhump/protoreflect/dynamic/grpcdynamic", "Stub", "InvokeRpc"}) {
				inv = cl
			}
		})
		if inv == nil {
			// ... or in a helper of the package that only this function calls and that returns InvokeRpc's results as
			// they are (g.invoke(method, message, md)): the call of the helper stands for the invocation
			EachInstr(fn, func(in ssa.Instruction) {
				cl, ok := in.(*ssa.Call)
				if !ok || cl.Call.StaticCallee() == nil || PkgOf(cl.Call.StaticCallee()) != PkgOf(fn) || SoleCallSite(cl.Call.StaticCallee()) != in {
					return
				}
				h := cl.Call.StaticCallee()
				var rpc *ssa.Call
				EachInstr(h, func(i2 ssa.Instruction) {
					if c2, ok := i2.(*ssa.Call); ok && MatchCC(&c2.Call, Spec{"github.com/jhump/protoreflect/dynamic/grpcdynamic", "Stub", "InvokeRpc"}) {
						rpc = c2
					}
				})
				if rpc == nil {
					return
				}
				asIs := true
				EachInstr(h, func(i2 ssa.Instruction) {
					ret, ok := i2.(*ssa.Return)
					if !ok || ret.Block() == h.Recover {
						return
					}
					for i, res := range ret.Results {
						if !DerivesOnly(res, false, IsResultOf(rpc, i)) {
							asIs = false
						}
					}
				})
				if asIs {
					inv = cl
				}
			})
		}
		if inv == nil {
			c.Anchor("O10.3", "Stub.InvokeRpc in "+key)
			continue
		}
		gerr, _ := errResult(inv)
		// conversion call fed with the rpc error
		var conv *ssa.Call
		EachInstr(fn, func(in ssa.Instruction) {
			if cl, ok := in.(*ssa.Call); ok && MatchCC(&cl.Call, Spec{"./components/guns/grpc", "", "ConvertGrpcStatus"}) {
				if gerr != nil && DerivesOnly(cl.Call.Args[0], false, func(v ssa.Value) bool { return v == gerr }) {
					conv = cl
				}
			}
		})
		if conv == nil {
			c.Bad("O10.3", key+":status-converted-from-the-rpc-error", inv.Pos(), "ConvertGrpcStatus must be applied to the error returned by InvokeRpc")
			continue
		}
		// the code cell: the Alloc the conversion result is stored to; it post-dominates... every path after InvokeRpc stores it before exit
		var cell *ssa.Alloc
		// ... or a field of a small result object made for this shot (res := &shotResult{...}; res.code = ...)
		var objCell *ssa.Alloc
		objField := -1
		for _, r := range *conv.Referrers() {
			if st, ok := r.(*ssa.Store); ok && st.Val == ssa.Value(conv) {
				if a, ok := st.Addr.(*ssa.Alloc); ok {
					cell = a
				}
				if fa, ok := st.Addr.(*ssa.FieldAddr); ok {
					if a, ok := fa.X.(*ssa.Alloc); ok && a.Parent() == fn {
						objCell, objField = a, fa.Field
					}
				}
			}
		}
		if cell == nil && objCell != nil {
			okObj := InstrDominates(inv, conv) && NewPostDom(fn, false).PostDominates(conv.Block(), inv.Block())
			// no other store to that field after the conversion
			EachInstr(fn, func(in ssa.Instruction) {
				if st, ok := in.(*ssa.Store); ok && st.Val != ssa.Value(conv) {
					if fa, ok := st.Addr.(*ssa.FieldAddr); ok && fa.X == ssa.Value(objCell) && fa.Field == objField && CanReach(conv, st) {
						okObj = false
					}
				}
			})
			// a deferred method of the object reads the field into SetProtoCode
			okRead := false
			EachInstr(fn, func(di ssa.Instruction) {
				d, ok := di.(*ssa.Defer)
				if !ok || d.Call.StaticCallee() == nil || len(d.Call.Args) == 0 || d.Call.Args[0] != ssa.Value(objCell) {
					return
				}
				df := d.Call.StaticCallee()
				EachInstr(df, func(in ssa.Instruction) {
					if !IsCall(in, sSetProto) {
						return
					}
					if u, ok := Strip(CC(in).Args[1]).(*ssa.UnOp); ok && u.Op == token.MUL {
						if fa, ok := u.X.(*ssa.FieldAddr); ok && fa.Field == objField && len(df.Params) > 0 && fa.X == ssa.Value(df.Params[0]) {
							okRead = true
						}
					}
				})
			})
			c.Check(okObj && okRead, "O10.3", key+":reported-code-is-the-converted-rpc-status", conv.Pos(),
				fmt.Sprintf("code = ConvertGrpcStatus(grpcErr) stored in the shot's result object on every path after InvokeRpc and not overwritten: %v; the deferred report reads that field: %v", okObj, okRead))
			continue
		}
		okStore := cell != nil && InstrDominates(inv, conv) && NewPostDom(fn, false).PostDominates(conv.Block(), inv.Block())
		// no other store to the cell after the conversion
		if cell != nil {
			for _, st := range StoresTo(cell) {
				if st.Val != ssa.Value(conv) && st.Parent() == fn && CanReach(conv, st) {
					okStore = false
				}
			}
		}
		// the deferred closure reads the cell into SetProtoCode
		okDefer := false
		// ... or a deferred method that gets the cell by pointer: defer g.reportStep(sample, &code)
		EachInstr(fn, func(di ssa.Instruction) {
			d, ok := di.(*ssa.Defer)
			if !ok || cell == nil {
				return
			}
			df := d.Call.StaticCallee()
			if df == nil || len(df.Blocks) == 0 {
				return
			}
			EachInstr(df, func(in ssa.Instruction) {
				if !IsCall(in, sSetProto) {
					return
				}
				u, ok := Strip(CC(in).Args[1]).(*ssa.UnOp)
				if !ok || u.Op != token.MUL {
					return
				}
				for i, p := range df.Params {
					if ssa.Value(p) == u.X && i < len(d.Call.Args) && d.Call.Args[i] == ssa.Value(cell) {
						okDefer = true
					}
				}
			})
		})
		for _, cl := range fn.AnonFuncs {
			EachInstr(cl, func(in ssa.Instruction) {
				if IsCall(in, sSetProto) {
					for _, r := range Roots(CC(in).Args[1], false) {
						if u, ok := r.(*ssa.UnOp); ok {
							if fv, ok := u.X.(*ssa.FreeVar); ok {
								if a, _ := CellOf(fv); a == cell && cell != nil {
									okDefer = true
								}
							}
						}
					}
					// Roots resolves captured cells to their stores: accept the conversion result among them
					if DerivesAny(CC(in).Args[1], false, func(v ssa.Value) bool { return v == ssa.Value(conv) }) {
						okDefer = true
					}
				}
			})
		}
		c.Check(okStore && okDefer, "O10.3", key+":reported-code-is-the-converted-rpc-status", conv.Pos(),
			fmt.Sprintf("code = ConvertGrpcStatus(grpcErr) stored on every path after InvokeRpc and not overwritten: %v; the deferred report reads that variable: %v", okStore, okDefer))
		// before the call the only codes are the constants 0 (invalid ammo) and 400 (payload rejected)
		if cell != nil {
			okConst := true
			var ks []int64
			for _, st := range StoresTo(cell) {
				if st.Val == ssa.Value(conv) {
					continue
				}
				// (the constant itself, or what a helper of the package returns in that position: code = failCode)
				for _, t := range ThroughReturns(st.Val) {
					k, isK := ConstInt(t)
					if !isK || (k != 0 && k != 400) {
						okConst = false
					}
					ks = append(ks, k)
				}
			}
			c.Check(okConst, "O10.3", key+":codes-without-a-call", fn.Pos(), fmt.Sprintf("codes stored without an RPC: %v (allowed: 0 = not sent, 400 = payload rejected)", ks))
		}
	}
}

// ---- O10.4

func c10NetCode(c *Ctx) {
	P := c.P
	if shoot := P.Func("components/guns/http", "BaseGun", "Shoot"); shoot != nil {
		if holder, _ := findCallIn(shoot, "Do"); holder != nil {
			shoot = holder
		}
		// the deferred closure: SetErr(err) on err != nil, with err the variable assigned by Client.Do / io.Copy
		var dfn *ssa.Function
		EachInstr(shoot, func(in ssa.Instruction) {
			if d, ok := in.(*ssa.Defer); ok {
				if mc, ok := d.Call.Value.(*ssa.MakeClosure); ok {
					fn := mc.Fn.(*ssa.Function)
					if HasCall(fn, sSetErr) {
						dfn = fn
					}
				} else if sc := d.Call.StaticCallee(); sc != nil && len(sc.Blocks) > 0 && PkgOf(sc) == PkgOf(shoot) && HasCall(sc, sSetErr) {
					dfn = sc // the deferred method of a small outcome object made for this shot (defer outcome.report())
				}
			}
		})
		if dfn == nil {
			c.Bad("O10.4", fk(shoot)+":deferred-SetErr", shoot.Pos(), "no deferred closure calling sample.SetErr")
		} else {
			se := Calls(dfn, sSetErr)
			ok := len(se) == 1
			if ok {
				arg := CC(se[0]).Args[1]
				guarded := false
				// (where the error lives in a field of the outcome object: the field, read again)
				argField, _ := FieldOf(Strip(arg))
				sameErr := func(v ssa.Value) bool {
					if sameRoots(v, arg) {
						return true
					}
					fv, _ := FieldOf(Strip(v))
					return argField != nil && fv == argField
				}
				// errReaches: the error value e is what SetErr will see - the captured variable, or a store into that field
				errReaches := func(e ssa.Value) bool {
					if e == nil {
						return false
					}
					if DerivesAny(arg, false, func(v ssa.Value) bool { return v == e }) {
						return true
					}
					if argField == nil || e.Referrers() == nil {
						return false
					}
					for _, r := range *e.Referrers() {
						if st, isSt := r.(*ssa.Store); isSt && st.Val == e {
							if fv, _ := FieldOf(st.Addr); fv == argField {
								return true
							}
						}
					}
					return false
				}
				for _, f := range CmpFactsAt(se[0]) {
					if f.Op == token.NEQ && IsNilConst(f.Y) && sameErr(f.X) {
						guarded = true
					}
				}
				// and the report follows on both edges (O10.1); SetErr before Report
				before := false
				EachInstr(dfn, func(in ssa.Instruction) {
					if isReport(in) && CanReach(se[0], in) {
						before = true
					}
				})
				// the err variable is the one Client.Do's error is stored to
				var do *ssa.Call
				EachInstr(shoot, func(in ssa.Instruction) {
					if cl, ok := in.(*ssa.Call); ok && cl.Call.IsInvoke() && cl.Call.Method.Name() == "Do" {
						do = cl
					}
				})
				fromDo := false
				if do != nil {
					e, _ := errResult(do)
					fromDo = errReaches(e)
				}
				ok = guarded && before && fromDo
				c.Check(ok, "O10.4", fk(shoot)+":net-code-from-the-exchange-error", se[0].Pos(), fmt.Sprintf("SetErr(err) only on err != nil: %v; before Report: %v; err is (among others) the error of Client.Do: %v", guarded, before, fromDo))
				// the exchange includes the body: after a successful Do every path to a normal return drains the
				// response body with a read whose error lands in that same variable (a body that breaks off is a failed
				// exchange: its errno-style net code comes from this error)
				if do != nil {
					isBodyRead := func(in ssa.Instruction) bool {
						cl, isCall := in.(*ssa.Call)
						if !isCall || !MatchCC(&cl.Call, Spec{"io", "", "Copy"}, Spec{"io", "", "ReadAll"}, Spec{"io/ioutil", "", "ReadAll"}, Spec{"io", "", "CopyN"}, Spec{"io", "", "CopyBuffer"}) {
							return false
						}
						fromBody := false
						for _, a := range cl.Call.Args {
							if DerivesAny(a, false, func(v ssa.Value) bool {
								fv, base := FieldOf(Strip(v))
								if fv == nil || fv.Name() != "Body" {
									return false
								}
								_, tn := NamedOf(base.Type())
								return tn == "Response"
							}) {
								fromBody = true
							}
						}
						if !fromBody {
							return false
						}
						// its error goes where SetErr looks
						e, _ := errResult(cl)
						if e == nil {
							return false
						}
						return errReaches(e)
					}
					errNil := func(op token.Token) func(ssa.Value) bool {
						return func(v ssa.Value) bool {
							b, isB := v.(*ssa.BinOp)
							return isB && b.Op == op && IsNilConst(b.Y) && types.Identical(b.X.Type(), errType)
						}
					}
					// (a response without a body - res.Body == http.NoBody - has nothing to drain: such paths are left out)
					noBody := func(op token.Token) func(ssa.Value) bool {
						return func(v ssa.Value) bool {
							b, isB := v.(*ssa.BinOp)
							if !isB || b.Op != op {
								return false
							}
							for _, side := range []ssa.Value{b.X, b.Y} {
								if u, ok := Strip(side).(*ssa.UnOp); ok && u.Op == token.MUL {
									if g, isG := u.X.(*ssa.Global); isG && g.Name() == "NoBody" && g.Pkg != nil && g.Pkg.Pkg.Path() == "net/http" {
										return true
									}
								}
							}
							return false
						}
					}
					iv := PathQuery{Fn: shoot, Start: do, Assume: []Assumption{{Pred: errNil(token.NEQ), Val: false}, {Pred: errNil(token.EQL), Val: true}, {Pred: noBody(token.EQL), Val: false}, {Pred: noBody(token.NEQ), Val: true}},
						Exit: func(b *ssa.BasicBlock) bool { return ExitOf(b) == ExitReturn && b != shoot.Recover },
						Weight: func(in ssa.Instruction) (int, int) {
							if isBodyRead(in) {
								return 1, 1
							}
							return 0, 0
						}}.Count()
					c.Check(!iv.NoPath && iv.Min >= 1, "O10.4", fk(shoot)+":body-read-belongs-to-the-exchange", do.Pos(),
						fmt.Sprintf("reads of the response body whose error reaches SetErr, on the paths from a successful Do to a normal return = %v (want at least 1 on every path); witness %s", iv, PathString(iv.MinPath)))
				}
			} else {
				c.Bad("O10.4", fk(shoot)+":net-code-from-the-exchange-error", dfn.Pos(), fmt.Sprintf("%d SetErr calls in the deferred report (want 1)", len(se)))
			}
		}
	} else {
		c.Anchor("O10.4", "components/guns/http.(*BaseGun).Shoot")
	}
	// getErrno
	ge := P.Func("core/aggregator/netsample", "", "getErrno")
	if ge == nil {
		c.Anchor("O10.4", "netsample.getErrno")
		return
	}
	key := fk(ge)
	pk := P.Pkg("core/aggregator/netsample")
	var protoErr int64 = -1
	if cst, ok := pk.Types.Scope().Lookup("ProtoCodeError").(*types.Const); ok {
		protoErr, _ = constant.Int64Val(cst.Val())
	}
	c.Check(protoErr == 999, "O10.4", "netsample.ProtoCodeError:value", ge.Pos(), fmt.Sprintf("ProtoCodeError = %d (documented fallback net code 999)", protoErr))
	n110, n999, nErrno, nOther := 0, 0, 0, 0
	for _, b := range ge.Blocks {
		r, ok := b.Instrs[len(b.Instrs)-1].(*ssa.Return)
		if !ok {
			continue
		}
		if k, isK := ConstInt(r.Results[0]); isK {
			switch k {
			case 110:
				// dominated by Timeout() == true
				okT := false
				for _, bf := range BoolFactsAt(r) {
					if cl, _ := CallOfValue(bf.Subj); cl != nil && bf.Val && cl.Call.IsInvoke() && cl.Call.Method.Name() == "Timeout" {
						okT = true
					}
				}
				c.Check(okT, "O10.4", key+":110-only-on-timeout", r.Pos(), "110 is returned only on the Timeout() edge of a net.Error")
				n110++
			case protoErr:
				n999++
			default:
				nOther++
				c.Bad("O10.4", key+":constant-net-codes", r.Pos(), fmt.Sprintf("unexpected constant net code %d", k))
			}
			continue
		}
		// computed: must be int(syscall.Errno)
		okE := false
		for _, rt := range Roots(r.Results[0], false) {
			if ta, ok := rt.(*ssa.TypeAssert); ok {
				if p, n := NamedOf(ta.AssertedType); p == "syscall" && n == "Errno" {
					okE = true
				}
			}
			if ex, ok := rt.(*ssa.Extract); ok {
				if ta, ok := ex.Tuple.(*ssa.TypeAssert); ok {
					if p, n := NamedOf(ta.AssertedType); p == "syscall" && n == "Errno" {
						okE = true
					}
				}
			}
		}
		c.Check(okE, "O10.4", key+":errno-from-syscall.Errno", r.Pos(), "a computed net code must be the value of a syscall.Errno found in the error chain")
		nErrno++
	}
	c.Check(n110 == 1 && n999 >= 1 && nErrno >= 1 && nOther == 0, "O10.4", key+":result-classes", ge.Pos(), fmt.Sprintf("returns: 110 x%d, ProtoCodeError x%d, errno x%d, other constants x%d", n110, n999, nErrno, nOther))
	// SetErr stores getErrno(err) (see also O6.5 key mapping)
	if se := P.Func("core/aggregator/netsample", "Sample", "SetErr"); se != nil {
		ok := false
		EachInstr(se, func(in ssa.Instruction) {
			if cl, ok2 := in.(*ssa.Call); ok2 && cl.Call.StaticCallee() == ge && cl.Call.Args[0] == ssa.Value(se.Params[1]) {
				ok = true
			}
		})
		c.Check(ok, "O10.4", fk(se)+":uses-getErrno", se.Pos(), "SetErr must derive the net code from getErrno(err)")
	}
}

// ---- O10.5

func c10Tags(c *Ctx) {
	P := c.P
	shoot := P.Func("components/guns/http", "BaseGun", "Shoot")
	if shoot == nil {
		c.Anchor("O10.5", "components/guns/http.(*BaseGun).Shoot")
	} else {
		key := fk(shoot)
		at := P.Func("components/guns/http", "", "autotag")
		pk := P.Pkg("components/guns/http")
		empty := ""
		if cst, ok := pk.Types.Scope().Lookup("EmptyTag").(*types.Const); ok {
			empty = constant.StringVal(cst.Val())
		}
		c.Check(empty == "__EMPTY__", "O10.5", "components/guns/http.EmptyTag:value", shoot.Pos(), fmt.Sprintf("EmptyTag = %q", empty))
		isTagsEmpty := func(f Fact) bool {
			// Tags() == ""
			for _, pr := range [][2]ssa.Value{{f.X, f.Y}, {f.Y, f.X}} {
				if cl, _ := CallOfValue(pr[0]); cl != nil && MatchCC(&cl.Call, sSampleTags) {
					if s, ok := ConstString(pr[1]); ok && s == "" {
						return true
					}
				}
			}
			return false
		}
		nAuto, nEmpty := 0, 0
		// Shoot and the helpers of the package it calls (tagSample, ...)
		eachInstr := func(f func(ssa.Instruction)) {
			for _, g := range FindFuncs(shoot, 2, func(*ssa.Function) bool { return true }) {
				EachInstr(g, f)
			}
		}
		eachInstr(func(in ssa.Instruction) {
			if !IsCall(in, sAddTag) {
				return
			}
			arg := CC(in).Args[1]
			if cl, _ := CallOfValue(arg); cl != nil && at != nil && cl.Call.StaticCallee() == at {
				nAuto++
				// Enabled && (!NoTagOnly || Tags() == ""): decided as a truth table - for each of the eight valuations of the
				// three conditions (however they are combined: nested ifs, a named boolean, De Morgan) the auto tag is
				// added on every path exactly when the formula holds
				en, okDisj := true, true
				var first ssa.Instruction
				EachInstr(in.Parent(), func(i2 ssa.Instruction) {
					if v, ok := i2.(ssa.Value); ok && first == nil && (IsFieldLoad(v, "AutoTagConfig", "Enabled") || IsFieldLoad(v, "AutoTagConfig", "NoTagOnly")) && InstrDominates(i2, in) {
						first = i2
					}
				})
				tagsCmp := func(op token.Token) func(ssa.Value) bool {
					return func(v ssa.Value) bool {
						b, ok := v.(*ssa.BinOp)
						return ok && b.Op == op && isTagsEmpty(Fact{Op: token.EQL, X: b.X, Y: b.Y})
					}
				}
				if first == nil {
					en, okDisj = false, false
				} else {
					for k := 0; k < 8; k++ {
						E, N, T := k&1 != 0, k&2 != 0, k&4 != 0
						iv := PathQuery{Fn: in.Parent(), Start: first, Shallow: true, Exit: func(*ssa.BasicBlock) bool { return false },
							Stop: func(i2 ssa.Instruction) bool { return i2 == in },
							Assume: []Assumption{
								{Pred: IsFieldLoadPred("AutoTagConfig", "Enabled"), Val: E},
								{Pred: IsFieldLoadPred("AutoTagConfig", "NoTagOnly"), Val: N},
								{Pred: tagsCmp(token.EQL), Val: T}, {Pred: tagsCmp(token.NEQ), Val: !T},
							}, Weight: func(ssa.Instruction) (int, int) { return 0, 0 }}.Count()
						reaches := !iv.NoPath
						want := E && (!N || T)
						if reaches != want {
							if !E {
								en = false
							} else {
								okDisj = false
							}
						}
					}
				}
				// arguments: URIElements and req.URL
				okArgs := IsFieldLoad(cl.Call.Args[0], "AutoTagConfig", "URIElements")
				c.Check(en && okDisj && okArgs, "O10.5", key+":auto-tag-condition", in.Pos(), fmt.Sprintf("autotag on Enabled (%v) && (!NoTagOnly || Tags()==\"\") (%v), depth = AutoTag.URIElements (%v)", en, okDisj, okArgs))
				return
			}
			if s, ok := ConstString(arg); ok && s == empty {
				// either the invalid-ammo branch or the Tags()=="" edge
				inv := false
				for _, bf := range BoolFactsAt(in) {
					if cl, _ := CallOfValue(bf.Subj); cl != nil && bf.Val && cl.Call.IsInvoke() && cl.Call.Method.Name() == "IsInvalid" {
						inv = true
					}
				}
				if inv {
					return
				}
				nEmpty++
				okE := false
				for _, f := range CmpFactsAt(in) {
					if f.Op == token.EQL && isTagsEmpty(f) {
						okE = true
					}
				}
				c.Check(okE, "O10.5", key+":empty-tag-only-when-untagged", in.Pos(), "__EMPTY__ is added exactly on the Tags() == \"\" edge")
			}
		})
		c.Check(nAuto == 1 && nEmpty == 1, "O10.5", key+":tagging-sites", shoot.Pos(), fmt.Sprintf("%d auto-tag site(s), %d __EMPTY__ site(s) (want 1 and 1)", nAuto, nEmpty))
		// order: autotag before the emptiness test; both before Client.Do
		// autotag body: path[:ind] with ind counting '/' up to depth
		if at != nil {
			okSlice := false
			EachInstr(at, func(in ssa.Instruction) {
				if r, ok := in.(*ssa.Return); ok {
					if sl, ok := r.Results[0].(*ssa.Slice); ok && sl.Low == nil {
						if fv, _ := FieldOf(sl.X); fv != nil && fv.Name() == "Path" {
							okSlice = true
						}
					}
				}
			})
			c.Check(okSlice, "O10.5", fk(at)+":prefix-of-the-URI-path", at.Pos(), "autotag returns a prefix URL.Path[:n]")
		}
	}
	// sample tag provenance
	// HTTP plain: GunAmmo.Request acquires with g.tag and sets the id
	if rq := P.Func("components/providers/http/ammo", "GunAmmo", "Request"); rq == nil {
		c.Anchor("O10.5", "components/providers/http/ammo.GunAmmo.Request")
	} else {
		ok, okID := false, false
		EachInstr(rq, func(in ssa.Instruction) {
			if IsCall(in, sAcquireSmp) && IsFieldLoad(CC(in).Args[0], "GunAmmo", "tag") {
				ok = true
			}
			if IsCall(in, Spec{"./core/aggregator/netsample", "Sample", "SetID"}) && IsFieldLoad(CC(in).Args[1], "GunAmmo", "id") {
				okID = true
			}
		})
		c.Check(ok && okID, "O10.5", fk(rq)+":sample-carries-ammo-tag-and-id", rq.Pos(), fmt.Sprintf("netsample.Acquire(g.tag): %v; SetID(g.id): %v", ok, okID))
	}
	// NewGunAmmo(req, ammo.Tag(), p.NextID()) in the provider
	if acq := P.Func("components/providers/http/provider", "Provider", "Acquire"); acq == nil {
		c.Anchor("O10.5", "http/provider.(*Provider).Acquire")
	} else {
		ok := false
		EachInstr(acq, func(in ssa.Instruction) {
			if IsCall(in, Spec{"./components/providers/http/ammo", "", "NewGunAmmo"}) {
				cc := CC(in)
				t, _ := CallOfValue(cc.Args[1])
				id, _ := CallOfValue(cc.Args[2])
				ok = t != nil && t.Call.IsInvoke() && t.Call.Method.Name() == "Tag" && id != nil && MatchCC(&id.Call, Spec{"./components/providers/base", "ProviderBase", "NextID"})
			}
		})
		c.Check(ok, "O10.5", fk(acq)+":gun-ammo-built-from-entry-tag-and-next-id", acq.Pos(), "NewGunAmmo(req, ammo.Tag(), p.NextID())")
	}
	if ng := P.Func("components/providers/http/ammo", "", "NewGunAmmo"); ng != nil {
		// field wiring by parameter
		okW := true
		EachInstr(ng, func(in ssa.Instruction) {
			st, ok := in.(*ssa.Store)
			if !ok {
				return
			}
			fa, ok := st.Addr.(*ssa.FieldAddr)
			if !ok {
				return
			}
			fv, _ := FieldOf(fa)
			if fv == nil {
				return
			}
			want := map[string]int{"req": 0, "tag": 1, "id": 2}
			if i, has := want[fv.Name()]; has && st.Val != ssa.Value(ng.Params[i]) {
				okW = false
			}
		})
		c.Check(okW, "O10.5", fk(ng)+":fields-from-same-named-parameters", ng.Pos(), "NewGunAmmo stores req, tag, id from its parameters in that order")
	}
	// scenario tags
	for _, sc := range []struct{ rel, recv, field string }{{"components/guns/http_scenario", "ScenarioGun", "Name"}, {"components/guns/grpc/scenario", "Gun", "Tag"}} {
		loop := P.Func(sc.rel, sc.recv, "shoot")
		if loop == nil {
			c.Anchor("O10.5", sc.rel+".shoot")
			continue
		}
		ok := false
		EachInstr(loop, func(in ssa.Instruction) {
			if !IsCall(in, sAcquireSmp) {
				return
			}
			// tag = ammo.Name + "." + step.<field>
			var parts []string
			var walk func(v ssa.Value)
			walk = func(v ssa.Value) {
				if bo, isB := v.(*ssa.BinOp); isB && bo.Op == token.ADD {
					walk(bo.X)
					walk(bo.Y)
					return
				}
				if s, isS := ConstString(v); isS {
					parts = append(parts, "lit:"+s)
					return
				}
				if fv, _ := FieldOf(v); fv != nil {
					parts = append(parts, "field:"+fv.Name())
					return
				}
				for _, r := range Roots(v, false) {
					if fv, _ := FieldOf(r); fv != nil {
						parts = append(parts, "field:"+fv.Name())
						return
					}
				}
				parts = append(parts, "?")
			}
			walk(CC(in).Args[0])
			ok = strings.Join(parts, ",") == "field:Name,lit:.,field:"+sc.field
			if !ok {
				c.Note("scenario tag parts in %s: %v", fk(loop), parts)
			}
		})
		c.Check(ok, "O10.5", fk(loop)+":sample-tag-is-scenario.step", loop.Pos(), "each step's sample is acquired with ammo.Name + \".\" + step."+sc.field)
	}
	// gRPC plain: Acquire(ammo.Tag)
	if shoot := P.Func("components/guns/grpc", "Gun", "shoot"); shoot != nil {
		ok := false
		EachInstr(shoot, func(in ssa.Instruction) {
			if IsCall(in, sAcquireSmp) && IsFieldLoad(CC(in).Args[0], "Ammo", "Tag") {
				ok = true
			}
		})
		c.Check(ok, "O10.5", fk(shoot)+":sample-tag-is-ammo-tag", shoot.Pos(), "netsample.Acquire(ammo.Tag)")
	}
}

// ---- O10.6

func c10IDs(c *Ctx) {
	P := c.P
	n := 0
	counterFields := map[*types.Var]bool{}
	lockedCounters := map[*types.Var]bool{}
	for _, t := range []struct{ rel, typ string }{{"components/providers/base", "ProviderBase"}, {"components/providers/grpc", "Provider"}} {
		pk := P.Pkg(t.rel)
		if pk == nil {
			c.Anchor("O10.6", "package "+t.rel)
			continue
		}
		tn, ok := pk.Types.Scope().Lookup(t.typ).(*types.TypeName)
		if !ok {
			c.Anchor("O10.6", t.rel+"."+t.typ)
			continue
		}
		st := tn.Type().Underlying().(*types.Struct)
		// the id counter: the field of atomic integer type (whatever it is called; by name if there are several)
		var fld *types.Var
		var atomics []*types.Var
		for i := 0; i < st.NumFields(); i++ {
			f := st.Field(i)
			if p, nm := NamedOf(f.Type()); (p == "sync/atomic" || p == "go.uber.org/atomic") && (nm == "Uint64" || nm == "Int64" || nm == "Uint32" || nm == "Int32") {
				atomics = append(atomics, f)
			}
			if f.Name() == "idCounter" {
				fld = f
			}
		}
		if fld == nil && len(atomics) == 1 {
			fld = atomics[0]
		}
		if fld != nil {
			if p, _ := NamedOf(fld.Type()); p != "sync/atomic" && p != "go.uber.org/atomic" {
				if lf, _ := c10LockedCounter(P, st, t.typ); lf != nil {
					fld = nil // a plain integer under a mutex: decided below
				}
			}
		}
		if fld == nil {
			// ... or a plain integer advanced only by `f++` with a mutex of the struct held
			if lf, nSt := c10LockedCounter(P, st, t.typ); lf != nil {
				counterFields[lf] = true
				lockedCounters[lf] = true
				n += nSt + 1
				c.OK("O10.6", t.rel+"."+t.typ+"."+lf.Name()+":counter-advanced-under-its-mutex", lf.Pos(), fmt.Sprintf("the id counter is a plain integer; each of its %d writes is `%s++` with a sync.Mutex of the struct held", nSt, lf.Name()))
				continue
			}
			c.Anchor("O10.6", t.rel+"."+t.typ+": the atomic id counter field")
			continue
		}
		counterFields[fld] = true
		p, nm := NamedOf(fld.Type())
		c.Check((p == "sync/atomic" || p == "go.uber.org/atomic") && (nm == "Uint64" || nm == "Int64"), "O10.6", t.rel+"."+t.typ+".idCounter:atomic-type", fld.Pos(), "the id counter must be an atomic integer ("+p+"."+nm+")")
		// every use: method call Add(1) (or Inc) whose result is used; Load allowed; nothing else
		for _, fn := range P.ProdFuncs() {
			EachInstr(fn, func(in ssa.Instruction) {
				fa, ok := in.(*ssa.FieldAddr)
				if !ok {
					return
				}
				fv, _ := FieldOf(fa)
				if fv != fld {
					return
				}
				for _, r := range *fa.Referrers() {
					cc := CC(r)
					okUse := false
					if cc != nil && len(cc.Args) >= 1 && cc.Args[0] == ssa.Value(fa) {
						f := CalleeObj(cc)
						switch {
						case f == nil:
						case f.Name() == "Add" && len(cc.Args) == 2:
							k, isK := ConstInt(cc.Args[1])
							okUse = isK && k == 1
						case f.Name() == "Inc" || f.Name() == "Load":
							okUse = true
						}
					}
					if _, isDbg := r.(*ssa.DebugRef); isDbg {
						continue
					}
					n++
					c.Check(okUse, "O10.6", fk(fn)+":idCounter-use", r.Pos(), "the id counter may only be advanced by Add(1)/Inc (found "+r.String()+")")
				}
			})
		}
	}
	c.Floor("O10.6", "uses of provider id counters", n, 2)
	// ids handed to ammo come from the counter
	check := func(fn *ssa.Function, spec Spec, argIdx int, what string) {
		if fn == nil {
			c.Anchor("O10.6", what)
			return
		}
		found := false
		EachInstr(fn, func(in ssa.Instruction) {
			if !IsCall(in, spec) {
				return
			}
			found = true
			arg := CC(in).Args[argIdx]
			var isIncr func(v ssa.Value) bool
			isIncr = func(v ssa.Value) bool {
				cl, _ := CallOfValue(v)
				if cl == nil {
					return false
				}
				if MatchCC(&cl.Call, Spec{"./components/providers/base", "ProviderBase", "NextID"}) {
					return true
				}
				f := CalleeObj(&cl.Call)
				if f != nil && (f.Name() == "Add" && len(cl.Call.Args) == 2 || f.Name() == "Inc") {
					fv, _ := FieldOf(cl.Call.Args[0])
					return fv != nil && counterFields[fv]
				}
				return false
			}
			// ... or the locked counter as read after the increment made in the same function, the lock still held
			isIncrCall := isIncr
			isIncr = func(v ssa.Value) bool {
				if isIncrCall(v) {
					return true
				}
				// a result spilled for a deferred Unlock: what was stored into the result cell
				if u, isU := v.(*ssa.UnOp); isU && u.Op == token.MUL {
					if a, isA := u.X.(*ssa.Alloc); isA {
						sts := StoresTo(a)
						if len(sts) == 0 {
							return false
						}
						for _, st := range sts {
							if !isIncr(Strip(st.Val)) {
								return false
							}
						}
						return true
					}
				}
				fv, _ := FieldOf(v)
				ld, isLd := v.(ssa.Instruction)
				if fv == nil || !lockedCounters[fv] || !isLd {
					return false
				}
				sts, before := ReachingFieldStores(ld, "", fv.Name())
				ls := NewLocksets(ld.Parent(), func(v ssa.Value) bool { p, n := NamedOf(v.Type()); return p == "sync" && (n == "Mutex" || n == "RWMutex") })
				return !before && len(sts) > 0 && ls.Before[ld].W
			}
			// the increment itself, or a helper of the package that returns it (nextID())
			ok := true
			for _, r := range Roots(arg, false) {
				for _, t := range ThroughReturns(r) {
					if !isIncr(Strip(t)) && !DerivesOnly(t, false, isIncr) {
						ok = false
					}
				}
			}
			c.Check(ok, "O10.6", fk(fn)+":id-from-the-atomic-counter", in.Pos(), "the id given to the ammo must be the result of the provider's atomic counter increment")
		})
		if !found {
			c.Anchor("O10.6", what)
		}
	}
	check(P.Func("components/providers/grpc", "Provider", "Acquire"), Spec{"./components/providers/grpc", "Ammo", "SetID"}, 1, "grpc Provider.Acquire: ammo.SetID")
	for _, g := range P.GenericMethodFns("Acquire") {
		if strings.Contains(PkgOf(g), "providers/scenario") {
			found := false
			EachInstr(g, func(in ssa.Instruction) {
				cc := CC(in)
				if cc != nil && cc.IsInvoke() && cc.Method.Name() == "SetID" {
					found = true
					cl, _ := CallOfValue(cc.Args[0])
					ok := cl != nil && MatchCC(&cl.Call, Spec{"./components/providers/base", "ProviderBase", "NextID"})
					c.Check(ok, "O10.6", fk(g)+":id-from-the-atomic-counter", in.Pos(), "clone.SetID(p.NextID())")
				}
			})
			if !found {
				c.Anchor("O10.6", "scenario Provider.Acquire: SetID")
			}
			break
		}
	}
	if nid := P.Func("components/providers/base", "ProviderBase", "NextID"); nid != nil {
		ok := false
		EachInstr(nid, func(in ssa.Instruction) {
			if r, isR := in.(*ssa.Return); isR {
				if cl, _ := CallOfValue(r.Results[0]); cl != nil {
					if f := CalleeObj(&cl.Call); f != nil && f.Name() == "Add" {
						ok = true
					}
				}
				// the locked counter: the value returned is the counter as read after this call's own increment, the lock still held
				for _, rt := range Roots(r.Results[0], false) {
					fv, _ := FieldOf(rt)
					ld, isLd := rt.(ssa.Instruction)
					if fv == nil || !lockedCounters[fv] || !isLd {
						continue
					}
					sts, before := ReachingFieldStores(ld, "", fv.Name())
					ls := NewLocksets(nid, func(v ssa.Value) bool { p, n := NamedOf(v.Type()); return p == "sync" && (n == "Mutex" || n == "RWMutex") })
					if !before && len(sts) > 0 && ls.Before[ld].W {
						ok = true
					}
				}
			}
		})
		c.Check(ok, "O10.6", fk(nid)+":returns-the-incremented-value", nid.Pos(), "NextID returns idCounter.Add(1)")
	}
}

// c10LockedCounter: an integer field of the struct whose every write in production code is `f = f + 1` made while a
// sync.Mutex is write-locked in the same function; returns the field and the number of such writes.
func c10LockedCounter(P *Prog, st *types.Struct, typ string) (*types.Var, int) {
	hasMu := false
	for i := 0; i < st.NumFields(); i++ {
		if p, n := NamedOf(st.Field(i).Type()); p == "sync" && (n == "Mutex" || n == "RWMutex") {
			hasMu = true
		}
	}
	if !hasMu {
		return nil, 0
	}
	isMu := func(v ssa.Value) bool { p, n := NamedOf(v.Type()); return p == "sync" && (n == "Mutex" || n == "RWMutex") }
	for i := 0; i < st.NumFields(); i++ {
		f := st.Field(i)
		b, isB := f.Type().Underlying().(*types.Basic)
		if !isB || b.Info()&types.IsInteger == 0 {
			continue
		}
		nSt, all := 0, true
		for _, fn := range P.ProdFuncs() {
			var ls *Locksets
			EachInstr(fn, func(in ssa.Instruction) {
				st2, ok := in.(*ssa.Store)
				if !ok {
					return
				}
				fa, ok := st2.Addr.(*ssa.FieldAddr)
				if !ok {
					return
				}
				if fv, _ := FieldOf(fa); fv != f {
					return
				}
				nSt++
				bo, isBo := st2.Val.(*ssa.BinOp)
				inc := false
				if isBo && bo.Op == token.ADD {
					if k, isK := ConstInt(bo.Y); isK && k == 1 {
						if fv2, _ := FieldOf(bo.X); fv2 == f {
							inc = true
						}
					}
				}
				if ls == nil {
					ls = NewLocksets(fn, isMu)
				}
				if !inc || !ls.Before[in].W {
					all = false
				}
			})
		}
		if nSt > 0 && all {
			return f, nSt
		}
	}
	return nil, 0
}
