package rules

import (
	"fmt"
	"go/types"
	"os"
	"sort"
	"strings"

	. "pandoravet/core"

	"golang.org/x/tools/go/ssa"
)

func init() {
	register(&Pack{Property: "C13", Title: "Malformed input is rejected, never crashes or hangs", NeedsCG: true, Run: runC13})
}

// c13Reasoned: sites that no dominating check guards, each with the reason it cannot fail
// (key = PanicSite.Key()).
var c13Reasoned = map[string]string{}

// inputRoots returns the entry points through which ammo, scenario and configuration input enters.
func inputRoots(c *Ctx) []*ssa.Function {
	P := c.P
	var roots []*ssa.Function
	add := func(f *ssa.Function) {
		if f != nil {
			roots = append(roots, f)
		}
	}
	for _, pr := range providers(c, "O13.0") {
		add(pr.Run)
		add(pr.Acquire)
		add(pr.Release)
	}
	for _, n := range [][3]string{
		{"components/providers/http", "", "NewProvider"},
		{"components/providers/http/decoders", "", "NewDecoder"},
		{"components/providers/scenario/http", "", "NewProvider"},
		{"components/providers/scenario/grpc", "", "NewProvider"},
		{"components/providers/scenario/config", "", "ReadAmmoConfig"},
		{"components/providers/scenario/config", "", "ParseHCLFile"},
		{"components/providers/scenario/config", "", "DecodeMap"},
		{"components/providers/scenario/config", "", "ParseShootName"},
		{"components/providers/scenario/config", "", "SpreadNames"},
		{"components/providers/scenario/config", "", "ExtractVariableStorage"},
		{"core/config", "", "Decode"},
		{"core/config", "", "DecodeAndValidate"},
		{"core/config", "", "Validate"},
		{"cli", "", "readConfig"},
		{"lib/mp", "", "GetMapValue"},
		{"lib/str", "", "ParseStringFunc"},
		{"lib/confutil", "", "ResolveCustomTags"},
		{"lib/confutil", "", "envTokenResolver"},
		{"lib/confutil", "", "propertyTokenResolver"},
		{"core/plugin/pluginconfig", "", "Hook"},
		{"core/plugin/pluginconfig", "", "FactoryHook"},
	} {
		f := P.Func(n[0], n[1], n[2])
		if f == nil {
			c.Anchor("O13.0", n[0]+"."+n[2])
			continue
		}
		add(f)
	}
	// decode hooks: every pandora function of mapstructure's hook signature, every decoder / variable source method,
	// every registered plugin constructor
	for fn := range P.AllFuncs() {
		if !IsProdPkg(PkgOf(fn)) || len(fn.Blocks) == 0 || fn.Parent() != nil {
			continue
		}
		sig := fn.Signature
		if sig.Recv() == nil && sig.Params().Len() == 3 && sig.Results().Len() == 2 {
			p0, _ := NamedOf(sig.Params().At(0).Type())
			if p0 == "reflect" && types.IsInterface(sig.Params().At(2).Type()) {
				add(fn)
			}
		}
		if sig.Recv() != nil {
			_, rn := NamedOf(sig.Recv().Type())
			switch fn.Name() {
			case "Scan", "LoadAmmo", "Init":
				if strings.Contains(PkgOf(fn), "/providers/") {
					add(fn)
				}
			}
			_ = rn
		}
	}
	ws := c18Wrappers(P)
	byFn := map[*ssa.Function]bool{}
	for _, w := range ws {
		byFn[w.Fn] = true
	}
	for fn := range P.AllFuncs() {
		if !IsProdPkg(PkgOf(fn)) || len(fn.Blocks) == 0 {
			continue
		}
		EachInstr(fn, func(in ssa.Instruction) {
			cc := CC(in)
			if cc == nil || cc.StaticCallee() == nil || !byFn[cc.StaticCallee()] {
				return
			}
			if mi, ok := cc.Args[1].(*ssa.MakeInterface); ok {
				for _, f := range P.FuncValues(mi.X) {
					add(f)
				}
			}
		})
	}
	return roots
}

// shootRoots: every Gun.Shoot implementation of production packages.
func shootRoots(c *Ctx) []*ssa.Function {
	P := c.P
	var roots []*ssa.Function
	for fn := range P.AllFuncs() {
		if !IsProdPkg(PkgOf(fn)) || len(fn.Blocks) == 0 || fn.Parent() != nil || fn.Signature.Recv() == nil {
			continue
		}
		if fn.Name() == "Shoot" && strings.Contains(PkgOf(fn), "/guns/") {
			roots = append(roots, fn)
		}
	}
	sort.Slice(roots, func(i, j int) bool { return roots[i].String() < roots[j].String() })
	return roots
}

func runInventory(c *Ctx, idPrefix string, roots []*ssa.Function, reasoned map[string]string, kinds map[string]string) {
	P := c.P
	reach := P.Reach(roots)
	sites, err := P.PanicSites(reach)
	if err != nil {
		c.Unknown(idPrefix+".0", "bounds-check-report", 0, err.Error())
		return
	}
	c.Note("%d entry points, %d reachable production functions, %d panic-capable sites", len(roots), len(reach), len(sites))
	for _, u := range P.Unresolved {
		c.Note("unresolved dynamic call: %s", u)
	}
	if os.Getenv("PV_DEBUG") != "" {
		for f := range reach {
			if strings.Contains(f.String(), os.Getenv("PV_DEBUG")) {
				c.Note("DEBUG reachable: %s", f)
			}
		}
	}
	used := map[string]bool{}
	counts := map[string]int{}
	for _, s := range sites {
		id := kinds[s.Kind]
		if id == "" {
			continue
		}
		counts[s.Kind]++
		key := s.Key()
		switch {
		case s.Guard != "":
			c.OK(id, key, s.Pos, "guarded: "+s.Guard)
		case reasoned[key] != "":
			used[key] = true
			c.OK(id, key, s.Pos, "reasoned: "+reasoned[key])
		default:
			c.Bad(id, key, s.Pos, fmt.Sprintf("%s site reachable from the entry points is neither dominated by a recognised check nor listed with a reason", s.Kind))
		}
	}
	for k := range reasoned {
		if !used[k] {
			c.Note("reasoned entry no longer matches a site (harmless): %s", k)
		}
	}
	c.Note("sites by kind: %v", counts)
}

func runC13(c *Ctx) {
	c.Rule("O13.1", "index and slice expressions whose bounds check the compiler could not eliminate (its own bounds-check report, without inlining) and that are reachable from the input entry points are dominated by a recognised length check or listed with the reason they cannot fail")
	c.Rule("O13.2", "single-result type assertions reachable from the input entry points are dominated by a comma-ok check of the same value and type / a kind test, or listed with a reason")
	c.Rule("O13.3", "integer division and remainder with a non-constant divisor reachable from the input entry points is dominated by divisor != 0, or listed with a reason")
	c.Rule("O13.4", "make sizes and rand.Intn-family arguments that derive from parsed text are dominated by a lower and an upper bound (sizes) / > 0 (rand), or listed with a reason")
	c.Rule("O13.5", "explicit panic / zap Panic/Fatal / log.Fatal / os.Exit sites reachable from the input entry points are the listed ones (registration-time programming errors, the CLI's documented exits)")
	roots := inputRoots(c)
	runInventory(c, "O13", roots, c13Reasoned, map[string]string{"index": "O13.1", "slice": "O13.1", "assert": "O13.2", "div": "O13.3", "size": "O13.4", "rand": "O13.4", "abort": "O13.5"})
}

func init() {
	register(&Pack{Property: "C19", Title: "No response can abort the run", NeedsCG: true, Run: runC19})
}

var c19Reasoned = map[string]string{}

func runC19(c *Ctx) {
	c.Rule("O19.1", "index / slice sites (compiler bounds-check report) reachable from any Gun.Shoot are guarded or reasoned")
	c.Rule("O19.2", "single-result type assertions reachable from any Gun.Shoot are guarded or reasoned")
	c.Rule("O19.3", "integer division reachable from any Gun.Shoot has a non-zero divisor")
	c.Rule("O19.4", "tainted sizes / rand arguments reachable from any Gun.Shoot are bounded")
	c.Rule("O19.6", "explicit aborts reachable from any Gun.Shoot are the documented ones")
	roots := shootRoots(c)
	runInventory(c, "O19", roots, c19Reasoned, map[string]string{"index": "O19.1", "slice": "O19.1", "assert": "O19.2", "div": "O19.3", "size": "O19.4", "rand": "O19.4", "abort": "O19.6"})
}
