package rules

import (
	"fmt"
	"go/token"
	"go/types"
	"os"
	"reflect"
	"regexp"
	"sort"
	"strings"

	. "pandoravet/core"

	"golang.org/x/tools/go/ssa"
)

func init() {
	register(&Pack{Property: "C13", Title: "Malformed input is rejected, never crashes or hangs", NeedsCG: true, Run: runC13})
}

// kReasoned: sites that no dominating check guards, each with the reason it cannot fail on any
// input / response (key = PanicSite.Key(); one named construct per entry). Shared by C13 and C19:
// a site is looked up only when it is reachable from that property's entry points.
var kReasoned = map[string]string{
	"niltype:core/plugin/pluginconfig.parseConf$1:reflect.TypeOf(conf).Elem()": "fillConf is handed only to the registry, which calls it with the pointer to the config it has just created (defaultConfigContainer.new -> reflect.New(...).Interface(), O18.3): conf is a non-nil pointer, its Type is not nil",
	// ---- plugin registry: shapes fixed at registration (O18.1 checks every registration call site)
	"reflectnil:core/plugin.convertFactoryOutParams:out[1].IsNil()": "out[1] exists only when the registered constructor / factory has a second result, and O18.1 fixes the type of that result to `error` at every registration: an interface kind",
	"index:core/plugin.convertFactoryOutParams:out[1]":               "dominated by numOut < len(out) with numOut in {1,2} (the switch above panics otherwise): len(out) >= 2",
	"abort:(*core/plugin.pluginConstructor).NewFactory$1:panic(err)": "documented (C18): a config error panics only when the requested factory type has no error result; every factory field of pandora's config structs has one (func() (core.Gun, error), func() (core.Schedule, error))",
	"abort:(*core/plugin.pluginConstructor).NewFactory$1:panic(fmt.Sprintf(\" out params num expeced to be 1 or 2, but have: %v\", factoryType.NumOut()))": "unreachable arm: isFactoryType admits only 1 or 2 results",
	"abort:(core/plugin.defaultConfigContainer).new:panic(\"try to create config when not required\")":                                                     "programming-error assertion: new() is called only under configRequired() (O18.3 checks the call edge)",
	"abort:(core/plugin.defaultConfigContainer).new:panic(\"unexpected type \" + conf.String())":                                                           "unreachable arm: newDefaultConfigContainer admits only struct / *struct configs at registration",
	"abort:core/plugin.convertFactoryOutParams:panic(fmt.Sprintf(\"unexpeced out params num: %v; 1 or 2 expected\", numOut))":                              "unreachable arm: numOut is NumOut() of a type isFactoryType accepted",
	"abort:core/plugin.convertFactoryOutParams:panic(out[1].Interface())":                                                                                  "documented (C18, O18.4): a constructor error is re-raised as panic only when the requested factory type cannot carry it",
	"abort:core/plugin.expect:panic(fmt.Sprintf(\"expectation failed: \" + msg, args...))":                                                                 "registration-time programming errors (plugin.Register is documented to panic); on the decode path expect() is reached only with conditions O18.1 establishes for every registration",
	// ---- composite schedule: at least one part always remains
	"index:(*core/schedule.compositeSchedule).Start:s.scheds[0]":                                "invariant len(scheds) >= 1: NewComposite builds a compositeSchedule only from >= 2 parts and startNext (the only shrinker, O2.2) is called only where len(scheds) > 1 (O2.3, O2.9)",
	"index:(*core/schedule.compositeSchedule).Next:s.scheds[0]":                                 "same invariant len(scheds) >= 1",
	"index:(*core/schedule.compositeSchedule).Left:s.scheds[0]":                                 "same invariant len(scheds) >= 1",
	"index:(*core/schedule.compositeSchedule).Left:s.leftAfter[0]":                              "leftAfter is created with len(scheds) elements and shifted together with scheds (O2.5 shifts-both-slices)",
	"index:(*core/schedule.compositeSchedule).startNext:s.scheds[0]":                            "after the shift at least one part remains: callers run only under len(scheds) > 1",
	"slice:(*core/schedule.compositeSchedule).startNext:s.scheds[1:]":                           "len(scheds) >= 1 always; [1:] of a non-empty slice",
	"slice:(*core/schedule.compositeSchedule).startNext:s.leftAfter[1:]":                        "same length as scheds",
	"abort:(*core/schedule.compositeSchedule).Left:panic(\"current schedule is not finished\")": "internal consistency assertion: Left()==0 of the current part while its Next() still yields a token contradicts the Schedule contract (C02); not input dependent",
	"abort:(*core/schedule.StartSync).MarkStarted:panic(\"schedule is already started\")":       "documented contract of core.Schedule.Start (second start panics, O2.6); the engine starts each schedule once",
	// ---- CLI: documented exits on unreadable / invalid configuration (an error message and exit status, not a crash)
	"abort:cli.readConfig:log.Fatal(\"Cannot read from standard input\", zap.Error(err))":                                            "documented exit: configuration unreadable",
	"abort:cli.readConfig:log.Fatal(\"Config decode failed\", zap.Error(err))":                                                       "documented exit: invalid configuration is rejected with its error",
	"abort:cli.readConfig:log.Fatal(\"Config decode failed: pool should be a map\", zap.Int(\"pool\", i), zap.Any(\"value\", pool))": "documented exit: invalid configuration is rejected with its error",
	"abort:cli.readConfig:log.Fatal(\"Config decode failed: pools should be a list\", zap.Any(\"pools\", v.Get(\"pools\")))":         "documented exit: invalid configuration is rejected with its error",
	"abort:cli.readConfig:log.Fatal(\"Config parsing failed\", zap.Error(err))":                                                      "documented exit: configuration unparsable",
	"abort:cli.readConfig:log.Fatal(\"Config read failed\", zap.Error(err))":                                                         "documented exit: configuration unreadable",
	"abort:cli.readConfig:panic(err)": "zap.NewDevelopment() failing to build the bootstrap logger: not input dependent",
	"abort:cli.readConfig:zap.L().Fatal(\"Too many command line arguments\", zap.Strings(\"args\", args))": "documented exit: usage error",
	// ---- HTTP gun construction (config time)
	"abort:components/guns/http.NewTransport:zap.L().Panic(\"HTTP transport configure fail\", zap.Error(err))":        "target without port: GunConfig.Target carries validate:\"endpoint,required\" (host:port), so SplitHostPort succeeds for every accepted config (C17 O17.4 keeps the tag)",
	"abort:components/guns/http.NewHTTP2Transport:zap.L().Panic(\"HTTP/2 transport configure fail\", zap.Error(err))": "http2.ConfigureTransport fails only on a transport already configured for HTTP/2; NewTransport returns a fresh one",
	"abort:components/guns/http.newConnectDialFunc$1:panic(\"unsupported network \" + network)":                       "net/http dials its transports with network \"tcp\" only; not input dependent",
	"assert:(components/guns/http.redirectClient).CloseIdleConnections:c.Transport.(*http.Transport)":                 "redirectClient is built only by NewRedirectingClient with &http.Client{Transport: tr}, tr a *http.Transport",
	"assert:lib/netutil.LookupReachable:conn.RemoteAddr().(*net.TCPAddr)":                                             "the connection was dialed with the constant network \"tcp\"",
	"assert:lib/netutil.NewDNSCachingDialer$1:conn.RemoteAddr().(*net.TCPAddr)":                                       "used by HTTP transports and WarmDNSCache, which dial \"tcp\"; the connect gun panics earlier on any other network",
	// ---- config decoding helpers
	"assert:core/config.unmarhsallText:data.(string)":                            "only called from TextUnmarshallerHook after f.Kind() == reflect.String",
	"assert:core/config.unmarhsallText:v.Interface().(encoding.TextUnmarshaler)": "only called from TextUnmarshallerHook under t.Implements / PtrTo(t).Implements(TextUnmarshaler) for the value it constructs",
	// ---- ammo / scenario handling
	"index:components/providers/http/util.EnrichRequestWithHeaders:values[0]":               "header maps reaching it are built with http.Header.Set/Add only (DecodeHTTPConfigHeaders, the decoders' commonHeader), which never leave an empty value list",
	"assert:(*components/providers/grpc/grpcjson.Provider).start:p.Pool.Get().(*ammo.Ammo)": "the pool's New returns &Ammo{} and the only Put is Release(a) with the ammo the engine acquired from this provider (*Ammo); not input dependent",
	"div:components/providers/scenario/config.SpreadNames:sc.Weight / div":                  "div is the GCD of the weights, each non-zero (0 is replaced by 1) and non-negative (validate min=0, checked below): GCD of positive numbers is positive",
	"size:components/providers/scenario/http.decodeAmmo:make([]*gun.Scenario, 0, size)":     "size is the sum of weight/gcd over scenarios with weights validated non-negative (ScenarioConfig.Weight validate min=0 under AmmoConfig.Scenarios dive, checked below)",
	"size:components/providers/scenario/grpc.decodeAmmo:make([]*gun.Scenario, 0, size)":     "same: weights validated non-negative",
	"index:lib/mp.extractFromSlice:v[index]":                                                "index is calcIndex(.., valueLen, ..)'s result on its nil-error edge, valueLen the length of the very value indexed; calcIndex returns only values in [0, length) (checked below, O13.1 calcIndex-range)",
	"slice:lib/mp.GetMapValue:segment[:openBraceIdx]":                                       "dominated by strings.Contains(segment, \"[\"): openBraceIdx = strings.Index(segment, \"[\") >= 0 and <= len",
	"slice:lib/mp.GetMapValue:segment[openBraceIdx + 1:len(segment) - 1]":                   "dominated by Contains(segment, \"[\") && HasSuffix(segment, \"]\"): the first '[' is not the last byte, so openBraceIdx+1 <= len-1",
	"rand:(*lib/mp.NextIterator).Rand:n.rnd.Intn(length)":                                   "the only caller is calcIndex, after it rejected length <= 0 (checked below)",
	"rand:components/providers/scenario/templater.randInt:rand.Int63n(t - f)":               "the three normalisations before the call (swap when t < f, default range when both are 0, t = f + 10 when equal) leave t > f",
	"rand:lib/str.RandStringRunes:randSource.Intn(len(letterRunes))":                        "letterRunes is []rune(s) with s replaced by the non-empty default alphabet when empty",
	"index:lib/zaputil.extractFieldsStacksToBuff:fields[i]":                                 "i ranges over fields; the copy that replaces fields inside the loop is made with the same length",
	"abort:(lib/zaputil.zapBufferFmtState).Width:panic(\"should not be called\")":           "fmt.State stub handed to errors.StackTrace.Format, which does not query width",
	"abort:(lib/zaputil.zapBufferFmtState).Precision:panic(\"should not be called\")":       "fmt.State stub handed to errors.StackTrace.Format, which does not query precision",
	// ---- shooting path (C19)
	"assert:(*components/guns/grpc.Gun).Shoot:am.(*ammo.Ammo)":                                            "documented contract of core.Gun.Shoot (\"unsupported Ammo type\" panics): the ammo comes from the pool's own provider, never from the target",
	"assert:(*components/guns/grpc/scenario.Gun).Shoot:am.(*Scenario)":                                    "same documented contract",
	"assert:(*components/guns/http.gunWrapper).Shoot:ammo.(Ammo)":                                         "same documented contract",
	"assert:(*components/guns/http_scenario.gunWrapper).Shoot:ammo.(*Scenario)":                           "same documented contract",
	"assert:(*core/aggregator/netsample.aggregatorWrapper).Report:s.(*Sample)":                            "netsample aggregators are handed to netsample guns only; every Report call of the guns passes a *netsample.Sample (checked below)",
	"abort:(*components/guns/http.BaseGun).Shoot:zap.L().Panic(\"must bind before shoot\")":               "programming-error assertion: the engine binds every gun before its first shot (newInstance); not response dependent",
	"abort:(*components/guns/http_scenario.ScenarioGun).Shoot:zap.L().Panic(\"must bind before shoot\")":  "same assertion",
	"abort:(*components/guns/http.panicOnHTTP1Client).Do:zap.L().Panic(notHTTP2PanicMsg, zap.Error(err))": "documented fatal condition of the http2 gun: the target does not speak HTTP/2 (its guard is checked below, O19.6)",
}

// inputRoots returns the entry points through which ammo, scenario and configuration input enters.
func inputRoots(c *Ctx) []*ssa.Function {
	P := c.P
	var roots []*ssa.Function
	add := func(f *ssa.Function) {
		if f != nil {
			roots = append(roots, f)
		}
	}
	for _, pr := range providers(c, "O13.0") {
		add(pr.Run)
		add(pr.Acquire)
		add(pr.Release)
	}
	for _, n := range [][3]string{
		{"components/providers/http", "", "NewProvider"},
		{"components/providers/http/decoders", "", "NewDecoder"},
		{"components/providers/scenario/http", "", "NewProvider"},
		{"components/providers/scenario/grpc", "", "NewProvider"},
		{"components/providers/scenario/config", "", "ReadAmmoConfig"},
		{"components/providers/scenario/config", "", "ParseHCLFile"},
		{"components/providers/scenario/config", "", "DecodeMap"},
		{"components/providers/scenario/config", "", "ParseShootName"},
		{"components/providers/scenario/config", "", "SpreadNames"},
		{"components/providers/scenario/config", "", "ExtractVariableStorage"},
		{"core/config", "", "Decode"},
		{"core/config", "", "DecodeAndValidate"},
		{"core/config", "", "Validate"},
		{"cli", "", "readConfig"},
		{"lib/mp", "", "GetMapValue"},
		{"lib/str", "", "ParseStringFunc"},
		{"lib/confutil", "", "ResolveCustomTags"},
		{"lib/confutil", "", "envTokenResolver"},
		{"lib/confutil", "", "propertyTokenResolver"},
		{"core/plugin/pluginconfig", "", "Hook"},
		{"core/plugin/pluginconfig", "", "FactoryHook"},
	} {
		f := P.Func(n[0], n[1], n[2])
		if f == nil {
			c.Anchor("O13.0", n[0]+"."+n[2])
			continue
		}
		add(f)
	}
	// decode hooks: every pandora function of mapstructure's hook signature, every decoder / variable source method,
	// every registered plugin constructor
	for fn := range P.AllFuncs() {
		if !IsProdPkg(PkgOf(fn)) || len(fn.Blocks) == 0 || fn.Parent() != nil {
			continue
		}
		sig := fn.Signature
		if sig.Recv() == nil && sig.Params().Len() == 3 && sig.Results().Len() == 2 {
			p0, _ := NamedOf(sig.Params().At(0).Type())
			if p0 == "reflect" && types.IsInterface(sig.Params().At(2).Type()) {
				add(fn)
			}
		}
		if sig.Recv() != nil {
			_, rn := NamedOf(sig.Recv().Type())
			switch fn.Name() {
			case "Scan", "LoadAmmo", "Init":
				if strings.Contains(PkgOf(fn), "/providers/") {
					add(fn)
				}
			}
			_ = rn
		}
	}
	ws := c18Wrappers(P)
	byFn := map[*ssa.Function]bool{}
	for _, w := range ws {
		byFn[w.Fn] = true
	}
	for fn := range P.AllFuncs() {
		if !IsProdPkg(PkgOf(fn)) || len(fn.Blocks) == 0 {
			continue
		}
		EachInstr(fn, func(in ssa.Instruction) {
			cc := CC(in)
			if cc == nil || cc.StaticCallee() == nil || !byFn[cc.StaticCallee()] {
				return
			}
			if mi, ok := cc.Args[1].(*ssa.MakeInterface); ok {
				for _, f := range P.FuncValues(mi.X) {
					add(f)
				}
			}
		})
	}
	return roots
}

// shootRoots: every Gun.Shoot implementation of production packages.
func shootRoots(c *Ctx) []*ssa.Function {
	P := c.P
	var roots []*ssa.Function
	for fn := range P.AllFuncs() {
		if !IsProdPkg(PkgOf(fn)) || len(fn.Blocks) == 0 || fn.Parent() != nil || fn.Signature.Recv() == nil {
			continue
		}
		if fn.Name() == "Shoot" && strings.Contains(PkgOf(fn), "/guns/") {
			roots = append(roots, fn)
		}
	}
	sort.Slice(roots, func(i, j int) bool { return roots[i].String() < roots[j].String() })
	return roots
}

func runInventory(c *Ctx, idPrefix string, roots []*ssa.Function, reasoned map[string]string, kinds map[string]string) {
	P := c.P
	reach := P.Reach(roots)
	sites, err := P.PanicSites(reach)
	if err != nil {
		c.Unknown(idPrefix+".0", "bounds-check-report", 0, err.Error())
		return
	}
	c.Note("%d entry points, %d reachable production functions, %d panic-capable sites", len(roots), len(reach), len(sites))
	for _, u := range P.Unresolved {
		c.Note("unresolved dynamic call: %s", u)
	}
	if os.Getenv("PV_DEBUG") != "" {
		for f := range reach {
			if strings.Contains(f.String(), os.Getenv("PV_DEBUG")) {
				c.Note("DEBUG reachable: %s", f)
			}
		}
	}
	used := map[string]bool{}
	counts := map[string]int{}
	// reasoned entries by (kind, normalised expression): an abort is recognised by its callee and message, wherever a
	// refactoring moved it (into a helper that only the listed function calls) and whatever its other arguments became
	type rEntry struct{ key, fn string }
	byNorm := map[string][]rEntry{}
	for k := range reasoned {
		kind, fnKey, expr := splitSiteKey(k)
		byNorm[kind+"|"+normSiteExpr(kind, expr)] = append(byNorm[kind+"|"+normSiteExpr(kind, expr)], rEntry{k, fnKey})
	}
	lookup := func(s PanicSite) string {
		key := s.Key()
		if reasoned[key] != "" {
			return key
		}
		for _, e := range byNorm[s.Kind+"|"+normSiteExpr(s.Kind, s.Expr)] {
			if e.fn == FuncKey(s.Fn) {
				return e.key
			}
			// the same method with a value receiver instead of a pointer receiver (or the reverse)
			if strings.Replace(e.fn, "(*", "(", 1) == strings.Replace(FuncKey(s.Fn), "(*", "(", 1) {
				return e.key
			}
			if P.WithinOnly(s.Fn, func(f *ssa.Function) bool {
				return FuncKey(f) == e.fn || strings.Replace(e.fn, "(*", "(", 1) == strings.Replace(FuncKey(f), "(*", "(", 1)
			}, 3) {
				return e.key
			}
			// the listed closure F$n became a method whose value is made only in F (state moved from the closure into
			// an object, the method value handed to the same place)
			if i := strings.LastIndex(e.fn, "$"); i > 0 && s.Fn.Parent() == nil {
				parent := e.fn[:i]
				makers := P.MethodValueMakers(s.Fn)
				all := len(makers) > 0
				for _, m := range makers {
					if FuncKey(m) != parent {
						all = false
					}
				}
				if all {
					return e.key
				}
			}
			// a reason about what a package is handed (the config pointer the registry passes to the decoding closure)
			// holds wherever in that package the same expression is evaluated
			if s.Kind == "niltype" && pkgOfFuncKey(e.fn) == pkgOfFuncKey(FuncKey(s.Fn)) {
				return e.key
			}
		}
		return ""
	}
	for _, s := range sites {
		id := kinds[s.Kind]
		if id == "" {
			continue
		}
		counts[s.Kind]++
		key := s.Key()
		rk := ""
		if s.Guard == "" {
			rk = lookup(s)
		}
		switch {
		case s.Guard != "":
			c.OK(id, key, s.Pos, "guarded: "+s.Guard)
		case rk != "":
			used[rk] = true
			c.OK(id, key, s.Pos, "reasoned: "+reasoned[rk])
		default:
			c.Bad(id, key, s.Pos, fmt.Sprintf("%s site reachable from the entry points is neither dominated by a recognised check nor listed with a reason", s.Kind))
		}
	}
	for k := range reasoned {
		if !used[k] {
			c.Note("reasoned entry no longer matches a site (harmless): %s", k)
		}
	}
	c.Note("sites by kind: %v", counts)
}

func runC13(c *Ctx) {
	c.Rule("O13.1", "index and slice expressions whose bounds check the compiler could not eliminate (its own bounds-check report, without inlining) and that are reachable from the input entry points are dominated by a recognised length check or listed with the reason they cannot fail")
	c.Rule("O13.2", "single-result type assertions reachable from the input entry points are dominated by a comma-ok check of the same value and type / a kind test, or listed with a reason")
	c.Rule("O13.3", "integer division and remainder with a non-constant divisor reachable from the input entry points is dominated by divisor != 0, or listed with a reason")
	c.Rule("O13.4", "make sizes and rand.Intn-family arguments that derive from parsed text are dominated by a lower and an upper bound (sizes) / > 0 (rand), or listed with a reason")
	c.Rule("O13.5", "explicit panic / zap Panic/Fatal / log.Fatal / os.Exit sites reachable from the input entry points are the listed ones (registration-time programming errors, the CLI's documented exits)")
	roots := inputRoots(c)
	runInventory(c, "O13", roots, kReasoned, map[string]string{"index": "O13.1", "slice": "O13.1", "assert": "O13.2", "niltype": "O13.2", "reflectnil": "O13.2", "div": "O13.3", "size": "O13.4", "rand": "O13.4", "abort": "O13.5"})
	c.Rule("O13.6", "decode errors propagate: every call returning an error inside the ammo decoders is tested and its error returned (wrapped or not) on the non-nil edge")
	c.Rule("O13.7", "end of input is told apart from a truncated entry: errors.Is(err, io.EOF) is never applied to the result of a pandora helper that wraps read errors")
	c13Support(c)
	c.Rule("O13.8", "an ammo file without entries is an error whatever `passes` is: in the http decoders every return of the pass-limit sentinel is dominated by the test that something has been decoded (the counter / list whose emptiness yields ErrNoAmmo is known non-empty) - siblings must agree: the emptiness test comes before the pass-limit test at the end of a pass")
	c13EmptyBeforePassLimit(c)
}

// c13EmptyBeforePassLimit decides O13.8.
func c13EmptyBeforePassLimit(c *Ctx) {
	P := c.P
	sp := P.SSAPkg("components/providers/http/decoders")
	if sp == nil {
		c.Anchor("O13.8", "package components/providers/http/decoders")
		return
	}
	noAmmo, _ := sp.Members["ErrNoAmmo"].(*ssa.Global)
	passLimit, _ := sp.Members["ErrPassLimit"].(*ssa.Global)
	if noAmmo == nil || passLimit == nil {
		c.Anchor("O13.8", "decoders.ErrNoAmmo / ErrPassLimit")
		return
	}
	var fns []*ssa.Function
	for _, f := range PkgFuncs(sp) {
		if IsProdFile(P.File(f.Pos())) {
			fns = append(fns, f)
		}
	}
	// what "nothing decoded" is tested on: the fields X with a `return ErrNoAmmo` under X == 0 / len(X) == 0
	subj := func(v ssa.Value) *types.Var {
		v = Strip(v)
		if cl, ok := v.(*ssa.Call); ok && IsBuiltinCall(cl, "len") {
			v = Strip(cl.Call.Args[0])
		}
		for _, r := range Roots(v, false) {
			if fv, _ := FieldOf(r); fv != nil {
				return fv
			}
		}
		return nil
	}
	emptiness := map[*types.Var]bool{}
	returnsOf := func(g *ssa.Global, f func(fn *ssa.Function, r *ssa.Return)) {
		for _, fn := range fns {
			for _, b := range fn.Blocks {
				r, ok := b.Instrs[len(b.Instrs)-1].(*ssa.Return)
				if !ok || len(r.Results) == 0 {
					continue
				}
				if DerivesAny(r.Results[len(r.Results)-1], false, IsGlobalLoad(g)) && !DerivesAny(r.Results[len(r.Results)-1], false, func(v ssa.Value) bool { _, isCall := v.(*ssa.Call); return isCall }) {
					f(fn, r)
				}
			}
		}
	}
	returnsOf(noAmmo, func(fn *ssa.Function, r *ssa.Return) {
		for _, f := range CmpFactsAt(r) {
			for _, pr := range [][2]ssa.Value{{f.X, f.Y}, {f.Y, f.X}} {
				op := f.Op
				if pr[0] != f.X {
					op = flipCmp(op)
				}
				// X == 0, X <= 0, X < 1 (a length or an unsigned counter: all say "nothing")
				k, isK := ConstInt(pr[1])
				if isK && ((op == token.EQL && k == 0) || (op == token.LEQ && k == 0) || (op == token.LSS && k == 1)) {
					if fv := subj(pr[0]); fv != nil {
						emptiness[fv] = true
					}
				}
			}
		}
	})
	c.Floor("O13.8", "fields whose emptiness yields ErrNoAmmo", len(emptiness), 2)
	n := 0
	knownNonEmpty := func(at ssa.Instruction) bool {
		for _, f := range CmpFactsAt(at) {
			for _, pr := range [][2]ssa.Value{{f.X, f.Y}, {f.Y, f.X}} {
				fv := subj(pr[0])
				if fv == nil || !emptiness[fv] {
					continue
				}
				op := f.Op
				if pr[0] != f.X {
					op = flipCmp(op)
				}
				if k, ok := ConstInt(pr[1]); ok && ((op == token.NEQ && k == 0) || (op == token.GTR && k >= 0) || (op == token.GEQ && k >= 1)) {
					return true
				}
			}
		}
		return false
	}
	passLimitFns := map[*ssa.Function]bool{}
	returnsOf(passLimit, func(fn *ssa.Function, r *ssa.Return) {
		n++
		passLimitFns[fn] = true
		nonEmpty := knownNonEmpty(r)
		if !nonEmpty {
			// ... or the pass counter it was compared with only ever advances where something was decoded
			// (the emptiness test sits before the increment, the limit test at the top of the next round)
			var counters []*types.Var
			for _, f := range CmpFactsAt(r) {
				fx, fy := subj(f.X), subj(f.Y)
				if fx != nil && fy != nil && fy.Name() == "Passes" && !emptiness[fx] {
					counters = append(counters, fx)
				}
				if fx != nil && fy != nil && fx.Name() == "Passes" && !emptiness[fy] {
					counters = append(counters, fy)
				}
			}
			for _, cv := range counters {
				all, any := true, false
				// (the advances made by this decoder: the counter may live in a struct shared by the sibling decoders)
				for _, g := range FindFuncs(fn, 2, func(g *ssa.Function) bool { return PkgOf(g) == PkgOf(fn) }) {
					EachInstr(g, func(in ssa.Instruction) {
						st, ok := in.(*ssa.Store)
						if !ok {
							return
						}
						fa, ok := st.Addr.(*ssa.FieldAddr)
						if !ok {
							return
						}
						if fv, _ := FieldOf(fa); fv != cv {
							return
						}
						if _, isK := ConstInt(st.Val); isK {
							return // reset
						}
						any = true
						if !knownNonEmpty(st) {
							all = false
						}
					})
				}
				if any && all {
					nonEmpty = true
				}
			}
		}
		c.Check(nonEmpty, "O13.8", fk(fn)+":no-ammo-test-before-pass-limit", r.Pos(),
			"ErrPassLimit is returned without knowing that an entry was decoded: with passes: 1 an ammo file without entries ends the run cleanly instead of with ErrNoAmmo (the other decoders test emptiness first)")
	})
	c.Floor("O13.8", "returns of ErrPassLimit in the decoders", n, 1)
	// non-vacuity per decoder, not per return statement (helpers may share one return): the Scan tree of every Decoder
	// implementation contains a checked `return ErrPassLimit`
	for _, nt := range decoderImpls(c, "O13.8") {
		scan := P.MethodFn(nt, "Scan")
		covered := false
		for _, g := range FindFuncs(scan, 3, func(g *ssa.Function) bool { return PkgOf(g) == PkgOf(scan) }) {
			if passLimitFns[g] {
				covered = true
			}
		}
		c.Check(covered, "O13.8", fk(scan)+":pass-limit-return-is-among-the-checked", scan.Pos(), "the Scan tree of this decoder contains a `return ErrPassLimit` that the emptiness rule looked at")
	}
}

func flipCmp(op token.Token) token.Token {
	switch op {
	case token.LSS:
		return token.GTR
	case token.GTR:
		return token.LSS
	case token.LEQ:
		return token.GEQ
	case token.GEQ:
		return token.LEQ
	}
	return op
}

func init() {
	register(&Pack{Property: "C19", Title: "No response can abort the run", NeedsCG: true, Run: runC19})
}

func runC19(c *Ctx) {
	c.Rule("O19.1", "index / slice sites (compiler bounds-check report) reachable from any Gun.Shoot are guarded or reasoned")
	c.Rule("O19.2", "single-result type assertions reachable from any Gun.Shoot are guarded or reasoned")
	c.Rule("O19.3", "integer division reachable from any Gun.Shoot has a non-zero divisor")
	c.Rule("O19.4", "tainted sizes / rand arguments reachable from any Gun.Shoot are bounded")
	c.Rule("O19.6", "explicit aborts reachable from any Gun.Shoot are the documented ones")
	roots := shootRoots(c)
	runInventory(c, "O19", roots, kReasoned, map[string]string{"index": "O19.1", "slice": "O19.1", "assert": "O19.2", "niltype": "O19.2", "reflectnil": "O19.2", "div": "O19.3", "size": "O19.4", "rand": "O19.4", "abort": "O19.6"})
	c.Rule("O19.7", "failures are recorded and Shoot returns: no panic / Fatal / Exit site lies on any path after the exchange with the target returned")
	c19Support(c)
	c19PostprocessorBody(c)
}

// ---------- supporting obligations of reasoned entries ----------

// c13CalcIndexRange decides that calcIndex returns only values in [0, length) with a nil error.
func c13CalcIndexRange(c *Ctx, id string) {
	P := c.P
	ci := P.Func("lib/mp", "", "calcIndex")
	efs := P.Func("lib/mp", "", "extractFromSlice")
	if ci == nil || efs == nil || len(ci.Params) != 4 {
		c.Anchor(id, "lib/mp.calcIndex(indexStr, segment, length, iter) / extractFromSlice")
		return
	}
	length := ssa.Value(ci.Params[2])
	key := fk(ci)
	// length > 0 on every nil-error return: dominated by the false edge of length <= 0
	n := 0
	for _, b := range ci.Blocks {
		r, ok := b.Instrs[len(b.Instrs)-1].(*ssa.Return)
		if !ok || len(r.Results) != 2 || !IsNilConst(r.Results[1]) {
			continue
		}
		n++
		facts := CmpFactsAt(r)
		posLen := false
		for _, f := range facts {
			for _, g := range []Fact{f, {Op: flipTok(f.Op), X: f.Y, Y: f.X}} {
				if g.X == length && g.Y != nil {
					if k, isK := ConstInt(g.Y); isK && ((g.Op == token.GTR && k >= 0) || (g.Op == token.GEQ && k >= 1)) {
						posLen = true
					}
				}
			}
		}
		v := r.Results[0]
		why := ""
		inRange := func(v ssa.Value, facts []Fact, depth int) bool { return false }
		inRange = func(v ssa.Value, facts []Fact, depth int) bool {
			// length - 1
			if bo, ok := v.(*ssa.BinOp); ok && bo.Op == token.SUB && bo.X == length {
				if one, isOne := ConstInt(bo.Y); isOne && one == 1 {
					return true
				}
			}
			// x % length with x >= 0, or with the remainder itself known >= 0 on this edge (|x % length| < length)
			if bo, ok := v.(*ssa.BinOp); ok && bo.Op == token.REM && bo.Y == length {
				if nonNegFacts(bo.X, facts) || nextResult(bo.X) || nonNegFacts(v, facts) {
					return true
				}
			}
			// (x % length) + length on the edge where the remainder is negative
			if bo, ok := v.(*ssa.BinOp); ok && bo.Op == token.ADD && bo.Y == length {
				if rem, ok := bo.X.(*ssa.BinOp); ok && rem.Op == token.REM && rem.Y == length {
					for _, f := range facts {
						f = f.Canon()
						if f.Op == token.LSS && f.X == ssa.Value(rem) {
							if k, isK := ConstInt(f.Y); isK && k == 0 {
								return true
							}
						}
					}
				}
			}
			// iter.Rand(length): Iterator contract [0, length)
			if cl, _ := CallOfValue(v); cl != nil && cl.Call.IsInvoke() && cl.Call.Method.Name() == "Rand" && cl.Call.Args[0] == length {
				return true
			}
			// a value with 0 <= v < length facts
			lo, hi := nonNegFacts(v, facts) || nextResult(v), false
			for _, f := range facts {
				f = f.Canon()
				if f.Op == token.LSS && f.X == v && f.Y == length {
					hi = true
				}
			}
			if lo && hi {
				return true
			}
			if phi, ok := v.(*ssa.Phi); ok && depth < 4 {
				for i, e := range phi.Edges {
					ef := append(DomFacts(phi.Block().Preds[i]), factsOfEdge(phi.Block().Preds[i], phi.Block())...)
					if !inRange(e, ef, depth+1) {
						return false
					}
				}
				return true
			}
			return false
		}
		okV := inRange(v, facts, 0)
		if !okV {
			why = "returned value is not one of: 0 <= v < length, length-1, a non-negative value % length, (v % length) + length on v % length < 0, iter.Rand(length)"
		}
		c.Check(posLen && okV, id, fmt.Sprintf("%s:calcIndex-range#%d", key, n), r.Pos(), fmt.Sprintf("length > 0 on this return: %v; %s", posLen, why))
	}
	c.Floor(id, "successful returns of calcIndex", n, 4)
	// extractFromSlice indexes the value whose reflect length it passed, with calcIndex's result on the nil edge
	var call *ssa.Call
	EachInstr(efs, func(in ssa.Instruction) {
		if cl, ok := in.(*ssa.Call); ok && cl.Call.StaticCallee() == ci {
			call = cl
		}
	})
	ok := false
	if call != nil {
		// length argument: reflect.ValueOf(curValue).Len()
		lenOK := DerivesOnly(call.Call.Args[2], false, func(v ssa.Value) bool {
			if k, isK := ConstInt(v); isK && k == 0 {
				return true // "not found yet": rejected before calcIndex is reached, and by calcIndex itself
			}
			cl, _ := CallOfValue(v)
			if cl != nil && IsBuiltinCall(cl, "len") {
				// len(<typed view of curValue>): the type-switch form of the same measurement
				return typedViewOf(cl.Call.Args[0], efs.Params[0])
			}
			if cl == nil || !MatchCC(&cl.Call, Spec{"reflect", "Value", "Len"}) {
				return false
			}
			vo, _ := CallOfValue(cl.Call.Args[0])
			return vo != nil && MatchCC(&vo.Call, Spec{"reflect", "", "ValueOf"}) && Strip(vo.Call.Args[0]) == ssa.Value(efs.Params[0])
		})
		idxOK := true
		nIdx := 0
		EachInstr(efs, func(in ssa.Instruction) {
			ia, isIA := in.(*ssa.IndexAddr)
			if !isIA {
				return
			}
			if _, isK := ConstInt(ia.Index); isK {
				return // composite literal of the accepted types
			}
			// only indexings of the typed view of curValue
			if !typedViewOf(ia.X, efs.Params[0]) {
				return
			}
			nIdx++
			if !DerivesOnly(ia.Index, false, IsResultOf(call, 0)) {
				idxOK = false
			}
			e, _ := errResult(call)
			nilEdge := false
			for _, f := range CmpFactsAt(ia) {
				if f.Op == token.EQL && IsNilConst(f.Y) && e != nil && DerivesAny(f.X, false, func(v ssa.Value) bool { return v == e }) {
					nilEdge = true
				}
			}
			if !nilEdge {
				idxOK = false
			}
		})
		ok = lenOK && idxOK && nIdx >= 7
		if !ok {
			c.Note("extractFromSlice support: lenOK=%v idxOK=%v nIdx=%d", lenOK, idxOK, nIdx)
		}
	}
	c.Check(ok, id, fk(efs)+":indexes-the-measured-value-with-calcIndex-result", efs.Pos(), "every v[index] uses calcIndex's result on its nil-error edge, and the length passed is the measured length (reflect.ValueOf(curValue).Len() or len of a typed view) of the same value")
}

// typedViewOf: v derives from a type assertion (plain or comma-ok) of the interface value src.
func typedViewOf(v ssa.Value, src ssa.Value) bool {
	return DerivesAny(v, false, func(v ssa.Value) bool {
		if ta, isTA := v.(*ssa.TypeAssert); isTA {
			return ta.X == src
		}
		if ex, isEx := v.(*ssa.Extract); isEx {
			if ta, isTA := ex.Tuple.(*ssa.TypeAssert); isTA {
				return ta.X == src
			}
		}
		return false
	})
}

func nonNegFacts(v ssa.Value, facts []Fact) bool {
	if k, isK := ConstInt(v); isK {
		return k >= 0
	}
	for _, f := range facts {
		for _, g := range []Fact{f, {Op: flipTok(f.Op), X: f.Y, Y: f.X}} {
			if g.X == v && g.Y != nil {
				if k, isK := ConstInt(g.Y); isK && ((g.Op == token.GEQ && k >= 0) || (g.Op == token.GTR && k >= -1)) {
					return true
				}
			}
		}
	}
	return false
}

// nextResult: v is the result of Iterator.Next (0, 1, 2, ... by O15.5).
func nextResult(v ssa.Value) bool {
	cl, _ := CallOfValue(v)
	return cl != nil && cl.Call.IsInvoke() && cl.Call.Method.Name() == "Next"
}

func c13Support(c *Ctx) {
	P := c.P
	c13CalcIndexRange(c, "O13.1")
	c13SpreadNamesGCD(c, "O13.3")
	// every Iterator.Rand call site passes a length proven > 0
	n := 0
	for _, fn := range P.ProdFuncs() {
		EachInstr(fn, func(in ssa.Instruction) {
			cl, ok := in.(*ssa.Call)
			if !ok || !cl.Call.IsInvoke() || cl.Call.Method.Name() != "Rand" {
				return
			}
			if p, nm := NamedOf(cl.Call.Value.Type()); p != Mod+"/lib/mp" || nm != "Iterator" {
				return
			}
			n++
			arg := cl.Call.Args[0]
			pos := false
			for _, f := range CmpFactsAt(cl) {
				for _, g := range []Fact{f, {Op: flipTok(f.Op), X: f.Y, Y: f.X}} {
					if g.X == arg && g.Y != nil {
						if k, isK := ConstInt(g.Y); isK && ((g.Op == token.GTR && k >= 0) || (g.Op == token.GEQ && k >= 1)) {
							pos = true
						}
					}
				}
			}
			c.Check(pos, "O13.4", fk(fn)+":Rand-argument-positive", cl.Pos(), "Iterator.Rand(length) is called only where length > 0 was established (rand.Intn panics otherwise)")
		})
	}
	c.Floor("O13.4", "Iterator.Rand call sites", n, 1)
	// weights validated
	pk := P.Pkg("components/providers/scenario/config")
	okW, okDive := false, false
	if pk != nil {
		for _, tname := range []string{"ScenarioConfig", "AmmoConfig"} {
			tn, ok := pk.Types.Scope().Lookup(tname).(*types.TypeName)
			if !ok {
				continue
			}
			st := tn.Type().Underlying().(*types.Struct)
			for i := 0; i < st.NumFields(); i++ {
				tag, _ := reflect.StructTag(st.Tag(i)).Lookup("validate")
				if tname == "ScenarioConfig" && st.Field(i).Name() == "Weight" {
					for _, r := range parseRules(tag) {
						if ruleImplies(r, tagRule{"min", "0"}) {
							okW = true
						}
					}
				}
				if tname == "AmmoConfig" && st.Field(i).Name() == "Scenarios" {
					for _, r := range parseRules(tag) {
						if r.name == "dive" {
							okDive = true
						}
					}
				}
			}
		}
	}
	c.Check(okW && okDive, "O13.4", "components/providers/scenario/config.ScenarioConfig.Weight:validated-non-negative", 0, fmt.Sprintf("ScenarioConfig.Weight validate min>=0: %v; AmmoConfig.Scenarios validate dive (element constraints are checked): %v", okW, okDive))
	// O13.6: errors inside the decoders are propagated
	c13DecodeErrors(c)
	// O13.7: end-of-input tests
	c13EOF(c)
}

var c13ErrExceptions = map[string]string{}

func c13DecodeErrors(c *Ctx) {
	P := c.P
	n := 0
	for _, rel := range []string{"components/providers/http/decoders", "components/providers/http/decoders/raw", "components/providers/http/decoders/uripost", "components/providers/http/util", "components/providers/grpc/grpcjson"} {
		sp := P.SSAPkg(rel)
		if sp == nil {
			continue
		}
		for _, fn := range PkgFuncs(sp) {
			if !IsProdFile(P.File(fn.Pos())) || fn.Parent() != nil {
				continue
			}
			// only functions that themselves return an error
			res := fn.Signature.Results()
			if res.Len() == 0 || !types.Identical(res.At(res.Len()-1).Type(), errType) {
				continue
			}
			idx := 0
			EachInstr(fn, func(in ssa.Instruction) {
				cl, ok := in.(*ssa.Call)
				if !ok {
					return
				}
				if _, isB := cl.Call.Value.(*ssa.Builtin); isB {
					return
				}
				e, has := errResult(cl)
				if !has {
					return
				}
				if MatchCC(&cl.Call, sCtxErr) {
					return // cancellation is observed, not decoded (C08)
				}
				idx++
				key := fmt.Sprintf("%s:error-of-call-%d(%s)", fk(fn), idx, calleeName(&cl.Call))
				if why, ok := c13ErrExceptions[key]; ok {
					c.OK("O13.6", key, cl.Pos(), "named exception: "+why)
					return
				}
				if e == nil {
					// result discarded with _ : accept only for Seek-less helpers explicitly named
					c.Bad("O13.6", key, cl.Pos(), "the error result is discarded")
					return
				}
				n++
				checkErrNotSwallowed(c, "O13.6", key, cl, e)
			})
		}
	}
	c.Floor("O13.6", "error-returning calls in the ammo decoders", n, 25)
}

func calleeName(cc *ssa.CallCommon) string {
	if f := CalleeObj(cc); f != nil {
		return f.Name()
	}
	return "dynamic"
}

// c13EOF: errors.Is(x, io.EOF) must not be applied to the result of a pandora helper that wraps read errors:
// a truncated entry (wrapped EOF from a partial read) would be taken for the end of the input.
func c13EOF(c *Ctx) {
	P := c.P
	n := 0
	for _, rel := range []string{"components/providers/http/decoders", "components/providers/grpc/grpcjson", "core/provider"} {
		sp := P.SSAPkg(rel)
		if sp == nil {
			continue
		}
		for _, fn := range PkgFuncs(sp) {
			if !IsProdFile(P.File(fn.Pos())) {
				continue
			}
			EachInstr(fn, func(in ssa.Instruction) {
				cl, ok := in.(*ssa.Call)
				if !ok || !MatchCC(&cl.Call, Spec{"errors", "", "Is"}, Spec{"golang.org/x/xerrors", "", "Is"}, Spec{"github.com/pkg/errors", "", "Is"}) {
					return
				}
				// target io.EOF
				isEOF := false
				for _, r := range Roots(cl.Call.Args[1], false) {
					if u, ok := r.(*ssa.UnOp); ok {
						if g, ok := u.X.(*ssa.Global); ok && g.Name() == "EOF" && g.Pkg != nil && g.Pkg.Pkg.Path() == "io" {
							isEOF = true
						}
					}
				}
				if !isEOF {
					return
				}
				n++
				bad := ""
				for _, r := range Roots(cl.Call.Args[0], false) {
					src, _ := CallOfValue(r)
					if src == nil {
						continue
					}
					sc := src.Call.StaticCallee()
					if sc == nil || !IsPandora(PkgOf(sc)) {
						continue
					}
					if wrapsErrors(sc) {
						bad = fk(sc)
					}
				}
				c.Check(bad == "", "O13.7", fk(fn)+":eof-test-on-"+calleeOfArg(cl.Call.Args[0]), cl.Pos(),
					"errors.Is(err, io.EOF) is applied to the result of "+bad+", which wraps read errors with %w: an entry cut short (wrapped EOF of a partial read) would be treated as a clean end of input instead of being rejected; compare with == io.EOF")
			})
		}
	}
	c.Note("O13.7: %d errors.Is(.., io.EOF) tests inspected", n)
	// positive control: readBlock does wrap (otherwise the rule could never fire)
	rb := P.Func("components/providers/http/decoders", "uripostDecoder", "readBlock")
	c.Check(rb != nil && wrapsErrors(rb), "O13.7", "components/providers/http/decoders:control-readBlock-wraps-read-errors", 0, "control: uripostDecoder.readBlock is recognised as a helper that wraps read errors (the rule has something to protect)")
}

func calleeOfArg(v ssa.Value) string {
	for _, r := range Roots(v, false) {
		if cl, _ := CallOfValue(r); cl != nil {
			return calleeName(&cl.Call)
		}
	}
	return "value"
}

// wrapsErrors: some return of fn carries an error built by a wrapping function (fmt.Errorf / xerrors.Errorf / errors.Wrap ...).
func wrapsErrors(fn *ssa.Function) bool {
	found := false
	for _, b := range fn.Blocks {
		r, ok := b.Instrs[len(b.Instrs)-1].(*ssa.Return)
		if !ok || len(r.Results) == 0 {
			continue
		}
		last := r.Results[len(r.Results)-1]
		if !types.Identical(last.Type(), errType) {
			continue
		}
		for _, rt := range Roots(last, false) {
			if cl, _ := CallOfValue(rt); cl != nil && MatchCC(&cl.Call, ErrWrappers...) {
				// wraps an existing error (has an error-typed argument, directly or in varargs)
				found = true
			}
		}
	}
	return found
}

func c19Support(c *Ctx) {
	P := c.P
	// every Report call of the guns passes a *netsample.Sample
	n := 0
	for _, fn := range P.ProdFuncs() {
		if !strings.Contains(PkgOf(fn), "/components/guns/") && PkgOf(fn) != Mod+"/core/engine" {
			continue
		}
		EachInstr(fn, func(in ssa.Instruction) {
			if !IsCall(in, sCoreAgg) {
				return
			}
			n++
			arg := CC(in).Args[0]
			ok := false
			if mi, isMI := arg.(*ssa.MakeInterface); isMI {
				_, nm := NamedOf(mi.X.Type())
				pk, _ := NamedOf(mi.X.Type())
				ok = nm == "Sample" && pk == Mod+"/core/aggregator/netsample"
			}
			c.Check(ok, "O19.2", fk(fn)+":reports-a-netsample", in.Pos(), "core.Aggregator.Report receives a *netsample.Sample (the netsample wrapper asserts it)")
		})
	}
	c.Floor("O19.2", "core.Aggregator.Report call sites in guns and engine", n, 3)
	// O19.6: the http2 gun's fatal condition
	do := P.Func("components/guns/http", "panicOnHTTP1Client", "Do")
	if do == nil {
		c.Anchor("O19.6", "components/guns/http.(*panicOnHTTP1Client).Do")
	} else {
		nP := 0
		EachInstr(do, func(in ssa.Instruction) {
			if !IsCall(in, Spec{"go.uber.org/zap", "Logger", "Panic"}) {
				return
			}
			nP++
			// either: err != nil && errors.As(err, &opError) && opError.Op == "remote error" && strings.Contains(err.Error(), "no application protocol")
			// or: checkHTTP2(res.TLS) != nil
			alert, remote, h2 := false, false, false
			for _, bf := range BoolFactsAt(in) {
				cl, _ := CallOfValue(bf.Subj)
				if cl != nil && bf.Val && MatchCC(&cl.Call, Spec{"strings", "", "Contains"}) {
					if s, ok := ConstString(cl.Call.Args[1]); ok && strings.Contains(s, "no application protocol") {
						alert = true
					}
				}
			}
			for _, f := range CmpFactsAt(in) {
				if f.Op == token.EQL {
					for _, pr := range [][2]ssa.Value{{f.X, f.Y}, {f.Y, f.X}} {
						if s, ok := ConstString(pr[1]); ok && s == "remote error" {
							if fv, _ := FieldOf(pr[0]); fv != nil && fv.Name() == "Op" {
								remote = true
							}
						}
					}
				}
				if f.Op == token.NEQ && IsNilConst(f.Y) {
					if cl, _ := CallOfValue(f.X); cl != nil && cl.Call.StaticCallee() != nil && cl.Call.StaticCallee().Name() == "checkHTTP2" {
						h2 = true
					}
				}
			}
			c.Check((alert && remote) || h2, "O19.6", fmt.Sprintf("%s:fatal-only-without-http2#%d", fk(do), nP), in.Pos(),
				fmt.Sprintf("the documented fatal condition 'target has no HTTP/2' must be established: TLS alert no_application_protocol from the peer (remote error: %v, message matched: %v) or a negotiated protocol other than h2 (%v); any other failed exchange is an ordinary failed sample", remote, alert, h2))
		})
		c.Check(nP == 2, "O19.6", fk(do)+":fatal-sites", do.Pos(), fmt.Sprintf("%d fatal sites in panicOnHTTP1Client.Do (want 2)", nP))
	}
	// O19.7: after a failed exchange the shot returns normally: no abort site on the error edge
	for _, g := range []struct{ rel, recv, name, call string }{
		{"components/guns/http", "BaseGun", "Shoot", "Do"},
		{"components/guns/http_scenario", "ScenarioGun", "shootStep", "Do"},
		{"components/guns/grpc", "Gun", "shoot", "InvokeRpc"},
		{"components/guns/grpc/scenario", "Gun", "shootStep", "InvokeRpc"},
	} {
		fn := P.Func(g.rel, g.recv, g.name)
		if fn == nil {
			c.Anchor("O19.7", g.rel+"."+g.name)
			continue
		}
		holder, call := findCallIn(fn, g.call)
		if call == nil {
			c.Anchor("O19.7", g.call+" in "+fk(fn))
			continue
		}
		fn = holder
		iv := PathQuery{Fn: fn, Start: call, Weight: func(in ssa.Instruction) (int, int) {
			if _, isP := in.(*ssa.Panic); isP && !IsSelectPanicBlock(in.Block()) {
				return 1, 1
			}
			if IsCall(in, Spec{"go.uber.org/zap", "Logger", "Panic"}, Spec{"go.uber.org/zap", "Logger", "Fatal"}, Spec{"os", "", "Exit"}) {
				return 1, 1
			}
			return 0, 0
		}}.Count()
		c.Check(iv.Is(0, 0), "O19.7", fk(fn)+":no-abort-after-the-exchange", call.Pos(), fmt.Sprintf("panic / Fatal / Exit sites on any path after %s returned = %v (want [0,0]: whatever the target answered, the shot ends by returning)", g.call, iv))
	}
}

// checkErrNotSwallowed: the error result e of call is either returned/forwarded directly, or tested
// against nil with every return dominated by the non-nil edge returning a non-nil error (its own or
// a replacement); an error edge that falls back into normal flow is reported unless e is the
// end-of-input marker handled by name (== io.EOF / errors.Is(e, io.EOF) / sentinel comparisons).
func checkErrNotSwallowed(c *Ctx, id, key string, call *ssa.Call, e ssa.Value) {
	fn := call.Parent()
	isE := func(v ssa.Value) bool { return DerivesAny(v, false, func(r ssa.Value) bool { return r == e }) }
	tested := false
	ok := true
	detail := ""
	for _, b := range fn.Blocks {
		iff, isIf := b.Instrs[len(b.Instrs)-1].(*ssa.If)
		if !isIf {
			continue
		}
		f := CondFact(iff.Cond, true)
		if f.Y == nil || !((IsNilConst(f.Y) && isE(f.X)) || (IsNilConst(f.X) && isE(f.Y))) {
			continue
		}
		if f.Op != token.NEQ && f.Op != token.EQL {
			continue
		}
		tested = true
		errSucc := b.Succs[0]
		if f.Op == token.EQL {
			errSucc = b.Succs[1]
		}
		nRet := 0
		for _, rb := range fn.Blocks {
			if !EdgeDominates(b, errSucc, rb) {
				continue
			}
			switch t := rb.Instrs[len(rb.Instrs)-1].(type) {
			case *ssa.Return:
				nRet++
				if isNil, known := retErrIsNil(t); known && isNil {
					// allowed only where the error was identified as the end-of-input marker / a handled sentinel
					handled := false
					for _, bf := range BoolFactsAt(t) {
						if cl, _ := CallOfValue(bf.Subj); cl != nil && bf.Val && MatchCC(&cl.Call, Spec{"errors", "", "Is"}) && isE(cl.Call.Args[0]) {
							handled = true
						}
					}
					for _, cf := range CmpFactsAt(t) {
						if cf.Op == token.EQL && !IsNilConst(cf.Y) && cf.Y != nil && (isE(cf.X) || isE(cf.Y)) {
							handled = true
						}
					}
					if !handled {
						ok = false
						detail = "a return dominated by the err != nil edge returns a nil error"
					}
				}
			case *ssa.Panic:
				nRet++
			}
		}
		if nRet == 0 {
			// rejoins normal flow: accept when the edge is further split by a sentinel comparison (== io.EOF ...)
			split := false
			for _, rb := range fn.Blocks {
				if !EdgeDominates(b, errSucc, rb) {
					continue
				}
				if i2, ok2 := rb.Instrs[len(rb.Instrs)-1].(*ssa.If); ok2 {
					g := CondFact(i2.Cond, true)
					if g.Y != nil && !IsNilConst(g.Y) && (isE(g.X) || isE(g.Y)) {
						split = true
					}
					if cl, _ := CallOfValue(i2.Cond); cl != nil && MatchCC(&cl.Call, Spec{"errors", "", "Is"}) {
						split = true
					}
				}
			}
			// ... or the error is what a later return carries (named result / err variable returned after a break)
			carried := false
			for _, rb := range fn.Blocks {
				if r, isR := rb.Instrs[len(rb.Instrs)-1].(*ssa.Return); isR && len(r.Results) > 0 && BlockCanReach(errSucc, rb) || isR && rb == errSucc {
					if isE(r.Results[len(r.Results)-1]) {
						carried = true
					}
				}
			}
			// ... or the edge is only reachable when a boolean option asks for it (continue-on-error): with the
			// error non-nil and every boolean field false, the edge is dead (an earlier test already returned)
			optional := false
			if !split && !carried {
				feas := PathQuery{Fn: fn, Assume: []Assumption{
					{Pred: func(v ssa.Value) bool {
						g := CondFact(v, true)
						return g.Y != nil && g.Op == token.NEQ && ((IsNilConst(g.Y) && isE(g.X)) || (IsNilConst(g.X) && isE(g.Y)))
					}, Val: true},
					{Pred: func(v ssa.Value) bool {
						u, isU := v.(*ssa.UnOp)
						if !isU || u.Op != token.MUL {
							return false
						}
						_, isFA := u.X.(*ssa.FieldAddr)
						bt, isB := u.Type().Underlying().(*types.Basic)
						return isFA && isB && bt.Kind() == types.Bool
					}, Val: false},
				}}.Feasible()
				optional = feas != nil && !feas[errSucc]
			}
			if !split && !carried && !optional {
				ok = false
				detail = "the err != nil edge falls back into normal flow without returning"
			}
		}
	}
	if !tested {
		direct := false
		for _, u := range UsesOf(e, nil) {
			switch u.Kind {
			case "return", "send", "store":
				direct = true
			}
			if strings.HasPrefix(u.Kind, "arg:") {
				direct = true // handed to a helper (logging excluded below)
			}
		}
		// comparison with a sentinel only (err == io.EOF): the other errors must still be returned
		if !direct {
			ok = false
			detail = "the error is neither tested against nil nor returned"
		}
	}
	c.Check(ok, id, key, call.Pos(), detail)
}

// splitSiteKey splits "kind:function:expression".
func splitSiteKey(k string) (kind, fn, expr string) {
	i := strings.Index(k, ":")
	if i < 0 {
		return k, "", ""
	}
	kind = k[:i]
	rest := k[i+1:]
	j := strings.Index(rest, ":")
	if j < 0 {
		return kind, rest, ""
	}
	return kind, rest[:j], rest[j+1:]
}

var firstStringLit = regexp.MustCompile(`"((?:[^"\\]|\\.)*)"`)

// normSiteExpr: for an abort, the callee and its first string literal (the message); other kinds keep their expression.
var localIdent = regexp.MustCompile(`(^|[^.\w"])([A-Za-z_]\w*)\b`)

// normSiteExpr: for an abort, the callee and its first string literal (the message); for the other kinds the
// expression with every identifier that is not a selected name or a called function (i.e. locals, parameters,
// receivers, package qualifiers) replaced by "_": renaming a local or a receiver does not change the site.
func normSiteExpr(kind, expr string) string {
	if kind != "abort" {
		out := localIdent.ReplaceAllStringFunc(expr, func(m string) string {
			sub := localIdent.FindStringSubmatch(m)
			return sub[1] + "_"
		})
		if kind == "rand" {
			// the random source may be reached differently (a global, a field of a new type): method and argument decide
			if i := strings.Index(out, "("); i > 0 {
				if j := strings.LastIndex(out[:i], "."); j >= 0 {
					out = out[j+1:]
				}
			}
		}
		return out
	}
	callee := expr
	if i := strings.Index(expr, "("); i >= 0 {
		callee = expr[:i]
	}
	if m := firstStringLit.FindStringSubmatch(expr); m != nil {
		return callee + "|" + m[1]
	}
	return expr
}

// pkgOfFuncKey: the package part of a function key ("(*pkg/path.T).m", "pkg/path.f$1").
func pkgOfFuncKey(k string) string {
	k = strings.TrimPrefix(strings.TrimPrefix(k, "("), "*")
	if i := strings.Index(k, ")"); i >= 0 {
		k = k[:i]
	}
	if i := strings.LastIndex(k, "."); i >= 0 {
		return k[:i]
	}
	return k
}

// ---- O19.8: postprocessors always get a reader over the body that was read

func c19PostprocessorBody(c *Ctx) {
	c.Rule("O19.8", "a step with postprocessors reads the body, whatever the target sent: the reader handed to Postprocessor.Process is a *bytes.Reader, which is nil unless bytes.NewReader ran - so with postprocessors configured (len > 0) and no I/O error, every path from the response to each Process call (followed up through the helper that runs the postprocessors, if there is one) passes exactly one bytes.NewReader whose result is that argument (a typed nil reader is not a nil interface: Process would dereference it on an empty 204/304/HEAD response and the shot panics)")
	P := c.P
	n := 0
	for _, fn := range P.ProdFuncs() {
		if !strings.HasPrefix(PkgOf(fn), Mod+"/components/guns") {
			continue
		}
		EachInstr(fn, func(in ssa.Instruction) {
			cc := CC(in)
			if cc == nil || !cc.IsInvoke() || cc.Method.Name() != "Process" || len(cc.Args) != 2 {
				return
			}
			// the reader argument: an io.Reader made from a pointer value
			mi, ok := cc.Args[1].(*ssa.MakeInterface)
			if !ok {
				return
			}
			if _, isPtr := mi.X.Type().Underlying().(*types.Pointer); !isPtr {
				return
			}
			n++
			procT := cc.Value.Type() // the postprocessor interface
			// where the reader is made: here, or in the caller that hands it to this helper (up to three levels)
			cur, stop, reader := fn, in, mi.X
			for d := 0; d < 3; d++ {
				par, isP := Strip(reader).(*ssa.Parameter)
				if !isP || par.Parent() != cur {
					break
				}
				site := SoleCallSite(cur)
				if site == nil {
					break
				}
				idx := -1
				for i, q := range cur.Params {
					if q == par {
						idx = i
					}
				}
				a := ArgOfParam(site, cur, idx)
				if a == nil {
					break
				}
				cur, stop, reader = site.Parent(), site, a
			}
			sNewReader := Spec{"bytes", "", "NewReader"}
			fromNew := false
			for _, rv := range ThroughReturns(reader) { // (the body may be read by a helper that returns the reader)
				if DerivesAny(rv, false, func(v ssa.Value) bool {
					cl, _ := CallOfValue(v)
					return cl != nil && MatchCC(&cl.Call, sNewReader)
				}) {
					fromNew = true
				}
			}
			// comparisons of len(<the processors>) with 0 / 1, answered for a non-empty list
			lenCmp := func(want bool) func(v ssa.Value) bool {
				return func(v ssa.Value) bool {
					b, ok := v.(*ssa.BinOp)
					if !ok {
						return false
					}
					isLen := func(x ssa.Value) bool {
						cl, isCall := x.(*ssa.Call)
						if !isCall {
							return false
						}
						if bi, isB := cl.Call.Value.(*ssa.Builtin); !isB || bi.Name() != "len" {
							return false
						}
						sl, isSl := cl.Call.Args[0].Type().Underlying().(*types.Slice)
						return isSl && types.Identical(sl.Elem(), procT)
					}
					x, y, op := b.X, b.Y, b.Op
					if isLen(y) {
						x, y, op = y, x, FlipOp(op)
					}
					k, isK := ConstInt(y)
					if !isLen(x) || !isK {
						return false
					}
					var val, known bool // len op k, with len >= 1
					switch {
					case op == token.GTR && k == 0, op == token.GEQ && k == 1, op == token.NEQ && k == 0:
						val, known = true, true
					case op == token.LEQ && k == 0, op == token.LSS && k == 1, op == token.EQL && k == 0:
						val, known = false, true
					}
					return known && val == want
				}
			}
			errIsNil := func(op token.Token) func(ssa.Value) bool {
				return func(v ssa.Value) bool {
					b, ok := v.(*ssa.BinOp)
					return ok && b.Op == op && IsNilConst(b.Y) && types.Identical(b.X.Type(), errType)
				}
			}
			iv := PathQuery{Fn: cur,
				Stop: func(i2 ssa.Instruction) bool { return i2 == stop },
				Exit: func(*ssa.BasicBlock) bool { return false },
				Assume: []Assumption{{Pred: lenCmp(true), Val: true}, {Pred: lenCmp(false), Val: false}, {Pred: errIsNil(token.EQL), Val: true}, {Pred: errIsNil(token.NEQ), Val: false}},
				Weight: func(i2 ssa.Instruction) (int, int) {
					if IsCall(i2, sNewReader) {
						return 1, 1
					}
					return 0, 0
				}}.Count()
			c.Check(fromNew && !iv.NoPath && iv.Min >= 1, "O19.8", fk(fn)+":process-gets-the-read-body", in.Pos(),
				fmt.Sprintf("the reader argument comes from bytes.NewReader (in %s): %v; bytes.NewReader calls on the paths to Process when there are postprocessors and no I/O error = %v (want at least 1 on every path); witness %s", cur.Name(), fromNew, iv, PathString(iv.MinPath)))
		})
	}
	c.Floor("O19.8", "Postprocessor.Process calls taking a pointer-backed reader", n, 1)
}

func isLenCallOf(v, coll ssa.Value) bool {
	cl, ok := v.(*ssa.Call)
	if !ok {
		return false
	}
	if b, isB := cl.Call.Value.(*ssa.Builtin); !isB || b.Name() != "len" {
		return false
	}
	return cl.Call.Args[0] == coll || sameRoots(cl.Call.Args[0], coll)
}

// c13SpreadNamesGCD decides the fact the reasoned division in SpreadNames rests on: math.GCDM answers 0 for fewer than
// two numbers, so it must get one weight per listed scenario and be reached only with at least two of them.
func c13SpreadNamesGCD(c *Ctx, id string) {
	P := c.P
	sn := P.Func("components/providers/scenario/config", "", "SpreadNames")
	if sn == nil || len(sn.Params) != 1 {
		c.Anchor(id, "components/providers/scenario/config.SpreadNames(input)")
		return
	}
	input := ssa.Value(sn.Params[0])
	var g *ssa.Call
	EachInstr(sn, func(in ssa.Instruction) {
		if cl, ok := in.(*ssa.Call); ok && cl.Call.StaticCallee() != nil && cl.Call.StaticCallee().Name() == "GCDM" {
			g = cl
		}
	})
	if g == nil {
		c.Anchor(id, "the math.GCDM call of SpreadNames")
		return
	}
	isLenInput := func(v ssa.Value) bool {
		cl, ok := Strip(v).(*ssa.Call)
		if !ok || !IsBuiltinCall(cl, "len") {
			return false
		}
		return DerivesOnly(cl.Call.Args[0], false, func(r ssa.Value) bool { return r == input })
	}
	// one weight per listed scenario: the slice is make([]int64, len(input)) (filled by index)
	okLen := false
	for _, r := range Roots(g.Call.Args[0], false) {
		if ms, ok := r.(*ssa.MakeSlice); ok {
			okLen = isLenInput(ms.Len)
		} else {
			okLen = false
			break
		}
	}
	// at least two scenarios here: len(input) is known to be neither 0 nor 1 (or >= 2)
	not0, not1, ge2 := false, false, false
	for _, f := range CmpFactsAt(g) {
		for _, h := range []Fact{f, {Op: FlipOp(f.Op), X: f.Y, Y: f.X}} {
			if h.Y == nil || !isLenInput(h.X) {
				continue
			}
			k, isK := ConstInt(h.Y)
			if !isK {
				continue
			}
			switch {
			case h.Op == token.NEQ && k == 0, h.Op == token.GTR && k == 0, h.Op == token.GEQ && k == 1:
				not0 = true
			case h.Op == token.NEQ && k == 1:
				not1 = true
			}
			if (h.Op == token.GEQ && k >= 2) || (h.Op == token.GTR && k >= 1) {
				ge2 = true
			}
		}
	}
	c.Check(okLen && (ge2 || (not0 && not1)), id, fk(sn)+":gcd-of-at-least-two-weights", g.Pos(),
		fmt.Sprintf("math.GCDM (0 for fewer than two numbers; the result divides every weight) gets a slice made with len(input) elements: %v; and is reached only with len(input) >= 2: %v", okLen, ge2 || (not0 && not1)))
}
