package rules

import "pandoravet/core"

func init() {
	register(&Pack{Property: "C17", Title: "Config decoding", Run: runC17})
}

func runC17(c *core.Ctx) {
}
