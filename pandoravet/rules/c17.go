package rules

import (
	"fmt"
	"go/ast"
	"go/constant"
	"go/token"
	"go/types"
	"os"
	"path/filepath"
	"reflect"
	"regexp"
	"sort"
	"strconv"
	"strings"
	"time"

	. "pandoravet/core"

	"golang.org/x/tools/go/ssa"
)

func init() {
	register(&Pack{Property: "C17", Title: "Config decoding", Run: runC17})
}

// c17Constraints is the reference table of value constraints confirmed by reading the
// configuration structs and docs (key: package-relative type.field). A field may carry MORE
// rules than listed; a listed rule that is missing or weakened is reported.
var c17Constraints = map[string]string{
	"cli.expvarConfig.Port":                                              "required",
	"components/guns/grpc.AnswLogConfig.Filter":                          "omitempty,oneof=all warning error",
	"components/guns/grpc/scenario.AnswLogConfig.Filter":                 "omitempty,oneof=all warning error",
	"components/guns/http.AnswLogConfig.Filter":                          "omitempty,oneof=all warning error",
	"components/guns/http.AutoTagConfig.URIElements":                     "min=1",
	"components/guns/http.GunConfig.Target":                              "endpoint,required",
	"components/providers/grpc/grpcjson.Config.Limit":                    "min=0",
	"components/providers/grpc/grpcjson.Config.Passes":                   "min=0",
	"components/guns/grpc.GunConfig.Target":                              "required",
	"components/guns/grpc/scenario.GunConfig.Target":                     "required",
	"core/datasource.InlineConfig.Data":                                  "required",
	"core/provider.DecodeProviderConfig.Limit":                           "min=0",
	"core/provider.DecodeProviderConfig.Passes":                          "min=0",
	"core/schedule.InstanceStepConfig.From":                              "min=0",
	"core/schedule.InstanceStepConfig.To":                                "min=0",
	"core/schedule.InstanceStepConfig.Step":                              "min=1",
	"core/schedule.InstanceStepConfig.StepDuration":                      "min-time=1ms",
	"core/aggregator.EncoderAggregatorConfig.Sink":                       "required",
	"core/aggregator.ReporterConfig.SampleQueueSize":                     "min=1",
	"core/aggregator/netsample.PhoutConfig.SampleQueueSize":              "min=0",
	"components/providers/scenario/config.ScenarioConfig.Weight":         "min=0",
	"components/providers/scenario/config.ScenarioConfig.MinWaitingTime": "min=0",
	"components/providers/scenario/config.AmmoConfig.Scenarios":          "dive",
	"core/datasink.FileConfig.Path":                                      "required",
	"core/datasource.FileConfig.Path":                                    "required",
	"core/engine.Config.Pools":                                           "required,dive",
	"core/engine.InstancePoolConfig.Provider":                            "required",
	"core/engine.InstancePoolConfig.Aggregator":                          "required",
	"core/engine.InstancePoolConfig.NewGun":                              "required",
	"core/engine.InstancePoolConfig.StartupSchedule":                     "required",
	"core/engine.InstancePoolConfig.NewRPSSchedule":                      "required",
	"core/provider.DecodeProviderConfig.Source":                          "required",
	"core/provider.AmmoQueueConfig.AmmoQueueSize":                        "min=1",
	"core/schedule.ConstConfig.Ops":                                      "min=0",
	"core/schedule.ConstConfig.Duration":                                 "min-time=1ms",
	"core/schedule.LineConfig.From":                                      "min=0",
	"core/schedule.LineConfig.To":                                        "min=0",
	"core/schedule.LineConfig.Duration":                                  "min-time=1ms",
	"core/schedule.OnceConfig.Times":                                     "min=1",
	"core/schedule.StepConfig.From":                                      "min=0",
	"core/schedule.StepConfig.To":                                        "min=0",
	"core/schedule.StepConfig.Step":                                      "min=1",
	"core/schedule.StepConfig.Duration":                                  "min-time=1ms",
	"core/schedule.UnlimitedConfig.Duration":                             "min-time=1ms",
}

type tagRule struct{ name, param string }

func parseRules(tag string) []tagRule {
	var out []tagRule
	for _, part := range strings.Split(tag, ",") {
		part = strings.TrimSpace(part)
		if part == "" {
			continue
		}
		n, p, _ := strings.Cut(part, "=")
		out = append(out, tagRule{n, p})
	}
	return out
}

// ruleImplies reports whether rule `have` is at least as strong as rule `want`.
func ruleImplies(have, want tagRule) bool {
	norm := func(r tagRule) tagRule {
		switch r.name {
		case "gte":
			r.name = "min"
		case "lte":
			r.name = "max"
		}
		return r
	}
	have, want = norm(have), norm(want)
	if have.name != want.name {
		// gt=k implies min=k+... keep exact families only
		return false
	}
	if have.param == want.param {
		return true
	}
	switch want.name {
	case "min":
		h, e1 := strconv.ParseFloat(have.param, 64)
		w, e2 := strconv.ParseFloat(want.param, 64)
		return e1 == nil && e2 == nil && h >= w
	case "max":
		h, e1 := strconv.ParseFloat(have.param, 64)
		w, e2 := strconv.ParseFloat(want.param, 64)
		return e1 == nil && e2 == nil && h <= w
	case "oneof":
		hs, ws := strings.Fields(have.param), map[string]bool{}
		for _, x := range strings.Fields(want.param) {
			ws[x] = true
		}
		for _, x := range hs {
			if !ws[x] {
				return false
			}
		}
		return len(hs) > 0
	}
	return false
}

func runC17(c *Ctx) {
	c.Rule("O17.9", "no plugin is built from an undecoded configuration: every successful return of parseConf hands back the closure that runs config.DecodeAndValidate over the plugin's settings - also when only `type` is given, because the defaults themselves may violate the component's constraints (the rule of O18.6, shared)")
	c.Borrow("C18", runC18, map[string]string{"O18.6": "O17.9"})
	c.Rule("O17.1", "strict decoder: the mapstructure.DecoderConfig used for configuration has ErrorUnused=true, ZeroFields=false, WeaklyTypedInput=false, TagName=\"config\" and the compiled hook chain; DecodeAndValidate validates exactly when decoding succeeded and returns either error")
	c.Rule("O17.2", "hook order: the variable-injection hook is the first element of DefaultHooks(); the plugin hooks are added after the composite-schedule hook")
	c.Rule("O17.3", "nested plugin config is decoded strictly and validated: the fillConf closure of parseConf calls config.DecodeAndValidate(<map without the type key>, conf) on every path and returns its error; only the type key is deleted from the map; the registry calls fillConf on every creation (on an empty struct when the constructor takes no config) and fails creation on its error")
	c.Rule("O17.4", "validation tags: every validate rule name exists in the validator (its own bakedInValidators table or pandora's registrations); the reference constraints of the configuration fields are present and not weakened")
	c.Rule("O17.7", "placeholders: the env resolver fails on the !ok edge of LookupEnv, the property resolver fails when the placeholder has no '#', the file cannot be opened or the property is absent; resolvers are registered for \"\", ENV and PROPERTY; cast handles bool, every int/uint kind, floats and string; the inject hook returns the resolver's error")
	c.Rule("O17.8", "constraints are written under the key the validator reads: in structs of production packages every struct-tag key is one that some decoder/validator in the build reads (config, validate, map, json, yaml, hcl, mapstructure)")
	for _, st := range []struct {
		n string
		f func(*Ctx)
	}{{"decoder", c17Decoder}, {"hooks", c17Hooks}, {"fillconf", c17FillConf}, {"tags", c17Tags}, {"placeholders", c17Placeholders}, {"validators", c17CustomValidators}} {
		t0 := time.Now()
		st.f(c)
		c.Note("stage %s: %.1fs", st.n, time.Since(t0).Seconds())
	}
}

// compositeFields returns the values stored to the fields of a composite literal allocation.
func compositeFields(fn *ssa.Function, typeName string) map[string]ssa.Value {
	out := map[string]ssa.Value{}
	EachInstr(fn, func(in ssa.Instruction) {
		st, ok := in.(*ssa.Store)
		if !ok {
			return
		}
		fa, ok := st.Addr.(*ssa.FieldAddr)
		if !ok {
			return
		}
		if _, isA := fa.X.(*ssa.Alloc); !isA {
			return
		}
		fv, base := FieldOf(fa)
		if fv == nil {
			return
		}
		if _, n := NamedOf(base.Type()); n != typeName {
			return
		}
		out[fv.Name()] = st.Val
	})
	return out
}

func c17Decoder(c *Ctx) {
	P := c.P
	ndc := P.Func("core/config", "", "newDecoderConfig")
	dec := P.Func("core/config", "", "Decode")
	dav := P.Func("core/config", "", "DecodeAndValidate")
	val := P.Func("core/config", "", "Validate")
	if ndc == nil || dec == nil || dav == nil || val == nil {
		c.Anchor("O17.1", "core/config.newDecoderConfig / Decode / DecodeAndValidate / Validate")
		return
	}
	f := compositeFields(ndc, "DecoderConfig")
	boolOf := func(name string) (bool, bool) {
		v, ok := f[name]
		if !ok {
			return false, true // absent = zero value
		}
		return ConstCond(v)
	}
	eu, ok1 := boolOf("ErrorUnused")
	zf, ok2 := boolOf("ZeroFields")
	wt, ok3 := boolOf("WeaklyTypedInput")
	c.Check(ok1 && eu, "O17.1", fk(ndc)+":ErrorUnused", ndc.Pos(), "ErrorUnused must be the constant true: unknown keys are errors")
	c.Check(ok2 && !zf, "O17.1", fk(ndc)+":ZeroFields", ndc.Pos(), "ZeroFields must be false: options that are not given keep the defaults already in the result")
	c.Check(ok3 && !wt, "O17.1", fk(ndc)+":WeaklyTypedInput", ndc.Pos(), "WeaklyTypedInput must be false: wrongly typed values are errors")
	tn, _ := ConstString(f["TagName"])
	c.Check(tn == "config", "O17.1", fk(ndc)+":TagName", ndc.Pos(), fmt.Sprintf("TagName = %q (want \"config\")", tn))
	okRes := len(ndc.Params) == 1 && f["Result"] == ssa.Value(ndc.Params[0])
	c.Check(okRes, "O17.1", fk(ndc)+":Result", ndc.Pos(), "Result is the caller's target")
	okHook := false
	if h, ok := f["DecodeHook"]; ok {
		okHook = DerivesOnly(h, false, func(v ssa.Value) bool {
			// what compileHooks() hands back (it returns the compiled chain) ...
			if cl, _ := CallOfValue(v); cl != nil && MatchCC(&cl.Call, Spec{"./core/config", "", "compileHooks"}) {
				return true
			}
			u, ok := v.(*ssa.UnOp)
			if !ok {
				return false
			}
			g, ok := u.X.(*ssa.Global)
			return ok && g.Name() == "compiledHook"
		})
	}
	c.Check(okHook && len(Calls(ndc, Spec{"./core/config", "", "compileHooks"})) == 1, "O17.1", fk(ndc)+":DecodeHook", ndc.Pos(), "DecodeHook is the hook chain compiled by compileHooks() in this call")
	// who else builds a DecoderConfig on the config path: only Map (struct-to-struct mapping, not user input)
	n := 0
	for _, fn := range P.ProdFuncs() {
		if fn == ndc {
			continue
		}
		if len(compositeFields(fn, "DecoderConfig")) > 0 {
			n++
			isMap := fn.Name() == "Map" && PkgOf(fn) == Mod+"/core/config"
			c.Check(isMap, "O17.1", fk(fn)+":other-decoder-config", fn.Pos(), "a second mapstructure.DecoderConfig: configuration must be decoded through core/config.Decode (config.Map maps struct to struct and is the only named exception)")
		}
	}
	// Decode uses it
	okDec := false
	// in Decode or in a helper of the package it calls (newDecoder(result))
	for _, g := range FindFuncs(dec, 2, func(*ssa.Function) bool { return true }) {
		EachInstr(g, func(in ssa.Instruction) {
			if cl, ok := in.(*ssa.Call); ok && MatchCC(&cl.Call, Spec{"github.com/mitchellh/mapstructure", "", "NewDecoder"}) {
				for _, r := range Roots(cl.Call.Args[0], false) {
					if a, _ := CallOfValue(r); a != nil && a.Call.StaticCallee() == ndc &&
						SliceAny(a.Call.Args[0], func(v ssa.Value) bool { return v == ssa.Value(dec.Params[1]) }) {
						okDec = true
					}
				}
			}
		})
	}
	c.Check(okDec, "O17.1", fk(dec)+":uses-the-strict-config", dec.Pos(), "Decode builds its decoder from newDecoderConfig(result)")
	// DecodeAndValidate
	var dcall, vcall *ssa.Call
	EachInstr(dav, func(in ssa.Instruction) {
		if cl, ok := in.(*ssa.Call); ok {
			switch cl.Call.StaticCallee() {
			case dec:
				dcall = cl
			case val:
				vcall = cl
			}
		}
	})
	okDav := dcall != nil && vcall != nil
	if okDav {
		okDav = checkErrPropagated(c, "O17.1", fk(dav)+":decode-error-returned", dcall)
		isE := func(v ssa.Value) bool { return v == ssa.Value(dcall) }
		iv := PathQuery{Fn: dav, Start: dcall, Edge: assumeNil(isE), Weight: func(in ssa.Instruction) (int, int) {
			if in == ssa.Instruction(vcall) {
				return 1, 1
			}
			return 0, 0
		}}.Count()
		okRet := false
		EachInstr(dav, func(in ssa.Instruction) {
			if r, ok := in.(*ssa.Return); ok && r.Results[0] == ssa.Value(vcall) {
				okRet = true
			}
		})
		c.Check(iv.Is(1, 1) && okRet && vcall.Call.Args[0] == ssa.Value(dav.Params[1]), "O17.1", fk(dav)+":validated-after-successful-decode", dav.Pos(), fmt.Sprintf("Validate(result) on the decode-succeeded edge = %v (want [1,1]) and its error returned: %v", iv, okRet))
	} else {
		c.Bad("O17.1", fk(dav)+":validated-after-successful-decode", dav.Pos(), "DecodeAndValidate must call Decode and Validate")
	}
}

func c17Hooks(c *Ctx) {
	P := c.P
	dh := P.Func("core/config", "", "DefaultHooks")
	vi := P.Func("core/config", "", "VariableInjectHook")
	if dh == nil || vi == nil {
		c.Anchor("O17.2", "core/config.DefaultHooks / VariableInjectHook")
	} else {
		// store to index 0 of the returned slice's backing array
		first := ""
		EachInstr(dh, func(in ssa.Instruction) {
			st, ok := in.(*ssa.Store)
			if !ok {
				return
			}
			ia, ok := st.Addr.(*ssa.IndexAddr)
			if !ok {
				return
			}
			if k, isK := ConstInt(ia.Index); isK && k == 0 {
				for _, r := range Roots(st.Val, false) {
					if f, ok := Strip(r).(*ssa.Function); ok {
						first = f.Name()
					}
				}
			}
		})
		c.Check(first == "VariableInjectHook", "O17.2", fk(dh)+":inject-hook-first", dh.Pos(), fmt.Sprintf("DefaultHooks()[0] = %s (want VariableInjectHook: placeholders are substituted before any type-specific hook sees the string)", first))
		// hooks var initialised from DefaultHooks and only appended to
		sp := P.SSAPkg("core/config")
		okInit := false
		if init := sp.Func("init"); init != nil {
			EachInstr(init, func(in ssa.Instruction) {
				if st, ok := in.(*ssa.Store); ok {
					if g, ok := st.Addr.(*ssa.Global); ok && g.Name() == "hooks" {
						if cl, _ := CallOfValue(st.Val); cl != nil && cl.Call.StaticCallee() == dh {
							okInit = true
						}
					}
				}
			})
		}
		c.Check(okInit, "O17.2", "core/config.hooks:initialised-from-DefaultHooks", dh.Pos(), "the hook list starts as DefaultHooks()")
		okAppend := true
		for _, fn := range PkgFuncs(sp) {
			if !IsProdFile(P.File(fn.Pos())) || fn.Name() == "init" || fn.Name() == "SetHooks" {
				continue
			}
			EachInstr(fn, func(in ssa.Instruction) {
				if st, ok := in.(*ssa.Store); ok {
					if g, ok := st.Addr.(*ssa.Global); ok && g.Name() == "hooks" {
						cl, _ := CallOfValue(st.Val)
						if cl == nil || !IsBuiltinCall(cl, "append") {
							okAppend = false
						} else if u, ok := cl.Call.Args[0].(*ssa.UnOp); !ok || u.X != ssa.Value(g) {
							okAppend = false
						}
					}
				}
			})
		}
		c.Check(okAppend, "O17.2", "core/config.hooks:later-hooks-are-appended", dh.Pos(), "AddTypeHook/AddKindHook append to the hook list (they never prepend or replace)")
		// SetHooks is not called by production code
		nSet := 0
		if sh := P.Func("core/config", "", "SetHooks"); sh != nil {
			for _, fn := range P.ProdFuncs() {
				EachInstr(fn, func(in ssa.Instruction) {
					if cc := CC(in); cc != nil && cc.StaticCallee() == sh {
						nSet++
					}
				})
			}
		}
		c.Check(nSet == 0, "O17.2", "core/config.SetHooks:not-used-in-production", dh.Pos(), fmt.Sprintf("%d production call(s) of config.SetHooks (a replaced chain may lose the inject hook)", nSet))
	}
	imp := P.Func("core/import", "", "Import")
	if imp == nil {
		c.Anchor("O17.2", "core/import.Import")
		return
	}
	var comp, plug ssa.Instruction
	EachInstr(imp, func(in ssa.Instruction) {
		cc := CC(in)
		if cc == nil || cc.StaticCallee() == nil {
			return
		}
		switch cc.StaticCallee().Name() {
		case "AddTypeHook":
			for _, r := range Roots(cc.Args[0], false) {
				if f, ok := Strip(r).(*ssa.Function); ok && f.Name() == "scheduleSliceToCompositeConfigHook" {
					comp = in
				}
			}
		case "AddHooks":
			if PkgOf(cc.StaticCallee()) == Mod+"/core/plugin/pluginconfig" {
				plug = in
			}
		}
	})
	c.Check(comp != nil && plug != nil && InstrDominates(comp, plug), "O17.2", fk(imp)+":plugin-hooks-after-composite-schedule-hook", imp.Pos(), "pluginconfig.AddHooks() must come after the composite-schedule hook was added")
	// resolvers
	want := map[string]string{"": "EnvTagResolver", "ENV": "EnvTagResolver", "PROPERTY": "PropertyTagResolver"}
	got := map[string]string{}
	EachInstr(imp, func(in ssa.Instruction) {
		if IsCall(in, Spec{"./lib/confutil", "", "RegisterTagResolver"}) {
			cc := CC(in)
			k, _ := ConstString(cc.Args[0])
			for _, r := range Roots(cc.Args[1], false) {
				if u, ok := r.(*ssa.UnOp); ok {
					if g, ok := u.X.(*ssa.Global); ok {
						got[k] = g.Name()
					}
				}
			}
		}
	})
	c.Check(reflect.DeepEqual(want, got), "O17.7", fk(imp)+":resolvers-registered", imp.Pos(), fmt.Sprintf("registered placeholder resolvers: %v (want %v)", got, want))
}

func c17FillConf(c *Ctx) {
	P := c.P
	pc := P.Func("core/plugin/pluginconfig", "", "parseConf")
	dav := P.Func("core/config", "", "DecodeAndValidate")
	if pc == nil || dav == nil {
		c.Anchor("O17.3", "pluginconfig.parseConf / config.DecodeAndValidate")
		return
	}
	// the fillConf closure: the one-parameter closure that calls DecodeAndValidate, made by parseConf or by a helper
	// of the package it calls (newFillConf(...))
	var fill *ssa.Function
	region := FindFuncs(pc, 2, func(*ssa.Function) bool { return true })
	callsDav := func(a *ssa.Function) bool {
		found := false
		EachInstr(a, func(in ssa.Instruction) {
			if cl, ok := in.(*ssa.Call); ok && cl.Call.StaticCallee() == dav {
				found = true
			}
		})
		return found
	}
	for _, a := range region {
		if a.Parent() != nil && len(a.Params) == 1 && callsDav(a) {
			fill = a
		}
	}
	// ... or a method of a small type of the package whose value parseConf returns (filler.fill)
	if fill == nil {
		for _, g := range region {
			EachInstr(g, func(in ssa.Instruction) {
				mc, ok := in.(*ssa.MakeClosure)
				if !ok {
					return
				}
				f, _ := mc.Fn.(*ssa.Function)
				if f == nil || f.Synthetic == "" {
					return
				}
				if o, isO := f.Object().(*types.Func); isO {
					if d := P.SSA.FuncValue(o); d != nil && len(d.Blocks) > 0 && PkgOf(d) == PkgOf(pc) && callsDav(d) {
						fill = d
					}
				}
			})
		}
	}
	if fill == nil {
		c.Anchor("O17.3", "the fillConf closure of parseConf")
		return
	}
	var call *ssa.Call
	EachInstr(fill, func(in ssa.Instruction) {
		if cl, ok := in.(*ssa.Call); ok && cl.Call.StaticCallee() == dav {
			call = cl
		}
	})
	if call == nil {
		c.Bad("O17.3", fk(fill)+":strict-decode-and-validate", fill.Pos(), "fillConf does not call config.DecodeAndValidate")
		return
	}
	iv := countCalls(fill, func(in ssa.Instruction) bool { return in == ssa.Instruction(call) })
	okArgs := call.Call.Args[1] == ssa.Value(fill.Params[len(fill.Params)-1]) // the closure's (or the method's) conf parameter
	// arg 0: the confData map of parseConf (captured)
	var tsk *ssa.Call
	EachInstr(pc, func(in ssa.Instruction) {
		if cl, ok := in.(*ssa.Call); ok && cl.Call.StaticCallee() != nil && cl.Call.StaticCallee().Name() == "toStringKeyMap" {
			tsk = cl
		}
	})
	// the decoded map resolved through captured variables, parameters of helpers and the results of helpers
	var leaves []ssa.Value
	{
		seen := map[ssa.Value]bool{}
		var walk func(v ssa.Value, d int)
		walk = func(v ssa.Value, d int) {
			if seen[v] || d > 6 {
				return
			}
			seen[v] = true
			for _, r := range Roots(v, false) {
				if pr, ok := r.(*ssa.Parameter); ok {
					followed := false
					for i, q := range pr.Parent().Params {
						if q != pr {
							continue
						}
						for _, site := range P.StaticCallSites(pr.Parent()) {
							if cc := CC(site); cc != nil && i < len(cc.Args) {
								walk(cc.Args[i], d+1)
								followed = true
							}
						}
					}
					if followed {
						continue
					}
				}
				if cl, _ := CallOfValue(r); cl != nil && cl != tsk && cl.Call.StaticCallee() != nil && PkgOf(cl.Call.StaticCallee()) == PkgOf(pc) && cl.Call.StaticCallee().Name() != "toStringKeyMap" {
					ts := ThroughReturns(r)
					if len(ts) != 1 || ts[0] != r {
						for _, t := range ts {
							walk(t, d+1)
						}
						continue
					}
				}
				if IsNilConst(r) {
					continue // the nil a helper returns next to its error
				}
				leaves = append(leaves, r)
			}
		}
		walk(call.Call.Args[0], 0)
	}
	okMap := tsk != nil && len(leaves) > 0
	for _, l := range leaves {
		if !IsResultOf(tsk, 0)(l) {
			okMap = false
		}
	}
	// or: a copy of that map made in parseConf or its helper (see the copy rule below)
	var copyMap *ssa.MakeMap
	if tsk != nil && !okMap {
		okMap = len(leaves) > 0
		for _, l := range leaves {
			if mm, ok := l.(*ssa.MakeMap); ok && (copyMap == nil || copyMap == mm) {
				copyMap = mm
			} else if !IsResultOf(tsk, 0)(l) { // the variable held the section itself before the copy replaced it
				okMap = false
			}
		}
		okMap = okMap && copyMap != nil
	}
	// or: maps.Clone of that map (the type key is then removed from the clone with maps.DeleteFunc)
	var cloneCall *ssa.Call
	if tsk != nil && !okMap && copyMap == nil {
		okMap = len(leaves) > 0
		for _, l := range leaves {
			if cl, isC := l.(*ssa.Call); isC && isGenericStd(cl, "maps", "Clone") && len(cl.Call.Args) == 1 && DerivesOnly(cl.Call.Args[0], false, IsResultOf(tsk, 0)) && (cloneCall == nil || cloneCall == cl) {
				cloneCall = cl
			} else if !IsResultOf(tsk, 0)(l) {
				okMap = false
			}
		}
		okMap = okMap && cloneCall != nil
	}
	c.Check(iv.Is(1, 1) && okArgs && okMap, "O17.3", fk(fill)+":strict-decode-and-validate", call.Pos(),
		fmt.Sprintf("DecodeAndValidate(confData, conf) per fillConf call = %v (want [1,1] - also for a config struct without fields: that is how unknown keys of config-less plugins are rejected); conf is the closure's argument: %v; the map is parseConf's confData: %v", iv, okArgs, okMap))
	// error returned
	okErr := false
	EachInstr(fill, func(in ssa.Instruction) {
		if r, ok := in.(*ssa.Return); ok {
			if ErrDerives(r.Results[0], func(v ssa.Value) bool { return v == ssa.Value(call) }) || DerivesAny(r.Results[0], false, func(v ssa.Value) bool { return v == ssa.Value(call) }) {
				okErr = true
			}
			// the wrapped form: errors.Errorf(..., err) on err != nil, else err
			for _, rt := range Roots(r.Results[0], false) {
				if cl, _ := CallOfValue(rt); cl != nil && MatchCC(&cl.Call, Spec{"github.com/pkg/errors", "", "Errorf"}, Spec{"fmt", "", "Errorf"}) {
					for _, f := range CmpFactsAt(cl) {
						if f.Op == token.NEQ && IsNilConst(f.Y) && DerivesAny(f.X, false, func(v ssa.Value) bool { return v == ssa.Value(call) }) {
							okErr = true
						}
					}
				}
			}
		}
	})
	nilOnly := true
	EachInstr(fill, func(in ssa.Instruction) {
		if r, ok := in.(*ssa.Return); ok && IsNilConst(r.Results[0]) {
			nilOnly = false
		}
	})
	c.Check(okErr && nilOnly, "O17.3", fk(fill)+":decode-error-returned", fill.Pos(), "fillConf returns the decode/validate error (possibly wrapped) and has no unconditional `return nil`")
	// deletions from the map only for the type key
	nDel := 0
	okDel := true
	eachRegion := func(f func(ssa.Instruction)) {
		for _, g := range region {
			EachInstr(g, f)
		}
	}
	eachRegion(func(in ssa.Instruction) {
		if !IsBuiltinCall(in, "delete") {
			return
		}
		nDel++
		isTypeKey := false
		for _, f := range CmpFactsAt(in) {
			if f.Op != token.EQL {
				continue
			}
			for _, pr := range [][2]ssa.Value{{f.X, f.Y}, {f.Y, f.X}} {
				if s, ok := ConstString(pr[0]); ok && s == "type" {
					if cl, _ := CallOfValue(pr[1]); cl != nil && MatchCC(&cl.Call, Spec{"strings", "", "ToLower"}) {
						isTypeKey = true
					}
				}
			}
		}
		for _, bf := range BoolFactsAt(in) {
			if bf.Val && isEqualFoldType(bf.Subj) {
				isTypeKey = true
			}
		}
		if !isTypeKey {
			okDel = false
		}
	})
	if cloneCall != nil {
		// exactly one maps.DeleteFunc on the clone, with a predicate that is true for the type key only
		nDF, okDF := 0, true
		EachInstr(cloneCall.Parent(), func(in ssa.Instruction) {
			cl, isC := in.(*ssa.Call)
			if !isC || !isGenericStd(cl, "maps", "DeleteFunc") || len(cl.Call.Args) != 2 {
				return
			}
			if !DerivesOnly(cl.Call.Args[0], false, func(v ssa.Value) bool { return v == ssa.Value(cloneCall) }) {
				okDF = false // deletes from something else (the caller's map?)
				return
			}
			nDF++
			preds := P.FuncValues(cl.Call.Args[1])
			if len(preds) != 1 || !c17IsTypeKeyTest(preds[0], 0, 0) {
				okDF = false
			}
		})
		c.Check(nDel == 0 && nDF == 1 && okDF, "O17.3", fk(pc)+":only-the-type-key-is-removed", pc.Pos(), fmt.Sprintf("the settings are cloned and %d maps.DeleteFunc call(s) remove from the clone the keys for which the predicate says 'type' in any case: %v; %d delete() calls", nDF, okDF, nDel))
	} else if copyMap == nil {
		c.Check(nDel == 1 && okDel, "O17.3", fk(pc)+":only-the-type-key-is-removed", pc.Pos(), fmt.Sprintf("%d delete(confData, key) call(s), each under strings.ToLower(key) == \"type\": %v", nDel, okDel))
	} else {
		c17CopyWithoutType(c, copyMap.Parent(), tsk, copyMap, nDel)
	}
	c17FillConfRegistry(c)
}

// c17CopyWithoutType: the copying form of "only the type key is removed".
func c17CopyWithoutType(c *Ctx, pc *ssa.Function, tsk *ssa.Call, copyMap *ssa.MakeMap, nDel int) {
	// the copying form: the decoded map is filled in a range over the section, with the ranged key and value, on
	// exactly the iterations whose key is not the type key
	isTypeCmp := func(v ssa.Value, op token.Token) bool {
		b, ok := v.(*ssa.BinOp)
		if !ok || b.Op != op {
			return false
		}
		for _, pr := range [][2]ssa.Value{{b.X, b.Y}, {b.Y, b.X}} {
			if s, ok := ConstString(pr[0]); ok && s == "type" {
				if cl, _ := CallOfValue(pr[1]); cl != nil && MatchCC(&cl.Call, Spec{"strings", "", "ToLower"}) {
					return true
				}
			}
		}
		return false
	}
	isTypeEq := func(v ssa.Value) bool { return isTypeCmp(v, token.EQL) || isEqualFoldType(v) }
	isTypeNe := func(v ssa.Value) bool { return isTypeCmp(v, token.NEQ) }
	var ups []*ssa.MapUpdate
	EachInstr(pc, func(in ssa.Instruction) {
		if mu, ok := in.(*ssa.MapUpdate); ok && DerivesOnly(mu.Map, false, func(v ssa.Value) bool { return v == ssa.Value(copyMap) }) {
			ups = append(ups, mu)
		}
	})
	okCopy := len(ups) == 1 && nDel == 0
	detail := fmt.Sprintf("%d update(s) of the copy, %d delete(s)", len(ups), nDel)
	if okCopy {
		mu := ups[0]
		// key and value come from the Next of a range over the section
		var next *ssa.Next
		fromNext := func(v ssa.Value, idx int) bool {
			ex, ok := Strip(v).(*ssa.Extract)
			if !ok || ex.Index != idx {
				return false
			}
			n, ok := ex.Tuple.(*ssa.Next)
			if !ok {
				return false
			}
			rg, ok := n.Iter.(*ssa.Range)
			if !ok || !SliceAny(rg.X, IsResultOf(tsk, 0)) {
				return false
			}
			next = n
			return true
		}
		okKV := fromNext(mu.Key, 1) && fromNext(mu.Value, 2)
		okCount := false
		if okKV && next != nil {
			w := func(in ssa.Instruction) (int, int) {
				if in == ssa.Instruction(mu) {
					return 1, 1
				}
				return 0, 0
			}
			head := next.Block()
			// "the key is the type key" assumed false / true, whichever way the comparison is written (== or !=)
			kept := PathQuery{Fn: pc, Start: next, StopBlock: head, Weight: w, Assume: []Assumption{{isTypeEq, false}, {isTypeNe, true}}, Exit: func(*ssa.BasicBlock) bool { return false }}.Count()
			dropped := PathQuery{Fn: pc, Start: next, StopBlock: head, Weight: w, Assume: []Assumption{{isTypeEq, true}, {isTypeNe, false}}, Exit: func(*ssa.BasicBlock) bool { return false }}.Count()
			okCount = kept.Is(1, 1) && (dropped.NoPath || dropped.Is(0, 0))
			detail += fmt.Sprintf("; copies per iteration with another key = %v (want [1,1]), with the type key = %v (want [0,0])", kept, dropped)
		}
		okCopy = okKV && okCount
		detail += fmt.Sprintf("; key and value are the ranged ones: %v", okKV)
	}
	c.Check(okCopy, "O17.3", fk(pc)+":only-the-type-key-is-removed", pc.Pos(), "the map given to DecodeAndValidate is a copy of the section without the type key: "+detail)
}

func c17FillConfRegistry(c *Ctx) {
	P := c.P
	// registry side
	get := P.Func("core/plugin", "defaultConfigContainer", "Get")
	if get == nil || len(get.Params) != 2 {
		c.Anchor("O17.3", "core/plugin.defaultConfigContainer.Get")
	} else {
		isFill := func(v ssa.Value) bool { return v == ssa.Value(get.Params[1]) }
		w := func(in ssa.Instruction) (int, int) {
			if cc := CC(in); cc != nil && isFill(cc.Value) {
				return 1, 1
			}
			return 0, 0
		}
		iv := PathQuery{Fn: get, Weight: w, Edge: AssumeNonNil(isFill)}.Count()
		var fc *ssa.Call
		EachInstr(get, func(in ssa.Instruction) {
			if cl, ok := in.(*ssa.Call); ok && isFill(cl.Call.Value) {
				fc = cl
			}
		})
		okP := fc != nil && checkErrPropagated(c, "O17.3", fk(get)+":fill-error-fails-creation", fc)
		c.Check(iv.Is(1, 1) && okP, "O17.3", fk(get)+":config-filled-on-every-creation", get.Pos(), fmt.Sprintf("fillConf calls per Get with fillConf != nil = %v (want [1,1], also when the constructor takes no config)", iv))
	}
	nf := P.Func("core/plugin", "Registry", "NewFactory")
	if nf == nil {
		c.Anchor("O17.3", "core/plugin.(*Registry).NewFactory")
	} else {
		// on the !configRequired edge with fillConf != nil: fillConf(&struct{}{}) and its error returned
		ok := false
		EachInstr(nf, func(in ssa.Instruction) {
			cl, isC := in.(*ssa.Call)
			if !isC || cl.Call.StaticCallee() != nil || cl.Call.IsInvoke() {
				return
			}
			if _, isB := cl.Call.Value.(*ssa.Builtin); isB {
				return
			}
			if len(cl.Call.Args) != 1 {
				return
			}
			if mi, isMI := cl.Call.Args[0].(*ssa.MakeInterface); isMI {
				if pt, isP := mi.X.Type().(*types.Pointer); isP {
					if st, isS := pt.Elem().Underlying().(*types.Struct); isS && st.NumFields() == 0 {
						if HasBoolFact(BoolFactsAt(cl), func(v ssa.Value) bool {
							c2, _ := CallOfValue(v)
							return c2 != nil && c2.Call.StaticCallee() != nil && c2.Call.StaticCallee().Name() == "configRequired"
						}, false) {
							ok = checkErrPropagated(c, "O17.3", fk(nf)+":empty-config-check-error-returned", cl)
						}
					}
				}
			}
		})
		c.Check(ok, "O17.3", fk(nf)+":config-less-plugins-still-check-their-keys", nf.Pos(), "when the constructor takes no config, NewFactory calls fillConf(&struct{}{}) and returns its error: leftover keys are rejected")
	}
}

var tagKeyRe = regexp.MustCompile(`([A-Za-z_][A-Za-z0-9_-]*):"`)

func c17Tags(c *Ctx) {
	P := c.P
	// validator's own rule table
	known := map[string]bool{"omitempty": true, "dive": true, "structonly": true, "nostructlevel": true, "required": true, "isdefault": true, "keys": true, "endkeys": true}
	nBaked := 0
	if vp := P.ByPkg["gopkg.in/bluesuncorp/validator.v9"]; vp != nil {
		for _, f := range vp.Syntax {
			ast.Inspect(f, func(n ast.Node) bool {
				vs, ok := n.(*ast.ValueSpec)
				if !ok || len(vs.Names) == 0 || vs.Names[0].Name != "bakedInValidators" || len(vs.Values) == 0 {
					return true
				}
				if cl, ok := vs.Values[0].(*ast.CompositeLit); ok {
					for _, e := range cl.Elts {
						if kv, ok := e.(*ast.KeyValueExpr); ok {
							if bl, ok := kv.Key.(*ast.BasicLit); ok {
								s, _ := strconv.Unquote(bl.Value)
								known[s] = true
								nBaked++
							}
						}
					}
				}
				return true
			})
		}
	}
	c.Floor("O17.4", "rules in validator.v9's bakedInValidators", nBaked, 50)
	// pandora's registrations: the key strings of the validations / stringValidations tables
	nReg := 0
	if cp := P.Pkg("core/config"); cp != nil {
		for _, f := range cp.Syntax {
			ast.Inspect(f, func(n ast.Node) bool {
				vs, ok := n.(*ast.ValueSpec)
				if !ok || len(vs.Names) == 0 || (vs.Names[0].Name != "validations" && vs.Names[0].Name != "stringValidations") || len(vs.Values) == 0 {
					return true
				}
				if cl, ok := vs.Values[0].(*ast.CompositeLit); ok {
					for _, e := range cl.Elts {
						if el, ok := e.(*ast.CompositeLit); ok && len(el.Elts) >= 1 {
							if bl, ok := el.Elts[0].(*ast.BasicLit); ok {
								s, _ := strconv.Unquote(bl.Value)
								known[s] = true
								nReg++
							}
						}
					}
				}
				return true
			})
		}
	}
	c.Floor("O17.4", "validations registered by core/config", nReg, 6)
	// newValidator registers both tables under the validate tag name
	if nv := P.Func("core/config", "", "newValidator"); nv != nil {
		okTag := false
		EachInstr(nv, func(in ssa.Instruction) {
			if IsCall(in, Spec{"gopkg.in/bluesuncorp/validator.v9", "Validate", "SetTagName"}) {
				s, _ := ConstString(CC(in).Args[1])
				okTag = s == "validate"
			}
		})
		nRV := len(Calls(nv, Spec{"gopkg.in/bluesuncorp/validator.v9", "Validate", "RegisterValidation"}))
		c.Check(okTag && nRV == 2, "O17.4", fk(nv)+":tables-registered-under-validate", nv.Pos(), fmt.Sprintf("SetTagName(\"validate\"): %v; RegisterValidation loops: %d (want 2: validations, stringValidations)", okTag, nRV))
	} else {
		c.Anchor("O17.4", "core/config.newValidator")
	}
	// every struct field tag in production packages
	readKeys := map[string]bool{"config": true, "validate": true, "map": true, "json": true, "yaml": true, "hcl": true, "mapstructure": true}
	seen := map[string]string{}
	nValidate, nTagged := 0, 0
	for _, pk := range P.Root {
		if !IsProdPkg(pk.PkgPath) {
			continue
		}
		rel := strings.TrimPrefix(strings.TrimPrefix(pk.PkgPath, Mod), "/")
		for _, f := range pk.Syntax {
			fname := P.Fset.Position(f.Pos()).Filename
			if !IsProdFile(fname) {
				continue
			}
			var typeStack []string
			ast.Inspect(f, func(n ast.Node) bool {
				ts, ok := n.(*ast.TypeSpec)
				if !ok {
					return true
				}
				st, ok := ts.Type.(*ast.StructType)
				if !ok {
					return true
				}
				typeStack = append(typeStack, ts.Name.Name)
				var walk func(st *ast.StructType, prefix string)
				walk = func(st *ast.StructType, prefix string) {
					for _, fld := range st.Fields.List {
						names := []string{}
						for _, nm := range fld.Names {
							names = append(names, nm.Name)
						}
						if len(names) == 0 {
							names = []string{types.ExprString(fld.Type)}
						}
						if inner, ok := fld.Type.(*ast.StructType); ok {
							walk(inner, prefix+names[0]+".")
						}
						if fld.Tag == nil {
							continue
						}
						tag, err := strconv.Unquote(fld.Tag.Value)
						if err != nil {
							continue
						}
						nTagged++
						key := rel + "." + ts.Name.Name + "." + prefix + names[0]
						for _, m := range tagKeyRe.FindAllStringSubmatch(tag, -1) {
							if !readKeys[m[1]] {
								c.Bad("O17.8", key+":tag-key-"+m[1], fld.Tag.Pos(), fmt.Sprintf("struct tag key %q is read by no decoder or validator in the build (keys read: config, validate, map, json, yaml, hcl): a constraint or key written under it is never applied", m[1]))
							}
						}
						v, has := reflect.StructTag(tag).Lookup("validate")
						if !has {
							continue
						}
						nValidate++
						seen[key] = v
						for _, r := range parseRules(v) {
							if !known[r.name] {
								c.Bad("O17.4", key+":unknown-rule-"+r.name, fld.Tag.Pos(), fmt.Sprintf("validate rule %q is neither in the validator's table nor registered by core/config: the validator panics or never checks it", r.name))
							}
						}
					}
				}
				walk(st, "")
				return true
			})
			_ = typeStack
		}
	}
	c.OK("O17.8", "production packages:struct-tag-keys", token.NoPos, fmt.Sprintf("%d tagged struct fields scanned", nTagged))
	c.Floor("O17.4", "validate-tagged configuration fields", nValidate, 36)
	c.Floor("O17.8", "tagged struct fields", nTagged, 150)
	// reference constraints
	keys := make([]string, 0, len(c17Constraints))
	for k := range c17Constraints {
		keys = append(keys, k)
	}
	sort.Strings(keys)
	for _, k := range keys {
		want := parseRules(c17Constraints[k])
		have, ok := seen[k]
		if !ok {
			c.Bad("O17.4", k+":constraint-present", token.NoPos, fmt.Sprintf("the field has no validate tag any more (reference: %q); if it was renamed update the table in rules/c17.go", c17Constraints[k]))
			continue
		}
		hr := parseRules(have)
		var missing []string
		for _, w := range want {
			found := false
			for _, h := range hr {
				if ruleImplies(h, w) {
					found = true
				}
			}
			// omitempty is a relaxation marker, not a constraint: its absence is stronger
			if w.name == "omitempty" {
				found = true
			}
			if !found {
				missing = append(missing, w.name+"="+w.param)
			}
		}
		// a constraint made optional by an added omitempty is a weakening
		wantOmit, haveOmit := false, false
		for _, w := range want {
			if w.name == "omitempty" {
				wantOmit = true
			}
		}
		for _, h := range hr {
			if h.name == "omitempty" {
				haveOmit = true
			}
		}
		if haveOmit && !wantOmit {
			missing = append(missing, "(omitempty added)")
		}
		c.Check(len(missing) == 0, "O17.4", k+":constraint-not-weakened", token.NoPos, fmt.Sprintf("validate:%q, reference %q, missing/weakened: %v", have, c17Constraints[k], missing))
	}
	// fields with a validate tag that the reference does not know yet are listed for the reader
	var extra []string
	for k := range seen {
		if _, ok := c17Constraints[k]; !ok {
			extra = append(extra, k+"="+seen[k])
		}
	}
	sort.Strings(extra)
	if len(extra) > 0 {
		c.Note("validate-tagged fields not in the reference table (accepted, not compared): %v", extra)
	}
}

func c17Placeholders(c *Ctx) {
	P := c.P
	// env resolver
	if er := P.Func("lib/confutil", "", "envTokenResolver"); er == nil {
		c.Anchor("O17.7", "lib/confutil.envTokenResolver")
	} else {
		var lk *ssa.Call
		EachInstr(er, func(in ssa.Instruction) {
			if cl, ok := in.(*ssa.Call); ok && MatchCC(&cl.Call, Spec{"os", "", "LookupEnv"}) {
				lk = cl
			}
		})
		ok := lk != nil && lk.Call.Args[0] == ssa.Value(er.Params[0])
		if ok {
			for _, b := range er.Blocks {
				r, isR := b.Instrs[len(b.Instrs)-1].(*ssa.Return)
				if !isR {
					continue
				}
				found := HasBoolFact(BoolFactsAt(r), IsResultOf(lk, 1), true)
				missing := HasBoolFact(BoolFactsAt(r), IsResultOf(lk, 1), false)
				isNil := IsNilConst(r.Results[1])
				if (isNil && !found) || (!isNil && !missing) {
					ok = false
				}
				if isNil && !DerivesOnly(r.Results[0], false, IsResultOf(lk, 0)) {
					ok = false
				}
			}
		}
		c.Check(ok, "O17.7", fk(er)+":unset-variable-is-an-error", er.Pos(), "envTokenResolver returns the value exactly on the ok edge of os.LookupEnv(name) and an error on the !ok edge")
	}
	// property resolver: errors when no '#', open fails, property absent
	if pr := P.Func("lib/confutil", "", "propertyTokenResolver"); pr == nil {
		c.Anchor("O17.7", "lib/confutil.propertyTokenResolver")
	} else {
		nilRets, errRets := 0, 0
		okFound := true
		for _, b := range pr.Blocks {
			r, isR := b.Instrs[len(b.Instrs)-1].(*ssa.Return)
			if !isR || b == pr.Recover {
				continue
			}
			isNil, known := retErrIsNil(r)
			if !known {
				okFound = false
				continue
			}
			if isNil {
				nilRets++
				// only where a line's key equals the requested property
				eq := false
				for _, f := range CmpFactsAt(r) {
					if f.Op == token.EQL && f.Y != nil {
						if types.Identical(f.X.Type().Underlying(), types.Typ[types.String]) {
							eq = true
						}
					}
				}
				if !eq {
					okFound = false
				}
			} else {
				errRets++
			}
		}
		c.Check(okFound && nilRets == 1 && errRets >= 3, "O17.7", fk(pr)+":missing-property-is-an-error", pr.Pos(), fmt.Sprintf("success returns: %d (only where key == property), error returns: %d (want >= 3: malformed placeholder, unreadable file, absent property)", nilRets, errRets))
		// no unguarded index on the split result
		nIdx := 0
		EachInstr(pr, func(in ssa.Instruction) {
			if ia, ok := in.(*ssa.IndexAddr); ok {
				if cl, _ := CallOfValue(ia.X); cl != nil && MatchCC(&cl.Call, Spec{"strings", "", "SplitN"}, Spec{"strings", "", "Split"}) {
					k, isK := ConstInt(ia.Index)
					if isK && k >= 1 {
						// must be dominated by a length / Contains check
						guarded := false
						for _, f := range CmpFactsAt(in) {
							if lc, ok := f.X.(*ssa.Call); ok && IsBuiltinCall(lc, "len") {
								guarded = true
							}
							if lc, ok := f.Y.(*ssa.Call); ok && IsBuiltinCall(lc, "len") {
								guarded = true
							}
						}
						for _, bf := range BoolFactsAt(in) {
							if cl2, _ := CallOfValue(bf.Subj); cl2 != nil && bf.Val && MatchCC(&cl2.Call, Spec{"strings", "", "Contains"}) {
								guarded = true
							}
						}
						if !guarded {
							nIdx++
						}
					}
				}
			}
		})
		c.Check(nIdx == 0, "O17.7", fk(pr)+":malformed-placeholder-does-not-panic", pr.Pos(), fmt.Sprintf("%d unguarded index >= 1 into a Split result", nIdx))
	}
	// cast: kinds handled
	if cs := P.Func("lib/confutil", "", "cast"); cs == nil {
		c.Anchor("O17.7", "lib/confutil.cast")
	} else {
		kinds := map[int64]bool{}
		EachInstr(cs, func(in ssa.Instruction) {
			if bo, ok := in.(*ssa.BinOp); ok && bo.Op == token.EQL {
				if k, isK := ConstInt(bo.Y); isK {
					if cl, _ := CallOfValue(bo.X); cl != nil && cl.Call.IsInvoke() && cl.Call.Method.Name() == "Kind" {
						kinds[k] = true
					}
				}
			}
		})
		var missing []string
		rp := P.ByPkg["reflect"]
		for _, n := range []string{"Bool", "Int", "Int8", "Int16", "Int32", "Int64", "Uint", "Uint8", "Uint16", "Uint32", "Uint64", "Float32", "Float64", "String"} {
			if rp == nil {
				break
			}
			cst, ok := rp.Types.Scope().Lookup(n).(*types.Const)
			if !ok {
				continue
			}
			v, _ := constant.Int64Val(cst.Val())
			if !kinds[v] {
				missing = append(missing, n)
			}
		}
		c.Check(rp != nil && len(missing) == 0, "O17.7", fk(cs)+":kinds-covered", cs.Pos(), fmt.Sprintf("cast switches on bool, all int/uint kinds, floats and string; missing: %v", missing))
	}
	// inject hook returns the resolver error; passes data through only on ErrNoTagsFound
	if vi := P.Func("core/config", "", "VariableInjectHook"); vi != nil {
		var rc *ssa.Call
		EachInstr(vi, func(in ssa.Instruction) {
			if cl, ok := in.(*ssa.Call); ok && MatchCC(&cl.Call, Spec{"./lib/confutil", "", "ResolveCustomTags"}) {
				rc = cl
			}
		})
		ok := false
		if rc != nil {
			e, _ := errResult(rc)
			// some return carries e; a nil-error return with the original data only under err == ErrNoTagsFound
			carries, okPass := false, true
			for _, b := range vi.Blocks {
				r, isR := b.Instrs[len(b.Instrs)-1].(*ssa.Return)
				if !isR || !InstrDominates(rc, r) {
					continue
				}
				if DerivesAny(r.Results[1], false, func(v ssa.Value) bool { return v == e }) {
					carries = true
				}
				if IsNilConst(r.Results[1]) && r.Results[0] == ssa.Value(vi.Params[2]) {
					noTags := false
					for _, f := range CmpFactsAt(r) {
						if f.Op == token.EQL && (DerivesAny(f.X, false, func(v ssa.Value) bool { return v == e }) || DerivesAny(f.Y, false, func(v ssa.Value) bool { return v == e })) {
							noTags = true
						}
					}
					if !noTags {
						okPass = false
					}
				}
			}
			ok = carries && okPass && rc.Call.Args[1] == ssa.Value(vi.Params[1])
		}
		c.Check(ok, "O17.7", fk(vi)+":resolver-error-fails-decoding", vi.Pos(), "VariableInjectHook returns the error of ResolveCustomTags(str, targetType) and passes the string through unchanged only on ErrNoTagsFound")
		// what the hook hands on is the input itself or what ResolveCustomTags made of it for this target type in this
		// call: a value remembered from another field (a cache keyed by the placeholder text) was cast for that field's
		// type and resolved from that moment's environment
		if rc != nil {
			okVal := true
			bad := ""
			for _, b := range vi.Blocks {
				r, isR := b.Instrs[len(b.Instrs)-1].(*ssa.Return)
				if !isR || len(r.Results) < 2 {
					continue
				}
				for _, root := range Roots(r.Results[0], false) {
					if root == ssa.Value(vi.Params[2]) {
						continue
					}
					if ex, isEx := root.(*ssa.Extract); isEx && ex.Tuple == ssa.Value(rc) && ex.Index == 0 {
						continue
					}
					okVal = false
					bad = root.String() + " at " + P.Pos(r.Pos())
				}
			}
			c.Check(okVal, "O17.7", fk(vi)+":resolved-value-is-made-in-this-call", vi.Pos(), "every value VariableInjectHook returns is its input or the result of ResolveCustomTags(str, targetType) of this call; other source: "+bad)
		}
	}
	// ResolveCustomTags: resolver error returned
	if rt := P.Func("lib/confutil", "", "ResolveCustomTags"); rt != nil {
		ok := false
		// in ResolveCustomTags or in a helper of the package it calls (substituteTags); then the helper's error must be
		// returned by ResolveCustomTags as well
		for _, g := range FindFuncs(rt, 2, func(*ssa.Function) bool { return true }) {
			EachInstr(g, func(in ssa.Instruction) {
				cl, isC := in.(*ssa.Call)
				if !isC || cl.Call.StaticCallee() != nil || cl.Call.IsInvoke() {
					return
				}
				if _, isB := cl.Call.Value.(*ssa.Builtin); isB {
					return
				}
				// the dynamic call of the resolver
				if sig := cl.Call.Signature(); sig.Params().Len() == 1 && sig.Results().Len() == 2 {
					ok = checkErrPropagated(c, "O17.7", fk(g)+":resolver-error-returned", cl)
					for at, d := SoleCallSite(g), 0; ok && g != rt && at != nil && d < 3; d++ {
						if hc, isHC := at.(*ssa.Call); isHC {
							ok = checkErrPropagated(c, "O17.7", fk(at.Parent())+":resolver-error-returned-by-the-caller", hc)
						}
						if at.Parent() == rt {
							break
						}
						at = SoleCallSite(at.Parent())
					}
				}
			})
		}
		c.Check(ok, "O17.7", fk(rt)+":resolver-called-and-checked", rt.Pos(), "ResolveCustomTags calls the registered resolver and returns its error")
	}
	_ = os.Getenv
	_ = filepath.Join
}

// isEqualFoldType: v is strings.EqualFold(x, "type") (either argument order; "type" may be the PluginNameKey constant).
func isEqualFoldType(v ssa.Value) bool {
	cl, ok := v.(*ssa.Call)
	if !ok || !MatchCC(&cl.Call, Spec{"strings", "", "EqualFold"}) || len(cl.Call.Args) != 2 {
		return false
	}
	for _, a := range cl.Call.Args {
		if s, isS := ConstString(a); isS && s == "type" {
			return true
		}
	}
	return false
}

// c17IsTypeKeyTest: fn returns, on every return, whether its parameter #ki is the key "type" in any letter case:
// strings.EqualFold("type", key), strings.ToLower(key) == "type", or a helper of the package that does.
func c17IsTypeKeyTest(fn *ssa.Function, ki, depth int) bool {
	if fn == nil || ki >= len(fn.Params) || depth > 2 || len(fn.Blocks) == 0 {
		return false
	}
	key := ssa.Value(fn.Params[ki])
	n := 0
	for _, b := range fn.Blocks {
		r, ok := b.Instrs[len(b.Instrs)-1].(*ssa.Return)
		if !ok || len(r.Results) != 1 {
			continue
		}
		n++
		v := r.Results[0]
		okV := false
		if cl, _ := CallOfValue(v); cl != nil {
			switch {
			case MatchCC(&cl.Call, Spec{"strings", "", "EqualFold"}) && len(cl.Call.Args) == 2:
				for _, pr := range [][2]ssa.Value{{cl.Call.Args[0], cl.Call.Args[1]}, {cl.Call.Args[1], cl.Call.Args[0]}} {
					if s, isS := ConstString(pr[0]); isS && s == "type" && pr[1] == key {
						okV = true
					}
				}
			case cl.Call.StaticCallee() != nil && PkgOf(cl.Call.StaticCallee()) == PkgOf(fn):
				for j, a := range cl.Call.Args {
					if a == key && c17IsTypeKeyTest(cl.Call.StaticCallee(), j, depth+1) {
						okV = true
					}
				}
			}
		}
		if bo, isB := v.(*ssa.BinOp); isB && bo.Op == token.EQL {
			for _, pr := range [][2]ssa.Value{{bo.X, bo.Y}, {bo.Y, bo.X}} {
				if s, isS := ConstString(pr[0]); isS && s == "type" {
					if cl, _ := CallOfValue(pr[1]); cl != nil && MatchCC(&cl.Call, Spec{"strings", "", "ToLower"}) && cl.Call.Args[0] == key {
						okV = true
					}
				}
			}
		}
		if !okV {
			return false
		}
	}
	return n > 0
}

// ---- O17.10: the custom validators compare the right way round

func c17CustomValidators(c *Ctx) {
	c.Rule("O17.10", "pandora's own range validators mean what their names say: min-time / min-size accept exactly the values with limit <= value, max-time / max-size those with value <= limit (non-strict: `min-time=1ms` admits 1ms), where value is the validated field asserted to its type and limit is the tag parameter parsed by the same helper; a value of another type or an unparsable limit is rejected")
	P := c.P
	n := 0
	for _, v := range []struct {
		name string
		min  bool
	}{{"MinTimeValidation", true}, {"MaxTimeValidation", false}, {"MinSizeValidation", true}, {"MaxSizeValidation", false}} {
		fn := P.Func("core/config", "", v.name)
		if fn == nil {
			c.Anchor("O17.10", "core/config."+v.name)
			continue
		}
		n++
		// the extraction helper call: (actual, limit, ok)
		var get *ssa.Call
		EachInstr(fn, func(in ssa.Instruction) {
			if cl, ok := in.(*ssa.Call); ok && cl.Call.StaticCallee() != nil && PkgOf(cl.Call.StaticCallee()) == PkgOf(fn) && cl.Call.StaticCallee().Signature.Results().Len() == 3 {
				get = cl
			}
		})
		var cmp *ssa.BinOp
		EachInstr(fn, func(in ssa.Instruction) {
			if b, ok := in.(*ssa.BinOp); ok {
				switch b.Op {
				case token.LSS, token.LEQ, token.GTR, token.GEQ:
					cmp = b
				}
			}
		})
		if get == nil || cmp == nil {
			c.Bad("O17.10", fk(fn)+":compares-value-with-limit", fn.Pos(), "no (value, limit, ok) helper call followed by one comparison")
			continue
		}
		// `!(t < min)`: the comparison the function means is the negated one, and what it returns is the negation
		var result ssa.Value = cmp
		op := cmp.Op
		if refs := cmp.Referrers(); refs != nil && len(*refs) == 1 {
			if u, isU := (*refs)[0].(*ssa.UnOp); isU && u.Op == token.NOT {
				result = u
				op = negateTok(op)
			}
		}
		f := Fact{Op: op, X: cmp.X, Y: cmp.Y}.Canon() // X <= Y or X < Y
		isRes := func(v ssa.Value, idx int) bool { return DerivesOnly(v, false, IsResultOf(get, idx)) }
		okDir := f.Op == token.LEQ && ((v.min && isRes(f.X, 1) && isRes(f.Y, 0)) || (!v.min && isRes(f.X, 0) && isRes(f.Y, 1)))
		// the result is that comparison, and only where ok holds
		okGuard := HasBoolFact(BoolFactsAt(cmp), func(x ssa.Value) bool { return isRes(x, 2) }, true)
		okRet := true
		EachInstr(fn, func(in ssa.Instruction) {
			ret, isR := in.(*ssa.Return)
			if !isR || len(ret.Results) != 1 {
				return
			}
			for _, r := range Roots(ret.Results[0], false) {
				if r == result {
					continue
				}
				if val, isC := ConstCond(r); isC && !val {
					continue
				}
				if isRes(r, 2) {
					continue // `ok && cmp` may be built as phi(ok, cmp): false when !ok
				}
				okRet = false
			}
		})
		want := "limit <= value"
		if !v.min {
			want = "value <= limit"
		}
		c.Check(okDir && okGuard && okRet, "O17.10", fk(fn)+":compares-value-with-limit", cmp.Pos(),
			fmt.Sprintf("returns %s (non-strict) of the helper's (value, limit): %v; only where the helper said ok: %v; nothing else is returned but false: %v", want, okDir, okGuard, okRet))
		// the helper: result 0 is the validated value asserted to its type, result 1 the parsed parameter
		h := get.Call.StaticCallee()
		okH := len(h.Params) == 2
		if okH {
			fromValue := func(v ssa.Value) bool { // the value parameter, or a type assertion of it
				v = Strip(v)
				if ex, ok := v.(*ssa.Extract); ok {
					v = ex.Tuple
				}
				if ta, ok := v.(*ssa.TypeAssert); ok {
					v = ta.X
				}
				return v == ssa.Value(h.Params[0])
			}
			seenValue := false
			for _, ret := range DelegatedReturns(h) {
				if len(ret.Results) != 3 {
					okH = false
					continue
				}
				for _, r := range Roots(ret.Results[0], false) {
					switch {
					case fromValue(r):
						seenValue = true
					case func() bool { _, isK := r.(*ssa.Const); return isK }():
					case func() bool { _, isA := r.(*ssa.Alloc); return isA }():
					default:
						okH = false // the value result has another source (the parsed limit?)
					}
				}
				for _, r := range Roots(ret.Results[1], false) {
					if fromValue(r) {
						okH = false // the limit result comes from the validated value
					}
				}
			}
			okH = okH && seenValue
		}
		c.Check(okH, "O17.10", fk(h)+":value-from-the-field-limit-from-the-tag", h.Pos(), "the helper's first result comes from the validated value, its second from the tag parameter")
	}
	c.Floor("O17.10", "range validators of core/config", n, 4)
}
