package rules

import (
	"fmt"
	"go/token"
	"go/types"
	"sort"

	. "pandoravet/core"

	"golang.org/x/tools/go/ssa"
)

func init() {
	register(&Pack{Property: "C18", Title: "Plugin registry", Run: runC18})
}

// regWrapper is a function that registers a constructor for one plugin interface.
type regWrapper struct {
	Fn    *ssa.Function
	Iface *types.Interface
	Name  string
	Key   string // package path + "." + name of the plugin interface
}

// c18Wrappers finds, in all pandora packages, the functions of shape
// f(name string, ctor interface{}, defaultConfig ...interface{}) that forward to
// register.RegisterPtr / plugin.Register with a typed nil pointer naming the plugin interface.
func c18Wrappers(P *Prog) []*regWrapper {
	regPtr := P.Func("core/register", "", "RegisterPtr")
	var out []*regWrapper
	for fn := range P.AllFuncs() {
		if !IsPandora(PkgOf(fn)) || len(fn.Blocks) == 0 || fn.Parent() != nil || len(fn.Params) != 3 {
			continue
		}
		EachInstr(fn, func(in ssa.Instruction) {
			cc := CC(in)
			if cc == nil || cc.StaticCallee() != regPtr || regPtr == nil || len(cc.Args) != 4 {
				return
			}
			// arg0: make interface <- *T (nil)
			mi, ok := cc.Args[0].(*ssa.MakeInterface)
			if !ok {
				return
			}
			pt, ok := mi.X.Type().(*types.Pointer)
			if !ok {
				return
			}
			it, ok := pt.Elem().Underlying().(*types.Interface)
			if !ok {
				return
			}
			if cc.Args[2] != ssa.Value(fn.Params[1]) {
				return
			}
			p, n := NamedOf(pt.Elem())
			out = append(out, &regWrapper{Fn: fn, Iface: it, Name: n, Key: p + "." + n})
		})
	}
	sort.Slice(out, func(i, j int) bool { return out[i].Fn.String() < out[j].Fn.String() })
	return out
}

func structOrPtrToStruct(t types.Type) bool {
	if p, ok := t.Underlying().(*types.Pointer); ok {
		t = p.Elem()
	}
	_, ok := t.Underlying().(*types.Struct)
	return ok
}

// checkCtorShape validates a constructor signature against the registry's expectations and
// returns the config parameter type (nil if none) and a description of the shape.
func checkCtorShape(sig *types.Signature, iface *types.Interface) (conf types.Type, shape string, err string) {
	if sig.Variadic() {
		return nil, "", "variadic constructor"
	}
	if sig.Params().Len() > 1 {
		return nil, "", "constructor takes more than one argument"
	}
	if sig.Params().Len() == 1 {
		conf = sig.Params().At(0).Type()
		if !structOrPtrToStruct(conf) {
			return nil, "", "config argument is neither a struct nor a pointer to a struct: " + conf.String()
		}
	}
	n := sig.Results().Len()
	if n < 1 || n > 2 {
		return nil, "", fmt.Sprintf("constructor returns %d values (want 1 or 2)", n)
	}
	if n == 2 && !types.Identical(sig.Results().At(1).Type(), errType) {
		return nil, "", "second result is not error"
	}
	r0 := sig.Results().At(0).Type()
	if fs, ok := r0.Underlying().(*types.Signature); ok {
		// factory constructor
		if fs.Params().Len() != 0 {
			return nil, "", "the factory returned by the constructor takes arguments"
		}
		fn := fs.Results().Len()
		if fn < 1 || fn > 2 {
			return nil, "", "the factory returns neither (impl) nor (impl, error)"
		}
		if fn == 2 && !types.Identical(fs.Results().At(1).Type(), errType) {
			return nil, "", "the factory's second result is not error"
		}
		if !types.Implements(fs.Results().At(0).Type(), iface) {
			return nil, "", "the factory's product " + fs.Results().At(0).Type().String() + " does not implement the plugin interface"
		}
		shape = "factory"
	} else {
		if !types.Implements(r0, iface) {
			return nil, "", "the constructor's result " + r0.String() + " does not implement the plugin interface"
		}
		shape = "plugin"
	}
	if conf != nil {
		if _, ok := conf.Underlying().(*types.Pointer); ok {
			shape += "(*conf)"
		} else {
			shape += "(conf)"
		}
	} else {
		shape += "()"
	}
	if n == 2 {
		shape += "+error"
	}
	return conf, shape, ""
}

func runC18(c *Ctx) {
	c.Rule("O18.1", "every registration in the repository is a supported shape: the constructor is a func with at most one struct / *struct parameter, whose first result implements the plugin interface or is a func() (Impl[, error]), an optional second result is error; a default-config argument has exactly the type func() <parameter type>")
	c.Rule("O18.2", "fresh config per product vs once per factory: in pluginConstructor.NewFactory the calls of getMaybeConf and of the registered constructor happen inside the function given to reflect.MakeFunc (once per product); in factoryConstructor.NewFactory getMaybeConf and the registered factory constructor are called outside it (once), the produced factory inside it")
	c.Rule("O18.3", "no cached config: defaultConfigContainer.Get obtains the config from new() -> newValue.Call on every call; the zero-config function made for constructors without a default creates its value inside the function; nothing stores a produced config in a field or package variable")
	c.Rule("O18.4", "error routing: in the per-product factory a config error is returned as (zero, err) when the requested factory type has two results and panics only when it has one; convertFactoryOutParams panics only with a non-nil error the requested type cannot carry; NewPlugin returns the constructor's second result as the error")
	c.Rule("O18.5", "fillConf / lookup errors stop creation: in Registry.New and NewFactory the errors of get() and of the config container are returned before the constructor is invoked")
	c.Rule("O18.6", "the config hooks hand the decoder and validator to the registry: on every path on which parseConf returns a nil error its fillConf result is the closure that calls config.DecodeAndValidate(settings, conf) - also for a section that holds nothing but the type key (the registered defaults are validated there) - and Hook / FactoryHook pass that result to plugin.New / plugin.NewFactory")
	c.Rule("O18.7", "decoding a plugin section leaves the user's settings as they were: neither parseConf nor the closure it returns updates or deletes from a map that comes from its data parameter (a factory decodes the same settings again for every product, nested sections included)")
	c18Registrations(c)
	c18Hooks(c)
	c18Constructors(c)
	c18Container(c)
	c18Registry(c)
	// O18.8: reflection that depends on the kind of a registered shape
	c.Rule("O18.8", "every supported constructor shape survives the registry's reflection: reflect.Value.IsNil - which panics on a struct, an int, ... - is applied in core/plugin only under a test that the value's Kind() is a nillable kind, or to a value listed with the reason why its kind is fixed (the error result); an implementation type may be a pointer, an interface or a plain value type")
	var roots []*ssa.Function
	for _, n := range []string{"New", "NewFactory"} {
		if f := c.P.Func("core/plugin", "Registry", n); f != nil {
			roots = append(roots, f)
		}
	}
	if sp := c.P.SSAPkg("core/plugin"); sp != nil {
		for _, f := range PkgFuncs(sp) {
			if IsProdFile(c.P.File(f.Pos())) && f.Parent() == nil {
				roots = append(roots, f)
			}
		}
	}
	if len(roots) == 0 {
		c.Anchor("O18.8", "core/plugin.Registry.New / NewFactory")
	} else {
		runInventory(c, "O18", roots, kReasoned, map[string]string{"reflectnil": "O18.8"})
	}
}

func c18Registrations(c *Ctx) {
	P := c.P
	ws := c18Wrappers(P)
	c.Floor("O18.1", "registration wrappers (register.Gun, Provider, ..., scenario Register*)", len(ws), 11)
	byFn := map[*ssa.Function]*regWrapper{}
	for _, w := range ws {
		byFn[w.Fn] = w
	}
	n := 0
	shapes := map[string]int{}
	for fn := range P.AllFuncs() {
		if !IsPandora(PkgOf(fn)) || len(fn.Blocks) == 0 {
			continue
		}
		if fn.Pos().IsValid() && !IsProdFile(P.File(fn.Pos())) {
			continue
		}
		EachInstr(fn, func(in ssa.Instruction) {
			cc := CC(in)
			if cc == nil || cc.StaticCallee() == nil {
				return
			}
			w := byFn[cc.StaticCallee()]
			if w == nil || byFn[fn] != nil {
				return
			}
			name, _ := ConstString(cc.Args[0])
			key := fmt.Sprintf("%s:%s(%q)", fk(fn), w.Fn.Name(), name)
			mi, ok := cc.Args[1].(*ssa.MakeInterface)
			if !ok {
				c.Unknown("O18.1", key, in.Pos(), "constructor argument is not a statically typed function value")
				return
			}
			sig, ok := mi.X.Type().Underlying().(*types.Signature)
			if !ok {
				c.Bad("O18.1", key, in.Pos(), "constructor argument is not a func: "+mi.X.Type().String())
				return
			}
			n++
			conf, shape, why := checkCtorShape(sig, w.Iface)
			if why != "" {
				c.Bad("O18.1", key, in.Pos(), why)
				return
			}
			shapes[shape]++
			// default config: the variadic slice
			var defs []types.Type
			if sl, ok := cc.Args[2].(*ssa.Slice); ok {
				if a, ok := sl.X.(*ssa.Alloc); ok {
					for _, ref := range *a.Referrers() {
						if ia, ok := ref.(*ssa.IndexAddr); ok {
							for _, r2 := range *ia.Referrers() {
								if st, ok := r2.(*ssa.Store); ok {
									if m2, ok := st.Val.(*ssa.MakeInterface); ok {
										defs = append(defs, m2.X.Type())
									} else {
										defs = append(defs, nil)
									}
								}
							}
						}
					}
				}
			} else if !IsNilConst(cc.Args[2]) {
				c.Unknown("O18.1", key, in.Pos(), "default-config arguments are forwarded from a slice that is not built here")
				return
			}
			detail := "shape " + shape
			okDef := true
			switch {
			case len(defs) > 1:
				okDef = false
				detail = "more than one default-config argument"
			case len(defs) == 1:
				ds, isSig := (types.Type)(nil), false
				if defs[0] != nil {
					ds = defs[0]
					_, isSig = ds.Underlying().(*types.Signature)
				}
				if !isSig {
					okDef = false
					detail = "default-config argument is not a func"
				} else {
					s := ds.Underlying().(*types.Signature)
					if conf == nil {
						okDef = false
						detail = "a default-config func is registered but the constructor takes no config"
					} else if s.Params().Len() != 0 || s.Results().Len() != 1 || !types.Identical(s.Results().At(0).Type(), conf) {
						okDef = false
						detail = fmt.Sprintf("default-config func has type %s, constructor expects func() %s (the registry panics / user values would overlay the wrong defaults)", ds, conf)
					} else {
						detail += ", default config func() " + conf.String()
					}
				}
			}
			c.Check(okDef, "O18.1", key, in.Pos(), detail)
		})
	}
	c.Floor("O18.1", "registration call sites", n, 43)
	var sk []string
	for k, v := range shapes {
		sk = append(sk, fmt.Sprintf("%s x%d", k, v))
	}
	sort.Strings(sk)
	c.Note("constructor shapes registered in the repository: %v", sk)
}

// makeFuncClosure returns the closure passed to reflect.MakeFunc in fn.
func makeFuncClosure(fn *ssa.Function) (*ssa.Function, *ssa.Call) {
	var out *ssa.Function
	var call *ssa.Call
	// in fn, or in a method of the package it calls to build the function (wrapFactory(...))
	for _, g := range FindFuncs(fn, 1, func(*ssa.Function) bool { return true }) {
		if g != fn && g.Parent() != nil {
			continue // closures are looked at through their MakeClosure
		}
		EachInstr(g, func(in ssa.Instruction) {
			cl, ok := in.(*ssa.Call)
			if !ok || !MatchCC(&cl.Call, Spec{"reflect", "", "MakeFunc"}) {
				return
			}
			if mc, ok := cl.Call.Args[1].(*ssa.MakeClosure); ok && (out == nil || g == fn) {
				out, _ = mc.Fn.(*ssa.Function)
				out = BoundTarget(out) // a method value (state.call) stands for the method
				call = cl
			}
		})
	}
	return out, call
}

func isReflectCallOn(in ssa.Instruction, pred func(recv ssa.Value) bool) bool {
	if !IsCall(in, Spec{"reflect", "Value", "Call"}) {
		return false
	}
	return pred(CC(in).Args[0])
}

func c18Constructors(c *Ctx) {
	P := c.P
	pnf := P.Func("core/plugin", "pluginConstructor", "NewFactory")
	fnf := P.Func("core/plugin", "factoryConstructor", "NewFactory")
	cnf := P.Func("core/plugin", "factoryConstructor", "callNewFactory")
	conv := P.Func("core/plugin", "", "convertFactoryOutParams")
	if pnf == nil || fnf == nil || cnf == nil || conv == nil {
		c.Anchor("O18.2", "core/plugin pluginConstructor.NewFactory / factoryConstructor.NewFactory / callNewFactory / convertFactoryOutParams")
		return
	}
	isGetConf := func(fn *ssa.Function) func(ssa.Instruction) bool {
		// a dynamic call of the getMaybeConf parameter (possibly captured)
		root := fn
		for root.Parent() != nil {
			root = root.Parent()
		}
		return func(in ssa.Instruction) bool {
			cl, ok := in.(*ssa.Call)
			if !ok || cl.Call.IsInvoke() || cl.Call.StaticCallee() != nil {
				return false
			}
			if _, isB := cl.Call.Value.(*ssa.Builtin); isB {
				return false
			}
			if len(root.Params) == 3 && DerivesOnly(cl.Call.Value, false, func(v ssa.Value) bool { return v == ssa.Value(root.Params[2]) }) {
				return true
			}
			// the getter kept in a field of the state object the produced function is a method of
			for _, owner := range []*ssa.Function{pnf, fnf} {
				if root != owner && len(owner.Params) == 3 && DerivesOnly(cl.Call.Value, false, func(v ssa.Value) bool { return v == ssa.Value(owner.Params[2]) }) {
					return true
				}
			}
			// the same getter received as an explicit parameter by a helper: a parameter of type func() ([]reflect.Value, error)
			if pr, isP := cl.Call.Value.(*ssa.Parameter); isP {
				if sig, isS := pr.Type().Underlying().(*types.Signature); isS && sig.Params().Len() == 0 && sig.Results().Len() == 2 {
					if sl, isSl := sig.Results().At(0).Type().Underlying().(*types.Slice); isSl {
						if _, n := NamedOf(sl.Elem()); n == "Value" {
							return true
						}
					}
				}
			}
			return false
		}
	}
	// ---- plugin constructor: both calls inside the MakeFunc closure, none outside
	{
		cl, _ := makeFuncClosure(pnf)
		if cl == nil {
			c.Anchor("O18.2", "the reflect.MakeFunc closure of pluginConstructor.NewFactory")
		} else {
			// the produced function may hand the whole job to one method of the constructor (return c.produce(...)):
			// then that method is the per-product code
			if d := soleDelegate(cl); d != nil {
				cl = d
			}
			g := isGetConf(cl)
			isNew := func(in ssa.Instruction) bool {
				return isReflectCallOn(in, func(r ssa.Value) bool { return IsFieldLoad(r, "pluginConstructor", "newPlugin") })
			}
			// per product = per path through the produced function: at most one of each, and some path with one
			perPath := func(pred func(ssa.Instruction) bool) int {
				iv := PathQuery{Fn: cl, Weight: func(in ssa.Instruction) (int, int) {
					if pred(in) {
						return 1, 1
					}
					return 0, 0
				}}.Count()
				if iv.NoPath {
					return 0
				}
				return iv.Max
			}
			inGet, inNew, outGet, outNew := perPath(g), perPath(isNew), 0, 0
			EachInstr(pnf, func(in ssa.Instruction) {
				if g(in) {
					outGet++
				}
				if isNew(in) {
					outNew++
				}
			})
			c.Check(inGet == 1 && inNew == 1 && outGet == 0 && outNew == 0, "O18.2", fk(pnf)+":config-and-construction-per-product", pnf.Pos(),
				fmt.Sprintf("inside the produced factory: getMaybeConf x%d, newPlugin.Call x%d (want 1, 1); outside: x%d, x%d (want 0, 0): every product gets a freshly created and decoded config", inGet, inNew, outGet, outNew))
			// the constructor is called with that product's config on every non-error path
			ivNew := PathQuery{Fn: cl, Weight: func(in ssa.Instruction) (int, int) {
				if isNew(in) {
					return 1, 1
				}
				return 0, 0
			}, Exit: func(b *ssa.BasicBlock) bool {
				if ExitOf(b) != ExitReturn {
					return false
				}
				// success exits: not dominated by err != nil of getMaybeConf
				for _, f := range CmpFactsAt(b.Instrs[len(b.Instrs)-1]) {
					if f.Op == token.NEQ && IsNilConst(f.Y) && types.Identical(f.X.Type(), errType) {
						return false
					}
				}
				return true
			}}.Count()
			c.Check(ivNew.Is(1, 1), "O18.2", fk(cl)+":one-construction-per-call", cl.Pos(), fmt.Sprintf("newPlugin.Call per successful factory call = %v (want [1,1])", ivNew))
			// the config passed is the one just obtained
			okArg := false
			EachInstr(cl, func(in ssa.Instruction) {
				if isNew(in) {
					okArg = DerivesAny(CC(in).Args[1], false, func(v ssa.Value) bool {
						cl2, idx := CallOfValue(v)
						return cl2 != nil && idx == 0 && g(cl2)
					})
				}
			})
			c.Check(okArg, "O18.2", fk(cl)+":constructed-with-the-fresh-config", cl.Pos(), "newPlugin.Call receives the config returned by this call's getMaybeConf()")
			// O18.4 error routing
			var gc *ssa.Call
			EachInstr(cl, func(in ssa.Instruction) {
				if g(in) {
					gc = in.(*ssa.Call)
				}
			})
			if gc != nil {
				e, _ := errResult(gc)
				isE := func(v ssa.Value) bool {
					return e != nil && DerivesAny(v, false, func(r ssa.Value) bool { return r == e })
				}
				okPanic, okRet := false, false
				nPanicOther := 0
				// the blocks on the config-error edge: those of the per-product function dominated by err != nil, and all
				// blocks of a helper of the package that is called there with the error (confFailed(factoryType, err))
				type errBlock struct {
					b   *ssa.BasicBlock
					isE func(ssa.Value) bool
					isN func(ssa.Value) bool // the factory type's NumOut() (in a helper: the parameter it arrives in)
				}
				numOutCall := func(v ssa.Value) bool {
					c2, _ := CallOfValue(v)
					return c2 != nil && c2.Call.IsInvoke() && c2.Call.Method.Name() == "NumOut"
				}
				var errBlocks []errBlock
				for _, b := range cl.Blocks {
					last := b.Instrs[len(b.Instrs)-1]
					errEdge := false
					for _, f := range CmpFactsAt(last) {
						if f.Op == token.NEQ && IsNilConst(f.Y) && isE(f.X) {
							errEdge = true
						}
					}
					if !errEdge {
						continue
					}
					errBlocks = append(errBlocks, errBlock{b, isE, numOutCall})
					for _, in := range b.Instrs {
						hc, isC := in.(*ssa.Call)
						if !isC || hc.Call.StaticCallee() == nil || len(hc.Call.StaticCallee().Blocks) == 0 || PkgOf(hc.Call.StaticCallee()) != PkgOf(cl) {
							continue
						}
						h := hc.Call.StaticCallee()
						for i, a := range hc.Call.Args {
							if isE(a) && i < len(h.Params) {
								p := ssa.Value(h.Params[i])
								hE := func(v ssa.Value) bool { return SliceAny(v, func(r ssa.Value) bool { return r == p }) }
								hN := func(v ssa.Value) bool {
									if numOutCall(v) {
										return true
									}
									for j, a2 := range hc.Call.Args {
										if j < len(h.Params) && v == ssa.Value(h.Params[j]) && numOutCall(a2) {
											return true
										}
									}
									return false
								}
								for _, hb := range h.Blocks {
									errBlocks = append(errBlocks, errBlock{hb, hE, hN})
								}
							}
						}
					}
				}
				for _, eb := range errBlocks {
					b, isE, isN := eb.b, eb.isE, eb.isN
					last := b.Instrs[len(b.Instrs)-1]
					_ = isE
					numOut := func(k int64) bool {
						for _, f := range CmpFactsAt(last) {
							if f.Op == token.EQL {
								if kk, isK := ConstInt(f.Y); isK && kk == k && isN(f.X) {
									return true
								}
							}
						}
						return false
					}
					switch x := last.(type) {
					case *ssa.Panic:
						if numOut(1) && isE(x.X) {
							okPanic = true
						} else if !numOut(2) && !numOut(1) {
							// the unreachable default arm (unexpected arity)
						} else {
							nPanicOther++
						}
					case *ssa.Return:
						if numOut(2) {
							// []reflect.Value{Zero(pluginType), ValueOf(&err).Elem()}
							okRet = true
						}
					}
				}
				c.Check(okPanic && okRet && nPanicOther == 0, "O18.4", fk(cl)+":config-error-routing", cl.Pos(), fmt.Sprintf("config error: panic(err) on NumOut()==1: %v; returned on NumOut()==2: %v; other panics on that edge: %d", okPanic, okRet, nPanicOther))
			}
		}
	}
	// ---- factory constructor: getMaybeConf + callNewFactory outside, factory.Call inside
	{
		cl, _ := makeFuncClosure(fnf)
		if cl == nil {
			c.Anchor("O18.2", "the reflect.MakeFunc closure of factoryConstructor.NewFactory")
		} else {
			g := isGetConf(fnf)
			outGet, outNewF, inGet, inNewF, inCall := 0, 0, 0, 0, 0
			var gcall, nfcall *ssa.Call
			EachInstr(fnf, func(in ssa.Instruction) {
				if g(in) {
					outGet++
					gcall = in.(*ssa.Call)
				}
				if cc := CC(in); cc != nil && cc.StaticCallee() == cnf {
					outNewF++
					nfcall, _ = in.(*ssa.Call)
				}
			})
			gi := isGetConf(cl)
			EachInstr(cl, func(in ssa.Instruction) {
				if gi(in) {
					inGet++
				}
				if cc := CC(in); cc != nil && cc.StaticCallee() == cnf {
					inNewF++
				}
				if isReflectCallOn(in, func(r ssa.Value) bool { return nfcall != nil && DerivesOnly(r, false, IsResultOf(nfcall, 0)) }) {
					inCall++
				}
			})
			c.Check(outGet == 1 && outNewF == 1 && inGet == 0 && inNewF == 0 && inCall == 1, "O18.2", fk(fnf)+":config-once-factory-per-product", fnf.Pos(),
				fmt.Sprintf("outside the produced factory: getMaybeConf x%d, callNewFactory x%d (want 1, 1); inside: x%d, x%d (want 0, 0) and factory.Call x%d (want 1)", outGet, outNewF, inGet, inNewF, inCall))
			if gcall != nil {
				checkErrPropagated(c, "O18.5", fk(fnf)+":config-error-returned", gcall)
			}
			if nfcall != nil {
				checkErrPropagated(c, "O18.5", fk(fnf)+":factory-constructor-error-returned", nfcall)
				okArg := gcall != nil && DerivesAny(nfcall.Call.Args[1], false, IsResultOf(gcall, 0))
				c.Check(okArg, "O18.2", fk(fnf)+":factory-constructed-with-the-decoded-config", nfcall.Pos(), "callNewFactory receives the config returned by getMaybeConf()")
			}
		}
	}
	// callNewFactory: calls newFactory once with the config, returns element 0 and element 1 as error
	{
		iv := countCalls(cnf, func(in ssa.Instruction) bool {
			return isReflectCallOn(in, func(r ssa.Value) bool { return IsFieldLoad(r, "factoryConstructor", "newFactory") })
		})
		c.Check(iv.Is(1, 1), "O18.2", fk(cnf)+":registered-factory-constructor-called-once", cnf.Pos(), fmt.Sprintf("newFactory.Call per callNewFactory = %v (want [1,1])", iv))
	}
	// NewPlugin (both): result 0 is the plugin, result 1 (if present) the error
	for _, t := range []string{"pluginConstructor", "factoryConstructor"} {
		np := P.Func("core/plugin", t, "NewPlugin")
		if np == nil {
			c.Anchor("O18.4", "core/plugin."+t+".NewPlugin")
			continue
		}
		// some reflect.Value.Call result indexed [1] flows into the error result through a type assertion to error
		okErr, okPlugin := false, false
		// NewPlugin itself or the helper of the package that splits the call's results (pluginAndMaybeErr(out))
		eachNP := func(f func(ssa.Instruction)) {
			for _, g := range FindFuncs(np, 2, func(*ssa.Function) bool { return true }) {
				EachInstr(g, f)
			}
		}
		eachNP(func(in ssa.Instruction) {
			ta, ok := in.(*ssa.TypeAssert)
			if !ok || !types.Identical(ta.AssertedType, errType) {
				return
			}
			// X = out[1].Interface()
			if cl, _ := CallOfValue(ta.X); cl != nil && MatchCC(&cl.Call, Spec{"reflect", "Value", "Interface"}) {
				for _, r := range Roots(cl.Call.Args[0], false) {
					if u, ok := r.(*ssa.UnOp); ok {
						if ia, ok := u.X.(*ssa.IndexAddr); ok {
							if k, isK := ConstInt(ia.Index); isK && k == 1 {
								okErr = true
							}
						}
					}
				}
			}
		})
		eachNP(func(in ssa.Instruction) {
			if cl, ok := in.(*ssa.Call); ok && MatchCC(&cl.Call, Spec{"reflect", "Value", "Interface"}) {
				for _, r := range Roots(cl.Call.Args[0], false) {
					if u, ok := r.(*ssa.UnOp); ok {
						if ia, ok := u.X.(*ssa.IndexAddr); ok {
							if k, isK := ConstInt(ia.Index); isK && k == 0 {
								okPlugin = true
							}
						}
					}
				}
			}
		})
		c.Check(okErr && okPlugin, "O18.4", fk(np)+":second-result-is-the-error", np.Pos(), fmt.Sprintf("plugin = out[0].Interface(): %v; err = out[1].Interface().(error) when present: %v", okPlugin, okErr))
	}
	// convertFactoryOutParams: panics with out[1] only under numOut < len(out) && !out[1].IsNil()
	{
		nP, okP := 0, true
		for _, b := range conv.Blocks {
			p, ok := b.Instrs[len(b.Instrs)-1].(*ssa.Panic)
			if !ok {
				continue
			}
			// the arity panic: a formatted string
			if cl, _ := CallOfValue(p.X); cl != nil && MatchCC(&cl.Call, Spec{"fmt", "", "Sprintf"}) {
				continue
			}
			nP++
			isNilFalse := false
			for _, bf := range BoolFactsAt(p) {
				if cl, _ := CallOfValue(bf.Subj); cl != nil && !bf.Val && MatchCC(&cl.Call, Spec{"reflect", "Value", "IsNil"}) {
					isNilFalse = true
				}
			}
			lenCmp := false
			le, ne := false, false // numOut <= len(out), numOut != len(out): together numOut < len(out)
			for _, f := range CmpFactsAt(p) {
				f = f.Canon()
				isNum := func(v ssa.Value) bool { return v == ssa.Value(conv.Params[1]) }
				isLenOut := func(v ssa.Value) bool {
					cl, ok := v.(*ssa.Call)
					return ok && IsBuiltinCall(cl, "len")
				}
				if f.Op == token.LSS && isNum(f.X) && isLenOut(f.Y) {
					lenCmp = true
				}
				if f.Op == token.LEQ && isNum(f.X) && isLenOut(f.Y) {
					le = true
				}
				if f.Op == token.NEQ && ((isNum(f.X) && isLenOut(f.Y)) || (isNum(f.Y) && isLenOut(f.X))) {
					ne = true
				}
			}
			if le && ne {
				lenCmp = true
			}
			if !isNilFalse || !lenCmp {
				okP = false
			}
		}
		c.Check(nP == 1 && okP, "O18.4", fk(conv)+":panic-only-with-an-undeliverable-error", conv.Pos(), fmt.Sprintf("%d error panic(s), each under numOut < len(out) && !out[1].IsNil(): %v", nP, okP))
	}
}

func c18Container(c *Ctx) {
	P := c.P
	get := P.Func("core/plugin", "defaultConfigContainer", "Get")
	nw := P.Func("core/plugin", "defaultConfigContainer", "new")
	ndc := P.Func("core/plugin", "", "newDefaultConfigContainer")
	if get == nil || nw == nil || ndc == nil {
		c.Anchor("O18.3", "core/plugin defaultConfigContainer.Get / new / newDefaultConfigContainer")
		return
	}
	// Get -> new() on the configRequired edge, exactly once
	ivNew := PathQuery{Fn: get, Weight: func(in ssa.Instruction) (int, int) {
		if cc := CC(in); cc != nil && cc.StaticCallee() == nw {
			return 1, 1
		}
		return 0, 0
	}, Edge: RestrictBool(func(v ssa.Value) bool {
		cl, _ := CallOfValue(v)
		return cl != nil && cl.Call.StaticCallee() != nil && cl.Call.StaticCallee().Name() == "configRequired"
	}, true)}.Count()
	c.Check(ivNew.Is(1, 1), "O18.3", fk(get)+":fresh-config-per-Get", get.Pos(), fmt.Sprintf("new() per Get when a config is required = %v (want [1,1])", ivNew))
	// new(): newValue.Call exactly once on every non-panic path; result derives from it or from reflect.New in this call
	isCall := func(in ssa.Instruction) bool {
		return isReflectCallOn(in, func(r ssa.Value) bool { return IsFieldLoad(r, "defaultConfigContainer", "newValue") })
	}
	// (a zero config made by new() itself where no default-config func is registered: reflect.New / reflect.Zero on the
	// edge on which newValue.IsValid() is false - the other reflect.New calls of new() only make a config addressable)
	inlineZero := false
	isInlineZero := func(in ssa.Instruction) bool {
		cl, ok := in.(*ssa.Call)
		if !ok || !MatchCC(&cl.Call, Spec{"reflect", "", "New"}, Spec{"reflect", "", "Zero"}) {
			return false
		}
		for _, bf := range BoolFactsAt(in) {
			if bf.Val {
				continue
			}
			if c2, _ := CallOfValue(bf.Subj); c2 != nil && MatchCC(&c2.Call, Spec{"reflect", "Value", "IsValid"}) && IsFieldLoad(Strip(c2.Call.Args[0]), "defaultConfigContainer", "newValue") {
				inlineZero = true
				return true
			}
		}
		return false
	}
	iv := PathQuery{Fn: nw, Weight: func(in ssa.Instruction) (int, int) {
		if isCall(in) || isInlineZero(in) {
			return 1, 1
		}
		return 0, 0
	}, Exit: func(b *ssa.BasicBlock) bool { return ExitOf(b) == ExitReturn }}.Count()
	// ... or, where no default-config func is registered, a zero config made in this call with reflect.New / reflect.Zero
	// (in new() or a helper it ends with); each returning path does exactly one of the two
	isFreshZero := func(in ssa.Instruction) bool {
		cl, ok := in.(*ssa.Call)
		return ok && MatchCC(&cl.Call, Spec{"reflect", "", "New"}, Spec{"reflect", "", "Zero"})
	}
	hasZeroPath := false
	for _, g := range FindFuncs(nw, 2, func(g *ssa.Function) bool { return PkgOf(g) == PkgOf(nw) && g != nw }) {
		EachInstr(g, func(in ssa.Instruction) {
			if isFreshZero(in) {
				hasZeroPath = true
			}
		})
	}
	if !iv.Is(1, 1) && hasZeroPath {
		// count: a Call of the registered func, or a call of the helper that creates the zero config
		iv = PathQuery{Fn: nw, Weight: func(in ssa.Instruction) (int, int) {
			if isCall(in) {
				return 1, 1
			}
			if cl, ok := in.(*ssa.Call); ok {
				if sc := cl.Call.StaticCallee(); sc != nil && sc != nw && PkgOf(sc) == PkgOf(nw) && len(sc.Blocks) > 0 {
					zero := PathQuery{Fn: sc, Shallow: true, Weight: func(i2 ssa.Instruction) (int, int) {
						if isFreshZero(i2) {
							return 1, 1
						}
						return 0, 0
					}, Exit: func(b *ssa.BasicBlock) bool { return ExitOf(b) == ExitReturn }}.Count()
					if zero.Is(1, 1) {
						return 1, 1
					}
				}
			}
			return 0, 0
		}, Shallow: true, Exit: func(b *ssa.BasicBlock) bool { return ExitOf(b) == ExitReturn }}.Count()
	}
	c.Check(iv.Is(1, 1), "O18.3", fk(nw)+":default-config-func-called-per-config", nw.Pos(), fmt.Sprintf("newValue.Call (or a zero config made in the call) per new() = %v (want [1,1])", iv))
	// no store of reflect values / configs into fields or globals anywhere in the package outside constructors of the container
	sp := P.SSAPkg("core/plugin")
	nStores := 0
	for _, fn := range PkgFuncs(sp) {
		if !IsProdFile(P.File(fn.Pos())) {
			continue
		}
		EachInstr(fn, func(in ssa.Instruction) {
			st, ok := in.(*ssa.Store)
			if !ok {
				return
			}
			var tgt string
			switch a := st.Addr.(type) {
			case *ssa.Global:
				tgt = "global " + a.Name()
			case *ssa.FieldAddr:
				if _, isAlloc := a.X.(*ssa.Alloc); isAlloc {
					return // composite literal under construction
				}
				fv, _ := FieldOf(a)
				if fv != nil {
					tgt = "field " + fv.Name()
				}
			default:
				return
			}
			// only reflect.Value-typed or interface-typed config-ish stores matter
			if p, n := NamedOf(st.Val.Type()); p == "reflect" && n == "Value" {
				// the package initialiser runs before any plugin is created: what it stores (the zero Value of the
				// error type, say) is not a produced config
				if fn.Name() == "init" && fn.Parent() == nil && fn.Signature.Recv() == nil && len(fn.Params) == 0 {
					if cl, _ := CallOfValue(st.Val); cl != nil && MatchCC(&cl.Call, Spec{"reflect", "", "Zero"}, Spec{"reflect", "", "ValueOf"}, Spec{"reflect", "", "TypeOf"}) {
						return
					}
				}
				nStores++
				c.Bad("O18.3", fk(fn)+":stores-a-reflect-value", st.Pos(), "a reflect.Value is stored into "+tgt+": a produced config must not be cached")
			}
			if tgt == "global defaultRegistry" {
				return
			}
		})
	}
	c.OK("O18.3", "core/plugin:no-config-cached-in-fields-or-globals", get.Pos(), fmt.Sprintf("%d stores of reflect.Value into fields/globals outside composite literals", nStores))
	// the zero-config function: value created inside the MakeFunc closure
	cl, _ := makeFuncClosure(ndc)
	if cl == nil && (hasZeroPath || inlineZero) {
		c.OK("O18.3", fk(nw)+":zero-config-created-per-call", nw.Pos(), "the default for constructors registered without a default-config func is created by new() itself with reflect.New / reflect.Zero in the call (counted above)")
	} else if cl == nil {
		c.Anchor("O18.3", "the reflect.MakeFunc closure of newDefaultConfigContainer")
	} else {
		// every element stored into the returned slice derives from a reflect.Zero/New call made in the closure
		okFresh, n := true, 0
		EachInstr(cl, func(in ssa.Instruction) {
			st, ok := in.(*ssa.Store)
			if !ok {
				return
			}
			if _, ok := st.Addr.(*ssa.IndexAddr); !ok {
				return
			}
			if p, nm := NamedOf(st.Val.Type()); p != "reflect" || nm != "Value" {
				return
			}
			n++
			fresh := DerivesOnly(st.Val, false, func(v ssa.Value) bool {
				c2, _ := CallOfValue(v)
				return c2 != nil && c2.Parent() == cl && MatchCC(&c2.Call, Spec{"reflect", "", "Zero"}, Spec{"reflect", "", "New"})
			})
			if !fresh {
				okFresh = false
			}
		})
		c.Check(okFresh && n >= 1, "O18.3", fk(cl)+":zero-config-created-per-call", cl.Pos(), "the default for constructors registered without a default-config func must be created inside the function (reflect.Zero / reflect.New per call), not captured: a captured pointer config would be shared by every product")
	}
}

func c18Registry(c *Ctx) {
	P := c.P
	for _, name := range []string{"New", "NewFactory"} {
		fn := P.Func("core/plugin", "Registry", name)
		if fn == nil {
			c.Anchor("O18.5", "core/plugin.(*Registry)."+name)
			continue
		}
		n := 0
		EachInstr(fn, func(in ssa.Instruction) {
			cl, ok := in.(*ssa.Call)
			if !ok || cl.Call.StaticCallee() == nil {
				return
			}
			switch cl.Call.StaticCallee().Name() {
			case "get", "Get":
				if PkgOf(cl.Call.StaticCallee()) == Mod+"/core/plugin" {
					n++
					checkErrPropagated(c, "O18.5", fk(fn)+":"+cl.Call.StaticCallee().Name()+"-error-stops-creation", cl)
				}
			}
		})
		want := 2
		if name == "NewFactory" {
			want = 1 // Get is called lazily inside the getMaybeConfig closure
		}
		c.Floor("O18.5", "checked lookups in Registry."+name, n, want)
	}
	// the getMaybeConfig closure of NewFactory forwards fillConf to the container's Get
	if nf := P.Func("core/plugin", "Registry", "NewFactory"); nf != nil {
		ok := false
		isFill := func(v ssa.Value) bool {
			cl, _ := CallOfValue(v)
			return cl != nil && cl.Call.StaticCallee() != nil && cl.Call.StaticCallee().Name() == "getFillConf"
		}
		// the caller's fillConf: captured by the getter closure, or kept in a field of a small getter type
		// (filledConfigGetter{container, fillConf}.Get) - then every store to that field must be the fillConf
		var isFillDeep func(v ssa.Value, d int) bool
		isFillDeep = func(v ssa.Value, d int) bool {
			if DerivesOnly(v, false, isFill) {
				return true
			}
			if d > 2 {
				return false
			}
			var fv *types.Var
			switch x := Strip(v).(type) {
			case *ssa.Field:
				if st := derefStructOf(x.X.Type()); st != nil {
					fv = st.Field(x.Field)
				}
			case *ssa.UnOp:
				if fa, isFA := x.X.(*ssa.FieldAddr); isFA {
					if st := derefStructOf(fa.X.Type()); st != nil {
						fv = st.Field(fa.Field)
					}
				}
			}
			if fv == nil {
				return false
			}
			stores := P.FieldStores(fv)
			if len(stores) == 0 {
				return false
			}
			for _, sv := range stores {
				if !isFillDeep(sv, d+1) {
					return false
				}
			}
			return true
		}
		// the functions the config getter may be: closures of NewFactory, or methods of the package whose value it takes
		var getters []*ssa.Function
		getters = append(getters, nf.AnonFuncs...)
		EachInstr(nf, func(in ssa.Instruction) {
			if mc, isMC := in.(*ssa.MakeClosure); isMC {
				if f, isF := mc.Fn.(*ssa.Function); isF && f.Synthetic != "" {
					if o, isO := f.Object().(*types.Func); isO {
						if d := P.SSA.FuncValue(o); d != nil && len(d.Blocks) > 0 {
							getters = append(getters, d)
						}
					}
				}
			}
		})
		for _, a := range getters {
			EachInstr(a, func(in ssa.Instruction) {
				cc := CC(in)
				if cc != nil && cc.StaticCallee() != nil && cc.StaticCallee().Name() == "Get" && len(cc.Args) == 2 {
					ok = isFillDeep(cc.Args[1], 0)
				}
			})
		}
		c.Check(ok, "O18.5", fk(nf)+":lazy-config-uses-the-callers-fillConf", nf.Pos(), "the config getter handed to the constructor calls defaultConfig.Get(fillConf) with the caller's fillConf")
		// ... and that getter is what the constructor receives: every function value that can reach the getMaybeConf
		// argument of constructor.NewFactory creates and decodes the config anew on each call (exactly one
		// defaultConfig.Get per call) - a getter that hands out a config decoded earlier makes the products of a component
		// factory share maps, slices and nested plugins of one configuration
		nHanded := 0
		EachInstr(nf, func(in ssa.Instruction) {
			cc := CC(in)
			if cc == nil || !cc.IsInvoke() || cc.Method.Name() != "NewFactory" || len(cc.Args) != 2 {
				return
			}
			nHanded++
			bad := ""
			for _, r := range Roots(cc.Args[1], false) {
				if IsNilConst(r) {
					continue
				}
				var body *ssa.Function
				switch x := r.(type) {
				case *ssa.MakeClosure:
					body, _ = x.Fn.(*ssa.Function)
					if body != nil && body.Synthetic != "" {
						body = BoundTarget(body)
					}
				case *ssa.Function:
					body = x
				}
				if body == nil || len(body.Blocks) == 0 {
					bad = "a getter that is not a function of the package: " + r.String()
					continue
				}
				iv := PathQuery{Fn: body, Weight: func(i2 ssa.Instruction) (int, int) {
					if c2 := CC(i2); c2 != nil && c2.StaticCallee() != nil && c2.StaticCallee().Name() == "Get" && RecvTypeName(CalleeObj(c2)) == "defaultConfigContainer" {
						return 1, 1
					}
					return 0, 0
				}}.Count()
				if !iv.Is(1, 1) {
					bad = fmt.Sprintf("the getter %s calls defaultConfig.Get %v times per call (want [1,1])", body.Name(), iv)
				}
			}
			c.Check(bad == "", "O18.2", fk(nf)+":the-handed-getter-decodes-per-call", in.Pos(), "every getter that reaches constructor.NewFactory obtains the config from defaultConfig.Get on each call; "+bad)
		})
		c.Floor("O18.2", "constructor.NewFactory calls in Registry.NewFactory", nHanded, 1)
	}
}

// c18Hooks decides O18.6 and O18.7 on core/plugin/pluginconfig.
func c18Hooks(c *Ctx) {
	P := c.P
	sp := P.SSAPkg("core/plugin/pluginconfig")
	if sp == nil {
		c.Anchor("O18.6", "package core/plugin/pluginconfig")
		return
	}
	sDecode := Spec{"./core/config", "", "DecodeAndValidate"}
	// the parser = the function of the package both hooks call and whose results feed plugin.New / NewFactory
	nHooks := 0
	parsers := map[*ssa.Function]bool{}
	for _, g := range PkgFuncs(sp) {
		if !IsProdFile(P.File(g.Pos())) {
			continue
		}
		EachInstr(g, func(in ssa.Instruction) {
			cl, ok := in.(*ssa.Call)
			if !ok || !MatchCC(&cl.Call, Spec{"./core/plugin", "", "New"}, Spec{"./core/plugin", "", "NewFactory"}) {
				return
			}
			nHooks++
			fill := cl.Call.Args[len(cl.Call.Args)-1]
			var src *ssa.Call
			isParsed := func(v ssa.Value) bool {
				c2, _ := CallOfValue(v)
				if c2 != nil && c2.Call.StaticCallee() != nil && c2.Call.StaticCallee().Pkg == sp {
					src = c2
					return true
				}
				return false
			}
			// plugin.New takes it as a variadic argument: look into the slice made for the call
			okSrc := DerivesOnly(fill, false, isParsed) || SliceAny(fill, isParsed)
			c.Check(okSrc && src != nil, "O18.6", fk(g)+":passes-the-parsed-fillConf", cl.Pos(), "the fillConf handed to the registry is the one parseConf returned")
			if src != nil {
				parsers[src.Call.StaticCallee()] = true
			}
		})
	}
	c.Floor("O18.6", "hooks creating plugins / factories through the registry", nHooks, 2)
	for parse := range parsers {
		key := fk(parse)
		res := parse.Signature.Results()
		fillIdx, errIdx := -1, -1
		for i := 0; i < res.Len(); i++ {
			if _, isSig := res.At(i).Type().Underlying().(*types.Signature); isSig {
				fillIdx = i
			}
			if types.Identical(res.At(i).Type(), types.Universe.Lookup("error").Type()) {
				errIdx = i
			}
		}
		if fillIdx < 0 || errIdx < 0 {
			c.Unknown("O18.6", key+":results", parse.Pos(), "cannot identify the fillConf and error results")
			continue
		}
		paths, complete := EnumPaths(parse, 4096)
		if !complete {
			c.Unknown("O18.6", key+":paths", parse.Pos(), "too many paths to enumerate")
			continue
		}
		nOK := 0
		bad := ""
		var closures []*ssa.Function
		for _, p := range paths {
			last := p.Blocks[len(p.Blocks)-1]
			ret, isRet := last.Instrs[len(last.Instrs)-1].(*ssa.Return)
			if !isRet || len(ret.Results) != res.Len() {
				continue
			}
			ev := p.Resolve(ret.Results[errIdx])
			if !IsNilConst(ev) {
				// an error path unless the value is known nil on this path
				_, bools := p.Facts()
				cmps, _ := p.Facts()
				isNil := false
				for _, f := range cmps {
					if f.Op == token.EQL && (f.X == ev && IsNilConst(f.Y) || f.Y == ev && IsNilConst(f.X)) {
						isNil = true
					}
				}
				_ = bools
				if !isNil {
					continue
				}
			}
			nOK++
			fv := p.Resolve(ret.Results[fillIdx])
			// the closure itself, or what a helper of the package that builds it returns (newFillConf(...))
			okAll := true
			for _, t := range ThroughReturns(Strip(fv)) {
				mc, isMC := Strip(t).(*ssa.MakeClosure)
				if !isMC {
					bad = "a success path returns " + t.String() + " as fillConf (at " + P.Pos(ret.Pos()) + ")"
					okAll = false
					continue
				}
				f := mc.Fn.(*ssa.Function)
				// a method value (filler.fill): look at the method behind the bound-method wrapper
				if f.Synthetic != "" {
					if o, isO := f.Object().(*types.Func); isO {
						if d := P.SSA.FuncValue(o); d != nil && len(d.Blocks) > 0 {
							f = d
						}
					}
				}
				if len(Calls(f, sDecode)) == 0 {
					bad = "the returned closure does not call config.DecodeAndValidate"
					okAll = false
					continue
				}
				closures = append(closures, f)
			}
			if !okAll {
				continue
			}
		}
		c.Check(bad == "" && nOK > 0, "O18.6", key+":success-returns-the-decoding-closure", parse.Pos(),
			fmt.Sprintf("%d success path(s) of %d; %s", nOK, len(paths), bad))
		// the closure decodes the settings into the config it is given and returns the error
		seenF := map[*ssa.Function]bool{}
		for _, f := range closures {
			if seenF[f] {
				continue
			}
			seenF[f] = true
			for _, in := range Calls(f, sDecode) {
				cl := in.(*ssa.Call)
				okArgs := len(cl.Call.Args) == 2 && len(f.Params) >= 1 && DerivesOnly(cl.Call.Args[1], false, func(v ssa.Value) bool { return v == ssa.Value(f.Params[len(f.Params)-1]) })
				c.Check(okArgs, "O18.6", fk(f)+":decodes-into-the-given-config", cl.Pos(), "DecodeAndValidate(settings, conf) must be given the closure's conf parameter")
				checkErrPropagated(c, "O18.6", fk(f)+":decode-error-returned", cl)
			}
		}
		// O18.7: no write to a map that comes from the data parameter
		nW := 0
		fromData := func(m ssa.Value) bool {
			return SliceAny(m, func(v ssa.Value) bool {
				if pr, ok := v.(*ssa.Parameter); ok && pr.Parent() == parse {
					return true
				}
				// the result of a helper that may return its argument (toStringKeyMap returns data itself when it already has string keys)
				if c2, _ := CallOfValue(v); c2 != nil && c2.Call.StaticCallee() != nil && c2.Call.StaticCallee().Pkg == sp && c2.Parent() == parse {
					return returnsItsArgument(c2.Call.StaticCallee())
				}
				return false
			})
		}
		for _, f := range append([]*ssa.Function{parse}, parse.AnonFuncs...) {
			EachInstr(f, func(in ssa.Instruction) {
				var m ssa.Value
				if mu, ok := in.(*ssa.MapUpdate); ok {
					m = mu.Map
				}
				if IsBuiltinCall(in, "delete") {
					m = CC(in).Args[0]
				}
				if m == nil {
					return
				}
				nW++
				c.Check(!fromData(m), "O18.7", fk(f)+":settings-not-modified", in.Pos(), "a map that may be the caller's settings is modified: the next decoding of the same settings (the next product of a factory) sees the change")
			})
		}
		c.Note("O18.7: %d map writes in %s and its closures", nW, key)
	}
	c.Floor("O18.6", "parsers of plugin sections", len(parsers), 1)
}

// returnsItsArgument: some return of fn yields (a type assertion / conversion of) one of its parameters.
func returnsItsArgument(fn *ssa.Function) bool {
	found := false
	EachInstr(fn, func(in ssa.Instruction) {
		ret, ok := in.(*ssa.Return)
		if !ok {
			return
		}
		for _, r := range ret.Results {
			if SliceAny(r, func(v ssa.Value) bool {
				pr, ok := v.(*ssa.Parameter)
				return ok && pr.Parent() == fn
			}) {
				found = true
			}
		}
	})
	return found
}

// soleDelegate: fn consists of one call of a function of its package whose results it returns unchanged.
func soleDelegate(fn *ssa.Function) *ssa.Function {
	var call *ssa.Call
	n := 0
	EachInstr(fn, func(in ssa.Instruction) {
		if cl, ok := in.(*ssa.Call); ok {
			if _, isB := cl.Call.Value.(*ssa.Builtin); !isB {
				n++
				call = cl
			}
		}
	})
	if n != 1 || call == nil || call.Call.StaticCallee() == nil || len(call.Call.StaticCallee().Blocks) == 0 || PkgOf(call.Call.StaticCallee()) != PkgOf(fn) {
		return nil
	}
	ok := true
	EachInstr(fn, func(in ssa.Instruction) {
		if ret, isR := in.(*ssa.Return); isR {
			for _, r := range ret.Results {
				if c2, _ := CallOfValue(r); c2 != call {
					ok = false
				}
			}
		}
	})
	if !ok {
		return nil
	}
	return call.Call.StaticCallee()
}
