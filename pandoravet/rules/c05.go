package rules

import (
	"fmt"
	"go/token"
	"go/types"
	"sort"
	"strings"

	. "pandoravet/core"

	"golang.org/x/tools/go/ssa"
)

func init() {
	register(&Pack{Property: "C05", Title: "Run outcome and termination", Run: runC05})
}

var (
	sIsCtxError = Spec{"./lib/errutil", "", "IsCtxError"}
	sCtxErr     = Spec{"context", "Context", "Err"}
	sCtxDone    = Spec{"context", "Context", "Done"}
	sWithCancel = Spec{"context", "", "WithCancel"}
	sWGAdd      = Spec{"sync", "WaitGroup", "Add"}
	sWGDone     = Spec{"sync", "WaitGroup", "Done"}
)

func runC05(c *Ctx) {
	c.Rule("O5.1", "WaitGroup released on every exit: each return of instancePool.Run either called onWaitDone exactly once or handed over to awaitRunAsync, whose goroutine closes awaitErr and calls onWaitDone in a defer on every path; Engine.Run adds one count per pool before starting it and passes WaitGroup.Done as the callback")
	c.Rule("O5.2", "every goroutine started by the pool/engine delivers exactly one result (a send, or a send-or-ctx.Done select) on every path")
	c.Rule("O5.3", "await bookkeeping: each awaited channel is nil-ed and toWait decremented exactly once in its select case; all-instances-finished detection decrements once, nils and closes runRes, and is the only caller of runCancel")
	c.Rule("O5.4", "component errors are forwarded: each select case passes a non-context error to onErrAwaited, judged against the context whose cancellation legitimately explains it")
	c.Rule("O5.5", "an awaited error is never raced against a cancellation the awaiter itself caused: the context whose Done() is the alternative to the send in onErrAwaited must not be cancelled from awaitRun's own call tree")
	c.Rule("O5.6", "shot panic becomes an error: instance.Run arms, before the loop, a deferred closure that calls recover() and assigns the named result on the non-nil edge; InstanceFinish is counted unconditionally there")
	c.Rule("O5.7", "closable guns are closed: every instance.Run call is dominated by a deferred Close of the same instance; Close calls io.Closer.Close on the comma-ok edge")
	c.Rule("O5.8", "cancellation returns the context error: ctx.Done() cases of Engine.Run and instancePool.Run return ctx.Err(); both arm a deferred cancel of their derived context")
	c.Rule("O5.9", "creation errors propagate: errors of NewGun, WarmUp, NewRPSSchedule, newSchedule, newGun, Bind, newInstance, runAsync, warmUpGun, buildNewInstanceSchedule reach the caller (never dropped or replaced by nil)")

	P := c.P
	poolRun := P.Func("core/engine", "instancePool", "Run")
	engRun := P.Func("core/engine", "Engine", "Run")
	awaitAsync := P.Func("core/engine", "instancePool", "awaitRunAsync")
	awaitRun := P.Func("core/engine", "runAwaitHandle", "awaitRun")
	onErr := P.Func("core/engine", "runAwaitHandle", "onErrAwaited")
	runAsync := P.Func("core/engine", "instancePool", "runAsync")
	startInst := P.Func("core/engine", "instancePool", "startInstances")
	instRun := P.Func("core/engine", "instance", "Run")
	instClose := P.Func("core/engine", "instance", "Close")
	for name, f := range map[string]*ssa.Function{"instancePool.Run": poolRun, "Engine.Run": engRun, "instancePool.awaitRunAsync": awaitAsync,
		"runAwaitHandle.awaitRun": awaitRun, "runAwaitHandle.onErrAwaited": onErr,
		"instancePool.runAsync": runAsync, "instancePool.startInstances": startInst, "instance.Run": instRun, "instance.Close": instClose} {
		if f == nil {
			c.Anchor("O5.1", "core/engine."+name)
			return
		}
	}

	// ---------------- O5.1
	isOnWaitDone := func(in ssa.Instruction) bool {
		cc := CC(in)
		if _, isGo := in.(*ssa.Go); isGo {
			return false
		}
		return cc != nil && IsFieldCall(cc, "instancePool", "onWaitDone")
	}
	onWaitDoneNonNil := AssumeNonNil(IsFieldLoadPred("instancePool", "onWaitDone"))
	{
		w := func(in ssa.Instruction) (int, int) {
			if isOnWaitDone(in) {
				return 1, 1
			}
			if cc := CC(in); cc != nil && cc.StaticCallee() == awaitAsync {
				return 1, 1
			}
			return 0, 0
		}
		iv := PathQuery{Fn: poolRun, Weight: w, Edge: onWaitDoneNonNil, Exit: func(b *ssa.BasicBlock) bool { return ExitOf(b) == ExitReturn }}.Count()
		c.Check(iv.Is(1, 1), "O5.1", fk(poolRun)+":waitgroup-released-on-every-exit", poolRun.Pos(),
			fmt.Sprintf("onWaitDone()/awaitRunAsync() events per return path = %v (want [1,1]); min witness %s, max witness %s", iv, PathString(iv.MinPath), PathString(iv.MaxPath)))
	}
	{ // awaitRunAsync goroutine
		var gos []*ssa.Go
		EachInstr(awaitAsync, func(in ssa.Instruction) {
			if g, ok := in.(*ssa.Go); ok {
				gos = append(gos, g)
			}
		})
		okG := false
		if len(gos) == 1 {
			if mc, ok := gos[0].Call.Value.(*ssa.MakeClosure); ok {
				g := mc.Fn.(*ssa.Function)
				var defs []*ssa.Defer
				EachInstr(g, func(in ssa.Instruction) {
					if d, ok := in.(*ssa.Defer); ok {
						defs = append(defs, d)
					}
				})
				aw := Calls(g, Spec{"./core/engine", "runAwaitHandle", "awaitRun"})
				for _, d := range defs {
					dmc, ok := d.Call.Value.(*ssa.MakeClosure)
					if !ok {
						continue
					}
					df := dmc.Fn.(*ssa.Function)
					done := PathQuery{Fn: df, Edge: onWaitDoneNonNil, Weight: func(in ssa.Instruction) (int, int) {
						if isOnWaitDone(in) {
							return 1, 1
						}
						return 0, 0
					}}.Count()
					var closeI, doneI ssa.Instruction
					EachInstr(df, func(in ssa.Instruction) {
						if IsBuiltinCall(in, "close") && DerivesOnly(CC(in).Args[0], false, IsFieldLoadPred("runAwaitHandle", "awaitErr")) {
							closeI = in
						}
						if isOnWaitDone(in) {
							doneI = in
						} else if cc := CC(in); cc != nil && cc.StaticCallee() != nil && PkgOf(cc.StaticCallee()) == PkgOf(df) {
							// a helper that makes the call (notifyWaitDone)
							for _, f := range FindFuncs(cc.StaticCallee(), 2, func(*ssa.Function) bool { return true }) {
								EachInstr(f, func(i2 ssa.Instruction) {
									if isOnWaitDone(i2) {
										doneI = in
									}
								})
							}
						}
					})
					cl := PathQuery{Fn: df, Weight: func(in ssa.Instruction) (int, int) {
						if in == closeI {
							return 1, 1
						}
						return 0, 0
					}}.Count()
					domAll := len(aw) == 1 && InstrDominates(d, aw[0])
					if done.Is(1, 1) && cl.Is(1, 1) && closeI != nil && doneI != nil && InstrDominates(closeI, doneI) && domAll {
						okG = true
					}
				}
			}
		}
		c.Check(okG, "O5.1", fk(awaitAsync)+":await-goroutine-defer-closes-and-releases", awaitAsync.Pos(),
			"the await goroutine must arm, before awaitRun, a deferred closure that closes awaitErr and then calls onWaitDone exactly once on every path")
	}
	{ // Engine.Run: wait.Add(1) before go, Done passed
		// Engine.Run or the helper of the package that starts the pools (startPools(ctx, runRes))
		var adds, gos []ssa.Instruction
		for _, g := range FindFuncs(engRun, 2, func(*ssa.Function) bool { return true }) {
			if g.Parent() != nil {
				continue
			}
			var ga, gg []ssa.Instruction
			ga = Calls(g, sWGAdd)
			EachInstr(g, func(in ssa.Instruction) {
				if _, ok := in.(*ssa.Go); ok {
					gg = append(gg, in)
				}
			})
			if len(ga) > 0 && len(gg) > 0 && len(adds) == 0 {
				adds, gos = ga, gg
			}
		}
		ok := len(adds) == 1 && len(gos) == 1 && InstrDominates(adds[0], gos[0]) && adds[0].Block() == gos[0].Block()
		if ok {
			v, isC := ConstInt(CC(adds[0]).Args[1])
			ok = isC && v == 1
		}
		c.Check(ok, "O5.1", fk(engRun)+":one-waitgroup-count-per-pool", engRun.Pos(), "wait.Add(1) exactly once per started pool goroutine, before it starts")
		var np []ssa.Instruction
		for _, g := range FindFuncs(engRun, 2, func(*ssa.Function) bool { return true }) {
			np = append(np, Calls(g, Spec{"./core/engine", "", "newPool"})...)
		}
		okD := len(np) == 1
		if okD {
			arg := CC(np[0]).Args[2]
			mc, isMC := Strip(arg).(*ssa.MakeClosure)
			okD = false
			if isMC {
				if f, ok := mc.Fn.(*ssa.Function); ok {
					if o, ok := f.Object().(*types.Func); ok && sWGDone.MatchObj(o) {
						okD = true
					}
				}
			}
		}
		c.Check(okD, "O5.1", fk(engRun)+":pool-callback-is-waitgroup-done", engRun.Pos(), "the pool's onWaitDone callback is Engine.wait.Done")
		wt := P.Func("core/engine", "Engine", "Wait")
		if wt == nil {
			c.Anchor("O5.1", "core/engine.(*Engine).Wait")
		} else {
			c.Check(len(Calls(wt, Spec{"sync", "WaitGroup", "Wait"})) == 1, "O5.1", fk(wt)+":waits-on-the-waitgroup", wt.Pos(), "Engine.Wait blocks on the WaitGroup")
		}
	}

	// ---------------- O5.2
	{
		n := 0
		// the three functions that start goroutines, with the helpers of the package they call for it
		var goRoots []*ssa.Function
		seenRoot := map[*ssa.Function]bool{}
		for _, root := range []*ssa.Function{engRun, runAsync, startInst} {
			for _, g := range FindFuncs(root, 2, func(*ssa.Function) bool { return true }) {
				direct := false
				if site := SoleCallSite(g); site != nil && g != root {
					top := site.Parent()
					for top.Parent() != nil {
						top = top.Parent()
					}
					direct = top == root && g != poolRun && g != awaitAsync && g != awaitRun && g != instRun
				}
				if g.Parent() == nil && !seenRoot[g] && (g == root || direct) {
					seenRoot[g] = true
					goRoots = append(goRoots, g)
				}
			}
		}
		for _, root := range goRoots {
			for _, g := range WithClosures(root) {
				EachInstr(g, func(in ssa.Instruction) {
					gi, ok := in.(*ssa.Go)
					if !ok {
						return
					}
					var body *ssa.Function
					if mc, ok := gi.Call.Value.(*ssa.MakeClosure); ok {
						body = mc.Fn.(*ssa.Function)
					} else if sc := gi.Call.StaticCallee(); sc != nil && len(sc.Blocks) > 0 {
						body = sc // go p.method(...)
					}
					if body == nil {
						c.Unknown("O5.2", fk(g)+":go-target", gi.Pos(), "goroutine body is neither a closure nor a function of this program")
						return
					}
					n++
					iv := PathQuery{Fn: body, Weight: func(in ssa.Instruction) (int, int) {
						switch x := in.(type) {
						case *ssa.Send:
							return 1, 1
						case *ssa.Select:
							for _, st := range x.States {
								if st.Dir == types.SendOnly {
									return 1, 1
								}
							}
						}
						return 0, 0
					}, Exit: func(b *ssa.BasicBlock) bool { return ExitOf(b) == ExitReturn }}.Count()
					c.Check(iv.Is(1, 1), "O5.2", fk(body)+":delivers-exactly-one-result", gi.Pos(),
						fmt.Sprintf("result sends per path of the goroutine = %v (want [1,1])", iv))
				})
			}
		}
		c.Floor("O5.2", "goroutines started by Engine.Run/runAsync/startInstances", n, 6)
	}

	// ---------------- O5.3 / O5.4
	sels := Selects(awaitRun)
	if len(sels) != 1 {
		c.Anchor("O5.3", "the one select of awaitRun")
		return
	}
	sel := sels[0]
	cases := SelectCases(sel)
	header := sel.Block() // loop body block; find loop header = block with back edges that dominates
	var loopHead *ssa.BasicBlock
	for _, b := range awaitRun.Blocks {
		if b.Dominates(header) && b != header {
			for _, p := range b.Preds {
				if b.Dominates(p) && p != b {
					loopHead = b
				}
			}
		}
	}
	if loopHead == nil {
		c.Anchor("O5.3", "loop header of awaitRun")
		return
	}
	isToWaitDec := func(in ssa.Instruction) bool {
		v, ok := StoreToField(in, "runAwaitHandle", "toWait")
		if !ok {
			return false
		}
		b, ok := v.(*ssa.BinOp)
		if !ok || b.Op != token.SUB {
			return false
		}
		k, isC := ConstInt(b.Y)
		return isC && k == 1 && IsFieldLoad(b.X, "runAwaitHandle", "toWait")
	}
	// the decrement that stands for "all instance runs awaited" lives next to close(runRes); the per-case rules do not count it
	// (a callee that decrements toWait itself is the all-finished function, not a helper of it)
	hasToWaitDec := func(g *ssa.Function) bool {
		has := false
		EachInstr(g, func(in ssa.Instruction) {
			if isToWaitDec(in) {
				has = true
			}
		})
		return has
	}
	var closesRunResD func(f *ssa.Function, depth int) bool
	closesRunResD = func(f *ssa.Function, depth int) bool {
		found := false
		EachInstr(f, func(in ssa.Instruction) {
			if IsBuiltinCall(in, "close") && DerivesOnly(CC(in).Args[0], false, IsFieldLoadPred("", "runRes")) {
				found = true
			}
			// ... or in a helper of the handle called from here (assertNoRunResultLeft())
			if cc := CC(in); cc != nil && depth < 2 && !found {
				if _, isGo := in.(*ssa.Go); !isGo {
					if g := cc.StaticCallee(); g != nil && g != f && PkgOf(g) == PkgOf(f) && len(g.Blocks) > 0 && !hasToWaitDec(g) {
						found = closesRunResD(g, depth+1)
					}
				}
			}
		})
		return found
	}
	closesRunRes := func(f *ssa.Function) bool { return closesRunResD(f, 0) }
	isCaseToWaitDec := func(in ssa.Instruction) bool { return isToWaitDec(in) && !closesRunRes(in.Parent()) }
	afAll := findAllFinished(c, "O5.3")
	isCheckAll := func(in ssa.Instruction) bool {
		if _, isGo := in.(*ssa.Go); isGo {
			return false
		}
		cc := CC(in)
		return cc != nil && afAll != nil && cc.StaticCallee() != nil && afAll.reaches(cc.StaticCallee())
	}
	isOnErr := func(in ssa.Instruction) bool {
		cc := CC(in)
		return cc != nil && cc.StaticCallee() == onErr
	}
	count := func(start *ssa.BasicBlock, edge func(a, b *ssa.BasicBlock) bool, pred func(ssa.Instruction) bool) Interval {
		return PathQuery{Fn: awaitRun, StartBlock: start, StopBlock: loopHead, Edge: edge, Weight: func(in ssa.Instruction) (int, int) {
			if pred(in) {
				return 1, 1
			}
			return 0, 0
		}}.Count()
	}
	seenFields := map[string]bool{}
	for _, cs := range cases {
		if cs.State == nil {
			continue
		}
		fv, _ := FieldOf(cs.State.Chan)
		if fv == nil {
			c.Unknown("O5.3", fk(awaitRun)+":select-case-channel", cs.State.Pos, "select case channel is not a field of the handle")
			continue
		}
		name := fv.Name()
		seenFields[name] = true
		key := fk(awaitRun) + ":case<-" + name
		recvPred := func(v ssa.Value) bool { return v == cs.Recv }
		var ctxField string
		switch name {
		case "providerErr", "aggregatorErr":
			ctxField = "runCtx"
		case "startRes":
			ctxField = "instanceStartCtx"
		case "runRes":
			ctxField = "runCtx"
		}
		if name != "runRes" {
			nilStore := count(cs.Body, nil, func(in ssa.Instruction) bool {
				v, ok := StoreToField(in, "", name)
				return ok && IsNilConst(v)
			})
			dec := count(cs.Body, nil, isCaseToWaitDec)
			c.Check(nilStore.Is(1, 1), "O5.3", key+":channel-nil-ed-once", cs.State.Pos, fmt.Sprintf("stores of nil to %s per iteration = %v (want [1,1])", name, nilStore))
			c.Check(dec.Is(1, 1), "O5.3", key+":toWait-decremented-once", cs.State.Pos, fmt.Sprintf("toWait-- per iteration = %v (want [1,1])", dec))
		} else {
			inc := count(cs.Body, nil, func(in ssa.Instruction) bool {
				v, ok := StoreToField(in, "runAwaitHandle", "awaitedInstances")
				if !ok {
					return false
				}
				b, ok := v.(*ssa.BinOp)
				if !ok || b.Op != token.ADD {
					return false
				}
				k, isC := ConstInt(b.Y)
				return isC && k == 1 && IsFieldLoad(b.X, "runAwaitHandle", "awaitedInstances")
			})
			c.Check(inc.Is(1, 1), "O5.3", key+":awaitedInstances-incremented-once", cs.State.Pos, fmt.Sprintf("awaitedInstances++ per iteration = %v (want [1,1])", inc))
			dec := count(cs.Body, nil, isCaseToWaitDec)
			c.Check(dec.Is(0, 0), "O5.3", key+":toWait-not-decremented-per-instance", cs.State.Pos, fmt.Sprintf("toWait-- in the per-instance case = %v (want [0,0]; only checkAllInstancesAreFinished may)", dec))
		}
		if name == "startRes" || name == "runRes" {
			ca := count(cs.Body, nil, isCheckAll)
			c.Check(ca.Is(1, 1), "O5.3", key+":all-finished-check-once", cs.State.Pos, fmt.Sprintf("checkAllInstancesAreFinished() per iteration = %v (want [1,1]: start and run results race)", ca))
		}
		if name == "startRes" {
			st := count(cs.Body, nil, func(in ssa.Instruction) bool {
				v, ok := StoreToField(in, "runAwaitHandle", "startedInstances")
				return ok && DerivesOnly(v, false, recvPred)
			})
			c.Check(st.Is(1, 1), "O5.3", key+":started-count-recorded", cs.State.Pos, fmt.Sprintf("startedInstances = res.Started stores = %v (want [1,1])", st))
		}
		// ---- O5.4: forwarding
		// the case = the instructions of awaitRun its body dominates, and the helpers called from there
		caseFns := map[*ssa.Function]bool{}
		EachInstr(awaitRun, func(in ssa.Instruction) {
			if cs.Body.Dominates(in.Block()) {
				if cc := CC(in); cc != nil && cc.StaticCallee() != nil && PkgOf(cc.StaticCallee()) == PkgOf(awaitRun) {
					for _, f := range FindFuncs(cc.StaticCallee(), 2, func(*ssa.Function) bool { return true }) {
						caseFns[f] = true
					}
				}
			}
		})
		inCase := func(in ssa.Instruction) bool {
			if in.Parent() == awaitRun {
				return cs.Body.Dominates(in.Block())
			}
			return caseFns[in.Parent()]
		}
		eachCaseInstr := func(f func(ssa.Instruction)) {
			EachInstr(awaitRun, func(in ssa.Instruction) {
				if inCase(in) {
					f(in)
				}
			})
			var fs []*ssa.Function
			for g := range caseFns {
				fs = append(fs, g)
			}
			sort.Slice(fs, func(i, j int) bool { return fs[i].String() < fs[j].String() })
			for _, g := range fs {
				EachInstr(g, f)
			}
		}
		// a parameter of a helper shared by several cases stands, in this case, for the argument of the helper's call
		// made in this case (onResultAwaited(ah.runCtx, err, ...))
		var inCaseVal func(v ssa.Value, pred ValPred, d int) bool
		inCaseVal = func(v ssa.Value, pred ValPred, d int) bool {
			return DerivesOnly(v, false, func(r ssa.Value) bool {
				if pred(r) {
					return true
				}
				pr, isP := r.(*ssa.Parameter)
				if !isP || d > 2 || !caseFns[pr.Parent()] {
					return false
				}
				var calls []ssa.Instruction
				eachCaseInstr(func(in ssa.Instruction) {
					if cc := CC(in); cc != nil && cc.StaticCallee() == pr.Parent() {
						calls = append(calls, in)
					}
				})
				if len(calls) != 1 {
					return false
				}
				for i, q := range pr.Parent().Params {
					if q == pr {
						if a := ArgOfParam(calls[0], pr.Parent(), i); a != nil {
							return inCaseVal(a, pred, d+1)
						}
					}
				}
				return false
			})
		}
		isCtxErrCall := func(v ssa.Value) bool {
			cl, _ := CallOfValue(v)
			if cl == nil || !MatchCC(&cl.Call, sIsCtxError) {
				return false
			}
			return inCase(cl)
		}
		// the IsCtxError call in this case
		var ctxCalls []*ssa.Call
		eachCaseInstr(func(in ssa.Instruction) {
			if cl, ok := in.(*ssa.Call); ok && MatchCC(&cl.Call, sIsCtxError) {
				ctxCalls = append(ctxCalls, cl)
			}
		})
		if len(ctxCalls) != 1 {
			c.Bad("O5.4", key+":error-judged-against-context", cs.State.Pos, fmt.Sprintf("expected one errutil.IsCtxError test in the case, found %d", len(ctxCalls)))
			continue
		}
		cl := ctxCalls[0]
		c.Check(inCaseVal(cl.Call.Args[0], IsFieldLoadPred("", ctxField), 0) && inCaseVal(cl.Call.Args[1], recvPred, 0),
			"O5.4", key+":error-judged-against-context", cl.Pos(), "IsCtxError must be given "+ctxField+" and the received error")
		edgeNotCtx := RestrictBool(isCtxErrCall, false)
		edgeCtx := RestrictBool(isCtxErrCall, true)
		var extra func(a, b *ssa.BasicBlock) bool
		if name == "runRes" {
			// the out-of-ammo sentinel is not an error
			if g := outOfAmmoGlobal(c); g != nil {
				extra = func(from, to *ssa.BasicBlock) bool {
					iff, ok := from.Instrs[len(from.Instrs)-1].(*ssa.If)
					if !ok {
						return true
					}
					subj, pol := BoolSubject(iff.Cond)
					isT, whenTrue := sentinelTest(subj, g)
					if !isT {
						return true
					}
					isEq := whenTrue == pol // cond true means equal
					// take the "not equal" edge
					if isEq {
						return to == from.Succs[1]
					}
					return to == from.Succs[0]
				}
			}
		}
		// the same as value-level assumptions (they also decide `runFailed := !outOfAmmo && !IsCtxError(..); if runFailed`)
		assume := func(ctxErr bool) []Assumption {
			as := []Assumption{{isCtxErrCall, ctxErr}}
			if !ctxErr {
				// IsCtxError(ctx, nil) is true: an error that is not a context error is not nil
				isNilCmp := func(op token.Token) func(ssa.Value) bool {
					return func(v ssa.Value) bool {
						b, ok := v.(*ssa.BinOp)
						if !ok || b.Op != op {
							return false
						}
						return (IsNilConst(b.Y) && inCaseVal(b.X, recvPred, 0)) || (IsNilConst(b.X) && inCaseVal(b.Y, recvPred, 0))
					}
				}
				as = append(as, Assumption{isNilCmp(token.EQL), false}, Assumption{isNilCmp(token.NEQ), true})
			}
			if name == "runRes" {
				if g := outOfAmmoGlobal(c); g != nil {
					isCmp := func(eq bool) func(ssa.Value) bool {
						return func(v ssa.Value) bool {
							isT, whenTrue := sentinelTest(v, g)
							return isT && whenTrue == eq
						}
					}
					as = append(as, Assumption{isCmp(true), false}, Assumption{isCmp(false), true})
				}
			}
			return as
		}
		countA := func(as []Assumption) Interval {
			return PathQuery{Fn: awaitRun, StartBlock: cs.Body, StopBlock: loopHead, Assume: as, Weight: func(in ssa.Instruction) (int, int) {
				if isOnErr(in) {
					return 1, 1
				}
				return 0, 0
			}}.Count()
		}
		_, _, _ = edgeNotCtx, edgeCtx, extra
		fw := countA(assume(false))
		c.Check(fw.Is(1, 1), "O5.4", key+":non-context-error-forwarded", cs.State.Pos,
			fmt.Sprintf("onErrAwaited() calls on the path where the error is not a context error = %v (want [1,1])", fw))
		nf := countA(assume(true))
		c.Check(nf.Is(0, 0), "O5.4", key+":context-error-not-forwarded", cs.State.Pos, fmt.Sprintf("onErrAwaited() calls on the context-error path = %v (want [0,0])", nf))
		eachCaseInstr(func(in ssa.Instruction) {
			if isOnErr(in) {
				c.Check(ErrDerives(CC(in).Args[1], func(v ssa.Value) bool { return recvPred(v) || inCaseVal(v, recvPred, 0) }), "O5.4", key+":forwarded-error-carries-cause", in.Pos(), "the error handed to onErrAwaited must wrap the received error")
			}
		})
	}
	for _, f := range []string{"providerErr", "aggregatorErr", "startRes", "runRes"} {
		if !seenFields[f] {
			c.Bad("O5.3", fk(awaitRun)+":case<-"+f, sel.Pos(), "awaitRun has no select case for "+f)
		}
	}
	// toWait initial value == number of channels that decrement it (3 cases + all-finished)
	{
		nh := P.Func("core/engine", "instancePool", "newAwaitRunHandle")
		if nh == nil {
			c.Anchor("O5.3", "newAwaitRunHandle")
		} else {
			ok := false
			EachInstr(nh, func(in ssa.Instruction) {
				if v, isSt := StoreToField(in, "runAwaitHandle", "toWait"); isSt {
					if k, isC := ConstInt(v); isC && k == 4 {
						ok = true
					}
				}
			})
			c.Check(ok, "O5.3", fk(nh)+":toWait-initial-4", nh.Pos(), "toWait starts at 4 = provider + aggregator + instance start + all instance runs")
		}
	}
	// the all-instances-finished action (wherever it lives: checkAllInstancesAreFinished today)
	if af := findAllFinished(c, "O5.3"); af != nil {
		key := fk(af.fn)
		isStartFin := IsCallValue(-1, Spec{"./core/engine", "runAwaitHandle", "isStartFinished"})
		facts := BoolFactsAt(af.close)
		okStart := HasBoolFact(facts, isStartFin, true)
		okCount := false
		for _, f := range CmpFactsAt(af.close) {
			if f.Op == token.EQL && (IsFieldLoad(f.X, "runAwaitHandle", "startRes") && IsNilConst(f.Y) || IsFieldLoad(f.Y, "runAwaitHandle", "startRes") && IsNilConst(f.X)) {
				okStart = true
			}
			f = f.Canon() // X <|<= Y
			// started <= awaited  (awaited >= started)
			if (f.Op == token.LEQ || f.Op == token.EQL) && IsFieldLoad(f.X, "runAwaitHandle", "startedInstances") && IsFieldLoad(f.Y, "runAwaitHandle", "awaitedInstances") {
				okCount = true
			}
			if f.Op == token.EQL && IsFieldLoad(f.Y, "runAwaitHandle", "startedInstances") && IsFieldLoad(f.X, "runAwaitHandle", "awaitedInstances") {
				okCount = true
			}
		}
		c.Check(okStart && okCount, "O5.3", key+":cancel-only-when-all-finished", af.close.Pos(),
			fmt.Sprintf("close(runRes) and what follows must be guarded by isStartFinished() (%v) and awaitedInstances >= startedInstances (%v)", okStart, okCount))
		isNilRunRes := func(in ssa.Instruction) bool {
			v, ok := StoreToField(in, "", "runRes")
			return ok && IsNilConst(v)
		}
		isCancel := func(in ssa.Instruction) bool {
			cc := CC(in)
			return cc != nil && IsFieldCall(cc, "", "runCancel")
		}
		// after the close: one decrement, one nil store, one cancel
		for _, ev := range []struct {
			name string
			pred func(ssa.Instruction) bool
		}{{"toWait--", isToWaitDec}, {"runRes=nil", isNilRunRes}, {"runCancel()", isCancel}} {
			iv := af.countAfter(ev.pred)
			c.Check(iv.Is(1, 1), "O5.3", key+":all-finished-path:"+ev.name, af.close.Pos(), fmt.Sprintf("%s on the paths after close(runRes) = %v (want [1,1])", ev.name, iv))
		}
		// ... and nowhere else: every runCancel() of the package, and every toWait-- of the closing function, runs after the close
		for _, g := range PkgFuncs(af.pkg) {
			if !IsProdFile(P.File(g.Pos())) {
				continue
			}
			EachInstr(g, func(in ssa.Instruction) {
				if isCancel(in) && !af.after(in) {
					c.Bad("O5.3", fk(g)+":runCancel-caller", in.Pos(), "runCancel may only be called after close(runRes) in the all-instances-finished action (provider and aggregator are cancelled only after all instances were awaited)")
				}
				if isToWaitDec(in) && g == af.fn && !af.after(in) {
					c.Bad("O5.3", fk(g)+":not-finished-path:toWait--", in.Pos(), "the all-instances decrement of toWait must come after close(runRes)")
				}
			})
		}
		c.OK("O5.3", "core/engine:who-may-call-runCancel", af.close.Pos(), fmt.Sprintf("scanned %d functions of core/engine", len(PkgFuncs(af.pkg))))
		// runCancel field is the cancel of the runCtx created in runAsync, and nothing else cancels it
		c05CancelWiring(c, runAsync)
	}

	// ---------------- O5.5
	{
		key := fk(onErr)
		sl := Selects(onErr)
		if len(sl) != 1 {
			c.Anchor("O5.5", "the one select of onErrAwaited")
		} else {
			var doneField string
			hasSend := false
			for _, st := range sl[0].States {
				if st.Dir == types.SendOnly {
					hasSend = DerivesOnly(st.Chan, false, IsFieldLoadPred("runAwaitHandle", "awaitErr"))
				} else {
					cl, _ := CallOfValue(st.Chan)
					if cl != nil && MatchCC(&cl.Call, sCtxDone) {
						if fv, _ := FieldOf(Strip(cl.Call.Value)); fv != nil {
							doneField = fv.Name()
						}
					}
				}
			}
			c.Check(hasSend, "O5.5", key+":sends-on-awaitErr", sl[0].Pos(), "onErrAwaited offers the error on awaitErr")
			if doneField == "" {
				c.Unknown("O5.5", key+":alternative-context", sl[0].Pos(), "cannot identify the context whose Done() is the alternative to the send")
			} else {
				// which cancel funcs cancel that context: from runAsync wiring ctxField -> cancelField
				cancelOf := c05CtxCancelPairs(runAsync)
				cf := cancelOf[doneField]
				// is cf called from awaitRun's call tree?
				called := ""
				for _, g := range FindFuncs(awaitRun, 3, func(*ssa.Function) bool { return true }) {
					EachInstr(g, func(in ssa.Instruction) {
						if cc := CC(in); cc != nil && cf != "" && IsFieldCall(cc, "", cf) {
							called = fk(g) + " at " + P.Pos(in.Pos())
						}
					})
				}
				c.Check(called == "", "O5.5", key+":send-raced-against-own-cancel", sl[0].Pos(),
					fmt.Sprintf("the send on awaitErr is raced against %s.Done(); its cancel func %q is called by the awaiter itself in %s: an error awaited after that cancel is dropped at random", doneField, cf, called))
			}
		}
	}

	// ---------------- O5.6
	{
		key := fk(instRun)
		var recDefer *ssa.Defer
		var recFn *ssa.Function
		EachInstr(instRun, func(in ssa.Instruction) {
			d, ok := in.(*ssa.Defer)
			if !ok {
				return
			}
			var f *ssa.Function
			if mc, ok := d.Call.Value.(*ssa.MakeClosure); ok {
				f = mc.Fn.(*ssa.Function)
			} else if sc := d.Call.StaticCallee(); sc != nil && len(sc.Blocks) > 0 {
				f = sc // defer i.finishRun(&err): recover() called directly by the deferred method works as well
			}
			if f != nil {
				has := false
				EachInstr(f, func(i2 ssa.Instruction) {
					if IsBuiltinCall(i2, "recover") {
						has = true
					}
				})
				if has {
					recDefer, recFn = d, f
				}
			}
		})
		if recDefer == nil {
			c.Bad("O5.6", key+":recover-armed", instRun.Pos(), "instance.Run has no deferred function calling recover()")
		} else {
			// armed before the loop: dominates every Shoot-reaching call, i.e. the block is the entry or dominates the loop body call
			_, body, _ := engineLoop(c, "O5.6")
			okDom := false
			if body != nil {
				if body == instRun {
					okDom = true
					for _, s := range Calls(body, sShoot) {
						if !InstrDominates(recDefer, s) {
							okDom = false
						}
					}
				} else if site := SoleCallSite(body); site != nil && site.Parent() == instRun {
					okDom = InstrDominates(recDefer, site)
				}
			}
			c.Check(okDom, "O5.6", key+":recover-armed", recDefer.Pos(), "the recovering defer must dominate the shooting loop")
			// in recFn: result assigned on r != nil edge
			var rec *ssa.Call
			EachInstr(recFn, func(in ssa.Instruction) {
				if IsBuiltinCall(in, "recover") {
					rec, _ = in.(*ssa.Call)
				}
			})
			assigned := false
			EachInstr(recFn, func(in ssa.Instruction) {
				st, ok := in.(*ssa.Store)
				if !ok {
					return
				}
				var cells []ssa.Value
				switch a := st.Addr.(type) {
				case *ssa.FreeVar:
					// bound to the named result cell of Run
					cells = BoundValues(a)
				case *ssa.Parameter:
					// *runErr = ...: the argument of the defer statement
					for i, p := range recFn.Params {
						if p == a && i < len(recDefer.Call.Args) {
							cells = append(cells, recDefer.Call.Args[i])
						}
					}
				default:
					return
				}
				for _, bv := range cells {
					if a, ok := bv.(*ssa.Alloc); ok && types.Identical(a.Type().(*types.Pointer).Elem(), errType) {
						// non-nil edge
						for _, f := range CmpFactsAt(st) {
							if f.Op == token.NEQ && ((DerivesOnly(f.X, false, IsResultOf(rec, -1)) && IsNilConst(f.Y)) || (DerivesOnly(f.Y, false, IsResultOf(rec, -1)) && IsNilConst(f.X))) {
								if !IsNilConst(st.Val) {
									assigned = true
								}
							}
						}
					}
				}
			})
			c.Check(assigned, "O5.6", key+":panic-assigned-to-result", recFn.Pos(), "on the recover() != nil edge a non-nil error must be stored to Run's named result")
			// the named result is what Run returns in the recover block
			okRet := instRun.Recover != nil
			if okRet {
				if r, ok := instRun.Recover.Instrs[len(instRun.Recover.Instrs)-1].(*ssa.Return); !ok || len(r.Results) != 1 {
					okRet = false
				}
			}
			c.Check(okRet, "O5.6", key+":recover-block-returns-result", instRun.Pos(), "Run returns its named result after a recovered panic")
			fin := PathQuery{Fn: recFn, Weight: func(in ssa.Instruction) (int, int) {
				if IsCall(in, sCounterAdd) && DerivesOnly(CC(in).Args[0], false, IsFieldLoadPred("Metrics", "InstanceFinish")) {
					return 1, 1
				}
				return 0, 0
			}}.Count()
			c.Check(fin.Is(1, 1), "O5.6", key+":instance-finish-counted", recFn.Pos(), fmt.Sprintf("InstanceFinish.Add per exit = %v (want [1,1])", fin))
		}
	}

	// ---------------- O5.7
	{
		sp := P.SSAPkg("core/engine")
		n := 0
		for _, g := range PkgFuncs(sp) {
			if !IsProdFile(P.File(g.Pos())) {
				continue
			}
			EachInstr(g, func(in ssa.Instruction) {
				cl, ok := in.(*ssa.Call)
				if !ok || cl.Call.StaticCallee() != instRun {
					return
				}
				n++
				recv := cl.Call.Args[0]
				okD := false
				EachInstr(g, func(i2 ssa.Instruction) {
					d, ok := i2.(*ssa.Defer)
					if !ok || d.Call.StaticCallee() != instClose {
						return
					}
					same := false
					for _, r1 := range Roots(recv, false) {
						for _, r2 := range Roots(d.Call.Args[0], false) {
							if r1 == r2 {
								same = true
							}
						}
					}
					if same && InstrDominates(d, cl) {
						okD = true
					}
				})
				c.Check(okD, "O5.7", fk(g)+":close-deferred-before-run", cl.Pos(), "instance.Run must be dominated by `defer <same instance>.Close()`")
			})
		}
		c.Floor("O5.7", "instance.Run call sites", n, 1)
		// the gun is closed BEFORE the instance's result is published: the function that arms `defer Close`
		// must not itself send the run result (a deferred call runs after the send: the awaiter would count the
		// instance as finished, and Engine.Run / Wait could return, while the gun is still being closed)
		nArm := 0
		for _, g := range PkgFuncs(sp) {
			if !IsProdFile(P.File(g.Pos())) {
				continue
			}
			var arm *ssa.Defer
			EachInstr(g, func(in ssa.Instruction) {
				if d, ok := in.(*ssa.Defer); ok && d.Call.StaticCallee() == instClose {
					arm = d
				}
			})
			if arm == nil {
				continue
			}
			nArm++
			var sends []ssa.Instruction
			EachInstr(g, func(in ssa.Instruction) {
				switch x := in.(type) {
				case *ssa.Send:
					if _, tn := NamedOf(x.X.Type()); tn == "instanceRunResult" {
						sends = append(sends, in)
					}
				case *ssa.Select:
					for _, st := range x.States {
						if st.Send != nil {
							if _, tn := NamedOf(st.Send.Type()); tn == "instanceRunResult" {
								sends = append(sends, in)
							}
						}
					}
				}
			})
			c.Check(len(sends) == 0, "O5.7", fk(g)+":gun-closed-before-the-result-is-published", arm.Pos(),
				fmt.Sprintf("the function that defers instance.Close() also sends the instance's run result (%d send(s)): the deferred Close runs after the send", len(sends)))
		}
		c.Floor("O5.7", "functions arming defer instance.Close()", nArm, 1)
		// every exit of a function that closes an instance it was GIVEN is preceded by the arming of the Close: a return
		// placed before `defer instance.Close()` (a cancelled-already fast path, say) leaves a created and bound gun open.
		// Where the function creates the instance itself, returns before the creation and on its error edge are free.
		newInst := P.Func("core/engine", "", "newInstance")
		for _, g := range PkgFuncs(sp) {
			if !IsProdFile(P.File(g.Pos())) {
				continue
			}
			var arms []*ssa.Defer
			EachInstr(g, func(in ssa.Instruction) {
				if d, ok := in.(*ssa.Defer); ok && d.Call.StaticCallee() == instClose {
					arms = append(arms, d)
				}
			})
			for _, arm := range arms {
				var created *ssa.Call // the newInstance call of g the closed instance comes from, if it does
				given := false
				for _, r := range Roots(arm.Call.Args[0], false) {
					if cl, _ := CallOfValue(r); cl != nil && cl.Parent() == g && newInst != nil && cl.Call.StaticCallee() == newInst {
						created = cl
					} else {
						given = true
					}
				}
				bad := ""
				EachInstr(g, func(in ssa.Instruction) {
					ret, ok := in.(*ssa.Return)
					if !ok || InstrDominates(arm, ret) || ret.Block() == g.Recover {
						return
					}
					if created != nil && !given {
						if !CanReach(created, ret) {
							return
						}
						for _, f := range CmpFactsAt(ret) {
							if f.Op == token.NEQ && IsNilConst(f.Y) && DerivesOnly(f.X, false, IsResultOf(created, 1)) {
								return // the creation failed: nothing to close
							}
						}
					}
					bad = P.Pos(ret.Pos())
				})
				c.Check(bad == "", "O5.7", fk(g)+":no-exit-before-close-is-armed", arm.Pos(),
					"a return that `defer instance.Close()` does not dominate, with the instance already created (given to the function, or made by it without error): "+bad)
			}
		}
		// ... and every created instance reaches such a function: newInstance's result is closed by a deferred/direct Close in
		// the creating function or its closures, or handed to a function of the package that arms the Close on that parameter
		if newInst == nil {
			c.Anchor("O5.7", "core/engine.newInstance")
		} else {
			nNew := 0
			for _, g := range PkgFuncs(sp) {
				if !IsProdFile(P.File(g.Pos())) || g.Parent() != nil {
					continue
				}
				EachInstrDeep(g, func(h *ssa.Function, in ssa.Instruction) {
					cl, ok := in.(*ssa.Call)
					if !ok || cl.Call.StaticCallee() != newInst {
						return
					}
					nNew++
					isInst := IsResultOf(cl, 0)
					closed := false
					EachInstrDeep(g, func(h2 *ssa.Function, i2 ssa.Instruction) {
						cc := CC(i2)
						if cc == nil || cc.StaticCallee() == nil {
							return
						}
						sc := cc.StaticCallee()
						if sc == instClose && DerivesAny(cc.Args[0], false, isInst) {
							closed = true
							return
						}
						if sc.Pkg != sp || len(sc.Blocks) == 0 {
							return
						}
						for i, a := range cc.Args {
							if i >= len(sc.Params) || !DerivesAny(a, false, isInst) {
								continue
							}
							par := ssa.Value(sc.Params[i])
							EachInstrDeep(sc, func(_ *ssa.Function, i3 ssa.Instruction) {
								if d, ok := i3.(*ssa.Defer); ok && d.Call.StaticCallee() == instClose && DerivesOnly(d.Call.Args[0], false, func(v ssa.Value) bool { return v == par }) {
									closed = true
								}
							})
						}
					})
					c.Check(closed, "O5.7", fk(h)+":created-instance-gets-its-close-armed", cl.Pos(), "the instance newInstance returns is closed by this function (or a closure of it), or handed to a function of the package that defers its Close")
				})
			}
			c.Floor("O5.7", "newInstance call sites", nNew, 1)
		}
		// Close: type-assert to io.Closer comma-ok, Close called on ok edge
		var ta *ssa.TypeAssert
		EachInstr(instClose, func(in ssa.Instruction) {
			if t, ok := in.(*ssa.TypeAssert); ok && t.CommaOk {
				if _, n := NamedOf(t.AssertedType); n == "Closer" && DerivesOnly(t.X, false, IsFieldLoadPred("instance", "gun")) {
					ta = t
				}
			}
		})
		if ta == nil {
			// the closer resolved once at creation: a field of the instance whose every store is the comma-ok io.Closer
			// view of the gun the same constructor stores; Close() is called on it exactly once where it is non-nil
			okCached, detail := false, "instance.Close must test instance.gun for io.Closer with the comma-ok form"
			var closeCalls []*ssa.Call
			EachInstr(instClose, func(in ssa.Instruction) {
				if cl, ok := in.(*ssa.Call); ok && IsCall(in, Spec{"io", "Closer", "Close"}) {
					closeCalls = append(closeCalls, cl)
				}
			})
			if len(closeCalls) == 1 {
				cl := closeCalls[0]
				if fv, base := FieldOf(Strip(cl.Call.Value)); fv != nil {
					_, tn := NamedOf(base.Type())
					stores := P.FieldStores(fv)
					all := tn == "instance" && len(stores) > 0
					for _, sv := range stores {
						ex, isEx := Strip(sv).(*ssa.Extract)
						var t *ssa.TypeAssert
						if isEx && ex.Index == 0 {
							t, _ = ex.Tuple.(*ssa.TypeAssert)
						}
						if t == nil || !t.CommaOk {
							all = false
							continue
						}
						if _, n := NamedOf(t.AssertedType); n != "Closer" {
							all = false
						}
						// the asserted value is the gun this constructor stores
						sameGun := false
						for f, v := range compositeFields(t.Parent(), "instance") {
							if f == "gun" && sameRoots(v, t.X) {
								sameGun = true
							}
						}
						if !sameGun {
							all = false
						}
					}
					nonNil := false
					for _, f := range CmpFactsAt(cl) {
						if g, _ := FieldOf(Strip(f.X)); f.Op == token.NEQ && IsNilConst(f.Y) && g == fv {
							nonNil = true
						}
					}
					iv := PathQuery{Fn: instClose, Weight: func(in ssa.Instruction) (int, int) {
						if in == ssa.Instruction(cl) {
							return 1, 1
						}
						return 0, 0
					}, Assume: []Assumption{{Pred: func(v ssa.Value) bool {
						b, ok := v.(*ssa.BinOp)
						if !ok {
							return false
						}
						g, _ := FieldOf(Strip(b.X))
						return ok && b.Op == token.NEQ && IsNilConst(b.Y) && g == fv
					}, Val: true}, {Pred: func(v ssa.Value) bool {
						b, ok := v.(*ssa.BinOp)
						if !ok {
							return false
						}
						g, _ := FieldOf(Strip(b.X))
						return ok && b.Op == token.EQL && IsNilConst(b.Y) && g == fv
					}, Val: false}}}.Count()
					okCached = all && nonNil && iv.Is(1, 1)
					detail = fmt.Sprintf("Close is called on the field %s: every store is the comma-ok io.Closer view of the constructor's gun: %v; called only where non-nil: %v; calls per Close with a closable gun = %v (want [1,1])", fv.Name(), all, nonNil, iv)
				}
			}
			c.Check(okCached, "O5.7", fk(instClose)+":closes-io-closer-guns", instClose.Pos(), detail)
		} else {
			okPred := func(v ssa.Value) bool { return DerivesOnly(v, false, IsResultOf(ta, 1)) }
			iv := PathQuery{Fn: instClose, Start: ta, Edge: RestrictBool(okPred, true), Weight: func(in ssa.Instruction) (int, int) {
				if IsCall(in, Spec{"io", "Closer", "Close"}) {
					return 1, 1
				}
				return 0, 0
			}}.Count()
			c.Check(iv.Is(1, 1), "O5.7", fk(instClose)+":closes-io-closer-guns", ta.Pos(), fmt.Sprintf("io.Closer.Close calls on the ok edge = %v (want [1,1])", iv))
		}
	}

	// ---------------- O5.8
	// ---------------- O5.9: one awaited result per started pool
	c.Rule("O5.9", "Engine.Run waits for every pool it started: one pool goroutine is started per element of the configured pools, and the loop that receives the pools' results is counted by that same number (i from 0 while i < len(Pools), one receive per iteration) - not by a set of names or anything else two pools can share (with a set keyed by pool id two pools of one id count as one: Run returns success while the second still runs, and its failure is lost)")
	{
		var recvSel ssa.Instruction
		// (Engine.Run and the helpers of the package it calls: startPools / awaitPools)
		o59region := FindFuncs(engRun, 1, func(g *ssa.Function) bool {
			if g == engRun {
				return true
			}
			site := SoleCallSite(g)
			return g.Parent() == nil && PkgOf(g) == PkgOf(engRun) && site != nil && site.Parent() == engRun && g.Signature.Recv() != nil && engRun.Signature.Recv() != nil && types.Identical(g.Signature.Recv().Type(), engRun.Signature.Recv().Type())
		})
		eachO59 := func(f func(ssa.Instruction)) {
			for _, g := range o59region {
				if g.Parent() == nil {
					EachInstr(g, f)
				}
			}
		}
		eachO59(func(in ssa.Instruction) {
			switch x := in.(type) {
			case *ssa.Select:
				for _, st := range x.States {
					if st.Dir == types.RecvOnly {
						if ch, ok := st.Chan.Type().Underlying().(*types.Chan); ok {
							if _, tn := NamedOf(ch.Elem()); tn == "poolRunResult" {
								recvSel = in
							}
						}
					}
				}
			case *ssa.UnOp:
				if x.Op == token.ARROW {
					if ch, ok := x.X.Type().Underlying().(*types.Chan); ok {
						if _, tn := NamedOf(ch.Elem()); tn == "poolRunResult" {
							recvSel = in
						}
					}
				}
			}
		})
		if recvSel == nil {
			c.Anchor("O5.9", "the receive of a poolRunResult in Engine.Run")
		} else {
			isPools := func(v ssa.Value) bool {
				return DerivesOnly(v, false, func(r ssa.Value) bool {
					fv, _ := FieldOf(Strip(r))
					return fv != nil && fv.Name() == "Pools"
				})
			}
			counted := false
			for _, f := range CmpFactsAt(recvSel) {
				f = f.Canon()
				if f.Op != token.LSS {
					continue
				}
				phi, isPhi := f.X.(*ssa.Phi)
				// the bound: len(config.Pools), directly or as the argument the helper is given for its count parameter
				lc, isLen := Resolve(f.Y).(*ssa.Call)
				if !isPhi || !isLen || !IsBuiltinCall(lc, "len") || !isPools(lc.Call.Args[0]) || len(phi.Edges) != 2 {
					continue
				}
				nInit, nStep := 0, 0
				for _, e := range phi.Edges {
					if k, isK := ConstInt(e); isK && k == 0 {
						nInit++
					}
					if b, isB := e.(*ssa.BinOp); isB && b.Op == token.ADD && b.X == ssa.Value(phi) {
						if k, isK := ConstInt(b.Y); isK && k == 1 {
							nStep++
						}
					}
				}
				counted = nInit == 1 && nStep == 1
			}
			// the range-over-int / range-over-slice forms: the select sits in a loop whose header tests a range index
			// against len(Pools)
			if hdr := loopHeaderOf(recvSel.Block()); hdr != nil && !counted {
				if iff, ok := hdr.Instrs[len(hdr.Instrs)-1].(*ssa.If); ok {
					f := CondFact(iff.Cond, true).Canon()
					if f.Y != nil && f.Op == token.LSS {
						if lc, isLen := f.Y.(*ssa.Call); isLen && IsBuiltinCall(lc, "len") && isPools(lc.Call.Args[0]) {
							if b, isB := f.X.(*ssa.BinOp); isB && b.Op == token.ADD {
								if phi, isPhi := b.X.(*ssa.Phi); isPhi && len(phi.Edges) == 2 {
									k, isK := ConstInt(phi.Edges[0])
									counted = isK && k == -1 && phi.Edges[1] == ssa.Value(b)
								}
							}
						}
					}
				}
			}
			iv := PathQuery{Fn: recvSel.Parent(), Start: recvSel, StopBlock: loopHeaderOf(recvSel.Block()), Exit: func(*ssa.BasicBlock) bool { return false }, Weight: func(in ssa.Instruction) (int, int) {
				if in == recvSel {
					return 1, 1
				}
				return 0, 0
			}}.Count()
			c.Check(counted && (iv.NoPath || iv.Is(0, 0)), "O5.9", fk(engRun)+":one-awaited-result-per-pool", recvSel.Pos(),
				fmt.Sprintf("the receive of pool results runs in a loop counted from 0 to len(config.Pools): %v; further receives in the same iteration: %v", counted, iv))
			// one pool goroutine per configured pool: the go statement sits in the range over Pools, once per iteration
			nGo := 0
			eachO59(func(in ssa.Instruction) {
				if _, ok := in.(*ssa.Go); ok {
					nGo++
					hdr := loopHeaderOf(in.Block())
					okRange := false
					if hdr != nil {
						if iff, isIf := hdr.Instrs[len(hdr.Instrs)-1].(*ssa.If); isIf {
							f := CondFact(iff.Cond, true).Canon()
							if f.Y != nil && f.Op == token.LSS {
								if lc, isLen := f.Y.(*ssa.Call); isLen && IsBuiltinCall(lc, "len") && isPools(lc.Call.Args[0]) {
									okRange = true
								}
							}
						}
					}
					c.Check(okRange, "O5.9", fk(engRun)+":one-goroutine-per-pool", in.Pos(), "the pool goroutine is started inside the loop over config.Pools")
				}
			})
			c.Floor("O5.9", "go statements in Engine.Run", nGo, 1)
		}
	}
	for _, fn := range []*ssa.Function{engRun, poolRun} {
		key := fk(fn)
		// deferred cancel
		var wc *ssa.Call
		EachInstr(fn, func(in ssa.Instruction) {
			if cl, ok := in.(*ssa.Call); ok && MatchCC(&cl.Call, sWithCancel) {
				wc = cl
			}
		})
		okDef := false
		if wc != nil {
			EachInstr(fn, func(in ssa.Instruction) {
				d, ok := in.(*ssa.Defer)
				if !ok {
					return
				}
				target := d.Call.Value
				if mc, ok := target.(*ssa.MakeClosure); ok {
					f := mc.Fn.(*ssa.Function)
					iv := PathQuery{Fn: f, Weight: func(i2 ssa.Instruction) (int, int) {
						cc := CC(i2)
						if cc != nil && !cc.IsInvoke() && cc.StaticCallee() == nil && DerivesOnly(cc.Value, false, IsResultOf(wc, 1)) {
							return 1, 1
						}
						return 0, 0
					}}.Count()
					if iv.Is(1, 1) && d.Block() == fn.Blocks[0] {
						okDef = true
					}
				} else if DerivesOnly(target, false, IsResultOf(wc, 1)) && d.Block() == fn.Blocks[0] {
					okDef = true
				}
			})
		}
		c.Check(okDef, "O5.8", key+":deferred-cancel", fn.Pos(), "the derived context's cancel must be deferred in the entry block and called on every path of the deferred closure")
		// ctx.Done cases return ctx.Err()
		n := 0
		// fn and the helpers only it calls (awaitPools(ctx, runRes))
		var selFns []*ssa.Function
		for _, g := range FindFuncs(fn, 2, func(*ssa.Function) bool { return true }) {
			if g == fn || g.Parent() == nil && P.WithinOnly(g, func(f *ssa.Function) bool { return f == fn }, 3) {
				selFns = append(selFns, g)
			}
		}
		for _, g := range selFns {
			for _, s := range Selects(g) {
				for _, cs := range SelectCases(s) {
					if cs.State == nil || cs.State.Dir != types.RecvOnly {
						continue
					}
					cl, _ := CallOfValue(cs.State.Chan)
					if cl == nil || !MatchCC(&cl.Call, sCtxDone) {
						continue
					}
					n++
					// every return dominated by this case body returns ctx.Err()
					for _, rb := range g.Blocks {
						r, ok := rb.Instrs[len(rb.Instrs)-1].(*ssa.Return)
						if !ok || !cs.Body.Dominates(rb) || len(r.Results) == 0 {
							continue
						}
						c.Check(DerivesOnly(r.Results[len(r.Results)-1], false, IsCallValue(-1, sCtxErr)), "O5.8", key+":ctx-done-returns-ctx-err", r.Pos(),
							"a return taken because ctx.Done() fired must return ctx.Err()")
					}
				}
			}
		}
		c.Floor("O5.8", key+" ctx.Done() select cases", n, 1)
	}

	// ---------------- O5.9
	{
		targets := []struct {
			fn   *ssa.Function
			pred func(cl *ssa.Call) bool
			what string
		}{
			{P.Func("core/engine", "instancePool", "warmUpGun"), func(cl *ssa.Call) bool {
				return IsFieldCall(&cl.Call, "", "NewGun") || MatchCC(&cl.Call, Spec{"./core/warmup", "WarmedUp", "WarmUp"})
			}, "NewGun/WarmUp"},
			{poolRun, func(cl *ssa.Call) bool {
				sc := cl.Call.StaticCallee()
				return sc != nil && (sc.Name() == "warmUpGun" || sc == runAsync)
			}, "warmUpGun/runAsync"},
			{runAsync, func(cl *ssa.Call) bool {
				sc := cl.Call.StaticCallee()
				return sc != nil && sc.Name() == "buildNewInstanceSchedule"
			}, "buildNewInstanceSchedule"},
			{P.Func("core/engine", "instancePool", "buildNewInstanceSchedule"), func(cl *ssa.Call) bool { return IsFieldCall(&cl.Call, "", "NewRPSSchedule") }, "NewRPSSchedule"},
			{P.Func("core/engine", "", "newInstance"), func(cl *ssa.Call) bool {
				return IsFieldCall(&cl.Call, "", "newSchedule") || IsFieldCall(&cl.Call, "", "newGun") || MatchCC(&cl.Call, Spec{"./core", "Gun", "Bind"})
			}, "newSchedule/newGun/Bind"},
			{P.Func("core/engine", "", "runNewInstance"), func(cl *ssa.Call) bool {
				sc := cl.Call.StaticCallee()
				return sc != nil && sc.Name() == "newInstance"
			}, "newInstance"},
			{startInst, func(cl *ssa.Call) bool {
				sc := cl.Call.StaticCallee()
				return sc != nil && sc.Name() == "newInstance"
			}, "newInstance"},
		}
		n := 0
		for _, t := range targets {
			if t.fn == nil {
				c.Anchor("O5.9", "function holding "+t.what)
				continue
			}
			for _, cl := range callsDeep(t.fn, t.pred) {
				n++
				name := "call"
				if f := CalleeObj(&cl.Call); f != nil {
					name = f.Name()
				} else if fv, _ := FieldOf(cl.Call.Value); fv != nil {
					name = fv.Name()
				}
				checkErrPropagated(c, "O5.9", fk(t.fn)+":err-of-"+name, cl)
			}
		}
		c.Floor("O5.9", "creation calls whose error is tracked", n, 10)
	}
}

// c05CtxCancelPairs reads, from runAsync's handle literal, which cancel field
// belongs to which context field (both results of the same WithCancel call).
func c05CtxCancelPairs(runAsync *ssa.Function) map[string]string {
	type pair struct{ ctx, cancel string }
	byCall := map[*ssa.Call]*pair{}
	EachInstr(runAsync, func(in ssa.Instruction) {
		st, ok := in.(*ssa.Store)
		if !ok {
			return
		}
		fa, ok := st.Addr.(*ssa.FieldAddr)
		if !ok {
			return
		}
		s := fa.X.Type().Underlying().(*types.Pointer).Elem().Underlying().(*types.Struct)
		name := s.Field(fa.Field).Name()
		for _, r := range Roots(st.Val, false) {
			cl, idx := CallOfValue(r)
			if cl == nil || !MatchCC(&cl.Call, sWithCancel) {
				continue
			}
			p := byCall[cl]
			if p == nil {
				p = &pair{}
				byCall[cl] = p
			}
			if idx == 0 {
				p.ctx = name
			} else if idx == 1 {
				p.cancel = name
			}
		}
	})
	out := map[string]string{}
	for _, p := range byCall {
		if p.ctx != "" {
			out[p.ctx] = p.cancel
		}
	}
	return out
}

func c05CancelWiring(c *Ctx, runAsync *ssa.Function) {
	pairs := c05CtxCancelPairs(runAsync)
	c.Check(pairs["runCtx"] == "runCancel" && pairs["instanceStartCtx"] == "instanceStartCancel", "O5.3", fk(runAsync)+":context-cancel-pairs", runAsync.Pos(),
		fmt.Sprintf("handle wiring (ctx field -> cancel field) = %v; want runCtx->runCancel, instanceStartCtx->instanceStartCancel", pairs))
	// the provider runs under runCtx; instances start under instanceStartCtx, which is a child of runCtx
	wcOf := withCancelByHandleField(runAsync)
	runWC, startWC := wcOf["runCancel"], wcOf["instanceStartCancel"]
	okChild := runWC != nil && startWC != nil && DerivesOnly(startWC.Call.Args[0], false, IsResultOf(runWC, 0))
	c.Check(okChild, "O5.3", fk(runAsync)+":start-context-is-child-of-run-context", runAsync.Pos(), "instanceStartCtx must derive from runCtx")
	for _, g := range runAsync.AnonFuncs {
		EachInstr(g, func(in ssa.Instruction) {
			cl, ok := in.(*ssa.Call)
			if !ok || !MatchCC(&cl.Call, Spec{"./core", "Provider", "Run"}) {
				return
			}
			ok2 := runWC != nil && DerivesOnly(cl.Call.Args[0], false, IsResultOf(runWC, 0))
			c.Check(ok2, "O5.3", fk(runAsync)+":Provider.Run-under-run-context", cl.Pos(), "Provider.Run must run under runCtx (cancelled when all instances were awaited, or with the pool)")
		})
	}
	aggregatorContextRule(c, "O5.3", runAsync)
	_ = strings.Join
}
