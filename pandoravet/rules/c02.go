package rules

import (
	"fmt"
	"go/token"
	"go/types"

	. "pandoravet/core"

	"golang.org/x/tools/go/ssa"
)

func init() {
	register(&Pack{Property: "C02", Title: "Schedule token contract", Run: runC02})
}

var sOnceDo = Spec{"sync", "Once", "Do"}

func runC02(c *Ctx) {
	c.Rule("O2.1", "atomic token index: doAtSchedule.i is an atomic integer; Next performs exactly one read-modify-write on it per call and uses only that call's result as the token index; nothing in the package stores/swaps it")
	c.Rule("O2.2", "lock discipline of the composite: scheds/leftAfter (and calls on their elements) are read only with rwMu held (R or W) and written only with W; functions that touch them without locking (startNext) are called only with W held; no lock is held at any exit or at a recursive retry")
	c.Rule("O2.3", "re-check after lock upgrade: startNext is called only on the edge where len(scheds) read under W equals (is not smaller than) the value read under R")
	c.Rule("O2.4", "the unknown-count sentinel never enters arithmetic: a value loaded from leftAfter is added only where it was compared >= 0 on the same path")
	c.Rule("O2.5", "next part starts at previous finish: startNext starts scheds[0] with its argument, and every caller passes the time returned by the exhausted part's Next on its !ok edge")
	c.Rule("O2.6", "start once: MarkStarted panics on the true edge of started.Swap(true); start/finish times are written only inside startOnce.Do closures")
	c.Rule("O2.7", "finish callback fires on both signals, once: onFinish is only ever invoked through onFinishOnce.Do, reached exactly on the !ok edge of Next and on the left==0 edge of Left")
	c.Rule("O2.9", "the composite reports 'finished' only from its last part: every path of compositeSchedule.Next that returns a part's ok=false (not the recursive retry) proves through the comparisons taken on it that one part was left when that part's Next was called (len(scheds) read in the same critical section, minus startNext shifts, <= 1)")
	c.Rule("O2.10", "state is published before the started flag: in a schedule whose methods read fields after asking IsStarted(), every function that calls MarkStarted() writes those fields (directly or in the closure it gives to startOnce.Do) before the call - a concurrent Left() that sees 'started' must not see the state of the constructor")
	c.Rule("O2.11", "start state is read only after the start: a field that is written inside a startOnce.Do closure (the start / finish time) is read in a method only after that method's own startOnce.Do, or on the edge where IsStarted() is true - a drained or empty schedule that was never started must not compute its finish time from the zero start time")
	c.Rule("O2.12", "a schedule object belongs to one user: no package-level variable of pandora's production code holds a core.Schedule (a schedule carries its start flag, start time and token index - two profiles built from one object share them), and no function of core/schedule returns as its schedule a value read from a package-level variable")
	c.Rule("O2.8", "doAtSchedule.Left clamps: returns 0 on the n-i < 0 edge and n-i otherwise")
	P := c.P
	sp := P.SSAPkg("core/schedule")
	if sp == nil {
		c.Anchor("O2.1", "package core/schedule")
		return
	}
	pkgFns := []*ssa.Function{}
	for _, f := range PkgFuncs(sp) {
		if IsProdFile(P.File(f.Pos())) {
			pkgFns = append(pkgFns, f)
		}
	}
	// ---------------- O2.1
	daNext := P.Func("core/schedule", "doAtSchedule", "Next")
	daLeft := P.Func("core/schedule", "doAtSchedule", "Left")
	if daNext == nil || daLeft == nil {
		c.Anchor("O2.1", "core/schedule.(*doAtSchedule).Next/Left")
	} else {
		pk := P.Pkg("core/schedule")
		okType := false
		idxName := "i" // the token index: the field named i, or else the only field of an atomic integer type
		if tn, ok := pk.Types.Scope().Lookup("doAtSchedule").(*types.TypeName); ok {
			st := tn.Type().Underlying().(*types.Struct)
			hasI := false
			var atomics []string
			for i := 0; i < st.NumFields(); i++ {
				p, n := NamedOf(st.Field(i).Type())
				if (p == "go.uber.org/atomic" || p == "sync/atomic") && (n == "Int64" || n == "Uint64") {
					atomics = append(atomics, st.Field(i).Name())
				}
				if st.Field(i).Name() == "i" {
					hasI = true
				}
			}
			if !hasI && len(atomics) == 1 {
				idxName = atomics[0]
			}
			for i := 0; i < st.NumFields(); i++ {
				if st.Field(i).Name() == idxName {
					p, n := NamedOf(st.Field(i).Type())
					okType = (p == "go.uber.org/atomic" || p == "sync/atomic") && (n == "Int64" || n == "Uint64")
				}
			}
		}
		c.Check(okType, "O2.1", "core/schedule.doAtSchedule.i:atomic-type", daNext.Pos(), "the token index field must have an atomic integer type")
		onI := func(cc *ssa.CallCommon) bool {
			if cc == nil || cc.IsInvoke() || len(cc.Args) == 0 {
				return false
			}
			fv, _ := FieldOf(cc.Args[0])
			if fv == nil {
				if fa, ok := cc.Args[0].(*ssa.FieldAddr); ok {
					fv, _ = FieldOf(fa)
				}
			}
			return fv != nil && fv.Name() == idxName && RecvTypeName(CalleeObj(cc)) != "" && isDoAtField(cc.Args[0])
		}
		rmw := map[string]bool{"Inc": true, "Add": true}
		forbidden := map[string]bool{"Store": true, "Swap": true, "CAS": true, "CompareAndSwap": true, "Dec": true, "Sub": true}
		var rmwCalls []*ssa.Call
		// Next and the helpers of the type only it calls (acquireIndex(), tokenTime(i))
		daRegion := FindFuncs(daNext, 2, func(g *ssa.Function) bool {
			return g == daNext || (PkgOf(g) == PkgOf(daNext) && P.WithinOnly(g, func(f *ssa.Function) bool { return f == daNext }, 3))
		})
		for _, g := range daRegion {
			EachInstr(g, func(in ssa.Instruction) {
				if cl, ok := in.(*ssa.Call); ok && onI(&cl.Call) && rmw[CalleeObj(&cl.Call).Name()] {
					rmwCalls = append(rmwCalls, cl)
				}
			})
		}
		// (a) at most one fetch-and-increment per call (two would skip a token); plain loads do not count
		iv := PathQuery{Fn: daNext, Weight: func(in ssa.Instruction) (int, int) {
			if cc := CC(in); onI(cc) && rmw[CalleeObj(cc).Name()] {
				return 1, 1
			}
			return 0, 0
		}}.Count()
		c.Check(!iv.NoPath && iv.Max <= 1, "O2.1", fk(daNext)+":one-fetch-and-increment-per-call", daNext.Pos(),
			fmt.Sprintf("fetch-and-increment operations on the token index per path of Next = %v (want at most 1)", iv))
		for _, rc := range rmwCalls {
			if CalleeObj(&rc.Call).Name() == "Add" {
				k, isC := ConstInt(rc.Call.Args[1])
				c.Check(isC && k == 1, "O2.1", fk(daNext)+":increment-by-one", rc.Pos(), "the index advances by exactly 1 per token")
			}
		}
		// the value as computed: a helper's parameter is what its only call site passes, the result of a helper what
		// its only return yields
		resolve := func(v ssa.Value) ssa.Value {
			for d := 0; d < 4; d++ {
				v = Strip(v)
				if pr, isP := v.(*ssa.Parameter); isP {
					site := SoleCallSite(pr.Parent())
					if site == nil {
						return v
					}
					for i, q := range pr.Parent().Params {
						if a := ArgOfParam(site, pr.Parent(), i); q == pr && a != nil {
							v = a
						}
					}
					continue
				}
				if cl, isC := v.(*ssa.Call); isC && !onI(&cl.Call) && cl.Call.StaticCallee() != nil && PkgOf(cl.Call.StaticCallee()) == PkgOf(daNext) {
					if ts := ThroughReturns(v); len(ts) == 1 && ts[0] != v {
						v = ts[0]
						continue
					}
				}
				return v
			}
			return v
		}
		isLoadI := func(v ssa.Value) bool {
			cl, ok := Strip(v).(*ssa.Call)
			return ok && onI(&cl.Call) && CalleeObj(&cl.Call).Name() == "Load"
		}
		// (b) an index is claimed: (fetch-and-increment result - 1), or a loaded value v under a successful
		// CompareAndSwap(v, v+1) at the place it is used
		claimed := func(v ssa.Value, at ssa.Instruction) bool {
			r := resolve(v)
			if b, ok := r.(*ssa.BinOp); ok && b.Op == token.SUB {
				if rc, isC := b.X.(*ssa.Call); isC && onI(&rc.Call) && rmw[CalleeObj(&rc.Call).Name()] {
					k, isK := ConstInt(b.Y)
					return isK && k == 1
				}
			}
			if isLoadI(r) {
				for _, bf := range BoolFactsAt(at) {
					cl, _ := bf.Subj.(*ssa.Call)
					if cl == nil || !bf.Val || !onI(&cl.Call) {
						continue
					}
					if n := CalleeObj(&cl.Call).Name(); n != "CompareAndSwap" && n != "CAS" {
						continue
					}
					if len(cl.Call.Args) == 3 && Strip(cl.Call.Args[1]) == Strip(r) {
						if nb, ok := Strip(cl.Call.Args[2]).(*ssa.BinOp); ok && nb.Op == token.ADD && Strip(nb.X) == Strip(r) {
							if k, isK := ConstInt(nb.Y); isK && k == 1 {
								return true
							}
						}
					}
				}
			}
			return false
		}
		// (c) a token is returned only for a claimed index known to be below n; "no tokens" only on index >= n, the
		// index being the claimed one or a fresh load of the counter (the counter only grows)
		cmpWithN := func(at ssa.Instruction, want func(v ssa.Value) bool) (below, notBelow bool) {
			for _, f := range CmpFactsAt(at) {
				f = f.Canon() // X < Y or X <= Y
				if IsFieldLoad(f.Y, "doAtSchedule", "n") && f.Op == token.LSS && want(f.X) {
					below = true // v < n
				}
				if IsFieldLoad(f.X, "doAtSchedule", "n") && f.Op == token.LEQ && want(f.Y) {
					notBelow = true // n <= v
				}
			}
			return
		}
		nUse, nRet := 0, 0
		for _, vr := range VirtualReturns(daNext) {
			if len(vr.Results) != 2 {
				continue
			}
			okv, isC := ConstCond(vr.Results[1])
			if !isC {
				continue // O1.3 reports a non-constant ok
			}
			nRet++
			r := vr.At
			if okv {
				below, _ := cmpWithN(r, func(v ssa.Value) bool { return claimed(v, r) })
				c.Check(below, "O2.1", fk(r.Parent())+":token-only-for-a-claimed-index-below-n", vr.Ret.Pos(), "a token is returned only where the claimed index (fetch-and-increment result - 1, or a value swapped in by a successful CompareAndSwap(v, v+1)) is known to be < n")
			} else {
				_, notBelow := cmpWithN(r, func(v ssa.Value) bool { return claimed(v, r) || isLoadI(resolve(v)) })
				c.Check(notBelow, "O2.1", fk(r.Parent())+":exhausted-only-on-index-not-below-n", vr.Ret.Pos(), "'no tokens left' is returned only where the claimed index or the counter itself is known to be >= n")
			}
		}
		c.Floor("O2.1", "returns of doAtSchedule.Next with a constant ok", nRet, 2)
		for _, dg := range daRegion {
			EachInstr(dg, func(in ssa.Instruction) {
				if cc := CC(in); cc != nil && IsFieldCall(cc, "doAtSchedule", "doAt") {
					nUse++
					c.Check(len(cc.Args) == 1 && claimed(cc.Args[0], in), "O2.1", fk(dg)+":doAt-of-the-drawn-index", in.Pos(), "doAt must be evaluated at the claimed index")
				}
			})
		}
		c.Floor("O2.1", "uses of the drawn index in doAtSchedule.Next", nUse, 1)
		nOps := 0
		for _, g := range pkgFns {
			EachInstr(g, func(in ssa.Instruction) {
				cc := CC(in)
				if !onI(cc) {
					return
				}
				nOps++
				name := CalleeObj(cc).Name()
				okCAS := false
				if (name == "CompareAndSwap" || name == "CAS") && len(cc.Args) == 3 {
					// CompareAndSwap(v, v+1) with v a load of the counter: an atomic claim of index v
					old := Strip(cc.Args[1])
					if lc, isL := old.(*ssa.Call); isL && onI(&lc.Call) && CalleeObj(&lc.Call).Name() == "Load" {
						if nb, isB := Strip(cc.Args[2]).(*ssa.BinOp); isB && nb.Op == token.ADD && Strip(nb.X) == old {
							if k, isK := ConstInt(nb.Y); isK && k == 1 {
								okCAS = true
							}
						}
					}
				}
				c.Check(!forbidden[name] || okCAS, "O2.1", fk(g)+":no-store-to-token-index", in.Pos(), "method "+name+" on the token index: only Inc/Add/Load and CompareAndSwap(v, v+1) of a loaded v are allowed (a Load-then-Store pair hands one token to two callers)")
			})
		}
		c.Floor("O2.1", "operations on doAtSchedule.i in the package", nOps, 2)
	}

	// ---------------- O2.2 .. O2.5 composite
	cNext := P.Func("core/schedule", "compositeSchedule", "Next")
	cLeft := P.Func("core/schedule", "compositeSchedule", "Left")
	cStart := P.Func("core/schedule", "compositeSchedule", "Start")
	startNext := P.Func("core/schedule", "compositeSchedule", "startNext")
	if cNext == nil || cLeft == nil || cStart == nil {
		c.Anchor("O2.2", "core/schedule.(*compositeSchedule).Next/Left/Start")
		return
	}
	isMu := func(v ssa.Value) bool {
		fv, _ := FieldOf(v)
		if fa, ok := v.(*ssa.FieldAddr); ok && fv == nil {
			st := fa.X.Type().Underlying().(*types.Pointer).Elem().Underlying().(*types.Struct)
			fv = st.Field(fa.Field)
		}
		if fv == nil {
			return false
		}
		p, n := NamedOf(fv.Type())
		return p == "sync" && (n == "RWMutex" || n == "Mutex")
	}
	guarded := map[string]bool{"scheds": true, "leftAfter": true}
	// classify accesses
	type access struct {
		in    ssa.Instruction
		write bool
		what  string
	}
	accessesOf := func(fn *ssa.Function) []access {
		var out []access
		EachInstr(fn, func(in ssa.Instruction) {
			switch x := in.(type) {
			case *ssa.Store:
				if fa, ok := x.Addr.(*ssa.FieldAddr); ok {
					if fv, _ := FieldOf(fa); fv != nil && guarded[fv.Name()] && isComposite(fa.X) {
						out = append(out, access{in, true, "write " + fv.Name()})
					}
				}
				// element store s.scheds[i] = ...
				if ia, ok := x.Addr.(*ssa.IndexAddr); ok {
					if fv, base := FieldOf(ia.X); fv != nil && guarded[fv.Name()] && isComposite(base) {
						out = append(out, access{in, true, "write element of " + fv.Name()})
					}
				}
			case *ssa.UnOp:
				if x.Op != token.MUL {
					return
				}
				if fa, ok := x.X.(*ssa.FieldAddr); ok {
					if fv, _ := FieldOf(fa); fv != nil && guarded[fv.Name()] && isComposite(fa.X) {
						out = append(out, access{in, false, "read " + fv.Name()})
					}
				}
				if ia, ok := x.X.(*ssa.IndexAddr); ok {
					if fv, base := FieldOf(ia.X); fv != nil && guarded[fv.Name()] && isComposite(base) {
						out = append(out, access{in, false, "read element of " + fv.Name()})
					}
				}
			case *ssa.Call:
				if x.Call.IsInvoke() {
					// call on an element of scheds
					if DerivesAny(x.Call.Value, false, func(r ssa.Value) bool {
						u, ok := r.(*ssa.UnOp)
						if !ok {
							return false
						}
						ia, ok := u.X.(*ssa.IndexAddr)
						if !ok {
							return false
						}
						fv, base := FieldOf(ia.X)
						return fv != nil && fv.Name() == "scheds" && isComposite(base)
					}) {
						out = append(out, access{in, false, "call " + x.Call.Method.Name() + " on element of scheds"})
					}
				}
			}
		})
		return out
	}
	// functions of compositeSchedule
	var compFns []*ssa.Function
	for _, g := range pkgFns {
		if g.Signature.Recv() != nil && RecvTypeName(g.Object().(*types.Func)) == "compositeSchedule" {
			compFns = append(compFns, g)
		}
	}
	needsW := map[*ssa.Function]bool{} // functions accessing without own locking → callers must hold W
	nAcc := 0
	for _, g := range compFns {
		ls := NewLocksets(g, isMu)
		accs := accessesOf(g)
		if ls.Operations == 0 && len(accs) > 0 {
			needsW[g] = true
			continue
		}
		for _, a := range accs {
			nAcc++
			st := ls.Before[a.in]
			if a.write {
				c.Check(st.W, "O2.2", fk(g)+":"+a.what+"-under-write-lock", a.in.Pos(), fmt.Sprintf("%s with lock state R=%v W=%v (need W)", a.what, st.R, st.W))
			} else {
				c.Check(st.W || st.R, "O2.2", fk(g)+":"+a.what+"-under-lock", a.in.Pos(), fmt.Sprintf("%s with lock state R=%v W=%v (need R or W)", a.what, st.R, st.W))
			}
		}
		for b, st := range ls.AtExit {
			c.Check(!st.R && !st.W, "O2.2", fk(g)+":no-lock-held-at-exit", b.Instrs[len(b.Instrs)-1].Pos(), fmt.Sprintf("lock state at exit R=%v W=%v (need none)", st.R, st.W))
		}
		// recursive retry and calls to needsW functions
		EachInstr(g, func(in ssa.Instruction) {
			cc := CC(in)
			if cc == nil {
				return
			}
			sc := cc.StaticCallee()
			if sc == nil {
				return
			}
			if sc == g {
				st := ls.Before[in]
				c.Check(!st.R && !st.W, "O2.2", fk(g)+":retry-without-lock", in.Pos(), "the recursive retry must not hold the lock (self-deadlock)")
			}
		})
	}
	c.Floor("O2.2", "guarded accesses checked in compositeSchedule methods", nAcc, 12)
	for _, g := range compFns {
		ls := NewLocksets(g, isMu)
		EachInstr(g, func(in ssa.Instruction) {
			cc := CC(in)
			if cc == nil {
				return
			}
			if sc := cc.StaticCallee(); sc != nil && needsW[sc] {
				st := ls.Before[in]
				if needsW[g] {
					return // checked at g's own callers
				}
				c.Check(st.W, "O2.2", fk(g)+":call-"+sc.Name()+"-under-write-lock", in.Pos(), fmt.Sprintf("%s touches scheds/leftAfter without locking; it must be called with W held (state R=%v W=%v)", sc.Name(), st.R, st.W))
			}
		})
	}
	// who may write scheds/leftAfter outside constructors
	for _, g := range pkgFns {
		isComp := false
		for _, cf := range compFns {
			if cf == g {
				isComp = true
			}
		}
		if isComp {
			continue
		}
		for _, a := range accessesOf(g) {
			if a.write {
				// constructor writes to a fresh object are fine
				st := a.in.(*ssa.Store)
				base := st.Addr.(*ssa.FieldAddr).X
				_, fresh := base.(*ssa.Alloc)
				c.Check(fresh, "O2.2", fk(g)+":writer-outside-composite-methods", a.in.Pos(), "scheds/leftAfter may be written outside compositeSchedule methods only on a freshly allocated composite")
			}
		}
	}
	// ---------------- O2.3 / O2.5
	if cn := P.Func("core/schedule", "compositeSchedule", "Next"); cn != nil && startNext != nil {
		c02FinalOnlyFromLastPart(c, "O2.9", cn, startNext)
	} else {
		c.Anchor("O2.9", "core/schedule.(*compositeSchedule).Next / startNext")
	}
	if startNext == nil {
		c.Anchor("O2.3", "core/schedule.(*compositeSchedule).startNext")
	} else {
		nSites := 0
		for _, g := range compFns {
			ls := NewLocksets(g, isMu)
			EachInstr(g, func(in ssa.Instruction) {
				cl, ok := in.(*ssa.Call)
				if !ok || cl.Call.StaticCallee() != startNext {
					return
				}
				nSites++
				isLenOfScheds := func(v ssa.Value) (ssa.Instruction, bool) {
					// (read in a helper and handed over as a result / parameter: where it was computed)
					c2, ok := Resolve(v).(*ssa.Call)
					if !ok || !IsBuiltinCall(c2, "len") {
						return nil, false
					}
					if IsFieldLoad(c2.Call.Args[0], "compositeSchedule", "scheds") {
						return c2.Call.Args[0].(ssa.Instruction), true
					}
					return nil, false
				}
				okRecheck := false
				for _, f := range CmpFactsAt(cl) {
					f = f.Canon()
					lx, okx := isLenOfScheds(f.X)
					ly, oky := isLenOfScheds(f.Y)
					if !okx || !oky {
						continue
					}
					lsOf := func(in ssa.Instruction) *Locksets {
						if in.Parent() == g {
							return ls
						}
						return NewLocksets(in.Parent(), isMu)
					}
					wx, wy := lsOf(lx).Before[lx].W, lsOf(ly).Before[ly].W
					switch f.Op {
					case token.EQL:
						if wx != wy {
							okRecheck = true
						}
					case token.LEQ: // before <= now
						if !wx && wy {
							okRecheck = true
						}
					}
				}
				c.Check(okRecheck, "O2.3", fk(g)+":startNext-only-if-nobody-shifted", cl.Pos(),
					"startNext must be dominated by a comparison of len(scheds) read under the write lock with the value read under the read lock (equal / not smaller)")
				// O2.5: argument is the finish time of the exhausted part
				arg := cl.Call.Args[1]
				okArg := false
				for _, r := range Roots(arg, false) {
					nc, idx := CallOfValue(r)
					if nc == nil || idx != 0 || !MatchCC(&nc.Call, sSchedNext) {
						okArg = false
						break
					}
					if HasBoolFact(BoolFactsAt(cl), func(v ssa.Value) bool { return DerivesOnly(v, false, IsResultOf(nc, 1)) }, false) {
						okArg = true
					} else {
						okArg = false
						break
					}
				}
				c.Check(okArg, "O2.5", fk(g)+":next-part-starts-at-previous-finish", cl.Pos(), "the time passed to startNext must be the time returned by the current part's Next() on its !ok edge")
			})
		}
		c.Floor("O2.3", "startNext call sites", nSites, 2)
		// startNext body: shifts both slices by one and starts the new head with its parameter
		okStart, shifts := false, 0
		EachInstr(startNext, func(in ssa.Instruction) {
			if cl, ok := in.(*ssa.Call); ok && MatchCC(&cl.Call, Spec{"./core", "Schedule", "Start"}) {
				if len(startNext.Params) == 2 && cl.Call.Args[0] == ssa.Value(startNext.Params[1]) {
					okStart = true
				}
			}
			if st, ok := in.(*ssa.Store); ok {
				if fa, ok := st.Addr.(*ssa.FieldAddr); ok {
					if fv, _ := FieldOf(fa); fv != nil && guarded[fv.Name()] {
						if sl, ok := st.Val.(*ssa.Slice); ok && IsFieldLoad(sl.X, "compositeSchedule", fv.Name()) {
							lo, isC := ConstInt(sl.Low)
							if isC && lo == 1 && sl.High == nil {
								shifts++
							}
						}
					}
				}
			}
		})
		c.Check(okStart, "O2.5", fk(startNext)+":starts-new-head-with-argument", startNext.Pos(), "startNext starts scheds[0] at the time it was given")
		c.Check(shifts == 2, "O2.5", fk(startNext)+":shifts-both-slices-by-one", startNext.Pos(), fmt.Sprintf("scheds and leftAfter are both advanced by [1:] (%d of 2)", shifts))
	}
	// ---------------- O2.4
	{
		n := 0
		for _, g := range compFns {
			EachInstr(g, func(in ssa.Instruction) {
				b, ok := in.(*ssa.BinOp)
				if !ok || (b.Op != token.ADD && b.Op != token.SUB && b.Op != token.MUL) {
					return
				}
				for _, side := range []ssa.Value{b.X, b.Y} {
					isLA := func(v ssa.Value) bool {
						u, ok := v.(*ssa.UnOp)
						if !ok {
							return false
						}
						ia, ok := u.X.(*ssa.IndexAddr)
						if !ok {
							return false
						}
						fv, _ := FieldOf(ia.X)
						return fv != nil && fv.Name() == "leftAfter"
					}
					if !DerivesAny(side, false, isLA) && !DerivesAny(Resolve(side), false, isLA) {
						continue
					}
					n++
					guardedOK := false
					for _, f := range CmpFactsAt(b) {
						f = f.Canon()
						// 0 <= v   or  -1 < v
						if k, isC := ConstInt(f.X); isC && sameRoots(f.Y, side) {
							if (f.Op == token.LEQ && k >= 0) || (f.Op == token.LSS && k >= -1) {
								guardedOK = true
							}
						}
					}
					c.Check(guardedOK, "O2.4", fk(g)+":leftAfter-sentinel-in-arithmetic", b.Pos(),
						"a value loaded from leftAfter (may be the unknown-count sentinel -1) is used in arithmetic without a dominating `>= 0` test of that value: Left() can report 0 while a token is available")
				}
			})
		}
		c.Floor("O2.4", "arithmetic uses of leftAfter values", n, 1)
	}
	// ---------------- O2.6
	{
		ms := P.Func("core/schedule", "StartSync", "MarkStarted")
		if ms == nil {
			c.Anchor("O2.6", "core/schedule.(*StartSync).MarkStarted")
		} else {
			okP := false
			for _, b := range ms.Blocks {
				if ExitOf(b) != ExitPanic {
					continue
				}
				for _, bf := range BoolFactsAt(b.Instrs[len(b.Instrs)-1]) {
					cl, _ := CallOfValue(bf.Subj)
					if cl != nil && bf.Val && CalleeObj(&cl.Call) != nil && CalleeObj(&cl.Call).Name() == "Swap" {
						if v, isC := ConstCond(cl.Call.Args[len(cl.Call.Args)-1]); isC && v {
							okP = true
						}
					}
					// equivalent: panic on the false edge of started.CompareAndSwap(false, true)
					if cl != nil && !bf.Val && CalleeObj(&cl.Call) != nil && (CalleeObj(&cl.Call).Name() == "CompareAndSwap" || CalleeObj(&cl.Call).Name() == "CAS") && len(cl.Call.Args) >= 3 {
						o, isO := ConstCond(cl.Call.Args[len(cl.Call.Args)-2])
						nw, isN := ConstCond(cl.Call.Args[len(cl.Call.Args)-1])
						if isO && isN && !o && nw {
							okP = true
						}
					}
				}
			}
			c.Check(okP, "O2.6", fk(ms)+":panics-on-second-start", ms.Pos(), "MarkStarted must panic on the true edge of started.Swap(true)")
		}
		// start / finish writers
		n := 0
		for _, g := range pkgFns {
			EachInstr(g, func(in ssa.Instruction) {
				isStartWrite := false
				what := ""
				if _, ok := StoreToField(in, "doAtSchedule", "start"); ok {
					isStartWrite, what = true, "doAtSchedule.start"
				}
				if cl, ok := in.(*ssa.Call); ok && !cl.Call.IsInvoke() && CalleeObj(&cl.Call) != nil && CalleeObj(&cl.Call).Name() == "Store" && len(cl.Call.Args) > 0 {
					if IsFieldLoad(cl.Call.Args[0], "unlimitedSchedule", "finish") {
						isStartWrite, what = true, "unlimitedSchedule.finish"
					}
				}
				if !isStartWrite {
					return
				}
				// the constructor initialising the object it has just allocated is not a start
				if cl, isCall := in.(*ssa.Call); isCall && len(cl.Call.Args) > 0 {
					_, base := FieldOf(cl.Call.Args[0])
					if fa, isFA := cl.Call.Args[0].(*ssa.FieldAddr); isFA {
						base = fa.X
					}
					if _, fresh := base.(*ssa.Alloc); fresh && g.Parent() == nil {
						return
					}
				}
				n++
				// g must be a closure passed to startOnce.Do (or a helper called only from such closures)
				ok := false
				if g.Parent() == nil {
					ok = onlyFromClosures(g, func(cg *ssa.Function) bool {
						isStart := false
						EachInstr(cg.Parent(), func(i2 ssa.Instruction) {
							if cl, isC := i2.(*ssa.Call); isC && MatchCC(&cl.Call, sOnceDo) {
								if mc, isMC := Strip(cl.Call.Args[1]).(*ssa.MakeClosure); isMC && mc.Fn == cg {
									if fv, _ := FieldOf(cl.Call.Args[0]); fv != nil && fv.Name() == "startOnce" {
										isStart = true
									} else if fa, isFA := cl.Call.Args[0].(*ssa.FieldAddr); isFA {
										if fv2, _ := FieldOf(fa); fv2 != nil && fv2.Name() == "startOnce" {
											isStart = true
										}
									}
								}
							}
						})
						return isStart
					}, 0)
				}
				if par := g.Parent(); par != nil {
					EachInstr(par, func(i2 ssa.Instruction) {
						if cl, isC := i2.(*ssa.Call); isC && MatchCC(&cl.Call, sOnceDo) {
							if mc, isMC := Strip(cl.Call.Args[1]).(*ssa.MakeClosure); isMC && mc.Fn == g {
								if fv, _ := FieldOf(cl.Call.Args[0]); fv != nil && fv.Name() == "startOnce" {
									ok = true
								} else if fa, isFA := cl.Call.Args[0].(*ssa.FieldAddr); isFA {
									if fv2, _ := FieldOf(fa); fv2 != nil && fv2.Name() == "startOnce" {
										ok = true
									}
								}
							}
						}
					})
				}
				c.Check(ok, "O2.6", fk(g)+":"+what+"-written-only-in-startOnce", in.Pos(), what+" may be written only inside a closure given to startOnce.Do")
			})
		}
		c.Floor("O2.6", "writes of schedule start/finish times", n, 2)
	}
	// ---------------- O2.10
	c02PublishBeforeStarted(c, pkgFns)
	// ---------------- O2.12
	c02NoSharedSchedule(c, pkgFns)
	// ---------------- O2.11
	c02ReadAfterStart(c, "O2.11", pkgFns)
	// ---------------- O2.7
	{
		cbNext := P.Func("core/coreutil", "callbackOnFinishSchedule", "Next")
		cbLeft := P.Func("core/coreutil", "callbackOnFinishSchedule", "Left")
		if cbNext == nil || cbLeft == nil {
			c.Anchor("O2.7", "core/coreutil.(*callbackOnFinishSchedule).Next/Left")
		} else {
			isDo := func(in ssa.Instruction) bool {
				if !IsCall(in, sOnceDo) {
					return false
				}
				cc := CC(in)
				return IsFieldLoad(cc.Args[1], "callbackOnFinishSchedule", "onFinish")
			}
			// ... or the hand-written once: a method of the wrapper that calls onFinish with a mutex of the struct held, only
			// where a bool flag of the struct is false, after setting that flag (under the same lock); the flag is never
			// written otherwise. A call of such a gate is a Once.Do.
			gateCall := map[*ssa.Function]ssa.Instruction{}
			isMu := func(v ssa.Value) bool { p, n := NamedOf(v.Type()); return p == "sync" && (n == "Mutex" || n == "RWMutex") }
			for _, g := range PkgFuncs(cbNext.Pkg) {
				var call ssa.Instruction
				nCalls := 0
				EachInstr(g, func(in ssa.Instruction) {
					if cc := CC(in); cc != nil && !cc.IsInvoke() && IsFieldLoad(cc.Value, "callbackOnFinishSchedule", "onFinish") {
						call = in
						nCalls++
					}
				})
				if nCalls != 1 {
					continue
				}
				if _, isGo := call.(*ssa.Go); isGo {
					continue
				}
				ls := NewLocksets(g, isMu)
				if !ls.Before[call].W {
					continue
				}
				var flag *types.Var
				for _, bf := range BoolFactsAt(call) {
					if fv, _ := FieldOf(bf.Subj); fv != nil && !bf.Val {
						if b, isB := fv.Type().Underlying().(*types.Basic); isB && b.Kind() == types.Bool {
							flag = fv
						}
					}
				}
				if flag == nil {
					continue
				}
				setBefore, onlyHere := false, true
				for _, h := range PkgFuncs(cbNext.Pkg) {
					EachInstr(h, func(in ssa.Instruction) {
						st, isSt := in.(*ssa.Store)
						if !isSt {
							return
						}
						if fv, _ := FieldOf(st.Addr); fv != flag {
							return
						}
						val, isC := ConstCond(st.Val)
						if h != g || !isC || !val || !ls.Before[in].W {
							onlyHere = false
							return
						}
						if InstrDominates(in, call) {
							setBefore = true
						}
					})
				}
				if setBefore && onlyHere {
					gateCall[g] = call
				}
			}
			isGate := func(in ssa.Instruction) bool {
				cc := CC(in)
				if cc == nil || cc.StaticCallee() == nil {
					return false
				}
				if _, isGo := in.(*ssa.Go); isGo {
					return false
				}
				return gateCall[cc.StaticCallee()] != nil
			}
			w0 := func(in ssa.Instruction) (int, int) {
				if isDo(in) || isGate(in) {
					return 1, 1
				}
				return 0, 0
			}
			// a helper method of the wrapper (e.g. finish()) counts with what all its paths do
			helper := map[*ssa.Function]Interval{}
			w := func(in ssa.Instruction) (int, int) {
				if lo, hi := w0(in); hi > 0 {
					return lo, hi
				}
				cc := CC(in)
				if cc == nil || cc.StaticCallee() == nil || cc.StaticCallee().Pkg != cbNext.Pkg || len(cc.StaticCallee().Blocks) == 0 {
					return 0, 0
				}
				if _, isGo := in.(*ssa.Go); isGo {
					return 0, 0
				}
				g := cc.StaticCallee()
				iv, ok := helper[g]
				if !ok {
					iv = PathQuery{Fn: g, Weight: w0}.Count()
					helper[g] = iv
				}
				if iv.NoPath {
					return 0, 0
				}
				return iv.Min, iv.Max
			}
			// Next
			var nx *ssa.Call
			EachInstr(cbNext, func(in ssa.Instruction) {
				if cl, ok := in.(*ssa.Call); ok && MatchCC(&cl.Call, sSchedNext) {
					nx = cl
				}
			})
			if nx == nil {
				c.Bad("O2.7", fk(cbNext)+":delegates", cbNext.Pos(), "Next does not call the wrapped schedule")
			} else {
				okP := func(v ssa.Value) bool { return DerivesOnly(v, false, IsResultOf(nx, 1)) }
				a := PathQuery{Fn: cbNext, Start: nx, Weight: w, Edge: RestrictBool(okP, false)}.Count()
				b := PathQuery{Fn: cbNext, Start: nx, Weight: w, Edge: RestrictBool(okP, true)}.Count()
				c.Check(a.Is(1, 1) && b.Is(0, 0), "O2.7", fk(cbNext)+":fires-on-not-ok-only", nx.Pos(), fmt.Sprintf("onFinishOnce.Do(onFinish) on !ok: %v (want [1,1]); on ok: %v (want [0,0])", a, b))
			}
			var lf *ssa.Call
			EachInstr(cbLeft, func(in ssa.Instruction) {
				if cl, ok := in.(*ssa.Call); ok && MatchCC(&cl.Call, Spec{"./core", "Schedule", "Left"}) {
					lf = cl
				}
			})
			if lf == nil {
				c.Bad("O2.7", fk(cbLeft)+":delegates", cbLeft.Pos(), "Left does not call the wrapped schedule")
			} else {
				isZero := func(f Fact) bool {
					if f.Op != token.EQL {
						return false
					}
					kx, cx := ConstInt(f.X)
					ky, cy := ConstInt(f.Y)
					return (cy && ky == 0 && DerivesOnly(f.X, false, IsResultOf(lf, -1))) || (cx && kx == 0 && DerivesOnly(f.Y, false, IsResultOf(lf, -1)))
				}
				isNonZero := func(f Fact) bool {
					if f.Op != token.NEQ {
						return false
					}
					return isZero(Fact{Op: token.EQL, X: f.X, Y: f.Y})
				}
				a := PathQuery{Fn: cbLeft, Start: lf, Weight: w, Edge: RestrictFact(isZero)}.Count()
				b := PathQuery{Fn: cbLeft, Start: lf, Weight: w, Edge: RestrictFact(isNonZero)}.Count()
				c.Check(a.Is(1, 1) && b.Is(0, 0), "O2.7", fk(cbLeft)+":fires-on-left-zero-only", lf.Pos(), fmt.Sprintf("onFinishOnce.Do(onFinish) on left==0: %v (want [1,1]); on left!=0: %v (want [0,0])", a, b))
			}
			// onFinish only used as argument of Once.Do
			spc := P.SSAPkg("core/coreutil")
			n := 0
			for _, g := range PkgFuncs(spc) {
				EachInstr(g, func(in ssa.Instruction) {
					u, ok := in.(*ssa.UnOp)
					if !ok || !IsFieldLoad(u, "callbackOnFinishSchedule", "onFinish") {
						return
					}
					n++
					okUse := true
					if rs := u.Referrers(); rs != nil {
						for _, r := range *rs {
							if _, isDbg := r.(*ssa.DebugRef); isDbg {
								continue
							}
							if !isDo(r) && gateCall[g] != r {
								okUse = false
							}
						}
					}
					c.Check(okUse, "O2.7", fk(g)+":onFinish-only-through-once", in.Pos(), "the finish callback may only be handed to onFinishOnce.Do")
				})
			}
			c.Floor("O2.7", "uses of callbackOnFinishSchedule.onFinish", n, 1)
		}
	}
	// ---------------- O2.8
	if daLeft != nil {
		okZero, okVal := false, false
		for _, b := range daLeft.Blocks {
			r, ok := b.Instrs[len(b.Instrs)-1].(*ssa.Return)
			if !ok {
				continue
			}
			v := r.Results[0]
			isDiff := func(x ssa.Value) bool {
				return DerivesOnly(x, false, func(rv ssa.Value) bool {
					bo, ok := rv.(*ssa.BinOp)
					return ok && bo.Op == token.SUB && IsFieldLoad(bo.X, "doAtSchedule", "n")
				})
			}
			if k, isC := ConstInt(v); isC && k == 0 {
				for _, f := range CmpFactsAt(r) {
					f = f.Canon()
					// n-i < 0, or n-i <= 0 (returning 0 for a difference of 0 is the same thing)
					if ky, isCy := ConstInt(f.Y); isCy && ky == 0 && (f.Op == token.LSS || f.Op == token.LEQ) && isDiff(f.X) {
						okZero = true
					}
				}
				continue
			}
			// max(n-i, 0) / max(0, n-i): the clamp as one builtin call
			for _, rt := range Roots(v, false) {
				if cl, ok := rt.(*ssa.Call); ok {
					if b, isB := cl.Call.Value.(*ssa.Builtin); isB && b.Name() == "max" && len(cl.Call.Args) == 2 {
						a0, a1 := cl.Call.Args[0], cl.Call.Args[1]
						k0, c0 := ConstInt(a0)
						k1, c1 := ConstInt(a1)
						if (c1 && k1 == 0 && isDiff(a0)) || (c0 && k0 == 0 && isDiff(a1)) {
							okZero, okVal = true, true
						}
					}
				}
			}
			if isDiff(v) {
				// ... and the difference itself only where it is known not to be negative
				for _, f := range CmpFactsAt(r) {
					f = f.Canon()
					if kx, isCx := ConstInt(f.X); isCx && kx == 0 && (f.Op == token.LSS || f.Op == token.LEQ) && isDiff(f.Y) {
						okVal = true
					}
				}
			}
		}
		c.Check(okZero && okVal, "O2.8", fk(daLeft)+":clamped-at-zero", daLeft.Pos(), fmt.Sprintf("returns 0 on the (n - i) < 0 edge: %v; returns n - i otherwise: %v", okZero, okVal))
	}
}

func isDoAtField(v ssa.Value) bool {
	for v != nil {
		_, n := NamedOf(v.Type())
		if n == "doAtSchedule" {
			return true
		}
		var base ssa.Value
		if fa, ok := v.(*ssa.FieldAddr); ok {
			base = fa.X
		} else {
			_, base = FieldOf(v)
		}
		v = base
	}
	return false
}

func isComposite(v ssa.Value) bool {
	if v == nil {
		return false
	}
	_, n := NamedOf(v.Type())
	return n == "compositeSchedule"
}

// c02FinalOnlyFromLastPart decides O2.9 on compositeSchedule.Next by
// enumerating its (loop-free) paths: on every path that returns ok=false taken
// from a part's Next call C (not from the recursive retry), the number of parts
// that were left when C was made is provably 1: some len(s.scheds) value L read
// in the same critical section as C, minus the startNext shifts between the
// read and C, is bounded by 1 through the comparisons taken on the path.
func c02FinalOnlyFromLastPart(c *Ctx, id string, next, startNext *ssa.Function) {
	key := fk(next)
	paths, complete := EnumPaths(next, 4096)
	if !complete {
		c.Unknown(id, key+":paths", next.Pos(), "too many paths to enumerate")
		return
	}
	isSchedsLen := func(v ssa.Value) bool {
		cl, ok := v.(*ssa.Call)
		return ok && IsBuiltinCall(cl, "len") && IsFieldLoad(cl.Call.Args[0], "compositeSchedule", "scheds")
	}
	isPartNext := func(in ssa.Instruction) bool {
		cc := CC(in)
		if cc == nil || !cc.IsInvoke() || cc.Method.Name() != "Next" {
			return false
		}
		return DerivesAny(cc.Value, true, IsFieldLoadPred("compositeSchedule", "scheds")) || SliceAny(cc.Value, func(v ssa.Value) bool {
			if ia, ok := v.(*ssa.IndexAddr); ok {
				return IsFieldLoad(ia.X, "compositeSchedule", "scheds")
			}
			if u, ok := v.(*ssa.UnOp); ok && u.Op == token.MUL {
				if ia, ok := u.X.(*ssa.IndexAddr); ok {
					return IsFieldLoad(ia.X, "compositeSchedule", "scheds")
				}
			}
			return false
		})
	}
	isUnlock := func(in ssa.Instruction) bool {
		return IsCall(in, Spec{"sync", "RWMutex", "Unlock"}, Spec{"sync", "RWMutex", "RUnlock"})
	}
	nFinal, bad := 0, 0
	for _, p := range paths {
		last := p.Blocks[len(p.Blocks)-1]
		ret, isRet := last.Instrs[len(last.Instrs)-1].(*ssa.Return)
		if !isRet || len(ret.Results) != 2 {
			continue
		}
		okv := p.Resolve(ret.Results[1])
		ex, isEx := okv.(*ssa.Extract)
		if !isEx {
			if cv, isC := ConstCond(okv); isC && cv {
				continue
			}
			c.Unknown(id, key+":ok-result", ret.Pos(), "cannot identify the call that produced the returned ok")
			bad++
			continue
		}
		call, _ := ex.Tuple.(*ssa.Call)
		if call == nil {
			continue
		}
		if call.Call.StaticCallee() == next {
			continue // recursive retry: decided inductively
		}
		if !isPartNext(call) {
			c.Unknown(id, key+":ok-result", ret.Pos(), "the returned ok does not come from a part's Next or from the retry")
			bad++
			continue
		}
		cmps, bools := p.Facts()
		if HasBoolFact(bools, func(v ssa.Value) bool { return v == ssa.Value(ex) }, true) {
			continue // ok is true on this path
		}
		nFinal++
		// events along the path
		ins := p.Instrs()
		pos := map[ssa.Instruction]int{}
		for i, in := range ins {
			pos[in] = i
		}
		cpos, seen := pos[call]
		if !seen {
			continue
		}
		// upper bounds of len values from facts
		bound := func(v ssa.Value) (int64, bool) {
			best, have := int64(0), false
			upd := func(k int64) {
				if !have || k < best {
					best, have = k, true
				}
			}
			for _, f := range cmps {
				for _, g := range []Fact{f, {Op: flipTok(f.Op), X: f.Y, Y: f.X}} {
					if g.X != v {
						continue
					}
					k, isK := ConstInt(g.Y)
					if !isK {
						continue
					}
					switch g.Op {
					case token.EQL, token.LEQ:
						upd(k)
					case token.LSS:
						upd(k - 1)
					}
				}
			}
			return best, have
		}
		proved := false
		why := ""
		for li, in := range ins {
			v, isV := in.(ssa.Value)
			if !isV || !isSchedsLen(v) {
				continue
			}
			lo, hi := li, cpos
			if lo > hi {
				lo, hi = hi, lo
			}
			shifts, unlocked := int64(0), false
			for k := lo; k <= hi; k++ {
				if cc := CC(ins[k]); cc != nil && cc.StaticCallee() == startNext {
					shifts++
				}
				if isUnlock(ins[k]) {
					unlocked = true
				}
			}
			if unlocked {
				continue
			}
			if li > cpos && shifts > 0 {
				continue
			}
			if b, ok := bound(v); ok && b-shifts <= 1 {
				proved = true
				why = fmt.Sprintf("len(scheds) read at %s is <= %d on this path, %d shift(s) before the part's Next", c.P.Pos(v.Pos()), b, shifts)
				break
			}
		}
		if proved {
			c.OK(id, fmt.Sprintf("%s:final-not-ok-only-from-the-last-part#%d", key, nFinal), ret.Pos(), why)
		} else {
			bad++
			c.Bad(id, fmt.Sprintf("%s:final-not-ok-only-from-the-last-part#%d", key, nFinal), ret.Pos(),
				"a path returns ok=false from a part's Next without the comparisons on that path proving that it was the last part (len(scheds) minus shifts <= 1, read in the same critical section): the composite reports 'finished' while later parts still hold tokens; path "+pathBlocks(p))
		}
	}
	c.Floor(id, "paths of compositeSchedule.Next returning a part's ok=false", nFinal, 2)
}

func flipTok(op token.Token) token.Token {
	switch op {
	case token.LSS:
		return token.GTR
	case token.GTR:
		return token.LSS
	case token.LEQ:
		return token.GEQ
	case token.GEQ:
		return token.LEQ
	}
	return op
}

func pathBlocks(p *Path) string {
	idx := make([]int, len(p.Blocks))
	for i, b := range p.Blocks {
		idx[i] = b.Index
	}
	return PathString(idx)
}

// c02PublishBeforeStarted decides O2.10.
func c02PublishBeforeStarted(c *Ctx, pkgFns []*ssa.Function) {
	P := c.P
	isStartSyncCall := func(in ssa.Instruction, name string) bool {
		cc := CC(in)
		if cc == nil || cc.IsInvoke() {
			return false
		}
		f := CalleeObj(cc)
		return f != nil && f.Name() == name && RecvTypeName(f) == "StartSync"
	}
	recvStruct := func(fn *ssa.Function) (*types.Named, *types.Struct) {
		root := fn
		for root.Parent() != nil {
			root = root.Parent()
		}
		if root.Signature.Recv() == nil {
			return nil, nil
		}
		t := root.Signature.Recv().Type()
		if p, ok := t.(*types.Pointer); ok {
			t = p.Elem()
		}
		n, _ := t.(*types.Named)
		if n == nil {
			return nil, nil
		}
		st, _ := n.Underlying().(*types.Struct)
		return n, st
	}
	// fields of T touched by instruction in (through a FieldAddr/Field on a T value)
	fieldTouched := func(in ssa.Instruction, T *types.Named) *types.Var {
		var fv *types.Var
		for _, op := range in.Operands(nil) {
			if op == nil || *op == nil {
				continue
			}
			if fa, ok := (*op).(*ssa.FieldAddr); ok {
				if _, tn := NamedOf(fa.X.Type()); tn == T.Obj().Name() {
					fv = derefStructOf(fa.X.Type()).Field(fa.Field)
				}
			}
		}
		if fa, ok := in.(*ssa.FieldAddr); ok {
			if _, tn := NamedOf(fa.X.Type()); tn == T.Obj().Name() {
				fv = derefStructOf(fa.X.Type()).Field(fa.Field)
			}
		}
		return fv
	}
	// R[T] = fields accessed by the methods of T that ask IsStarted()
	guarded := map[*types.Named]map[*types.Var]bool{}
	for _, g := range pkgFns {
		asks := false
		EachInstr(g, func(in ssa.Instruction) {
			if isStartSyncCall(in, "IsStarted") {
				asks = true
			}
		})
		T, _ := recvStruct(g)
		if !asks || T == nil || T.Obj().Name() == "StartSync" {
			continue
		}
		// ... in g itself and in the methods of T it calls (a predicate helper such as isFinished)
		seenFn := map[*ssa.Function]bool{}
		var collect func(f *ssa.Function)
		collect = func(f *ssa.Function) {
			if seenFn[f] || len(seenFn) > 16 {
				return
			}
			seenFn[f] = true
			EachInstr(f, func(in ssa.Instruction) {
				if fv := fieldTouched(in, T); fv != nil && !fv.Embedded() {
					if guarded[T] == nil {
						guarded[T] = map[*types.Var]bool{}
					}
					guarded[T][fv] = true
				}
				if cc := CC(in); cc != nil && cc.StaticCallee() != nil && len(cc.StaticCallee().Blocks) > 0 {
					if T2, _ := recvStruct(cc.StaticCallee()); T2 == T {
						collect(cc.StaticCallee())
					}
				}
			})
		}
		collect(g)
	}
	isWrite := func(in ssa.Instruction, T *types.Named) *types.Var {
		if st, ok := in.(*ssa.Store); ok {
			if fa, ok := st.Addr.(*ssa.FieldAddr); ok {
				if _, tn := NamedOf(fa.X.Type()); tn == T.Obj().Name() {
					return derefStructOf(fa.X.Type()).Field(fa.Field)
				}
			}
			return nil
		}
		cc := CC(in)
		if cc == nil || cc.IsInvoke() || CalleeObj(cc) == nil || len(cc.Args) == 0 {
			return nil
		}
		switch CalleeObj(cc).Name() {
		case "Store", "Swap", "CompareAndSwap", "CAS", "Add", "Sub", "Inc", "Dec", "Toggle":
		default:
			return nil
		}
		var fv *types.Var
		SliceAny(cc.Args[0], func(r ssa.Value) bool {
			if fa, ok := r.(*ssa.FieldAddr); ok {
				if _, tn := NamedOf(fa.X.Type()); tn == T.Obj().Name() {
					fv = derefStructOf(fa.X.Type()).Field(fa.Field)
					return true
				}
			}
			if u, ok := r.(*ssa.UnOp); ok {
				if fa, ok := u.X.(*ssa.FieldAddr); ok {
					if _, tn := NamedOf(fa.X.Type()); tn == T.Obj().Name() {
						fv = derefStructOf(fa.X.Type()).Field(fa.Field)
						return true
					}
				}
			}
			return false
		})
		return fv
	}
	nMark := 0
	for _, g := range pkgFns {
		T, _ := recvStruct(g)
		if T == nil || guarded[T] == nil {
			continue
		}
		// events of g in order: mark calls, writes, and calls of startOnce.Do(closure) standing for the closure's marks/writes
		type ev struct {
			in    ssa.Instruction
			mark  bool
			write *types.Var
		}
		var evs []ev
		EachInstr(g, func(in ssa.Instruction) {
			if isStartSyncCall(in, "MarkStarted") {
				evs = append(evs, ev{in, true, nil})
			}
			if fv := isWrite(in, T); fv != nil && guarded[T][fv] {
				evs = append(evs, ev{in, false, fv})
			}
			if cl, ok := in.(*ssa.Call); ok && MatchCC(&cl.Call, sOnceDo) {
				if mc, ok := Strip(cl.Call.Args[1]).(*ssa.MakeClosure); ok {
					EachInstr(mc.Fn.(*ssa.Function), func(i2 ssa.Instruction) {
						if isStartSyncCall(i2, "MarkStarted") {
							evs = append(evs, ev{in, true, nil})
						}
						if fv := isWrite(i2, T); fv != nil && guarded[T][fv] {
							evs = append(evs, ev{in, false, fv})
						}
					})
				}
			}
		})
		for _, m := range evs {
			if !m.mark {
				continue
			}
			if isStartSyncCall(m.in, "MarkStarted") {
				nMark++
			}
			late := ""
			for _, w := range evs {
				if w.write != nil && w.in != m.in && CanReach(m.in, w.in) {
					late = w.write.Name() + " at " + P.Fset.Position(w.in.Pos()).String()
				}
			}
			if isStartSyncCall(m.in, "MarkStarted") || late != "" {
				c.Check(late == "", "O2.10", fk(g)+":state-published-before-MarkStarted", m.in.Pos(),
					"the schedule is marked started before "+late+" is written: a concurrent reader that asks IsStarted() first sees the constructor's value")
			}
		}
	}
	c.Floor("O2.10", "MarkStarted calls in schedules whose readers ask IsStarted()", nMark, 2)
}

// c02ReadAfterStart decides O2.11 (also used by C12 for the startup profile's timing).
func c02ReadAfterStart(c *Ctx, id string, pkgFns []*ssa.Function) {
	P := c.P
	fieldOfAddr := func(v ssa.Value) (*types.Var, string) {
		fa, ok := v.(*ssa.FieldAddr)
		if !ok {
			return nil, ""
		}
		st := derefStructOf(fa.X.Type())
		if st == nil {
			return nil, ""
		}
		_, tn := NamedOf(fa.X.Type())
		return st.Field(fa.Field), tn
	}
	var isOnceDoClosure func(g *ssa.Function) bool
	isOnceDoClosure = func(g *ssa.Function) bool {
		par := g.Parent()
		if par == nil {
			// a helper called only from the start closures belongs to them
			return onlyFromClosures(g, func(cg *ssa.Function) bool { return isOnceDoClosure(cg) }, 0)
		}
		found := false
		EachInstr(par, func(in ssa.Instruction) {
			if cl, ok := in.(*ssa.Call); ok && MatchCC(&cl.Call, sOnceDo) {
				if mc, ok := Strip(cl.Call.Args[1]).(*ssa.MakeClosure); ok && mc.Fn == g {
					found = true
				}
			}
		})
		return found
	}
	// start fields: written inside startOnce.Do closures
	startFields := map[*types.Var]string{}
	for _, g := range pkgFns {
		if !isOnceDoClosure(g) {
			continue
		}
		EachInstr(g, func(in ssa.Instruction) {
			if st, ok := in.(*ssa.Store); ok {
				if fv, tn := fieldOfAddr(st.Addr); fv != nil {
					startFields[fv] = tn
				}
			}
			if cc := CC(in); cc != nil && !cc.IsInvoke() && CalleeObj(cc) != nil && len(cc.Args) > 0 {
				switch CalleeObj(cc).Name() {
				case "Store", "Swap":
					SliceAny(cc.Args[0], func(r ssa.Value) bool {
						if u, ok := r.(*ssa.UnOp); ok {
							r = u.X
						}
						if fv, tn := fieldOfAddr(r); fv != nil {
							startFields[fv] = tn
							return true
						}
						return false
					})
				}
			}
		})
	}
	n := 0
	for _, g := range pkgFns {
		if g.Signature.Recv() == nil || isOnceDoClosure(g) {
			continue // constructors and the start closures themselves
		}
		var dos []ssa.Instruction
		EachInstr(g, func(in ssa.Instruction) {
			if cl, ok := in.(*ssa.Call); ok && MatchCC(&cl.Call, sOnceDo) {
				dos = append(dos, in)
			}
		})
		EachInstr(g, func(in ssa.Instruction) {
			fa, ok := in.(*ssa.FieldAddr)
			if !ok {
				return
			}
			fv, _ := fieldOfAddr(fa)
			if fv == nil || startFields[fv] == "" {
				return
			}
			n++
			// after the start at this instruction: after a startOnce.Do of its function, under IsStarted(), or - for an
			// unexported helper of the type (finishTime()) - at every one of its call sites
			var afterStart func(at ssa.Instruction, depth int) bool
			afterStart = func(at ssa.Instruction, depth int) bool {
				f := at.Parent()
				ok := false
				EachInstr(f, func(d ssa.Instruction) {
					if cl, isC := d.(*ssa.Call); isC && MatchCC(&cl.Call, sOnceDo) && InstrDominates(d, at) {
						ok = true
					}
					// ... or of a helper of the package that runs startOnce.Do on every path (s.startNowIfNotStarted())
					if cl, isC := d.(*ssa.Call); isC && !ok && InstrDominates(d, at) {
						if sc := cl.Call.StaticCallee(); sc != nil && sc != f && len(sc.Blocks) > 0 && PkgOf(sc) == PkgOf(f) {
							iv := PathQuery{Fn: sc, Weight: func(in ssa.Instruction) (int, int) {
								if c2, isC2 := in.(*ssa.Call); isC2 && MatchCC(&c2.Call, sOnceDo) {
									return 1, 1
								}
								return 0, 0
							}}.Count()
							if iv.Min >= 1 {
								ok = true
							}
						}
					}
				})
				for _, bf := range BoolFactsAt(at) {
					if cl, _ := CallOfValue(bf.Subj); cl != nil && bf.Val && CalleeObj(&cl.Call) != nil && CalleeObj(&cl.Call).Name() == "IsStarted" {
						ok = true
					}
				}
				if ok || depth > 2 {
					return ok
				}
				sites := PkgCallers(f)
				if len(sites) == 0 {
					return false
				}
				for _, s := range sites {
					if !afterStart(s, depth+1) {
						return false
					}
				}
				return true
			}
			okAfter := afterStart(in, 0)
			_ = dos
			c.Check(okAfter, id, fk(g)+":"+startFields[fv]+"."+fv.Name()+"-read-after-start", in.Pos(),
				"the "+fv.Name()+" of the schedule is used at "+P.Pos(in.Pos())+" before the schedule is known to be started (neither after this method's startOnce.Do nor under IsStarted())")
		})
	}
	c.Floor(id, "uses of start-time fields outside the start closures", n, 1)
}

// onlyFromClosures: the named function g is called (at least once, statically, inside its package) only from
// closures satisfying isStart, directly or through further such helpers.
func onlyFromClosures(g *ssa.Function, isStart func(cg *ssa.Function) bool, depth int) bool {
	if g == nil || depth > 2 || g.Object() != nil && g.Object().Exported() {
		return false
	}
	sites := PkgCallers(g)
	if len(sites) == 0 {
		return false
	}
	for _, s := range sites {
		f := s.Parent()
		if f.Parent() != nil {
			if !isStart(f) {
				return false
			}
			continue
		}
		if !onlyFromClosures(f, isStart, depth+1) {
			return false
		}
	}
	return true
}

// c02NoSharedSchedule decides O2.12.
func c02NoSharedSchedule(c *Ctx, pkgFns []*ssa.Function) {
	P := c.P
	cp := P.Pkg("core")
	if cp == nil {
		c.Anchor("O2.12", "package core")
		return
	}
	tn, _ := cp.Types.Scope().Lookup("Schedule").(*types.TypeName)
	if tn == nil {
		c.Anchor("O2.12", "core.Schedule")
		return
	}
	iface, _ := tn.Type().Underlying().(*types.Interface)
	if iface == nil {
		c.Anchor("O2.12", "core.Schedule is an interface")
		return
	}
	isSched := func(t types.Type) bool {
		if types.Identical(t, tn.Type()) {
			return true
		}
		if _, isI := t.Underlying().(*types.Interface); isI {
			return false // any / error ...: decided where a value is stored, not by the variable's type
		}
		return types.Implements(t, iface) || types.Implements(types.NewPointer(t), iface)
	}
	nGlobals, nSched := 0, 0
	for _, pk := range P.Root {
		if !IsProdPkg(pk.PkgPath) {
			continue
		}
		sp := P.SSA.Package(pk.Types)
		if sp == nil {
			continue
		}
		for _, m := range sp.Members {
			g, ok := m.(*ssa.Global)
			if !ok || !IsProdFile(P.File(g.Pos())) {
				continue
			}
			nGlobals++
			et := g.Type().Underlying().(*types.Pointer).Elem()
			if isSched(et) {
				nSched++
				c.Bad("O2.12", "global:"+pk.PkgPath+"."+g.Name(), g.Pos(), "package-level variable "+g.Name()+" holds a schedule: every profile that uses it shares its start flag, start time and token index")
			}
		}
	}
	c.Check(nSched == 0, "O2.12", "no-package-level-schedule", 0, fmt.Sprintf("%d package-level variables in production packages, %d hold a schedule", nGlobals, nSched))
	c.Floor("O2.12", "package-level variables inspected", nGlobals, 20)
	// constructors return what they made
	nRet := 0
	for _, g := range pkgFns {
		res := g.Signature.Results()
		for i := 0; i < res.Len(); i++ {
			if !isSched(res.At(i).Type()) {
				continue
			}
			for _, b := range g.Blocks {
				r, ok := b.Instrs[len(b.Instrs)-1].(*ssa.Return)
				if !ok || i >= len(r.Results) {
					continue
				}
				nRet++
				fromGlobal := DerivesAny(r.Results[i], false, func(v ssa.Value) bool {
					u, ok := v.(*ssa.UnOp)
					if !ok {
						return false
					}
					_, isG := u.X.(*ssa.Global)
					return isG
				})
				c.Check(!fromGlobal, "O2.12", fk(g)+":returns-its-own-schedule", r.Pos(), "the schedule returned is read from a package-level variable: all callers get the same object")
			}
		}
	}
	c.Floor("O2.12", "returns of a schedule in core/schedule", nRet, 8)
}
