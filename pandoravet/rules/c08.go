package rules

import (
	"os"
	"fmt"
	"go/token"
	"go/types"
	"sort"
	"strings"

	. "pandoravet/core"

	"golang.org/x/tools/go/ssa"
)

func init() {
	register(&Pack{Property: "C08", Title: "limit/passes semantics and clean end-of-ammo", Run: runC08})
}

// provider describes one core.Provider implementation of production code.
type provider struct {
	Name    string
	Run     *ssa.Function
	Acquire *ssa.Function
	Release *ssa.Function
	ChanFld string // field the Acquire receives from ("" if none)
	Tree    []*ssa.Function
}

// providers enumerates the production implementations of core.Provider.
func providers(c *Ctx, id string) []*provider {
	P := c.P
	it := P.Iface("core", "Provider")
	if it == nil {
		c.Anchor(id, "core.Provider")
		return nil
	}
	var out []*provider
	seenRun := map[*ssa.Function]bool{}
	add := func(name string, run, acq, rel *ssa.Function) {
		if run == nil || acq == nil || seenRun[run] {
			return
		}
		seenRun[run] = true
		pr := &provider{Name: name, Run: run, Acquire: acq, Release: rel}
		EachInstr(acq, func(in ssa.Instruction) {
			if u, ok := in.(*ssa.UnOp); ok && u.Op == token.ARROW {
				if fv, _ := FieldOf(u.X); fv != nil {
					pr.ChanFld = fv.Name()
				}
			}
		})
		pr.Tree = callTree(P, run, 6)
		out = append(out, pr)
	}
	for _, nt := range P.Impls(it, false) {
		add(strings.TrimPrefix(nt.String(), Mod+"/"), P.MethodFn(nt, "Run"), P.MethodFn(nt, "Acquire"), P.MethodFn(nt, "Release"))
	}
	for _, run := range P.GenericMethodFns("Run") {
		recv := run.Signature.Recv().Type()
		if pt, ok := recv.(*types.Pointer); ok {
			recv = pt.Elem()
		}
		nt, ok := recv.(*types.Named)
		if !ok {
			continue
		}
		var acq, rel *ssa.Function
		for i := 0; i < nt.Origin().NumMethods(); i++ {
			m := nt.Origin().Method(i)
			switch m.Name() {
			case "Acquire":
				acq = P.SSA.FuncValue(m)
			case "Release":
				rel = P.SSA.FuncValue(m)
			}
		}
		if acq != nil && rel != nil && len(run.Params) == 3 {
			add(strings.TrimPrefix(nt.Origin().String(), Mod+"/"), run, acq, rel)
		}
	}
	sort.Slice(out, func(i, j int) bool { return out[i].Name < out[j].Name })
	return out
}

// callTree returns the production pandora functions reachable from root
// through static calls, closures, interface implementations and func values.
func callTree(P *Prog, root *ssa.Function, depth int) []*ssa.Function {
	s := &Sentinels{P: P}
	seen := map[*ssa.Function]bool{}
	var out []*ssa.Function
	var walk func(fn *ssa.Function, d int)
	walk = func(fn *ssa.Function, d int) {
		if fn == nil || seen[fn] || len(fn.Blocks) == 0 || !IsProdPkg(PkgOf(fn)) {
			return
		}
		if fn.Pos().IsValid() && !IsProdFile(P.File(fn.Pos())) {
			return
		}
		seen[fn] = true
		out = append(out, fn)
		for _, a := range fn.AnonFuncs {
			walk(a, d)
		}
		if d <= 0 {
			return
		}
		EachInstr(fn, func(in ssa.Instruction) {
			cc := CC(in)
			if cc == nil {
				return
			}
			if _, isB := cc.Value.(*ssa.Builtin); isB {
				return
			}
			// do not resolve logger / context / stdlib interfaces
			if cc.IsInvoke() {
				if p, _ := NamedOf(cc.Value.Type()); !IsPandora(p) {
					return
				}
			}
			for _, callee := range CalleesOf(s, cc) {
				walk(callee, d-1)
			}
		})
	}
	walk(root, depth)
	return out
}

// ctxObservation reports whether the instruction observes a context:
// ctx.Err(), a select with a ctx.Done() case, or a receive from ctx.Done().
func ctxObservation(in ssa.Instruction) bool {
	if IsCall(in, sCtxErr) {
		return true
	}
	if s, ok := in.(*ssa.Select); ok {
		for _, st := range s.States {
			if cl, _ := CallOfValue(st.Chan); cl != nil && MatchCC(&cl.Call, sCtxDone) {
				return true
			}
		}
	}
	if u, ok := in.(*ssa.UnOp); ok && u.Op == token.ARROW {
		if cl, _ := CallOfValue(u.X); cl != nil && MatchCC(&cl.Call, sCtxDone) {
			return true
		}
	}
	return false
}

var sScannerScan = []Spec{{"bufio", "Scanner", "Scan"}, {"./core/provider", "Scanner", "Scan"}}

// limitTest describes an If comparing a counter with a Limit/Passes config field.
type limitTest struct {
	If      *ssa.If
	Field   string
	Counter ssa.Value
	// ReachedSucc is the successor on which `field <= counter` (bound reached) holds.
	ReachedSucc *ssa.BasicBlock
	Exact       bool // the comparison is counter >= field / counter < field (not > / <=)
	// Pred, if the test is made by a boolean helper of the package, is that call and PredVal its value on ReachedSucc.
	Pred    *ssa.Call
	PredVal bool
}

func limitTests(fn *ssa.Function, fields map[string]bool) []limitTest {
	var out []limitTest
	for _, b := range fn.Blocks {
		iff, ok := b.Instrs[len(b.Instrs)-1].(*ssa.If)
		if !ok || len(b.Succs) != 2 {
			continue
		}
		f := CondFact(iff.Cond, true).Canon()
		if f.Y == nil {
			// the test is made by a boolean helper of the package (p.chosenLimitReached(n)): the comparison it implies
			sub, pol := BoolSubject(iff.Cond)
			if cl, isCall := sub.(*ssa.Call); isCall && cl.Call.StaticCallee() != nil && PkgOf(cl.Call.StaticCallee()) == PkgOf(fn) {
				for _, val := range []bool{true, false} {
					su := b.Succs[0]
					if val != pol {
						su = b.Succs[1]
					}
					for _, g := range PredicateCmpFacts(cl, val) {
						g = g.Canon()
						if g.Op != token.LSS && g.Op != token.LEQ {
							continue
						}
						gx, _ := FieldOf(Strip(g.X))
						gy, _ := FieldOf(Strip(g.Y))
						other := b.Succs[0]
						if su == other {
							other = b.Succs[1]
						}
						if _, isC := ConstInt(g.Y); gx != nil && fields[gx.Name()] && !isC {
							out = append(out, limitTest{If: iff, Field: gx.Name(), Counter: g.Y, Exact: g.Op == token.LEQ, ReachedSucc: su, Pred: cl, PredVal: val})
						} else if _, isC := ConstInt(g.X); gy != nil && fields[gy.Name()] && !isC {
							out = append(out, limitTest{If: iff, Field: gy.Name(), Counter: g.X, Exact: g.Op == token.LSS, ReachedSucc: other, Pred: cl, PredVal: !val})
						}
					}
				}
			}
			continue
		}
		if f.Op != token.LSS && f.Op != token.LEQ {
			continue
		}
		fx, _ := FieldOf(Strip(f.X))
		fy, _ := FieldOf(Strip(f.Y))
		switch {
		case fx != nil && fields[fx.Name()]: // field (<|<=) counter
			if _, isC := ConstInt(f.Y); isC {
				continue
			}
			lt := limitTest{If: iff, Field: fx.Name(), Counter: throughGetter(f.Y)}
			lt.Exact = f.Op == token.LEQ // field <= counter  == counter >= field
			lt.ReachedSucc = b.Succs[0]
			out = append(out, lt)
		case fy != nil && fields[fy.Name()]: // counter (<|<=) field
			if _, isC := ConstInt(f.X); isC {
				continue
			}
			lt := limitTest{If: iff, Field: fy.Name(), Counter: throughGetter(f.X)}
			lt.Exact = f.Op == token.LSS // counter < field
			lt.ReachedSucc = b.Succs[1]
			out = append(out, lt)
		}
	}
	return out
}

func runC08(c *Ctx) {
	c.Rule("O8.1", "limit and pass guards: every function that delivers ammo under a Limit/Passes setting compares its counter with the bound as counter >= bound (or counter < bound), never > / <=; every path to a delivery passes such a test and the counter advances by exactly one per delivered entry")
	c.Rule("O8.2", "the limit/pass sentinels do not escape Provider.Run: no core.Provider.Run may return decoders.ErrAmmoLimit or ErrPassLimit (reaching a bound is a clean end of ammo, the engine treats any non-context provider error as a pool failure)")
	c.Rule("O8.3", "consumers are released: the channel Acquire receives from is closed exactly once on every exit of Run")
	c.Rule("O8.4", "bound reached => exit, no spin: from the edge on which the limit comparison says 'reached', every path (under the facts known on that edge) reaches a function exit without going round a loop")
	c.Rule("O8.5", "every blocking send observes cancellation: each send of ammo in a Provider.Run call tree is a select case next to a <-ctx.Done() case that leads to return")
	c.Rule("O8.6", "cancellation is observed on every cycle: every loop in a Provider.Run call tree passes a context observation, or is a counted loop / consumes input from a scanner (named idioms), or is listed with a reason")
	c.Rule("O8.7", "a cancelled provider ends with a context error the engine recognises: in every Provider.Run call tree an error that may be ctx.Err() - the result of ctx.Err() or the error of a callee that can return it - is never wrapped with fmt.Errorf / xerrors.Errorf (errutil.IsCtxError compares ctx.Err() with pkg/errors.Cause(err), which does not see through %w) unless the wrap is on the edge where errors.Is(err, context.Canceled) is false; the engine cancels the run context itself at the normal end of every run, so a wrapped cancellation turns a finished run into 'provider failed'")
	c.Rule("O8.8", "a source that can be read again can be rewound: the generic provider realises `passes` by seeking the opened source back to its start and silently reads a non-seekable source once; so for every data source registered as a plugin (register.DataSource in core/import: file, stdin, inline) the value its OpenSource returns has a type with a Seek method")
	c08SeekableSources(c)
	c.Rule("O3.7", "queue semantics: Acquire reports ok=false only on the closed-channel edge (named exception: request build / middleware errors of the HTTP provider)")
	P := c.P
	provs := providers(c, "O8.3")
	c.Floor("O8.3", "core.Provider implementations in production code", len(provs), 5)
	sa := newLimitSentinels(P)
	if sa == nil {
		c.Anchor("O8.2", "decoders.ErrAmmoLimit / ErrPassLimit")
		return
	}
	c.Note("O8.2 relies on O14.4 (LoadAmmo forces Limit=0 and ErrAmmoLimit is only returned under Limit != 0): holds=%v", loadAmmoUnbounded(P, nil))
	bounds := map[string]bool{"Limit": true, "Passes": true, "limit": true, "passesLimit": true}
	nSends, nLoops, nTests := 0, 0, 0
	for _, pr := range provs {
		rk := fk(pr.Run)
		// ---- O8.2
		may := sa.MayReturn(pr.Run)
		var names []string
		for g := range may {
			names = append(names, g.Name())
		}
		sort.Strings(names)
		c.Check(len(names) == 0, "O8.2", rk+":limit-sentinels-do-not-escape", pr.Run.Pos(), fmt.Sprintf("Run may return %v", names))
		// ---- O8.3
		if pr.ChanFld != "" {
			sm := &Summ{Base: func(in ssa.Instruction) (int, int, bool) {
				if IsBuiltinCall(in, "close") {
					if DerivesOnly(CC(in).Args[0], false, IsFieldLoadPred("", pr.ChanFld)) {
						return 1, 1, true
					}
				}
				return 0, 0, false
			}}
			iv := sm.Of(pr.Run)
			c.Check(iv.Is(1, 1), "O8.3", rk+":sink-closed-on-every-exit", pr.Run.Pos(), fmt.Sprintf("close(%s) per exit path of Run = %v (want [1,1]); witness min %s", pr.ChanFld, iv, PathString(iv.MinPath)))
		} else {
			c.OK("O8.3", rk+":no-queue", pr.Run.Pos(), "Acquire does not receive from a channel (nothing to close)")
		}
		// ---- O3.7
		c08Acquire(c, pr)
		// ---- per function of the tree
		for _, fn := range pr.Tree {
			k := fk(fn)
			// O8.5 sends
			EachInstr(fn, func(in ssa.Instruction) {
				if sd, ok := in.(*ssa.Send); ok {
					if isAmmoChan(sd.Chan, pr) {
						nSends++
						c.Bad("O8.5", k+":send-outside-select", sd.Pos(), "ammo is sent with a plain blocking send; it must be a select case next to <-ctx.Done()")
					}
					return
				}
				sel, ok := in.(*ssa.Select)
				if !ok {
					return
				}
				hasSend, hasDone := false, false
				var doneBody *ssa.BasicBlock
				cases := SelectCases(sel)
				for _, st := range sel.States {
					if st.Dir == types.SendOnly && isAmmoChan(st.Chan, pr) {
						hasSend = true
					}
				}
				if !hasSend {
					return
				}
				nSends++
				for _, cs := range cases {
					if cs.State != nil && cs.State.Dir == types.RecvOnly {
						if cl, _ := CallOfValue(cs.State.Chan); cl != nil && MatchCC(&cl.Call, sCtxDone) {
							hasDone = true
							doneBody = cs.Body
						}
					}
				}
				okRet := false
				if doneBody != nil {
					// the Done case must not come back to this select
					okRet = !BlockCanReach(doneBody, sel.Block()) || doneBody == sel.Block()
					if doneBody != sel.Block() && BlockCanReach(doneBody, sel.Block()) {
						okRet = false
					}
				}
				c.Check(hasDone && sel.Blocking && okRet, "O8.5", k+":send-observes-cancellation", sel.Pos(),
					fmt.Sprintf("ammo send in a select with <-ctx.Done(): %v; the Done case leaves the loop: %v", hasDone, okRet))
			})
			// O8.6 cycles
			for _, cyc := range cyclesWithoutObservation(fn, pr, P) {
				nLoops++
				reason, excused := c08LoopExceptions[k]
				if cyc.ok {
					c.OK("O8.6", k+":loop@"+cyc.desc, cyc.pos, "every cycle of the loop passes "+cyc.why)
				} else if excused {
					c.OK("O8.6", k+":loop@"+cyc.desc, cyc.pos, "reasoned exception: "+reason)
				} else {
					c.Bad("O8.6", k+":loop@"+cyc.desc, cyc.pos, "a cycle of this loop passes no context observation and is neither a counted loop nor input-consuming: the provider can keep running after cancel")
				}
			}
			// O8.1 / O8.4 limit tests
			for _, lt := range limitTests(fn, bounds) {
				nTests++
				c.Check(lt.Exact, "O8.1", k+":"+lt.Field+"-comparison-exact", lt.If.Pos(), "the bound must be tested as counter >= "+lt.Field+" / counter < "+lt.Field+" (an off-by-one form delivers one entry too many)")
				// O8.4: from the reached edge, under its facts, no cycle
				if cyc := spinsAfter(fn, lt); cyc != "" {
					c.Bad("O8.4", k+":"+lt.Field+"-reached-leads-to-exit", lt.If.Pos(), "from the edge on which the bound is reached a loop is re-entered ("+cyc+"): the provider spins instead of finishing")
				} else {
					c.OK("O8.4", k+":"+lt.Field+"-reached-leads-to-exit", lt.If.Pos(), "all paths from the bound-reached edge reach an exit without a back edge (under the facts of that edge)")
				}
			}
		}
	}
	c.Floor("O8.5", "ammo send sites in provider call trees", nSends, 5)
	c.Floor("O8.6", "loops in provider call trees", nLoops, 10)
	c.Floor("O8.1", "limit/passes comparisons in provider call trees", nTests, 12)
	c08Delivery(c, provs)
	c08EachBoundOnItsOwn(c, provs)
	c08RingPassCounter(c, provs)
	c08ScannerSameOnEveryPass(c)
	c08CtxErrors(c, provs)
}

// isAmmoChan: the channel is the provider's queue field (or any field channel of ammo).
func isAmmoChan(ch ssa.Value, pr *provider) bool {
	fv, _ := FieldOf(ch)
	if fv == nil {
		for _, r := range Roots(ch, false) {
			if f2, _ := FieldOf(r); f2 != nil {
				fv = f2
			}
		}
	}
	if fv == nil {
		return false
	}
	if pr.ChanFld != "" && fv.Name() == pr.ChanFld {
		return true
	}
	switch fv.Name() {
	case "Sink", "sink", "OutQueue":
		return true
	}
	return false
}

var c08LoopExceptions = map[string]string{
	"(*components/providers/http/decoders.jsonlineDecoder).Scan":  "the loop repeats only after a pass ended with ammoNum > 0, so the next Decode after the seek returns an entry or an error; the caller observes ctx between Scans",
	"(*components/providers/http/decoders.protoDecoder).LoadAmmo": "bounded by the forced Passes=1: the scan function returns ErrPassLimit after one pass; uri/uripost/raw scans observe ctx themselves",
}

type cycleInfo struct {
	ok   bool
	why  string
	desc string
	pos  token.Pos
}

// cyclesWithoutObservation analyses every natural loop (by header) of fn.
func cyclesWithoutObservation(fn *ssa.Function, pr *provider, P *Prog) []cycleInfo {
	var out []cycleInfo
	reach := Reachable(fn)
	// loop headers: blocks with a back edge (pred dominated by the block)
	for _, h := range fn.Blocks {
		if !reach[h] {
			continue
		}
		var latches []*ssa.BasicBlock
		for _, p := range h.Preds {
			if reach[p] && h.Dominates(p) {
				latches = append(latches, p)
			}
		}
		if len(latches) == 0 {
			continue
		}
		// natural loop body
		body := map[*ssa.BasicBlock]bool{h: true}
		stack := append([]*ssa.BasicBlock{}, latches...)
		for len(stack) > 0 {
			b := stack[len(stack)-1]
			stack = stack[:len(stack)-1]
			if body[b] {
				continue
			}
			body[b] = true
			for _, p := range b.Preds {
				if reach[p] {
					stack = append(stack, p)
				}
			}
		}
		info := cycleInfo{desc: fmt.Sprintf("header#%d", loopOrdinal(fn, h)), pos: firstPos(h)}
		// blocks that observe ctx (or call a callee that does on all paths)
		observes := func(b *ssa.BasicBlock) (bool, string) {
			for _, in := range b.Instrs {
				if ctxObservation(in) {
					return true, "a context observation"
				}
				if IsCall(in, sScannerScan...) {
					return true, "a Scanner.Scan() that consumes input"
				}
				if cc := CC(in); cc != nil {
					if _, isGo := in.(*ssa.Go); isGo {
						continue
					}
					if sc := cc.StaticCallee(); sc != nil && IsProdPkg(PkgOf(sc)) && observesOnAllPaths(sc, 2) {
						return true, "a call to " + sc.Name() + " that observes the context on all paths"
					}
				}
			}
			return false, ""
		}
		rearmed := false
		for b := range body {
			for _, in := range b.Instrs {
				if IsCall(in, Spec{"io", "Seeker", "Seek"}, Spec{"io", "ReadSeeker", "Seek"}, Spec{"github.com/spf13/afero", "File", "Seek"}, Spec{"bufio", "", "NewScanner"}, Spec{"bufio", "Reader", "Reset"}) {
					rearmed = true
				}
			}
		}
		obs := map[*ssa.BasicBlock]bool{}
		why := ""
		for b := range body {
			if o, w := observes(b); o {
				if strings.Contains(w, "consumes input") && rearmed {
					continue // the input is rewound inside this loop: reading it does not bound the loop
				}
				obs[b] = true
				why = w
			}
		}
		// counted loop: header (or a body block) ends in If comparing a phi of the header that steps by a constant
		counted := false
		for b := range body {
			iff, ok := b.Instrs[len(b.Instrs)-1].(*ssa.If)
			if !ok {
				continue
			}
			exits := !body[b.Succs[0]] || !body[b.Succs[1]]
			if !exits {
				continue
			}
			f := CondFact(iff.Cond, true)
			onEveryIteration := true
			for _, l := range latches {
				if !b.Dominates(l) {
					onEveryIteration = false
				}
			}
			for i, side := range []ssa.Value{f.X, f.Y} {
				if side == nil || !onEveryIteration {
					continue
				}
				other := []ssa.Value{f.Y, f.X}[i]
				boundOK := false
				if other != nil {
					if _, isC := ConstInt(other); isC {
						boundOK = true
					}
					if _, isP := Strip(other).(*ssa.Parameter); isP {
						boundOK = true
					}
					if cl, isCall := Strip(other).(*ssa.Call); isCall && IsBuiltinCall(cl, "len") {
						boundOK = true
					}
				}
				if !boundOK {
					continue
				}
				if SliceAny(side, func(v ssa.Value) bool {
					phi, ok := v.(*ssa.Phi)
					if !ok || !body[phi.Block()] {
						return false
					}
					for _, e := range phi.Edges {
						if bo, ok := e.(*ssa.BinOp); ok && (bo.Op == token.ADD || bo.Op == token.SUB) && bo.X == ssa.Value(phi) {
							if _, isC := ConstInt(bo.Y); isC {
								return true
							}
						}
					}
					return false
				}) {
					counted = true
				}
			}
			// range over slice/map: Next / index phi handled above; range over map/string uses Next
		}
		for b := range body {
			for _, in := range b.Instrs {
				if _, ok := in.(*ssa.Next); ok {
					counted = true
				}
			}
		}
		if counted {
			info.ok, info.why = true, "a bounded counter / range"
			out = append(out, info)
			continue
		}
		// is there a cycle through h avoiding all observing blocks?
		if obs[h] {
			info.ok, info.why = true, why
			out = append(out, info)
			continue
		}
		seen := map[*ssa.BasicBlock]bool{}
		var dfs func(b *ssa.BasicBlock) bool
		dfs = func(b *ssa.BasicBlock) bool {
			for _, s := range Succs(b) {
				if !body[s] || obs[s] {
					continue
				}
				if s == h {
					return true
				}
				if !seen[s] {
					seen[s] = true
					if dfs(s) {
						return true
					}
				}
			}
			return false
		}
		if dfs(h) {
			info.ok = false
		} else {
			info.ok, info.why = true, why
		}
		out = append(out, info)
	}
	return out
}

func loopOrdinal(fn *ssa.Function, h *ssa.BasicBlock) int {
	n := 0
	for _, b := range fn.Blocks {
		back := false
		for _, p := range b.Preds {
			if b.Dominates(p) {
				back = true
			}
		}
		if back {
			n++
		}
		if b == h {
			return n
		}
	}
	return n
}

func firstPos(b *ssa.BasicBlock) token.Pos {
	for _, in := range b.Instrs {
		if in.Pos().IsValid() {
			return in.Pos()
		}
	}
	return b.Parent().Pos()
}

var observesMemo = map[*ssa.Function]bool{}

// observesOnAllPaths: every entry→return path of fn passes a context observation.
func observesOnAllPaths(fn *ssa.Function, depth int) bool {
	if v, ok := observesMemo[fn]; ok {
		return v
	}
	observesMemo[fn] = false
	if len(fn.Blocks) == 0 || depth < 0 {
		return false
	}
	iv := PathQuery{Fn: fn, Weight: func(in ssa.Instruction) (int, int) {
		if ctxObservation(in) {
			return 1, 1
		}
		return 0, 0
	}, Exit: func(b *ssa.BasicBlock) bool { return ExitOf(b) == ExitReturn }}.Count()
	r := !iv.NoPath && iv.Min >= 1
	observesMemo[fn] = r
	return r
}

// spinsAfter explores from the bound-reached edge of a limit test under the
// facts known on that edge; returns a description of a re-entered loop, or "".
func spinsAfter(fn *ssa.Function, lt limitTest) string {
	from := lt.If.Block()
	// facts on the reached edge
	facts := append([]Fact{}, factsOfEdge(from, lt.ReachedSucc)...)
	sameVal := func(a, b ssa.Value) bool {
		a, b = Strip(a), Strip(b)
		if a == b {
			return true
		}
		fa, _ := FieldOf(a)
		fb, _ := FieldOf(b)
		if fa != nil && fb != nil && fa == fb {
			return !fieldWrittenIn(fn, fa)
		}
		ka, oka := ConstInt(a)
		kb, okb := ConstInt(b)
		return oka && okb && ka == kb
	}
	// decide an If under facts: returns +1 (true), -1 (false), 0 unknown
	// values of phis fixed by the way the walk entered their block (x := a && b; y := c && d; if x || y)
	resolved := map[*ssa.Phi]ssa.Value{}
	var decideVal func(cond ssa.Value, depth int) int
	decide := func(iff *ssa.If) int { return decideVal(iff.Cond, 0) }
	decideVal = func(cond ssa.Value, depth int) int {
		if subj, pol := BoolSubject(cond); depth < 4 {
			if cv, isC := ConstCond(subj); isC {
				if cv == pol {
					return 1
				}
				return -1
			}
			if phi, isPhi := subj.(*ssa.Phi); isPhi {
				if v, ok := resolved[phi]; ok {
					r := decideVal(v, depth+1)
					if !pol {
						r = -r
					}
					return r
				}
				return 0
			}
		}
		// the same side-effect-free helper asked again about the same values answers the same
		if subj, pol := BoolSubject(cond); lt.Pred != nil {
			if cl, isCall := subj.(*ssa.Call); isCall && cl.Call.StaticCallee() != nil && cl.Call.StaticCallee() == lt.Pred.Call.StaticCallee() && len(cl.Call.Args) == len(lt.Pred.Call.Args) && pureHelper(cl.Call.StaticCallee()) {
				same := true
				for i := range cl.Call.Args {
					if !sameVal(cl.Call.Args[i], lt.Pred.Call.Args[i]) {
						same = false
					}
				}
				if same {
					if lt.PredVal == pol {
						return 1
					}
					return -1
				}
			}
		}
		t := CondFact(cond, true).Canon()
		if t.Y == nil {
			return 0
		}
		for _, k := range facts {
			k = k.Canon()
			if k.Y == nil {
				continue
			}
			if sameVal(k.X, t.X) && sameVal(k.Y, t.Y) {
				if k.Op == t.Op {
					return 1
				}
				if negate(k.Op) == t.Op || (k.Op == token.EQL && t.Op == token.NEQ) || (k.Op == token.NEQ && t.Op == token.EQL) {
					return -1
				}
				// k: X < Y implies X <= Y ; k: X == Y implies X <= Y
				if t.Op == token.LEQ && (k.Op == token.LSS || k.Op == token.EQL) {
					return 1
				}
				if t.Op == token.NEQ && k.Op == token.LSS {
					return 1
				}
			}
			if sameVal(k.X, t.Y) && sameVal(k.Y, t.X) {
				// k: A op B ; t: B op' A
				switch {
				case k.Op == token.LEQ && t.Op == token.LSS: // A<=B  =>  !(B<A)
					return -1
				case k.Op == token.LSS && t.Op == token.LEQ: // A<B => !(B<=A)
					return -1
				case k.Op == token.LSS && t.Op == token.LSS:
					return -1
				case (k.Op == token.EQL || k.Op == token.NEQ) && k.Op == t.Op:
					return 1
				case k.Op == token.EQL && t.Op == token.NEQ, k.Op == token.NEQ && t.Op == token.EQL:
					return -1
				}
			}
		}
		return 0
	}
	onStack := map[*ssa.BasicBlock]bool{}
	done := map[*ssa.BasicBlock]bool{}
	var cyc string
	var dfs func(b *ssa.BasicBlock)
	dfs = func(b *ssa.BasicBlock) {
		if cyc != "" {
			return
		}
		onStack[b] = true
		succs := Succs(b)
		if iff, ok := b.Instrs[len(b.Instrs)-1].(*ssa.If); ok && len(b.Succs) == 2 {
			switch decide(iff) {
			case 1:
				succs = b.Succs[:1]
			case -1:
				succs = b.Succs[1:2]
			}
		}
		for _, s := range succs {
			if IsSelectPanicBlock(s) {
				continue
			}
			if onStack[s] || s == from {
				cyc = fmt.Sprintf("block %d → block %d", b.Index, s.Index)
				return
			}
			// entering s from b fixes its phis
			var set []*ssa.Phi
			for pi, p := range s.Preds {
				if p != b {
					continue
				}
				for _, in := range s.Instrs {
					if phi, ok := in.(*ssa.Phi); ok && pi < len(phi.Edges) {
						if _, had := resolved[phi]; !had {
							resolved[phi] = phi.Edges[pi]
							set = append(set, phi)
						}
					}
				}
			}
			if !done[s] || len(set) > 0 {
				dfs(s)
			}
			for _, phi := range set {
				delete(resolved, phi)
			}
		}
		onStack[b] = false
		done[b] = true
	}
	for pi, p := range lt.ReachedSucc.Preds {
		if p != from {
			continue
		}
		for _, in := range lt.ReachedSucc.Instrs {
			if phi, ok := in.(*ssa.Phi); ok && pi < len(phi.Edges) {
				resolved[phi] = phi.Edges[pi]
			}
		}
	}
	dfs(lt.ReachedSucc)
	return cyc
}

func factsOfEdge(from, to *ssa.BasicBlock) []Fact {
	var out []Fact
	add := func(bf BoolFact) {
		if b, ok := bf.Subj.(*ssa.BinOp); ok {
			switch b.Op {
			case token.EQL, token.NEQ, token.LSS, token.LEQ, token.GTR, token.GEQ:
				op := b.Op
				if !bf.Val {
					op = negateTok(op)
				}
				out = append(out, Fact{Op: op, X: b.X, Y: b.Y})
			}
		}
	}
	for _, bf := range BoolFactsAt(from.Instrs[len(from.Instrs)-1]) {
		add(bf)
	}
	if iff, ok := from.Instrs[len(from.Instrs)-1].(*ssa.If); ok {
		subj, pol := BoolSubject(iff.Cond)
		if to == from.Succs[0] {
			add(BoolFact{Subj: subj, Val: pol})
		} else {
			add(BoolFact{Subj: subj, Val: !pol})
		}
	}
	return out
}

func negateTok(op token.Token) token.Token {
	switch op {
	case token.EQL:
		return token.NEQ
	case token.NEQ:
		return token.EQL
	case token.LSS:
		return token.GEQ
	case token.GEQ:
		return token.LSS
	case token.GTR:
		return token.LEQ
	case token.LEQ:
		return token.GTR
	}
	return token.ILLEGAL
}

func negate(op token.Token) token.Token { return negateTok(op) }

var _ = negate

func fieldWrittenIn(fn *ssa.Function, fv *types.Var) bool {
	w := false
	EachInstr(fn, func(in ssa.Instruction) {
		if st, ok := in.(*ssa.Store); ok {
			if fa, ok := st.Addr.(*ssa.FieldAddr); ok {
				if f2, _ := FieldOf(fa); f2 == fv {
					w = true
				}
			}
		}
	})
	return w
}

// c08Acquire checks the queue semantics of one provider's Acquire.
func c08Acquire(c *Ctx, pr *provider) {
	acq := pr.Acquire
	k := fk(acq)
	var recv *ssa.UnOp
	EachInstr(acq, func(in ssa.Instruction) {
		if u, ok := in.(*ssa.UnOp); ok && u.Op == token.ARROW && u.CommaOk {
			recv = u
		}
	})
	if recv == nil {
		if pr.ChanFld == "" {
			c.OK("O3.7", k+":no-queue", acq.Pos(), "Acquire does not use a queue")
		} else {
			c.Bad("O3.7", k+":receive-comma-ok", acq.Pos(), "Acquire must receive from its queue with the comma-ok form to see the closed channel")
		}
		return
	}
	okPred := func(v ssa.Value) bool { return DerivesOnly(v, false, IsResultOf(recv, 1)) }
	n := 0
	for _, b := range acq.Blocks {
		r, isRet := b.Instrs[len(b.Instrs)-1].(*ssa.Return)
		if !isRet || len(r.Results) != 2 {
			continue
		}
		n++
		v := r.Results[1]
		if okPred(v) {
			c.OK("O3.7", k+":ok-is-channel-state", r.Pos(), "ok result is the receive's ok")
			continue
		}
		cv, isC := ConstCond(Strip(v))
		if !isC {
			c.Unknown("O3.7", k+":ok-result", r.Pos(), "ok result is neither a constant nor the receive's ok")
			continue
		}
		facts := BoolFactsAt(r)
		closed := HasBoolFact(facts, okPred, false)
		open := HasBoolFact(facts, okPred, true)
		if cv {
			c.Check(open, "O3.7", k+":true-only-when-received", r.Pos(), "ok=true must be returned on the received (channel open) edge")
		} else if closed {
			c.OK("O3.7", k+":false-on-closed-channel", r.Pos(), "ok=false on the closed-channel edge")
		} else {
			// named exception: HTTP provider build/middleware error edges
			if strings.HasSuffix(k, "components/providers/http/provider.Provider).Acquire") {
				c.OK("O3.7", k+":false-on-request-build-error", r.Pos(), "named exception: a request build / middleware error is logged and ends the instance (documented behaviour of the http provider)")
			} else {
				c.Bad("O3.7", k+":false-on-closed-channel", r.Pos(), "ok=false is returned although the queue is not closed: instances would stop while ammo remains")
			}
		}
	}
	if n == 0 {
		c.Unknown("O3.7", k+":returns", acq.Pos(), "no (ammo, ok) returns found")
	}
}

// c08Delivery checks, per delivering function, that each delivery passes a
// limit test and that the compared counter advances exactly once per delivery.
func c08Delivery(c *Ctx, provs []*provider) {
	P := c.P
	bounds := map[string]bool{"Limit": true, "limit": true}
	type target struct {
		fn *ssa.Function
	}
	seen := map[*ssa.Function]bool{}
	n := 0
	for _, pr := range provs {
		for _, fn := range pr.Tree {
			if seen[fn] {
				continue
			}
			seen[fn] = true
			tests := limitTests(fn, bounds)
			if len(tests) == 0 {
				continue
			}
			k := fk(fn)
			// deliveries: ammo sends (select) in this function, or successful returns of a Scan-like function (DecodedAmmo, nil)
			var deliveries []ssa.Instruction
			EachInstr(fn, func(in ssa.Instruction) {
				if sel, ok := in.(*ssa.Select); ok {
					for _, st := range sel.States {
						if st.Dir == types.SendOnly && isAmmoChan(st.Chan, pr) {
							deliveries = append(deliveries, in)
						}
					}
				}
				if r, ok := in.(*ssa.Return); ok && len(r.Results) == 2 && types.Identical(r.Results[1].Type(), errType) && !isBasicType(r.Results[0].Type()) {
					if IsNilConst(r.Results[1]) && !IsNilConst(r.Results[0]) {
						deliveries = append(deliveries, in)
					} else if !IsNilConst(r.Results[0]) && !IsNilConst(r.Results[1]) {
						// return a, err  (err of Setup): counts as a delivery; a tail call `return f()` does not
						c0, _ := CallOfValue(r.Results[0])
						c1, _ := CallOfValue(r.Results[1])
						if c1 != nil && c0 != c1 {
							deliveries = append(deliveries, in)
						}
					}
				}
			})
			if len(deliveries) == 0 {
				continue
			}
			testBlocks := map[*ssa.BasicBlock]bool{}
			var counter ssa.Value
			for _, t := range tests {
				testBlocks[t.If.Block()] = true
				counter = t.Counter
			}
			// short-circuit chain of the guard: blocks ending in an If with one successor being the
			// next chain block (towards the comparison) and the other the comparison's "not reached" target
			next := map[*ssa.BasicBlock]*ssa.BasicBlock{}
			for _, t := range tests {
				var notReached *ssa.BasicBlock
				for _, s := range t.If.Block().Succs {
					if s != t.ReachedSucc {
						notReached = s
					}
				}
				cur := t.If.Block()
				for changed := true; changed; {
					changed = false
					for _, p := range cur.Preds {
						if _, isIf := p.Instrs[len(p.Instrs)-1].(*ssa.If); !isIf || len(p.Succs) != 2 || testBlocks[p] {
							continue
						}
						other := p.Succs[0]
						if other == cur {
							other = p.Succs[1]
						}
						if other == notReached && len(cur.Preds) == 1 {
							testBlocks[p] = true
							next[p] = cur
							cur = p
							changed = true
							break
						}
					}
				}
			}
			limitActive := func(from, to *ssa.BasicBlock) bool {
				if nb, ok := next[from]; ok {
					return to == nb
				}
				return true
			}
			for _, d := range deliveries {
				n++
				// must-pass-through: entry→d avoiding test blocks impossible; and d→d cycle avoiding test blocks impossible
				reachAvoid := func(start *ssa.BasicBlock, startIsEntry bool) bool {
					seenB := map[*ssa.BasicBlock]bool{}
					var stack []*ssa.BasicBlock
					if startIsEntry {
						if testBlocks[start] {
							return false
						}
						stack = []*ssa.BasicBlock{start}
						if start == d.Block() {
							return true
						}
					} else {
						stack = append(stack, Succs(start)...)
					}
					for len(stack) > 0 {
						b := stack[len(stack)-1]
						stack = stack[:len(stack)-1]
						if seenB[b] || (testBlocks[b] && b != d.Block()) {
							continue
						}
						seenB[b] = true
						if b == d.Block() {
							return true
						}
						stack = append(stack, Succs(b)...)
					}
					return false
				}
				unguardedEntry := reachAvoid(fn.Blocks[0], true)
				unguardedCycle := reachAvoid(d.Block(), false) && !testBlocks[d.Block()]
				c.Check(!unguardedEntry && !unguardedCycle, "O8.1", k+":delivery-passes-limit-test", d.Pos(),
					fmt.Sprintf("a delivery reachable without passing the limit comparison: from entry %v, round the loop %v", unguardedEntry, unguardedCycle))
			}
			// counter increments: exactly one per delivery. Count increments on paths test→(next test or exit) that pass a delivery.
			if counter != nil {
				isInc := incrementOf(fn, counter)
				EachInstr(fn, func(in ssa.Instruction) {
					if !isInc(in) {
						return
					}
					var v ssa.Value
					switch x := in.(type) {
					case *ssa.Store:
						v = x.Val
					case *ssa.BinOp:
						v = x
					}
					bo, isB := v.(*ssa.BinOp)
					okStep := false
					if isB && bo.Op == token.ADD {
						if kk, isC := ConstInt(bo.Y); isC && kk == 1 {
							okStep = true
						}
					}
					c.Check(okStep, "O8.1", k+":counter-step-is-one", in.Pos(), "the limit counter must advance by exactly 1 per delivered entry")
				})
				for _, t := range tests[:1] {
					// region: from the not-reached successor of the test to the next occurrence of the test block or exit
					var notReached *ssa.BasicBlock
					for _, s := range t.If.Block().Succs {
						if s != t.ReachedSucc {
							notReached = s
						}
					}
					dset := map[ssa.Instruction]bool{}
					for _, d := range deliveries {
						dset[d] = true
					}
					// (increments, deliveries) as a pair is not expressible in one interval; check increments == 1 on paths with >=1 delivery
					// by splitting at the delivery: test→delivery and delivery→(test|exit).
					for _, d := range deliveries {
						a := PathQuery{Fn: fn, StartBlock: notReached, Weight: func(in ssa.Instruction) (int, int) {
							if isInc(in) {
								return 1, 1
							}
							return 0, 0
						}, Edge: limitActive, Stop: func(in ssa.Instruction) bool { return in == d }, Exit: func(*ssa.BasicBlock) bool { return false }, StopBlock: nil}.Count()
						b := PathQuery{Fn: fn, Start: d, Weight: func(in ssa.Instruction) (int, int) {
							if isInc(in) {
								return 1, 1
							}
							return 0, 0
						}, Edge: limitActive, StopBlock: t.If.Block(), Exit: func(*ssa.BasicBlock) bool { return false }}.Count()
						if _, isRet := d.(*ssa.Return); isRet || b.NoPath {
							b = Interval{Min: 0, Max: 0}
						}
						tot := Interval{Min: a.Min + b.Min, Max: a.Max + b.Max, NoPath: a.NoPath}
						if a.NoPath {
							continue
						}
						c.Check(tot.Min == 1 && tot.Max == 1, "O8.1", k+":counter-advances-once-per-delivery", d.Pos(),
							fmt.Sprintf("increments of the limit counter between the limit test and the next test around this delivery = [%d,%d] (want [1,1])", tot.Min, tot.Max))
					}
				}
			}
		}
	}
	c.Floor("O8.1", "deliveries checked against a limit test", n, 6)
	if it := P.Iface("components/providers/http/decoders", "Decoder"); it == nil {
		c.Anchor("O8.1", "decoders.Decoder")
	} else {
		nd := 0
		for _, nt := range P.Impls(it, false) {
			scan := P.MethodFn(nt, "Scan")
			if scan == nil || scan.Synthetic != "" || len(scan.Blocks) == 0 {
				continue // promoted from an embedded interface: not an implementation of its own
			}
			nd++
			has := map[string]bool{}
			for _, g := range FindFuncs(scan, 2, func(*ssa.Function) bool { return true }) {
				for _, lt := range limitTests(g, map[string]bool{"Limit": true, "Passes": true}) {
					has[lt.Field] = true
				}
			}
			c.Check(has["Limit"] && has["Passes"], "O8.1", fk(scan)+":enforces-limit-and-passes", scan.Pos(), fmt.Sprintf("sibling rule over Decoder.Scan: compares a counter with Limit: %v, with Passes: %v", has["Limit"], has["Passes"]))
		}
		c.Floor("O8.1", "Decoder implementations", nd, 4)
	}
	_ = P
}

// incrementOf returns a predicate recognising `counter = counter + 1` for the
// variable behind the compared value (field store, cell store, or phi back edge).
func incrementOf(fn *ssa.Function, counter ssa.Value) func(ssa.Instruction) bool {
	counter = Strip(counter)
	if fv, _ := FieldOf(counter); fv != nil {
		return func(in ssa.Instruction) bool {
			st, ok := in.(*ssa.Store)
			if !ok {
				return false
			}
			fa, ok := st.Addr.(*ssa.FieldAddr)
			if !ok {
				return false
			}
			if f2, _ := FieldOf(fa); f2 != fv {
				return false
			}
			return true // any store to the counter field counts (value checked separately)
		}
	}
	if phi, ok := counter.(*ssa.Phi); ok {
		incs := map[ssa.Instruction]bool{}
		seen := map[*ssa.Phi]bool{}
		var walk func(p *ssa.Phi)
		walk = func(p *ssa.Phi) {
			if seen[p] {
				return
			}
			seen[p] = true
			for _, e := range p.Edges {
				switch x := e.(type) {
				case *ssa.BinOp:
					if x.Op == token.ADD || x.Op == token.SUB {
						incs[x] = true
						if p2, ok := x.X.(*ssa.Phi); ok {
							walk(p2)
						}
					}
				case *ssa.Phi:
					walk(x)
				}
			}
		}
		walk(phi)
		return func(in ssa.Instruction) bool { return incs[in] }
	}
	if u, ok := counter.(*ssa.UnOp); ok && u.Op == token.MUL {
		// the counter of the caller handed in by pointer (scanPass(ctx, scanner, &ammoNum)): stores through the parameter
		if pr, ok := u.X.(*ssa.Parameter); ok {
			return func(in ssa.Instruction) bool {
				st, ok := in.(*ssa.Store)
				if !ok || st.Addr != ssa.Value(pr) {
					return false
				}
				_, isBin := st.Val.(*ssa.BinOp)
				return isBin
			}
		}
		if a, ok := u.X.(*ssa.Alloc); ok {
			return func(in ssa.Instruction) bool {
				st, ok := in.(*ssa.Store)
				if !ok || st.Addr != ssa.Value(a) {
					return false
				}
				_, isBin := st.Val.(*ssa.BinOp)
				return isBin
			}
		}
	}
	return func(ssa.Instruction) bool { return false }
}

// c08Reasoned: wraps of a possible context error that are accepted, by function key, with the reason.
var c08CtxWrapReasoned = map[string]string{
	"(*components/providers/http/provider.Provider).loadAmmo<-LoadAmmo": "the preload happens before any ammo is delivered: every instance is still blocked in Acquire, so the engine's own end-of-run cancellation cannot arrive during it (only with zero started instances); an outside cancellation fails the run anyway",
}

// c08CtxErrors decides O8.7.
func c08CtxErrors(c *Ctx, provs []*provider) {
	P := c.P
	sent := &Sentinels{P: P}
	inTree := map[*ssa.Function]bool{}
	var fns []*ssa.Function
	for _, pr := range provs {
		for _, f := range pr.Tree {
			if !inTree[f] {
				inTree[f] = true
				fns = append(fns, f)
			}
		}
	}
	errT := types.Universe.Lookup("error").Type()
	isCtxErrCall := func(v ssa.Value) bool {
		cl, ok := v.(*ssa.Call)
		if !ok || !cl.Call.IsInvoke() || cl.Call.Method.Name() != "Err" {
			return false
		}
		p, n := NamedOf(cl.Call.Value.Type())
		return p == "context" && n == "Context"
	}
	// may[fn]: some error result of fn may be ctx.Err() (fixpoint over the trees)
	may := map[*ssa.Function]bool{}
	carries := func(v ssa.Value) bool {
		return SliceAny(v, func(r ssa.Value) bool {
			if isCtxErrCall(r) {
				return true
			}
			cl, _ := CallOfValue(r)
			if cl == nil || !types.Identical(r.Type(), errT) && !isTupleWithError(cl) {
				return false
			}
			if _, isEx := r.(*ssa.Extract); isEx && !types.Identical(r.Type(), errT) {
				return false
			}
			for _, callee := range CalleesOf(sent, &cl.Call) {
				if may[callee] {
					return true
				}
			}
			return false
		})
	}
	for changed := true; changed; {
		changed = false
		for _, f := range fns {
			if may[f] {
				continue
			}
			EachInstr(f, func(in ssa.Instruction) {
				ret, ok := in.(*ssa.Return)
				if !ok || may[f] {
					return
				}
				for _, r := range ret.Results {
					if types.Identical(r.Type(), errT) && carries(r) {
						may[f] = true
						changed = true
					}
				}
			})
		}
	}
	isCanceledTest := func(v ssa.Value, subject ssa.Value) bool {
		cl, ok := v.(*ssa.Call)
		if !ok || !MatchCC(&cl.Call, Spec{"errors", "", "Is"}) || len(cl.Call.Args) != 2 {
			return false
		}
		u, ok := cl.Call.Args[1].(*ssa.UnOp)
		if !ok {
			return false
		}
		g, ok := u.X.(*ssa.Global)
		return ok && g.Name() == "Canceled" && g.Pkg.Pkg.Path() == "context"
	}
	nWraps, nCarry := 0, 0
	for _, f := range fns {
		EachInstr(f, func(in ssa.Instruction) {
			cl, ok := in.(*ssa.Call)
			if !ok || !MatchCC(&cl.Call, Spec{"fmt", "", "Errorf"}, Spec{"golang.org/x/xerrors", "", "Errorf"}) {
				return
			}
			nWraps++
			wrapsCtx := false
			src := ""
			var others []ssa.Value // error operands that cannot be the context's
			eachOperand := func(f func(v ssa.Value)) {
				for _, a := range cl.Call.Args[1:] {
					SliceAny(a, func(r ssa.Value) bool {
						if types.Identical(r.Type(), errT) {
							if _, isMI := r.(*ssa.MakeInterface); !isMI {
								f(r)
								return false
							}
						}
						return false
					})
				}
			}
			eachOperand(func(v ssa.Value) {
				if carries(v) {
					wrapsCtx = true
					SliceAny(v, func(r ssa.Value) bool {
						if c2, _ := CallOfValue(r); c2 != nil && src == "" {
							if c2.Call.IsInvoke() {
								src = c2.Call.Method.Name()
							} else if c2.Call.StaticCallee() != nil {
								src = c2.Call.StaticCallee().Name()
							}
						}
						return false
					})
				} else if _, isPhi := v.(*ssa.Phi); !isPhi {
					others = append(others, v)
				}
			})
			if !wrapsCtx {
				return
			}
			// a second, genuine error joined in (close failed as well): the run did fail
			joined := false
			for _, o := range others {
				for _, f := range CmpFactsAt(cl) {
					if f.Op == token.NEQ && (f.X == o && IsNilConst(f.Y) || f.Y == o && IsNilConst(f.X)) {
						joined = true
					}
				}
			}
			nCarry++
			k := fk(f) + ":possible-context-error-wrapped"
			notCanceled := false
			for _, bf := range BoolFactsAt(cl) {
				if !bf.Val && isCanceledTest(bf.Subj, nil) {
					notCanceled = true
				}
			}
			switch {
			case notCanceled:
				c.OK("O8.7", k, cl.Pos(), "wrapped only where errors.Is(err, context.Canceled) is false")
			case joined:
				c.OK("O8.7", k, cl.Pos(), "joined with another error that is non-nil on this path: a failure of its own")
			case c08CtxWrapReasoned[fk(f)+"<-"+src] != "":
				c.OK("O8.7", k, cl.Pos(), "reasoned exception: "+c08CtxWrapReasoned[fk(f)+"<-"+src])
			default:
				c.Bad("O8.7", k, cl.Pos(), "an error that may be the run context's cancellation is wrapped with %w: errutil.IsCtxError (pkg/errors.Cause) does not see through it, so the engine reports 'provider failed' when it cancels a finished run")
			}
		})
	}
	c.Note("O8.7: %d Errorf wraps in provider call trees, %d of them of a possible context error; %d functions may return ctx.Err()", nWraps, nCarry, len(may))
	c.Floor("O8.7", "wraps of a possible context error examined", nCarry, 4)
}

func isTupleWithError(cl *ssa.Call) bool {
	t, ok := cl.Type().(*types.Tuple)
	if !ok {
		return false
	}
	errT := types.Universe.Lookup("error").Type()
	for i := 0; i < t.Len(); i++ {
		if types.Identical(t.At(i).Type(), errT) {
			return true
		}
	}
	return false
}

// isBasicType: bool, numbers, strings (a (bool, error) result pair is a status, not a delivered entry).
func isBasicType(t types.Type) bool {
	_, ok := t.Underlying().(*types.Basic)
	return ok
}

// pureHelper: the function only reads and computes (no stores, calls of builtin len/cap at most, no sends, no go/defer).
func pureHelper(fn *ssa.Function) bool {
	pure := len(fn.Blocks) > 0
	EachInstr(fn, func(in ssa.Instruction) {
		switch x := in.(type) {
		case *ssa.Store, *ssa.MapUpdate, *ssa.Send, *ssa.Go, *ssa.Defer, *ssa.Select, *ssa.Panic:
			pure = false
		case *ssa.Call:
			if b, ok := x.Call.Value.(*ssa.Builtin); !ok || (b.Name() != "len" && b.Name() != "cap") {
				pure = false
			}
		}
	})
	return pure
}

// c08SeekableSources decides O8.8.
func c08SeekableSources(c *Ctx) {
	P := c.P
	imp := P.SSAPkg("core/import")
	if imp == nil {
		c.Anchor("O8.8", "package core/import")
		return
	}
	hasSeek := func(t types.Type) bool {
		for _, rt := range []types.Type{t, types.NewPointer(t)} {
			ms := types.NewMethodSet(rt)
			for i := 0; i < ms.Len(); i++ {
				if ms.At(i).Obj().Name() == "Seek" {
					return true
				}
			}
		}
		return false
	}
	// concrete types behind an interface value: what was put into it
	var concrete func(v ssa.Value, d int) []types.Type
	concrete = func(v ssa.Value, d int) []types.Type {
		var out []types.Type
		for _, r := range ThroughReturns(v) {
			switch x := r.(type) {
			case *ssa.MakeInterface:
				out = append(out, x.X.Type())
			case *ssa.ChangeInterface:
				out = append(out, x.X.Type())
			case *ssa.Phi:
				if d < 3 {
					for _, e := range x.Edges {
						out = append(out, concrete(e, d+1)...)
					}
				}
			default:
				// made by a constructor of another pandora package (datasource.NewFile(fs, conf))
				if cl, idx := CallOfValue(r); cl != nil && d < 3 && cl.Call.StaticCallee() != nil && len(cl.Call.StaticCallee().Blocks) > 0 && IsPandora(PkgOf(cl.Call.StaticCallee())) {
					if idx < 0 {
						idx = 0
					}
					n := len(out)
					for _, b := range cl.Call.StaticCallee().Blocks {
						if ret, ok := b.Instrs[len(b.Instrs)-1].(*ssa.Return); ok && idx < len(ret.Results) && !IsNilConst(ret.Results[idx]) {
							out = append(out, concrete(ret.Results[idx], d+1)...)
						}
					}
					if len(out) > n {
						continue
					}
				}
				out = append(out, r.Type())
			}
		}
		return out
	}
	nSrc := 0
	seenT := map[string]bool{}
	for _, g := range PkgFuncs(imp) {
		if !IsProdFile(P.File(g.Pos())) {
			continue
		}
		EachInstr(g, func(in ssa.Instruction) {
			cl, ok := in.(*ssa.Call)
			if !ok || !MatchCC(&cl.Call, Spec{"./core/register", "", "DataSource"}) || len(cl.Call.Args) < 2 {
				return
			}
			name := "?"
			if sv, isS := ConstString(cl.Call.Args[0]); isS {
				name = sv
			}
			ctors := P.FuncValues(cl.Call.Args[1])
			if len(ctors) == 0 {
				c.Unknown("O8.8", "source:"+name+":constructor", cl.Pos(), "the constructor registered for this data source is not a function this analysis can see")
				return
			}
			for _, ctor := range ctors {
				for _, b := range ctor.Blocks {
					r, isR := b.Instrs[len(b.Instrs)-1].(*ssa.Return)
					if !isR || len(r.Results) == 0 || IsNilConst(r.Results[0]) {
						continue
					}
					for _, t := range concrete(r.Results[0], 0) {
						key := name + ":" + types.TypeString(t, nil)
						if seenT[key] {
							continue
						}
						seenT[key] = true
						open := P.MethodFn(t, "OpenSource")
						if pt, isP := t.(*types.Pointer); isP && open == nil {
							open = P.MethodFn(pt.Elem(), "OpenSource")
						}
						if open == nil || len(open.Blocks) == 0 {
							c.Unknown("O8.8", "source:"+name+":OpenSource", cl.Pos(), "no OpenSource body found for "+types.TypeString(t, nil))
							continue
						}
						nSrc++
						for _, ob := range open.Blocks {
							or, isOR := ob.Instrs[len(ob.Instrs)-1].(*ssa.Return)
							if !isOR || len(or.Results) == 0 || IsNilConst(or.Results[0]) {
								continue
							}
							ok := true
							var bad string
							ts := concrete(or.Results[0], 0)
							for _, rt := range ts {
								if !hasSeek(rt) {
									ok = false
									bad = types.TypeString(rt, nil)
								}
							}
							c.Check(ok && len(ts) > 0, "O8.8", "source:"+name+":"+fk(open)+":returns-a-seekable-reader", or.Pos(),
								"OpenSource of the registered data source \""+name+"\" returns a "+bad+", which has no Seek method: `passes` other than 1 are silently read as one pass")
						}
					}
				}
			}
		})
	}
	c.Floor("O8.8", "registered data sources with an OpenSource body", nSrc, 3)
}

// throughGetter: the value a trivial helper of the package hands back unchanged (sent.total() -> sent): a call whose
// callee returns, on its only return, one of its parameters (possibly converted) stands for the argument passed.
func throughGetter(v ssa.Value) ssa.Value {
	cl, ok := Strip(v).(*ssa.Call)
	if !ok || cl.Parent() == nil {
		return v
	}
	sc := cl.Call.StaticCallee()
	if sc == nil || len(sc.Blocks) != 1 || PkgOf(sc) != PkgOf(cl.Parent()) {
		return v
	}
	r, isR := sc.Blocks[0].Instrs[len(sc.Blocks[0].Instrs)-1].(*ssa.Return)
	if !isR || len(r.Results) != 1 {
		return v
	}
	pr, isP := Strip(r.Results[0]).(*ssa.Parameter)
	if !isP {
		return v
	}
	for i, q := range sc.Params {
		if q == pr && i < len(cl.Call.Args) {
			return cl.Call.Args[i]
		}
	}
	return v
}

// ---- O8.9: each configured bound is enforced on its own

// boundNonZeroCond evaluates a branch condition under the assumption that every Limit/Passes field read is non-zero.
func boundNonZeroCond(cond ssa.Value, bound func(*types.Var) string) (val, known bool) {
	return boundNonZeroCondV(cond, fieldClass(bound))
}

// fieldClass: the classifier of values that reads a bound's name off a field load.
func fieldClass(bound func(*types.Var) string) func(ssa.Value) string {
	return func(v ssa.Value) string {
		if fv, _ := FieldOf(Strip(v)); fv != nil {
			return bound(fv)
		}
		return ""
	}
}

func boundNonZeroCondV(cond ssa.Value, class func(ssa.Value) string) (val, known bool) {
	if u, ok := cond.(*ssa.UnOp); ok && u.Op == token.NOT {
		v, k := boundNonZeroCondV(u.X, class)
		return !v, k
	}
	b, ok := cond.(*ssa.BinOp)
	if !ok {
		return false, false
	}
	isBound := func(v ssa.Value) bool {
		if class(Strip(v)) != "" {
			return true
		}
		for _, r := range Roots(v, false) {
			if class(Strip(r)) == "" {
				return false
			}
		}
		return len(Roots(v, false)) > 0
	}
	x, y, op := b.X, b.Y, b.Op
	if k, isC := ConstInt(x); isC && k == 0 {
		x, y, op = y, x, FlipOp(op)
	}
	if k, isC := ConstInt(y); !isC || k != 0 || !isBound(x) {
		return false, false
	}
	switch op { // x op 0 with x != 0 (and, for the signed fields, x > 0: validated min=0)
	case token.EQL, token.LEQ, token.LSS:
		return false, true
	case token.NEQ, token.GTR:
		return true, true
	}
	return false, false
}

// boundsMayReach: the Limit/Passes fields the value may derive from when both are non-zero (phi edges from
// blocks that are unreachable under that assumption do not count).
func boundsMayReach(fn *ssa.Function, v ssa.Value, bound func(*types.Var) string) map[string]bool {
	return boundsMayReachV(fn, v, fieldClass(bound), 0)
}

func boundsMayReachV(fn *ssa.Function, v ssa.Value, class func(ssa.Value) string, depth int) map[string]bool {
	feasible := map[*ssa.BasicBlock]bool{}
	edge := map[[2]*ssa.BasicBlock]bool{}
	var walk func(b *ssa.BasicBlock)
	walk = func(b *ssa.BasicBlock) {
		if feasible[b] {
			return
		}
		feasible[b] = true
		succs := Succs(b)
		if iff, ok := b.Instrs[len(b.Instrs)-1].(*ssa.If); ok && len(b.Succs) == 2 {
			if val, known := boundNonZeroCondV(iff.Cond, class); known {
				if val {
					succs = []*ssa.BasicBlock{b.Succs[0]}
				} else {
					succs = []*ssa.BasicBlock{b.Succs[1]}
				}
			}
		}
		for _, s := range succs {
			edge[[2]*ssa.BasicBlock{b, s}] = true
			walk(s)
		}
	}
	if len(fn.Blocks) > 0 {
		walk(fn.Blocks[0])
	}
	out := map[string]bool{}
	seen := map[ssa.Value]bool{}
	var visit func(v ssa.Value)
	visit = func(v ssa.Value) {
		if v == nil || seen[v] {
			return
		}
		seen[v] = true
		if name := class(Strip(v)); name != "" {
			out[name] = true
			return
		}
		// a bound computed up front by a helper of the package (total, bounded := deliveryBound(limit, passes, n)): what
		// the helper may return in that position, its parameters standing for the arguments of this call
		if cl, idx := CallOfValue(v); cl != nil && depth < 2 {
			if h := cl.Call.StaticCallee(); h != nil && len(h.Blocks) > 0 && h != fn && PkgOf(h) == PkgOf(fn) {
				if idx < 0 {
					idx = 0
				}
				hClass := func(hv ssa.Value) string {
					if pr, isP := hv.(*ssa.Parameter); isP && pr.Parent() == h {
						for i, q := range h.Params {
							if q == pr && i < len(cl.Call.Args) {
								return class(Strip(cl.Call.Args[i]))
							}
						}
						return ""
					}
					return class(hv)
				}
				for _, b := range h.Blocks {
					if r, isR := b.Instrs[len(b.Instrs)-1].(*ssa.Return); isR && idx < len(r.Results) {
						for name := range boundsMayReachV(h, r.Results[idx], hClass, depth+1) {
							out[name] = true
						}
					}
				}
				return
			}
		}
		switch x := v.(type) {
		case *ssa.Phi:
			for i, e := range x.Edges {
				if x.Parent() == fn && !edge[[2]*ssa.BasicBlock{x.Block().Preds[i], x.Block()}] {
					continue
				}
				visit(e)
			}
		case *ssa.BinOp:
			visit(x.X)
			visit(x.Y)
		case *ssa.Convert:
			visit(x.X)
		case *ssa.ChangeType:
			visit(x.X)
		case *ssa.UnOp:
			if a, ok := x.X.(*ssa.Alloc); ok && x.Op == token.MUL {
				for _, st := range StoresTo(a) {
					if st.Parent() != fn || feasible[st.Block()] {
						visit(st.Val)
					}
				}
				return
			}
			visit(x.X)
		case *ssa.Call:
			if bi, ok := x.Call.Value.(*ssa.Builtin); ok && (bi.Name() == "min" || bi.Name() == "max") {
				for _, a := range x.Call.Args {
					visit(a)
				}
			}
		}
	}
	visit(v)
	return out
}

func c08EachBoundOnItsOwn(c *Ctx, provs []*provider) {
	c.Rule("O8.9", "each bound is enforced on its own: a provider whose Run tree reads both a Limit and a Passes setting delivers min(limit, passes x entries) entries, so with both set (non-zero) the delivery counter is compared with a value that may come from Limit and with a value that may come from Passes - a comparison with the field itself (the form of every decoder), or with a derived bound (a total computed up front) that still depends on that field when the other one is set too")
	// limit / passesLimit: the fields in which lib/ioutil2's multi-pass reader and the grpc provider keep the setting they are given
	canon := map[string]string{"Limit": "Limit", "limit": "Limit", "Passes": "Passes", "passesLimit": "Passes"}
	// a field of a small carrier type (ammoCycle{limit: cfg.Limit, passes: cfg.Passes}) stands for the setting every
	// store puts into it
	memo := map[*types.Var]string{}
	var bound func(fv *types.Var) string
	bound = func(fv *types.Var) string {
		if r, ok := memo[fv]; ok {
			return r
		}
		memo[fv] = ""
		if cn, ok := canon[fv.Name()]; ok {
			memo[fv] = cn
			return cn
		}
		res := ""
		for _, sv := range c.P.FieldStores(fv) {
			f2, _ := FieldOf(Strip(sv))
			if f2 == nil || f2 == fv || bound(f2) == "" || (res != "" && res != bound(f2)) {
				return ""
			}
			res = bound(f2)
		}
		memo[fv] = res
		return res
	}
	n := 0
	for _, pr := range provs {
		reads := map[string]bool{}
		direct := map[string]bool{}
		derived := map[string]bool{}
		// a bound handed to a helper object of another pandora package (ioutil2.NewMultiPassReader(source, Passes)) is
		// enforced by that object's methods, which run behind a library interface (io.Reader): they belong to the tree
		tree := append([]*ssa.Function{}, pr.Tree...)
		inTree := map[*ssa.Function]bool{}
		for _, fn := range tree {
			inTree[fn] = true
		}
		for _, fn := range pr.Tree {
			EachInstr(fn, func(in ssa.Instruction) {
				cc := CC(in)
				if cc == nil || cc.StaticCallee() == nil || cc.StaticCallee().Pkg == nil || !IsPandora(cc.StaticCallee().Pkg.Pkg.Path()) {
					return
				}
				for _, a := range cc.Args {
					if fv, _ := FieldOf(Strip(a)); fv != nil && bound(fv) != "" {
						for _, g := range PkgFuncs(cc.StaticCallee().Pkg) {
							if !inTree[g] && IsProdFile(c.P.File(g.Pos())) {
								inTree[g] = true
								tree = append(tree, g)
							}
						}
					}
				}
			})
		}
		for _, fn := range tree {
			EachInstr(fn, func(in ssa.Instruction) {
				if v, ok := in.(ssa.Value); ok {
					if fv, _ := FieldOf(v); fv != nil && bound(fv) != "" {
						if _, isStore := in.(*ssa.Store); !isStore {
							reads[bound(fv)] = true
						}
					}
				}
			})
			// every comparison of the function, whether it ends a block (if / for / switch) or feeds a boolean
			// (`done := p.Passes != 0 && pass >= p.Passes`)
			EachInstr(fn, func(in ssa.Instruction) {
				b, ok := in.(*ssa.BinOp)
				if !ok {
					return
				}
				switch b.Op {
				case token.LSS, token.LEQ, token.GTR, token.GEQ:
				default:
					return
				}
				for k, side := range []ssa.Value{b.X, b.Y} {
					other := b.Y
					if k == 1 {
						other = b.X
					}
					if _, isC := ConstInt(side); isC {
						continue
					}
					if _, isC := ConstInt(other); isC {
						continue // `Limit > 0` is a switch, not a bound test
					}
					if fv, _ := FieldOf(Strip(throughGetter(side))); fv != nil && bound(fv) != "" {
						direct[bound(fv)] = true
						continue
					}
					for name := range boundsMayReach(fn, side, bound) {
						derived[name] = true
					}
				}
			})
		}
		if !reads["Limit"] || !reads["Passes"] {
			continue
		}
		n++
		for _, name := range []string{"Limit", "Passes"} {
			c.Check(direct[name] || derived[name], "O8.9", fk(pr.Run)+":"+name+"-enforced-when-both-bounds-are-set", pr.Run.Pos(),
				fmt.Sprintf("the Run tree reads Limit and Passes; a counter is compared with %s itself: %v; with a bound that may derive from %s when both are non-zero: %v", name, direct[name], name, derived[name]))
		}
	}
	c.Floor("O8.9", "providers whose Run tree reads both Limit and Passes", n, 4)
}

// ---- O8.10: a pass over a ring of entries ends with its last entry

func c08RingPassCounter(c *Ctx, provs []*provider) {
	c.Rule("O8.10", "a pass over preloaded entries ends with its last entry: where a function takes entries from a ring (index = counter % length) and advances the pass counter that is compared with Passes, the increment happens exactly when the entry just taken is the last of the ring (index == length-1, or index+1 == length) - under no further condition (an extra guard such as `counter > 0` skips the end of the first pass of a one-entry ring: passes+1 entries are delivered from a single-element JSON array)")
	P := c.P
	// the pass counters: fields compared with a Passes setting
	passCounter := map[*types.Var]bool{}
	var fns []*ssa.Function
	seen := map[*ssa.Function]bool{}
	for _, pr := range provs {
		for _, fn := range pr.Tree {
			if !seen[fn] {
				seen[fn] = true
				fns = append(fns, fn)
			}
		}
	}
	for _, rel := range []string{"components/providers/http/decoders", "components/providers/http/provider"} {
		if sp := P.SSAPkg(rel); sp != nil {
			for _, fn := range PkgFuncs(sp) {
				if !seen[fn] && IsProdFile(P.File(fn.Pos())) {
					seen[fn] = true
					fns = append(fns, fn)
				}
			}
		}
	}
	for _, fn := range fns {
		for _, lt := range limitTests(fn, map[string]bool{"Passes": true}) {
			if fv, _ := FieldOf(Strip(lt.Counter)); fv != nil {
				passCounter[fv] = true
			}
		}
	}
	n := 0
	lenLike := func(v ssa.Value) bool {
		for _, r := range Roots(v, false) {
			cl, ok := Strip(r).(*ssa.Call)
			if !ok {
				return false
			}
			if bi, isB := cl.Call.Value.(*ssa.Builtin); !isB || bi.Name() != "len" {
				return false
			}
		}
		return len(Roots(v, false)) > 0
	}
	for _, fn := range fns {
		// the values used as indices into slices in this function
		var idxs []ssa.Value
		hasRem := false
		EachInstr(fn, func(in ssa.Instruction) {
			switch x := in.(type) {
			case *ssa.IndexAddr:
				if _, isK := ConstInt(x.Index); !isK {
					idxs = append(idxs, x.Index)
				}
			case *ssa.Index:
				if _, isK := ConstInt(x.Index); !isK {
					idxs = append(idxs, x.Index)
				}
			case *ssa.BinOp:
				if _, isK := ConstInt(x.Y); x.Op == token.REM && !isK {
					hasRem = true
				}
			}
		})
		isIdx := func(v ssa.Value) bool {
			for _, ix := range idxs {
				if Strip(ix) == Strip(v) || sameRoots(ix, v) {
					return true
				}
			}
			return false
		}
		isLast := func(f Fact) bool {
			if f.Op != token.EQL || f.Y == nil {
				return false
			}
			for _, pr := range [][2]ssa.Value{{f.X, f.Y}, {f.Y, f.X}} {
				// index == length - 1
				if b, ok := Strip(pr[1]).(*ssa.BinOp); ok && b.Op == token.SUB && isIdx(pr[0]) && lenLike(b.X) {
					if k, isK := ConstInt(b.Y); isK && k == 1 {
						return true
					}
				}
				// index + 1 == length
				if b, ok := Strip(pr[0]).(*ssa.BinOp); ok && b.Op == token.ADD && isIdx(b.X) && lenLike(pr[1]) {
					if k, isK := ConstInt(b.Y); isK && k == 1 {
						return true
					}
				}
			}
			return false
		}
		// the increments of a pass counter: stores of counter+1 into a pass-counter field, or the `p + 1` edge of a
		// loop variable that is compared with Passes
		var incs []ssa.Instruction
		EachInstr(fn, func(in ssa.Instruction) {
			st, ok := in.(*ssa.Store)
			if !ok {
				return
			}
			fv, _ := FieldOf(st.Addr)
			if fv == nil || !passCounter[fv] {
				return
			}
			if inc, isInc := Strip(st.Val).(*ssa.BinOp); isInc && inc.Op == token.ADD {
				incs = append(incs, st)
			}
		})
		for _, lt := range limitTests(fn, map[string]bool{"Passes": true}) {
			if phi, ok := Strip(lt.Counter).(*ssa.Phi); ok {
				// (through the phis that carry the incremented value back to the loop head)
				seenV := map[ssa.Value]bool{}
				var walk func(v ssa.Value)
				walk = func(v ssa.Value) {
					if seenV[v] {
						return
					}
					seenV[v] = true
					switch x := v.(type) {
					case *ssa.Phi:
						for _, e := range x.Edges {
							walk(e)
						}
					case *ssa.BinOp:
						if k, isK := ConstInt(x.Y); x.Op == token.ADD && isK && k == 1 {
							if px, isP := x.X.(*ssa.Phi); isP && (px == phi || seenV[px]) {
								incs = append(incs, x)
							}
						}
					}
				}
				walk(phi)
			}
		}
		if os.Getenv("PV_DEBUG") != "" && strings.Contains(fn.Name(), "runPreloaded") {
			fmt.Fprintln(os.Stderr, "O8.10 debug", fn, "incs", len(incs), "tests", len(limitTests(fn, map[string]bool{"Passes": true})))
			for _, lt := range limitTests(fn, map[string]bool{"Passes": true}) {
				fmt.Fprintf(os.Stderr, "  counter %v %T\n", lt.Counter, Strip(lt.Counter))
			}
		}
		for _, in := range incs {
			hasLast := false
			var others []Fact
			for _, f := range DomFacts(in.Block()) {
				if isLast(f.Canon()) || isLast(f) {
					hasLast = true
				} else {
					others = append(others, f)
				}
			}
			if !hasLast && !hasRem {
				continue // not a walk over a ring (a streaming decoder counts its passes at end of file)
			}
			// conditions that also hold where the entry is taken from the ring are not conditions of the increment
			extra := ""
			for _, f := range others {
				common := true
				EachInstr(fn, func(i2 ssa.Instruction) {
					var blk *ssa.BasicBlock
					switch x := i2.(type) {
					case *ssa.IndexAddr:
						if isIdx(x.Index) {
							blk = x.Block()
						}
					case *ssa.Index:
						if isIdx(x.Index) {
							blk = x.Block()
						}
					}
					if blk == nil {
						return
					}
					found := false
					for _, g := range DomFacts(blk) {
						if g.Op == f.Op && g.X == f.X && g.Y == f.Y {
							found = true
						}
					}
					if !found {
						common = false
					}
				})
				if !common {
					x := "?"
					if f.X != nil {
						x = f.X.String()
					}
					extra = fmt.Sprintf("%s %s ...", x, f.Op)
				}
			}
			n++
			c.Check(hasLast && extra == "", "O8.10", fk(fn)+":pass-ends-with-the-last-entry-of-the-ring", in.Pos(),
				fmt.Sprintf("the pass counter advances under `index == length-1`: %v; further conditions on the increment: %q", hasLast, extra))
		}
	}
	c.Floor("O8.10", "pass-counter increments in ring walks", n, 1)
}


// ---- O8.11

// scannerConfig describes how a *bufio.Scanner value was set up: the token limit given to Buffer (absent = the
// library default bufio.MaxScanTokenSize) and the split function given to Split (absent = ScanLines).
func scannerConfig(v ssa.Value, fld *types.Var, depth int) (string, bool) {
	v = Strip(v)
	cl, _ := v.(*ssa.Call)
	if cl == nil {
		return "", false
	}
	if !MatchCC(&cl.Call, Spec{"bufio", "", "NewScanner"}) {
		// a helper of pandora that makes the scanner: every scanner it returns, as set up inside it
		g := cl.Call.StaticCallee()
		if g == nil || len(g.Blocks) == 0 || depth > 2 {
			return "", false
		}
		sig, have := "", false
		for _, b := range g.Blocks {
			r, isRet := b.Instrs[len(b.Instrs)-1].(*ssa.Return)
			if !isRet {
				continue
			}
			for _, res := range r.Results {
				if p, n := NamedOf(res.Type()); p != "bufio" || n != "Scanner" {
					continue
				}
				for _, root := range Roots(res, false) {
					s1, ok := scannerConfig(root, nil, depth+1)
					if !ok || (have && s1 != sig) {
						return "", false
					}
					sig, have = s1, true
				}
			}
		}
		return sig, have
	}
	limit, split := "65536", "ScanLines"
	ok := true
	EachInstr(cl.Parent(), func(in ssa.Instruction) {
		c2, isCall := in.(*ssa.Call)
		if !isCall || !MatchCC(&c2.Call, Spec{"bufio", "Scanner", "Buffer"}, Spec{"bufio", "Scanner", "Split"}) {
			return
		}
		recv := Strip(c2.Call.Args[0])
		same := recv == ssa.Value(cl)
		if !same && fld != nil {
			if fv, _ := FieldOf(recv); fv == fld {
				same = true
			}
		}
		if !same {
			for _, root := range Roots(recv, false) {
				if root == ssa.Value(cl) {
					same = true
				}
			}
		}
		if !same {
			return
		}
		arg := Strip(c2.Call.Args[len(c2.Call.Args)-1])
		key := ""
		if k, isK := ConstInt(arg); isK {
			key = fmt.Sprint(k)
		} else if f, isF := arg.(*ssa.Function); isF {
			key = f.Name()
		} else {
			for _, root := range Roots(arg, false) {
				if fv, _ := FieldOf(root); fv != nil {
					key += fv.Name() + ";"
				} else {
					ok = false
				}
			}
			if key == "" {
				ok = false
			}
		}
		if CalleeObj(&c2.Call).Name() == "Buffer" {
			limit = key
		} else {
			split = key
		}
	})
	return "token limit " + limit + ", split " + split, ok
}

func c08ScannerSameOnEveryPass(c *Ctx) {
	c.Rule("O8.11", "every pass reads the source the same way: a decoder that keeps a *bufio.Scanner in a field and replaces it when it rewinds the source sets the new scanner up like the first one - same token limit (Buffer; absent = bufio.MaxScanTokenSize) and same split function - so that an entry the first pass delivered (a long line) is not an error in a later pass")
	P := c.P
	type site struct {
		st  *ssa.Store
		sig string
		ok  bool
	}
	byField := map[*types.Var][]site{}
	var order []*types.Var
	for _, rel := range []string{"components/providers/http/decoders", "components/providers/grpc/grpcjson", "components/providers/http/provider", "components/providers/http"} {
		sp := P.SSAPkg(rel)
		if sp == nil {
			continue
		}
		for _, fn := range PkgFuncs(sp) {
			if !IsProdFile(P.File(fn.Pos())) {
				continue
			}
			EachInstr(fn, func(in ssa.Instruction) {
				st, isSt := in.(*ssa.Store)
				if !isSt {
					return
				}
				fv, _ := FieldOf(st.Addr)
				if fv == nil {
					return
				}
				if p, n := NamedOf(fv.Type()); p != "bufio" || n != "Scanner" {
					return
				}
				if _, isNil := Strip(st.Val).(*ssa.Const); isNil {
					return
				}
				sig, ok := scannerConfig(st.Val, fv, 0)
				if _, seen := byField[fv]; !seen {
					order = append(order, fv)
				}
				byField[fv] = append(byField[fv], site{st, sig, ok})
			})
		}
	}
	n := 0
	for _, fv := range order {
		sites := byField[fv]
		if len(sites) < 2 {
			continue
		}
		n++
		first := sites[0]
		for _, s := range sites {
			k := fk(s.st.Parent()) + ":" + fv.Name() + "-set-up-like-the-first-scanner"
			if !s.ok || !first.ok {
				c.Unknown("O8.11", k, s.st.Pos(), "cannot read how this scanner is set up")
				continue
			}
			c.Check(s.sig == first.sig, "O8.11", k, s.st.Pos(), fmt.Sprintf("this scanner: %s; the one made at %s: %s", s.sig, P.Pos(first.st.Pos()), first.sig))
		}
	}
	c.Floor("O8.11", "scanner fields that are replaced after construction", n, 1)
}
