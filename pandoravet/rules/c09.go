package rules

import (
	"fmt"
	"go/token"
	"go/types"
	"strings"

	. "pandoravet/core"

	"golang.org/x/tools/go/ssa"
)

func init() {
	register(&Pack{Property: "C09", Title: "HTTP wire fidelity", Run: runC09})
}

var (
	sHeaderSet   = Spec{"net/http", "Header", "Set"}
	sHeaderAdd   = Spec{"net/http", "Header", "Add"}
	sHeaderDel   = Spec{"net/http", "Header", "Del"}
	sHeaderClone = Spec{"net/http", "Header", "Clone"}
)

// rangedMapOf: v is the key or value produced by ranging over a map that satisfies pred.
func rangedOver(v ssa.Value, pred func(m ssa.Value) bool) bool {
	return DerivesAny(v, true, func(r ssa.Value) bool {
		ex, ok := r.(*ssa.Extract)
		if !ok {
			return false
		}
		nx, ok := ex.Tuple.(*ssa.Next)
		if !ok {
			return false
		}
		rg, ok := nx.Iter.(*ssa.Range)
		if !ok {
			return false
		}
		return pred(rg.X)
	}) || rangedSliceOf(v, pred)
}

// rangedSliceOf: v is an element of a slice that is itself a value ranged out of a map satisfying pred
// (for k, vv := range m { for _, v := range vv {...} }).
func rangedSliceOf(v ssa.Value, pred func(m ssa.Value) bool) bool {
	for _, r := range Roots(v, true) {
		u, ok := r.(*ssa.UnOp)
		if !ok || u.Op != token.MUL {
			continue
		}
		ia, ok := u.X.(*ssa.IndexAddr)
		if !ok {
			continue
		}
		if rangedOver(ia.X, pred) {
			return true
		}
	}
	return false
}

// absentFact: the instruction is dominated by "key k is absent from map m":
// the !ok edge of a comma-ok lookup m[k], or len(m.Values(k)) == 0 / len(m[k]) == 0.
func absentFact(at ssa.Instruction, isMap func(ssa.Value) bool, key ssa.Value) (found bool, valueTest bool) {
	for _, bf := range BoolFactsAt(at) {
		// comma-ok lookup
		if ex, ok := bf.Subj.(*ssa.Extract); ok && ex.Index == 1 {
			if lk, ok := ex.Tuple.(*ssa.Lookup); ok && lk.CommaOk && isMap(lk.X) && sameRoots(lk.Index, key) {
				if !bf.Val {
					found = true
				}
			}
		}
	}
	for _, f := range CmpFactsAt(at) {
		for _, pr := range [][2]ssa.Value{{f.X, f.Y}, {f.Y, f.X}} {
			// len(...) == 0
			if cl, ok := pr[0].(*ssa.Call); ok && IsBuiltinCall(cl, "len") && f.Op == token.EQL && isZero(pr[1]) {
				arg := cl.Call.Args[0]
				if vc, _ := CallOfValue(arg); vc != nil && MatchCC(&vc.Call, Spec{"net/http", "Header", "Values"}) && isMap(vc.Call.Args[0]) && sameRoots(vc.Call.Args[1], key) {
					found = true
				}
				if lk, ok := arg.(*ssa.Lookup); ok && !lk.CommaOk && isMap(lk.X) && sameRoots(lk.Index, key) {
					found = true
				}
			}
			// value tests: m.Get(k) == "" / != ""  (an empty value is a present header)
			if gc, _ := CallOfValue(pr[0]); gc != nil && MatchCC(&gc.Call, Spec{"net/http", "Header", "Get"}) && isMap(gc.Call.Args[0]) {
				if s, ok := ConstString(pr[1]); ok && s == "" {
					valueTest = true
				}
			}
		}
	}
	return
}

func runC09(c *Ctx) {
	c.Rule("O9.1", "header precedence: a header taken from the provider's `headers` option is written into an entry's headers only where the key is absent from them (presence test on the map, not a test of the value: an empty in-file header is still a header); where the option's headers are the base, entry headers are Set over a clone of them")
	c.Rule("O9.2", "add-if-absent enrichment: EnrichRequestWithHeaders assigns req.Header[key] only on the !ok edge of the lookup of the canonicalised key; Host goes to req.Host only on key == Host and req.Host == \"\"")
	c.Rule("O9.3", "scheme / target / Host: \"https\" is stored on the true edge of Config.SSL and \"http\" on the false edge; req.URL.Host is Config.TargetResolved; req.Host is getHostWithoutPort(Config.Target) only on req.Host == \"\"")
	c.Rule("O9.4", "the ammo's request is passed on unchanged: between ammo.Request() and Client.Do the gun writes only URL.Scheme, URL.Host and Host (plus the body re-buffering idiom and trace context); the value handed to Do derives from ammo.Request()")
	c.Rule("O9.5", "transport wiring: every http.Transport / net.Dialer field set in NewTransport / NewDialer is fed from the config field of the same name")
	c.Rule("O9.6", "one client per instance: the client constructor is called in NewBaseGun's body; registered gun constructors build the gun inside the returned factory closure; Bind replaces the client only on a non-nil shared pool")
	c.Rule("O9.7", "a raw entry's body stays its own: the request returned by http.ReadRequest reads its body lazily from the reader it was given, so that reader is created for this call (bufio.NewReader / NewReaderSize over the entry's bytes) and used for nothing else - not taken from a pool, a field or a package variable, not Reset or put away afterwards; and BuildRequest of a raw entry parses the entry's bytes on every call instead of handing out a stored request (Request.Clone shares the Body)")
	c.Rule("O9.8", "an entry's headers are its own: the header map an entry is set up with is a fresh map (or one nothing mutates), never the decoder's running [Header: value] accumulator or a map returned as-is by a merge helper - otherwise entries already decoded pick up headers and a Host that the file defines only later (the rule of O7.5, shared)")
	c.Borrow("C07", runC07, map[string]string{"O7.5": "O9.8"})
	c09Precedence(c)
	c09Enrich(c)
	c09Target(c)
	c09Unchanged(c)
	c09Wiring(c)
	c09Client(c)
	c09RawBody(c)
}

func c09Precedence(c *Ctx) {
	P := c.P
	sp := P.SSAPkg("components/providers/http/decoders")
	if sp == nil {
		c.Anchor("O9.1", "package components/providers/http/decoders")
		return
	}
	isCfg := func(v ssa.Value) bool {
		return P.DerivesAnyIP(v, func(r ssa.Value) bool { return IsFieldLoad(r, "", "decodedConfigHeaders") })
	}
	isCfgClone := func(v ssa.Value) bool {
		return DerivesOnly(v, false, func(r ssa.Value) bool {
			cl, _ := CallOfValue(r)
			return cl != nil && MatchCC(&cl.Call, sHeaderClone) && isCfg(cl.Call.Args[0])
		})
	}
	nGuarded, nBase := 0, 0
	for _, fn := range PkgFuncs(sp) {
		if !IsProdFile(P.File(fn.Pos())) {
			continue
		}
		EachInstr(fn, func(in ssa.Instruction) {
			var target, key, val ssa.Value
			switch {
			case IsCall(in, sHeaderSet, sHeaderAdd):
				cc := CC(in)
				target, key, val = cc.Args[0], cc.Args[1], cc.Args[2]
			default:
				if mu, ok := in.(*ssa.MapUpdate); ok {
					if p, n := NamedOf(mu.Map.Type()); p == "net/http" && n == "Header" {
						target, key, val = mu.Map, mu.Key, mu.Value
					}
				}
			}
			if target == nil {
				return
			}
			fromCfg := rangedOver(key, isCfg) || rangedOver(val, isCfg)
			switch {
			case fromCfg && !isCfgClone(target):
				// config header written into the entry's headers: presence guard required
				nGuarded++
				isT := func(m ssa.Value) bool { return sameRoots(m, target) }
				found, valueTest := absentFact(in, isT, key)
				detail := "config header written only where the key is absent from the entry's headers"
				if !found && valueTest {
					detail = "the guard tests the header's VALUE (Get(k) == \"\"): a header the file defines with an empty value is overridden by the option"
				} else if !found {
					detail = "no presence test (`_, ok := header[k]` false edge, len(header.Values(k)) == 0) dominates this write: the option overrides the ammo file"
				}
				c.Check(found, "O9.1", fk(fn)+":config-header-only-if-absent", in.Pos(), detail)
			case isCfgClone(target):
				// base = clone of the option's headers, overwritten by the entry
				nBase++
				okEntry := !fromCfg
				c.Check(okEntry && IsCall(in, sHeaderSet), "O9.1", fk(fn)+":entry-headers-set-over-config-base", in.Pos(), "entry headers must be Set (replace) over the clone of the option's headers")
			}
		})
	}
	c.Floor("O9.1", "guarded config-header merges (uri, uripost)", nGuarded, 1)
	c.Floor("O9.1", "entry-over-config-base merges (jsonline Scan, readArray)", nBase, 1)
	// raw: the option's headers reach the request only through add-if-absent enrichment
	for _, t := range []string{"RawAmmo", "Ammo"} {
		br := P.Func("components/providers/http/decoders/ammo", t, "BuildRequest")
		if br == nil {
			c.Anchor("O9.1", "decoders/ammo.(*"+t+").BuildRequest")
			continue
		}
		n := len(Calls(br, Spec{"./components/providers/http/util", "", "EnrichRequestWithHeaders"}))
		nSet := len(Calls(br, sHeaderSet, sHeaderAdd))
		c.Check(n == 1 && nSet == 0, "O9.1", fk(br)+":headers-reach-the-request-by-enrichment-only", br.Pos(), fmt.Sprintf("%d EnrichRequestWithHeaders call(s), %d direct Header.Set/Add (want 1 and 0)", n, nSet))
	}
}

func c09Enrich(c *Ctx) {
	P := c.P
	fn := P.Func("components/providers/http/util", "", "EnrichRequestWithHeaders")
	if fn == nil || len(fn.Params) != 2 {
		c.Anchor("O9.2", "components/providers/http/util.EnrichRequestWithHeaders(req, headers)")
		return
	}
	key := fk(fn)
	isReqHeader := func(v ssa.Value) bool {
		fv, base := FieldOf(v)
		return fv != nil && fv.Name() == "Header" && base != nil && (base == ssa.Value(fn.Params[0]) ||
			DerivesOnly(base, false, func(r ssa.Value) bool { return r == ssa.Value(fn.Params[0]) }))
	}
	// the function and the helpers of its package it hands the request to (enrichHost(req, values), ...)
	eachEnrich := func(f func(ssa.Instruction)) {
		for _, g := range FindFuncs(fn, 2, func(g *ssa.Function) bool { return PkgOf(g) == PkgOf(fn) }) {
			EachInstr(g, f)
		}
	}
	nUpd := 0
	eachEnrich(func(in ssa.Instruction) {
		mu, ok := in.(*ssa.MapUpdate)
		if !ok || !isReqHeader(mu.Map) {
			return
		}
		nUpd++
		found, _ := absentFact(mu, isReqHeader, mu.Key)
		canon := false
		if DerivesOnly(mu.Key, false, func(r ssa.Value) bool {
			cl, _ := CallOfValue(r)
			return cl != nil && MatchCC(&cl.Call, Spec{"net/textproto", "", "CanonicalMIMEHeaderKey"})
		}) {
			canon = true
		}
		vals := rangedOver(mu.Value, func(m ssa.Value) bool { return m == ssa.Value(fn.Params[1]) })
		c.Check(found && canon && vals, "O9.2", key+":add-if-absent", mu.Pos(), fmt.Sprintf("req.Header[key] = values only on the !ok edge of the lookup: %v; key canonicalised: %v; values come from the given headers: %v", found, canon, vals))
	})
	c.Check(nUpd == 1, "O9.2", key+":single-header-write", fn.Pos(), fmt.Sprintf("%d writes into req.Header (want 1)", nUpd))
	// Header.Set / Add / Del on req.Header are not used here
	nOther := 0
	eachEnrich(func(in ssa.Instruction) {
		if IsCall(in, sHeaderSet, sHeaderAdd, sHeaderDel) {
			nOther++
		}
	})
	c.Check(nOther == 0, "O9.2", key+":no-overwriting-header-calls", fn.Pos(), fmt.Sprintf("%d Header.Set/Add/Del calls (want 0)", nOther))
	// Host
	okHost := false
	nHost := 0
	eachEnrich(func(in ssa.Instruction) {
		if _, ok := storeExact(in, "Request", "Host"); !ok {
			return
		}
		nHost++
		isHostKey, empty := false, false
		for _, f := range CmpFactsAt(in) {
			if f.Op != token.EQL {
				continue
			}
			for _, pr := range [][2]ssa.Value{{f.X, f.Y}, {f.Y, f.X}} {
				if s, ok := ConstString(pr[1]); ok {
					if s == "Host" {
						isHostKey = true
					}
					if s == "" && IsFieldLoad(pr[0], "Request", "Host") {
						empty = true
					}
				}
			}
		}
		okHost = isHostKey && empty
	})
	c.Check(okHost && nHost == 1, "O9.2", key+":host-only-if-unset", fn.Pos(), "req.Host is assigned only for the Host key and only when req.Host is empty")
}

func c09Target(c *Ctx) {
	P := c.P
	for _, site := range []struct{ rel, recv, name string }{{"components/guns/http", "BaseGun", "Shoot"}, {"components/guns/http_scenario", "ScenarioGun", "prepareRequest"}} {
		fn := P.Func(site.rel, site.recv, site.name)
		if fn == nil {
			c.Anchor("O9.3", site.rel+"."+site.name)
			continue
		}
		key := fk(fn)
		var https, http, nScheme int
		var plainHTTP, sslHTTPS []ssa.Instruction // an unconditional "http" store; "https" stores under SSL
		var okHostURL, okHost bool
		nHostURL, nHost := 0, 0
		// the function and the helpers of the package it hands the request to (directToTarget(req), ...)
		eachInstr := func(f func(ssa.Instruction)) {
			for _, g := range FindFuncs(fn, 2, func(*ssa.Function) bool { return true }) {
				EachInstr(g, f)
			}
		}
		eachInstr(func(in ssa.Instruction) {
			if v, ok := storeExact(in, "URL", "Scheme"); ok {
				// the alternatives of the stored value with the facts under which each is chosen:
				// a constant under the branch facts, or the edges of a phi (scheme := "http"; if ssl { scheme = "https" })
				type alt struct {
					v     ssa.Value
					facts []BoolFact
				}
				var alts []alt
				// a package-level table indexed by the option: schemeBySSL[Config.SSL] with {true: "https", false: "http"}
				// filled by the package initialiser and written nowhere else
				if lk, isLk := Strip(v).(*ssa.Lookup); isLk && IsFieldLoad(lk.Index, "GunConfig", "SSL") {
					if u, isU := lk.X.(*ssa.UnOp); isU && u.Op == token.MUL {
						if g, isG := u.X.(*ssa.Global); isG && g.Pkg != nil {
							tbl := map[bool]string{}
							clean := true
							for _, h := range PkgFuncs(g.Pkg) {
								isInit := h.Name() == "init" && h.Parent() == nil
								EachInstr(h, func(i2 ssa.Instruction) {
									switch x := i2.(type) {
									case *ssa.Store:
										if x.Addr == ssa.Value(g) && !isInit {
											clean = false
										}
										if x.Addr == ssa.Value(g) && isInit {
											EachInstr(h, func(i3 ssa.Instruction) {
												if mu, ok := i3.(*ssa.MapUpdate); ok && sameRoots(mu.Map, x.Val) {
													k, isK := ConstCond(mu.Key)
													sv, isS := ConstString(mu.Value)
													if isK && isS {
														tbl[k] = sv
													} else {
														clean = false
													}
												}
											})
										}
									case *ssa.MapUpdate:
										if !isInit {
											if u2, ok := x.Map.(*ssa.UnOp); ok && u2.X == ssa.Value(g) {
												clean = false
											}
										}
									}
								})
							}
							if clean && len(tbl) == 2 {
								nScheme += 2
								if tbl[true] == "https" {
									https++
								}
								if tbl[false] == "http" {
									http++
								}
								return
							}
						}
					}
				}
				if phi, isPhi := v.(*ssa.Phi); isPhi {
					for i, e := range phi.Edges {
						alts = append(alts, alt{e, EdgeFacts(phi.Block().Preds[i], phi.Block())})
					}
				} else {
					alts = append(alts, alt{v, BoolFactsAt(in)})
				}
				for _, a := range alts {
					nScheme++
					s, _ := ConstString(a.v)
					ssl := HasBoolFact(a.facts, IsFieldLoadPred("GunConfig", "SSL"), true)
					nossl := HasBoolFact(a.facts, IsFieldLoadPred("GunConfig", "SSL"), false)
					if s == "https" && ssl {
						https++
						sslHTTPS = append(sslHTTPS, in)
					}
					if s == "http" && nossl {
						http++
					}
					if s == "http" && !ssl && !nossl {
						plainHTTP = append(plainHTTP, in)
					}
				}
			}
			if v, ok := storeExact(in, "URL", "Host"); ok {
				nHostURL++
				okHostURL = IsFieldLoad(v, "GunConfig", "TargetResolved")
			}
			if v, ok := storeExact(in, "Request", "Host"); ok {
				nHost++
				// getHostWithoutPort(Config.Target), directly or as what a helper of the gun returns on every path
				// (also from a memo entry it has just filled or found: the entry's fields stand for what is stored in them)
				isTargetName := func(x ssa.Value) bool {
					cl, _ := CallOfValue(x)
					return cl != nil && cl.Call.StaticCallee() != nil && cl.Call.StaticCallee().Name() == "getHostWithoutPort" &&
						DerivesOnly(cl.Call.Args[0], false, IsFieldLoadPred("GunConfig", "Target"))
				}
				fromTarget := DerivesOnly(v, false, isTargetName)
				if !fromTarget {
					fromTarget = true
					for _, t := range ThroughReturns(v) {
						if t == v || !DerivesOnly(t, false, isTargetName) {
							fromTarget = false
						}
					}
				}
				empty := false
				for _, f := range CmpFactsAt(in) {
					if f.Op == token.EQL {
						for _, pr := range [][2]ssa.Value{{f.X, f.Y}, {f.Y, f.X}} {
							if s, ok := ConstString(pr[1]); ok && s == "" && IsFieldLoad(pr[0], "Request", "Host") {
								empty = true
							}
						}
					}
				}
				okHost = fromTarget && empty
			}
		})
		// assign-then-override: "http" stored unconditionally first, "https" stored over it only under SSL
		if http == 0 && len(plainHTTP) == 1 && len(sslHTTPS) == 1 && InstrDominates(plainHTTP[0], sslHTTPS[0]) {
			http = 1
		}
		c.Check(nScheme == 2 && https == 1 && http == 1, "O9.3", key+":scheme-follows-ssl", fn.Pos(), fmt.Sprintf("%d scheme stores: https under SSL x%d, http under !SSL x%d", nScheme, https, http))
		c.Check(nHostURL == 1 && okHostURL, "O9.3", key+":connects-to-the-resolved-target", fn.Pos(), "req.URL.Host = Config.TargetResolved")
		c.Check(nHost == 1 && okHost, "O9.3", key+":host-header-defaults-to-target-name", fn.Pos(), "req.Host = getHostWithoutPort(Config.Target) only when the ammo set no Host")
	}
	// getHostWithoutPort (both copies): SplitHostPort, falling back to the whole target
	n := 0
	for _, rel := range []string{"components/guns/http", "components/guns/http_scenario"} {
		fn := P.Func(rel, "", "getHostWithoutPort")
		if fn == nil {
			continue
		}
		n++
		okSplit, okFallback := false, false
		EachInstr(fn, func(in ssa.Instruction) {
			if IsCall(in, Spec{"net", "", "SplitHostPort"}) && CC(in).Args[0] == ssa.Value(fn.Params[0]) {
				okSplit = true
			}
		})
		// some return path yields the parameter itself (fallback) and some the split host
		for _, b := range fn.Blocks {
			if r, ok := b.Instrs[len(b.Instrs)-1].(*ssa.Return); ok {
				if SliceAny(r.Results[0], func(v ssa.Value) bool { return v == ssa.Value(fn.Params[0]) }) {
					okFallback = true
				}
			}
		}
		c.Check(okSplit && okFallback, "O9.3", fk(fn)+":host-part-or-whole-target", fn.Pos(), "getHostWithoutPort returns the host part of SplitHostPort(target), or the target itself when it has no port")
	}
	c.Floor("O9.3", "getHostWithoutPort helpers", n, 1)
}

func c09Unchanged(c *Ctx) {
	P := c.P
	shoot := P.Func("components/guns/http", "BaseGun", "Shoot")
	if shoot == nil {
		c.Anchor("O9.4", "components/guns/http.(*BaseGun).Shoot")
		return
	}
	key := fk(shoot)
	var rq, do *ssa.Call
	// Shoot and the helpers of the package it hands the request to (send(req, sample, ...))
	for _, g := range FindFuncs(shoot, 2, func(*ssa.Function) bool { return true }) {
		EachInstr(g, func(in ssa.Instruction) {
			cl, ok := in.(*ssa.Call)
			if !ok || !cl.Call.IsInvoke() {
				return
			}
			switch cl.Call.Method.Name() {
			case "Request":
				if p, n := NamedOf(cl.Call.Value.Type()); n == "Ammo" && strings.HasSuffix(p, "guns/http") {
					rq = cl
				}
			case "Do":
				if _, n := NamedOf(cl.Call.Value.Type()); n == "Client" {
					do = cl
				}
			}
		})
	}
	if rq == nil || do == nil {
		c.Anchor("O9.4", "ammo.Request() / Client.Do in BaseGun.Shoot")
		return
	}
	// the request handed to Do derives from Request() (directly or through WithContext)
	okArg := DerivesOnly(do.Call.Args[0], false, func(v ssa.Value) bool {
		if IsResultOf(rq, 0)(v) {
			return true
		}
		if cl, _ := CallOfValue(v); cl != nil && MatchCC(&cl.Call, Spec{"net/http", "Request", "WithContext"}) {
			return DerivesOnly(cl.Call.Args[0], false, IsResultOf(rq, 0))
		}
		return false
	})
	c.Check(okArg, "O9.4", key+":the-ammo-request-is-what-is-sent", do.Pos(), "Client.Do receives the request returned by ammo.Request() (or its WithContext copy)")
	// stores into the request / its URL / header, in Shoot and in helpers called with the request before Do
	allowed := map[string]bool{"URL.Scheme": true, "URL.Host": true, "Request.Host": true}
	var bad []string
	scan := func(fn *ssa.Function, upto ssa.Instruction) {
		EachInstr(fn, func(in ssa.Instruction) {
			if upto != nil && !CanReach(in, upto) {
				return
			}
			switch x := in.(type) {
			case *ssa.Store:
				fa, ok := x.Addr.(*ssa.FieldAddr)
				if !ok {
					return
				}
				fv, base := FieldOf(fa)
				if fv == nil {
					return
				}
				_, tn := NamedOf(base.Type())
				if p, _ := NamedOf(base.Type()); (p != "net/http" && p != "net/url") || (tn != "Request" && tn != "URL") {
					return
				}
				k := tn + "." + fv.Name()
				if allowed[k] {
					return
				}
				if k == "Request.Body" {
					// re-buffering idiom: Body = NopCloser(NewBuffer(bytes read from the same Body))
					if cl, _ := CallOfValue(x.Val); cl != nil && (MatchCC(&cl.Call, Spec{"io/ioutil", "", "NopCloser"}) || MatchCC(&cl.Call, Spec{"io", "", "NopCloser"})) {
						return
					}
				}
				bad = append(bad, k+" at "+P.Pos(in.Pos()))
			case *ssa.MapUpdate:
				if p, n := NamedOf(x.Map.Type()); p == "net/http" && n == "Header" {
					bad = append(bad, "Header[...] at "+P.Pos(in.Pos()))
				}
			default:
				if IsCall(in, sHeaderSet, sHeaderAdd, sHeaderDel) {
					// only when the header belongs to the outgoing request
					if fv, _ := FieldOf(CC(in).Args[0]); fv != nil && fv.Name() == "Header" {
						bad = append(bad, "Header."+CalleeObj(CC(in)).Name()+" at "+P.Pos(in.Pos()))
					}
				}
			}
		})
	}
	// from Do back to Shoot: the helper that holds Do up to Do, its caller up to the call, ...
	{
		var at ssa.Instruction = do
		for d := 0; at != nil && at.Parent() != shoot && d < 3; d++ {
			scan(at.Parent(), at)
			at = SoleCallSite(at.Parent())
		}
		if at != nil && at.Parent() == shoot {
			scan(shoot, at)
		} else {
			c.Unknown("O9.4", key+":path-from-Shoot-to-Do", do.Pos(), "cannot follow the calls from Shoot to the function that calls Client.Do")
		}
	}
	if gb := P.Func("components/guns/http", "", "GetBody"); gb != nil {
		scan(gb, nil)
	}
	c.Check(len(bad) == 0, "O9.4", key+":no-other-writes-to-the-request", shoot.Pos(), fmt.Sprintf("writes to the outgoing request before Client.Do other than URL.Scheme, URL.Host, Host and body re-buffering: %v", bad))
	// GetBody returns the bytes it puts back
	if gb := P.Func("components/guns/http", "", "GetBody"); gb != nil {
		ok := false
		EachInstr(gb, func(in ssa.Instruction) {
			v, isSt := storeExact(in, "Request", "Body")
			if !isSt {
				return
			}
			// NopCloser(NewBuffer(b)) with b the ReadAll result of the old body
			for _, r := range Roots(v, false) {
				if cl, _ := CallOfValue(r); cl != nil {
					for _, a := range cl.Call.Args {
						if c2, _ := CallOfValue(a); c2 != nil && MatchCC(&c2.Call, Spec{"bytes", "", "NewBuffer"}, Spec{"bytes", "", "NewReader"}) {
							if c3, _ := CallOfValue(c2.Call.Args[0]); c3 != nil && (MatchCC(&c3.Call, Spec{"io/ioutil", "", "ReadAll"}) || MatchCC(&c3.Call, Spec{"io", "", "ReadAll"})) {
								ok = IsFieldLoad(Strip(c3.Call.Args[0]), "Request", "Body")
							}
						}
					}
				}
			}
		})
		c.Check(ok, "O9.4", fk(gb)+":body-put-back-as-read", gb.Pos(), "GetBody replaces req.Body with a reader over exactly the bytes it read from it")
	}
	// scenario: headers of the step are Set on a fresh request; method, URL, body from the rendered parts
	if pr := P.Func("components/guns/http_scenario", "ScenarioGun", "prepareRequest"); pr != nil && len(pr.Params) == 2 {
		var nr *ssa.Call
		EachInstr(pr, func(in ssa.Instruction) {
			if cl, ok := in.(*ssa.Call); ok && MatchCC(&cl.Call, Spec{"net/http", "", "NewRequest"}) {
				nr = cl
			}
		})
		ok := false
		if nr != nil {
			fieldOfParts := func(v ssa.Value, name string) bool {
				return SliceAny(v, func(r ssa.Value) bool {
					fv, base := FieldOf(r)
					if fv == nil || fv.Name() != name {
						return false
					}
					_, bn := NamedOf(base.Type())
					return bn == "RequestParts"
				})
			}
			ok = fieldOfParts(nr.Call.Args[0], "Method") && fieldOfParts(nr.Call.Args[1], "URL")
			// body reader over parts.Body
			okBody := false
			EachInstr(pr, func(in ssa.Instruction) {
				if cl, isC := in.(*ssa.Call); isC && MatchCC(&cl.Call, Spec{"bytes", "", "NewReader"}) && fieldOfParts(cl.Call.Args[0], "Body") {
					okBody = true
				}
			})
			okHdr := false
			EachInstr(pr, func(in ssa.Instruction) {
				if IsCall(in, sHeaderSet) {
					cc := CC(in)
					okHdr = rangedOver(cc.Args[1], func(m ssa.Value) bool { return fieldOfParts(m, "Headers") }) && rangedOver(cc.Args[2], func(m ssa.Value) bool { return fieldOfParts(m, "Headers") })
				}
			})
			ok = ok && okBody && okHdr
		}
		c.Check(ok, "O9.4", fk(pr)+":request-built-from-the-rendered-parts", pr.Pos(), "http.NewRequest(parts.Method, parts.URL, reader over parts.Body) and every parts.Headers entry Set on it")
	} else {
		c.Anchor("O9.4", "components/guns/http_scenario.(*ScenarioGun).prepareRequest")
	}
}

func c09Wiring(c *Ctx) {
	P := c.P
	for _, w := range []struct {
		fn, target, conf string
		floor            int
	}{{"NewTransport", "Transport", "TransportConfig", 8}, {"NewDialer", "Dialer", "DialerConfig", 4}} {
		fn := P.Func("components/guns/http", "", w.fn)
		if fn == nil {
			c.Anchor("O9.5", "components/guns/http."+w.fn)
			continue
		}
		n := 0
		EachInstr(fn, func(in ssa.Instruction) {
			st, ok := in.(*ssa.Store)
			if !ok {
				return
			}
			fa, ok := st.Addr.(*ssa.FieldAddr)
			if !ok {
				return
			}
			fv, base := FieldOf(fa)
			if fv == nil {
				return
			}
			if _, tn := NamedOf(base.Type()); tn != w.target {
				return
			}
			// value from the config parameter?
			var src *types.Var
			if f2, b2 := FieldOf(st.Val); f2 != nil {
				if _, bn := NamedOf(b2.Type()); bn == w.conf {
					src = f2
				}
			}
			for _, r := range Roots(st.Val, false) {
				if src != nil {
					break
				}
				if f2, b2 := FieldOf(r); f2 != nil {
					if _, bn := NamedOf(b2.Type()); bn == w.conf {
						src = f2
					}
				}
				if f, ok := r.(*ssa.Field); ok {
					if _, bn := NamedOf(f.X.Type()); bn == w.conf {
						src = f.X.Type().Underlying().(*types.Struct).Field(f.Field)
					}
				}
			}
			if src == nil {
				return
			}
			n++
			c.Check(src.Name() == fv.Name(), "O9.5", fk(fn)+":"+fv.Name(), st.Pos(), fmt.Sprintf("%s.%s is fed from %s.%s", w.target, fv.Name(), w.conf, src.Name()))
		})
		c.Floor("O9.5", "config-fed fields in "+w.fn, n, w.floor)
	}
	// every exported non-ignored field of the configs is used
	pk := P.Pkg("components/guns/http")
	if pk != nil {
		for _, w := range []struct{ fn, conf string }{{"NewTransport", "TransportConfig"}, {"NewDialer", "DialerConfig"}} {
			fn := P.Func("components/guns/http", "", w.fn)
			tn, ok := pk.Types.Scope().Lookup(w.conf).(*types.TypeName)
			if fn == nil || !ok {
				continue
			}
			st := tn.Type().Underlying().(*types.Struct)
			for i := 0; i < st.NumFields(); i++ {
				f := st.Field(i)
				used := false
				EachInstr(fn, func(in ssa.Instruction) {
					switch x := in.(type) {
					case *ssa.Field:
						if _, bn := NamedOf(x.X.Type()); bn == w.conf && x.Field == i {
							used = true
						}
					case *ssa.FieldAddr:
						if _, bn := NamedOf(x.X.Type()); bn == w.conf && x.Field == i {
							used = true
						}
					}
				})
				c.Check(used, "O9.5", fk(fn)+":uses-"+w.conf+"."+f.Name(), fn.Pos(), fmt.Sprintf("config field %s.%s must reach the %s (an ignored option silently changes nothing on the wire)", w.conf, f.Name(), strings.TrimPrefix(w.fn, "New")))
			}
		}
	}
}

func c09Client(c *Ctx) {
	P := c.P
	nb := P.Func("components/guns/http", "", "NewBaseGun")
	if nb == nil || len(nb.Params) < 2 {
		c.Anchor("O9.6", "components/guns/http.NewBaseGun")
		return
	}
	// the constructor parameter is called in the body (not only inside a stored closure) and its result is the gun's Client
	// (the body, or a named helper of the package the body calls: factory.newClient())
	var call *ssa.Call
	var body []*ssa.Function
	var walk func(g *ssa.Function, d int)
	walk = func(g *ssa.Function, d int) {
		for _, h := range body {
			if h == g {
				return
			}
		}
		body = append(body, g)
		if d == 0 {
			return
		}
		EachInstr(g, func(in ssa.Instruction) {
			if cl, ok := in.(*ssa.Call); ok {
				if sc := cl.Call.StaticCallee(); sc != nil && sc.Parent() == nil && PkgOf(sc) == PkgOf(nb) && len(sc.Blocks) > 0 {
					walk(sc, d-1)
				}
			}
		})
	}
	walk(nb, 2)
	for _, g := range body {
		EachInstr(g, func(in ssa.Instruction) {
			if cl, ok := in.(*ssa.Call); ok && !cl.Call.IsInvoke() && cl.Call.StaticCallee() == nil {
				if DerivesOnly(cl.Call.Value, false, func(v ssa.Value) bool { return v == ssa.Value(nb.Params[0]) }) {
					call = cl
				}
			}
		})
	}
	okStore := false
	if call != nil {
		EachInstr(nb, func(in ssa.Instruction) {
			if v, ok := StoreToField(in, "BaseGun", "Client"); ok {
				all := true
				for _, r := range ThroughReturns(v) {
					if !DerivesOnly(r, false, IsResultOf(call, -1)) {
						all = false
					}
				}
				okStore = okStore || all
			}
		})
	}
	c.Check(call != nil && okStore, "O9.6", fk(nb)+":client-created-per-gun", nb.Pos(), "NewBaseGun calls the client constructor itself and stores the result in BaseGun.Client: one client (one connection pool) per gun instance")
	// registered constructors: New*Gun inside the factory closure
	imp := P.Func("components/phttp/import", "", "Import")
	if imp == nil {
		c.Anchor("O9.6", "components/phttp/import.Import")
	} else {
		n := 0
		for _, g := range WithClosures(imp) {
			EachInstr(g, func(in ssa.Instruction) {
				cl, ok := in.(*ssa.Call)
				if !ok {
					return
				}
				sc := cl.Call.StaticCallee()
				if sc == nil || PkgOf(sc) != Mod+"/components/guns/http" {
					return
				}
				switch sc.Name() {
				case "NewHTTP1Gun", "NewHTTP2Gun", "NewConnectGun":
					n++
					// g must be a closure nested two levels: Import -> constructor -> factory
					depth := 0
					for p := g; p != nil && p != imp; p = p.Parent() {
						depth++
					}
					// and that closure is what the constructor returns
					returned := false
					if g.Parent() != nil {
						EachInstr(g.Parent(), func(x ssa.Instruction) {
							if r, ok := x.(*ssa.Return); ok {
								for _, rv := range r.Results {
									if mc, ok := rv.(*ssa.MakeClosure); ok && mc.Fn == ssa.Value(g) {
										returned = true
									}
								}
							}
						})
					}
					c.Check(depth == 2 && returned, "O9.6", fk(imp)+":"+sc.Name()+"-inside-the-factory", cl.Pos(), fmt.Sprintf("%s must be called inside the func() core.Gun returned by the registered constructor (closure depth %d, returned: %v): a gun built once outside it would be shared by all instances", sc.Name(), depth, returned))
				}
			})
		}
		c.Floor("O9.6", "registered http gun constructors", n, 3)
	}
	// same for the scenario gun
	if simp := P.Func("components/guns/http_scenario", "", "Import"); simp != nil {
		n := 0
		for _, g := range WithClosures(simp) {
			EachInstr(g, func(in ssa.Instruction) {
				cl, ok := in.(*ssa.Call)
				if !ok {
					return
				}
				sc := cl.Call.StaticCallee()
				if sc == nil || (sc.Name() != "NewHTTPGun" && sc.Name() != "NewHTTP2Gun") || PkgOf(sc) != Mod+"/components/guns/http_scenario" {
					return
				}
				n++
				depth := 0
				for p := g; p != nil && p != simp; p = p.Parent() {
					depth++
				}
				c.Check(depth == 2, "O9.6", fk(simp)+":"+sc.Name()+"-inside-the-factory", cl.Pos(), fmt.Sprintf("%s must be called inside the returned factory closure (closure depth %d)", sc.Name(), depth))
			})
		}
		c.Floor("O9.6", "registered http scenario gun constructors", n, 2)
	}
	// Bind: shared client only from a non-nil pool
	bind := P.Func("components/guns/http", "BaseGun", "Bind")
	if bind == nil {
		c.Anchor("O9.6", "components/guns/http.(*BaseGun).Bind")
		return
	}
	n, ok := 0, false
	EachInstr(bind, func(in ssa.Instruction) {
		v, isSt := StoreToField(in, "BaseGun", "Client")
		if !isSt {
			return
		}
		n++
		cl, _ := CallOfValue(v)
		fromPool := false
		if cl != nil {
			if f := CalleeObj(&cl.Call); f != nil && f.Name() == "Next" && f.Pkg() != nil && f.Pkg().Path() == Mod+"/core/clientpool" {
				fromPool = IsFieldLoad(cl.Call.Args[0], "SharedDeps", "clientPool")
			}
		}
		nonNil := false
		for _, f := range CmpFactsAt(in) {
			if f.Op == token.NEQ && IsNilConst(f.Y) && IsFieldLoad(f.X, "SharedDeps", "clientPool") {
				nonNil = true
			}
		}
		ok = fromPool && nonNil
	})
	c.Check(n == 1 && ok, "O9.6", fk(bind)+":shared-client-only-from-a-pool", bind.Pos(), "Bind replaces the per-instance client only with clientPool.Next() on the clientPool != nil edge")
}

// storeExact: the instruction stores to field `field` of a struct whose own
// (pointer-stripped) named type is typeName - no walk through enclosing structs.
func storeExact(in ssa.Instruction, typeName, field string) (ssa.Value, bool) {
	st, ok := in.(*ssa.Store)
	if !ok {
		return nil, false
	}
	fa, ok := st.Addr.(*ssa.FieldAddr)
	if !ok {
		return nil, false
	}
	fv, base := FieldOf(fa)
	if fv == nil || fv.Name() != field {
		return nil, false
	}
	if _, n := NamedOf(base.Type()); n != typeName {
		return nil, false
	}
	return st.Val, true
}

// c09RawBody decides O9.7.
func c09RawBody(c *Ctx) {
	P := c.P
	n := 0
	for _, g := range P.PandoraFuncs() {
		if !IsProdFile(P.File(g.Pos())) {
			continue
		}
		EachInstr(g, func(in ssa.Instruction) {
			cl, ok := in.(*ssa.Call)
			if !ok || !MatchCC(&cl.Call, Spec{"net/http", "", "ReadRequest"}) {
				return
			}
			n++
			rd, isCall := Strip(cl.Call.Args[0]).(*ssa.Call)
			fresh := isCall && MatchCC(&rd.Call, Spec{"bufio", "", "NewReader"}, Spec{"bufio", "", "NewReaderSize"})
			private := fresh
			if fresh && rd.Referrers() != nil {
				for _, r := range *rd.Referrers() {
					if _, isDbg := r.(*ssa.DebugRef); isDbg || r == ssa.Instruction(cl) {
						continue
					}
					private = false
				}
			}
			c.Check(fresh && private, "O9.7", fk(g)+":request-reader-is-private", cl.Pos(),
				fmt.Sprintf("the reader given to http.ReadRequest must be made for this call and used for nothing else (made here: %v, no other use: %v): the returned request's Body keeps reading from it", fresh, private))
		})
	}
	c.Floor("O9.7", "http.ReadRequest call sites", n, 1)
	freshRequestRule(c, "O9.7", "RawAmmo")
	// the same for requests built with http.NewRequest in the ammo providers: the body reader is made for this request
	// (bytes.NewReader(body), strings.NewReader, bytes.NewBuffer...), nil or http.NoBody - not a reader kept in the entry,
	// which every request built from a preloaded entry would share and drain
	nNew := 0
	for _, g := range P.PandoraFuncs() {
		if !IsProdFile(P.File(g.Pos())) || !strings.Contains(PkgOf(g), "/components/providers/") {
			continue
		}
		EachInstr(g, func(in ssa.Instruction) {
			cl, ok := in.(*ssa.Call)
			if !ok || !MatchCC(&cl.Call, Spec{"net/http", "", "NewRequest"}, Spec{"net/http", "", "NewRequestWithContext"}) {
				return
			}
			nNew++
			body := cl.Call.Args[len(cl.Call.Args)-1]
			own := DerivesOnly(body, false, func(v ssa.Value) bool {
				if IsNilConst(v) {
					return true
				}
				if u, isU := v.(*ssa.UnOp); isU {
					if gl, isG := u.X.(*ssa.Global); isG && gl.Name() == "NoBody" {
						return true
					}
				}
				rc, _ := CallOfValue(v)
				if rc == nil || rc.Parent() != g {
					return false
				}
				f := CalleeObj(&rc.Call)
				return f != nil && f.Pkg() != nil && (f.Pkg().Path() == "bytes" || f.Pkg().Path() == "strings" || f.Pkg().Path() == "io") && strings.HasPrefix(f.Name(), "New")
			})
			c.Check(own, "O9.7", fk(g)+":body-reader-made-for-this-request", cl.Pos(),
				"the body given to http.NewRequest must be a reader made in this call (bytes.NewReader(body), ...), nil or http.NoBody: a reader kept in the entry is shared by every request built from it")
		})
	}
	c.Floor("O9.7", "http.NewRequest call sites in the ammo providers", nNew, 1)
}

// freshRequestRule: BuildRequest of the decoded-ammo type builds its request in the call (http.NewRequest / http.ReadRequest,
// directly or in a helper), it does not hand out a request kept in the entry (nor a Clone of one: Clone shares the Body).
func freshRequestRule(c *Ctx, id, typ string) {
	P := c.P
	build := P.Func("components/providers/http/decoders/ammo", typ, "BuildRequest")
	if build == nil {
		c.Anchor(id, "decoders/ammo.(*"+typ+").BuildRequest")
		return
	}
	n := 0
	EachInstr(build, func(in ssa.Instruction) {
		ret, ok := in.(*ssa.Return)
		if !ok || len(ret.Results) == 0 || IsNilConst(ret.Results[0]) {
			return
		}
		n++
		okParsed := DerivesOnly(ret.Results[0], false, func(v ssa.Value) bool {
			cl, _ := CallOfValue(v)
			if cl == nil || cl.Parent() != build {
				return false
			}
			makes := []Spec{{"net/http", "", "ReadRequest"}, {"net/http", "", "NewRequest"}, {"net/http", "", "NewRequestWithContext"}}
			if MatchCC(&cl.Call, makes...) {
				return true
			}
			sc := cl.Call.StaticCallee()
			return sc != nil && len(Calls(sc, makes...)) > 0
		})
		c.Check(okParsed, id, fk(build)+":request-built-on-every-call", ret.Pos(), "BuildRequest must return a request built from the entry's fields in this call (a stored request, or a Clone of one, shares its Body with the earlier deliveries of a preloaded entry)")
	})
	c.Floor(id, typ+".BuildRequest success returns", n, 1)
}
