package rules

import (
	"fmt"
	"go/token"
	"go/types"

	. "pandoravet/core"

	"golang.org/x/tools/go/ssa"
)

func init() {
	register(&Pack{Property: "C12", Title: "Instance startup profile", Run: runC12})
}

func runC12(c *Ctx) {
	c.Rule("O12.1", "one startup token per instance: every instance creation in startInstances is dominated by the true edge of Waiter.Wait(startCtx) on a Waiter built on StartupSchedule, and exactly one creation happens per successful Wait")
	c.Rule("O12.2", "ids: the first instance gets 0, each later instance the number of instances created before it (one increment per creation); the id reaches GunDeps.InstanceID")
	c.Rule("O12.3", "instance start is cut short only by the named causes: the start context's cancel function is called only in the out-of-ammo case of awaitRun and in the shared-RPS-schedule finish callback")
	c.Rule("O12.4", "the startup profile never stops a running instance: the run context's cancel function is called only by all-instances-finished detection; instances run under the run context, not the start context")
	c.Rule("O12.6", "a pause in the startup profile really pauses: the schedules the profile is built from compute their finish time from a start time that was set (the rule of O2.11: start state is read only after the start) - an empty first part (instance_step from 0, a leading const 0 pause) that reported the zero time as its finish would make every later instance look overdue and start at once")
	c.Rule("O12.5", "instance_step composition: once(from), then per step const(0, stepDuration) followed by once(step), for from+step <= i <= to, returned as one composite in that order")
	if sp12 := c.P.SSAPkg("core/schedule"); sp12 != nil {
		var fns12 []*ssa.Function
		for _, f := range PkgFuncs(sp12) {
			if IsProdFile(c.P.File(f.Pos())) {
				fns12 = append(fns12, f)
			}
		}
		c02ReadAfterStart(c, "O12.6", fns12)
	} else {
		c.Anchor("O12.6", "package core/schedule")
	}
	P := c.P
	si := P.Func("core/engine", "instancePool", "startInstances")
	runAsync := P.Func("core/engine", "instancePool", "runAsync")
	newInst := P.Func("core/engine", "", "newInstance")
	runNew := P.Func("core/engine", "", "runNewInstance")
	awaitRun := P.Func("core/engine", "runAwaitHandle", "awaitRun")
	instRun := P.Func("core/engine", "instance", "Run")
	for n, f := range map[string]*ssa.Function{"startInstances": si, "runAsync": runAsync, "newInstance": newInst, "runNewInstance": runNew, "awaitRun": awaitRun, "instance.Run": instRun} {
		if f == nil {
			c.Anchor("O12.1", "core/engine."+n)
			return
		}
	}
	sk := fk(si)
	wcOf := withCancelByHandleField(runAsync)
	runWC, startWC := wcOf["runCancel"], wcOf["instanceStartCancel"]
	if runWC == nil || startWC == nil {
		c.Anchor("O12.1", "the context.WithCancel calls of runAsync whose cancel functions are stored in the handle fields runCancel and instanceStartCancel")
		return
	}
	isStartCtx := func(v ssa.Value) bool { return DerivesOnly(v, false, IsResultOf(startWC, 0)) }
	// the run context itself, or a context parameter that receives it at every call site of its function
	var isRunCtxD func(v ssa.Value, depth int) bool
	isRunCtxD = func(v ssa.Value, depth int) bool {
		if DerivesOnly(v, false, IsResultOf(runWC, 0)) {
			return true
		}
		if depth > 3 {
			return false
		}
		pr, ok := Strip(v).(*ssa.Parameter)
		if !ok {
			return false
		}
		idx := -1
		for i, q := range pr.Parent().Params {
			if q == pr {
				idx = i
			}
		}
		sites := P.StaticCallSites(pr.Parent())
		if idx < 0 || len(sites) == 0 {
			return false
		}
		for _, s := range sites {
			cc := CC(s)
			if cc == nil || idx >= len(cc.Args) || !isRunCtxD(cc.Args[idx], depth+1) {
				return false
			}
		}
		return true
	}
	isRunCtx := func(v ssa.Value) bool { return isRunCtxD(v, 0) }

	// creation events
	// the goroutine body makes an instance: directly, or through a function of the package it calls (two levels:
	// go launcher.runNew(id) -> runNewInstance -> newInstance)
	var makesInstance func(body *ssa.Function, depth int) bool
	makesInstance = func(body *ssa.Function, depth int) bool {
		found := false
		EachInstrDeep(body, func(_ *ssa.Function, i2 ssa.Instruction) {
			cc := CC(i2)
			if cc == nil || cc.StaticCallee() == nil || found {
				return
			}
			sc := cc.StaticCallee()
			if sc == runNew || sc == newInst {
				found = true
			} else if depth < 2 && sc.Pkg != nil && sc.Pkg == newInst.Pkg && len(sc.Blocks) > 0 && sc != body {
				found = makesInstance(sc, depth+1)
			}
		})
		return found
	}
	createsInstance := func(in ssa.Instruction) bool {
		switch x := in.(type) {
		case *ssa.Call:
			return x.Call.StaticCallee() == newInst
		case *ssa.Go:
			mc, ok := x.Call.Value.(*ssa.MakeClosure)
			if !ok {
				sc := x.Call.StaticCallee()
				if sc == runNew || sc == newInst {
					return true
				}
				return sc != nil && sc.Pkg == newInst.Pkg && len(sc.Blocks) > 0 && makesInstance(sc, 0)
			}
			return makesInstance(mc.Fn.(*ssa.Function), 1)
		}
		return false
	}
	// startInstances and the named helpers only it calls (startFirstInstance, startRestInstances); the functions that
	// make an instance are creation events, not part of the sequence
	var region []*ssa.Function
	for _, g := range FindFuncs(si, 2, func(g *ssa.Function) bool {
		return g == si || (g.Parent() == nil && g != newInst && g != runNew && PkgOf(g) == PkgOf(si) && P.WithinOnly(g, func(f *ssa.Function) bool { return f == si }, 3))
	}) {
		region = append(region, g)
	}
	var waits []ssa.Instruction
	waitsOf := map[*ssa.Function][]ssa.Instruction{}
	for _, g := range region {
		waitsOf[g] = Calls(g, sWait)
		waits = append(waits, waitsOf[g]...)
	}
	// a Wait, or the call of a helper of the region that waits for tokens itself (its own waits are checked there)
	isWaitCall := func(in ssa.Instruction) bool {
		for _, w := range waits {
			if w == in {
				return true
			}
		}
		if cl, ok := in.(*ssa.Call); ok {
			if sc := cl.Call.StaticCallee(); sc != nil && sc != in.Parent() && len(waitsOf[sc]) > 0 {
				return true
			}
		}
		return false
	}
	var creations []ssa.Instruction
	for _, g := range region {
		EachInstr(g, func(in ssa.Instruction) {
			if createsInstance(in) {
				creations = append(creations, in)
			}
		})
	}
	creationWeight := func(in ssa.Instruction) (int, int) {
		if createsInstance(in) {
			return 1, 1
		}
		return 0, 0
	}
	// a helper that waits for tokens creates nothing before its first Wait
	for _, g := range region {
		if g == si || len(waitsOf[g]) == 0 {
			continue
		}
		iv := PathQuery{Fn: g, Stop: isWaitCall, Weight: creationWeight}.Count()
		c.Check(iv.Is(0, 0), "O12.1", fk(g)+":no-creation-before-the-first-token", g.Pos(), fmt.Sprintf("instance creations between the entry of the helper and its first Wait / return = %v (want [0,0])", iv))
	}
	c.Floor("O12.1", "instance creation sites in startInstances", len(creations), 2)
	c.Floor("O12.1", "Waiter.Wait calls in startInstances", len(waits), 2)
	for _, w := range waits {
		cc := CC(w)
		okW := DerivesOnly(cc.Args[0], false, func(v ssa.Value) bool {
			cl, _ := CallOfValue(v)
			return cl != nil && MatchCC(&cl.Call, sNewWaiter) && DerivesOnly(cl.Call.Args[0], false, IsFieldLoadPred("InstancePoolConfig", "StartupSchedule"))
		})
		c.Check(okW, "O12.1", sk+":waiter-on-startup-schedule", w.Pos(), "the Waiter must be NewWaiter(StartupSchedule)")
		c.Check(isStartCtx(cc.Args[1]), "O12.1", sk+":wait-under-start-context", w.Pos(), "Wait must observe the start context (cancelled on out of ammo / RPS schedule finish)")
		wv := w.(*ssa.Call)
		okPred := func(v ssa.Value) bool { return DerivesOnly(v, false, IsResultOf(wv, -1)) }
		iv := PathQuery{Fn: w.Parent(), Start: w, Edge: RestrictBool(okPred, true),
			Stop: func(in ssa.Instruction) bool { return isWaitCall(in) },
			Weight: func(in ssa.Instruction) (int, int) {
				if createsInstance(in) {
					return 1, 1
				}
				return 0, 0
			}}.Count()
		c.Check(iv.Is(1, 1), "O12.1", sk+":one-creation-per-token", w.Pos(), fmt.Sprintf("instance creations between a successful Wait and the next Wait/return = %v (want [1,1])", iv))
		ivF := PathQuery{Fn: w.Parent(), Start: w, Edge: RestrictBool(okPred, false), Stop: isWaitCall,
			Weight: func(in ssa.Instruction) (int, int) {
				if createsInstance(in) {
					return 1, 1
				}
				return 0, 0
			}}.Count()
		c.Check(ivF.Is(0, 0), "O12.1", sk+":no-creation-without-token", w.Pos(), fmt.Sprintf("instance creations after Wait returned false = %v (want [0,0])", ivF))
	}
	for _, cr := range creations {
		ok := false
		for _, w := range waits {
			wv := w.(*ssa.Call)
			if HasBoolFact(BoolFactsAt(cr), func(v ssa.Value) bool { return DerivesOnly(v, false, IsResultOf(wv, -1)) }, true) {
				ok = true
			}
		}
		c.Check(ok, "O12.1", sk+":creation-gated-by-token", cr.Pos(), "every instance creation must be dominated by the true edge of a startup Wait")
	}

	// ---- O12.2 ids
	{
		var firstID, laterID ssa.Value
		var laterCall *ssa.Call
		for _, cr := range creations {
			switch x := cr.(type) {
			case *ssa.Call:
				firstID = x.Call.Args[3]
			case *ssa.Go:
				if mc, ok := x.Call.Value.(*ssa.MakeClosure); ok {
					EachInstrDeep(mc.Fn.(*ssa.Function), func(_ *ssa.Function, i2 ssa.Instruction) {
						if cl, ok := i2.(*ssa.Call); ok && cl.Call.StaticCallee() == runNew {
							laterID = cl.Call.Args[3]
							laterCall = cl
						}
					})
				} else if sc := x.Call.StaticCallee(); sc != nil && len(sc.Blocks) > 0 {
					// go launcher.runNew(id): the id the goroutine's function passes on is its own parameter
					EachInstrDeep(sc, func(_ *ssa.Function, i2 ssa.Instruction) {
						cl, ok := i2.(*ssa.Call)
						if !ok || cl.Call.StaticCallee() != runNew {
							return
						}
						for i, p := range sc.Params {
							if DerivesOnly(cl.Call.Args[3], false, func(v ssa.Value) bool { return v == ssa.Value(p) }) && i < len(x.Call.Args) {
								laterID = x.Call.Args[i]
								laterCall = cl
							}
						}
					})
				}
			}
		}
		k, isC := ConstInt(firstID)
		c.Check(firstID != nil && isC && k == 0, "O12.2", sk+":first-instance-id-0", si.Pos(), "the synchronously created first instance has id 0")
		okLater := false
		detail := "id of later instances not identified"
		if laterID != nil {
			rs := Unload(laterID)
			if len(rs) == 1 {
				if phi, ok := rs[0].(*ssa.Phi); ok {
					okLater = true
					nInit, nBack := 0, 0
					for _, e := range phi.Edges {
						if _, isP := e.(*ssa.Parameter); isP {
							e = Resolve(e) // the count so far handed to the helper that runs the loop
						}
						if b, ok := e.(*ssa.BinOp); ok && b.Op == token.ADD {
							one, is1 := ConstInt(b.Y)
							if is1 && one == 1 && b.X == ssa.Value(phi) {
								nBack++
								continue
							}
							if z, isZ := ConstInt(b.X); isZ && z == 0 && is1 && one == 1 {
								nInit++
								continue
							}
						}
						if v, isC := ConstInt(e); isC && v == 1 {
							nInit++
							continue
						}
						okLater = false
					}
					if nInit != 1 || nBack != 1 {
						okLater = false
					}
					detail = fmt.Sprintf("id = phi%v: %d initial edge(s) equal to 1 (one instance created before), %d back edge(s) id+1", phi.Edges, nInit, nBack)
				} else {
					detail = fmt.Sprintf("id derives from %T, expected the loop counter", rs[0])
				}
			}
		}
		pos := si.Pos()
		if laterCall != nil {
			pos = laterCall.Pos()
		}
		c.Check(okLater, "O12.2", sk+":later-ids-count-created-instances", pos, detail)
		// the same counter is what startInstances returns as `started`
		// id reaches GunDeps.InstanceID
		okDeps := false
		EachInstr(newInst, func(in ssa.Instruction) {
			if v, ok := StoreToField(in, "GunDeps", "InstanceID"); ok && len(newInst.Params) > 3 && v == ssa.Value(newInst.Params[3]) {
				okDeps = true
			}
		})
		c.Check(okDeps, "O12.2", fk(newInst)+":id-reaches-gun-deps", newInst.Pos(), "GunDeps.InstanceID must be the id parameter of newInstance")
		okPass := false
		EachInstr(runNew, func(in ssa.Instruction) {
			if cl, ok := in.(*ssa.Call); ok && cl.Call.StaticCallee() == newInst && len(runNew.Params) > 3 && cl.Call.Args[3] == ssa.Value(runNew.Params[3]) {
				okPass = true
			}
		})
		c.Check(okPass, "O12.2", fk(runNew)+":id-passed-on", runNew.Pos(), "runNewInstance passes its id to newInstance")
	}

	// ---- O12.3 / O12.4: who calls the two cancel functions
	{
		sp := P.SSAPkg("core/engine")
		sentinel := outOfAmmoGlobal(c)
		nStart, nRun := 0, 0
		af := findAllFinished(c, "O12.4")
		// the functions given to NewCallbackOnFinishSchedule as the finish callback
		finishCallbacks := map[*ssa.Function]bool{}
		for _, g := range PkgFuncs(sp) {
			EachInstr(g, func(in ssa.Instruction) {
				if cl, isCall := in.(*ssa.Call); isCall && MatchCC(&cl.Call, Spec{"./core/coreutil", "", "NewCallbackOnFinishSchedule"}) {
					for _, f := range P.FuncValues(cl.Call.Args[1]) {
						finishCallbacks[f] = true
					}
				}
			})
		}
		// awaitRun and the helpers it calls
		awaitReach := map[*ssa.Function]bool{}
		for _, f := range FindFuncs(awaitRun, 3, func(*ssa.Function) bool { return true }) {
			awaitReach[f] = true
		}
		for _, g := range PkgFuncs(sp) {
			if !IsProdFile(P.File(g.Pos())) {
				continue
			}
			EachInstr(g, func(in ssa.Instruction) {
				cc := CC(in)
				if cc == nil || cc.IsInvoke() || cc.StaticCallee() != nil {
					return
				}
				if _, isB := cc.Value.(*ssa.Builtin); isB {
					return
				}
				isStartCancel := IsFieldCall(cc, "", "instanceStartCancel") || DerivesAny(cc.Value, false, IsResultOf(startWC, 1))
				isRunCancel := IsFieldCall(cc, "", "runCancel") || DerivesAny(cc.Value, false, IsResultOf(runWC, 1))
				if isStartCancel {
					nStart++
					// (a) on the out-of-ammo result (the comparison may sit in this function or at its only call site)
					okAmmo := false
					if sentinel != nil {
						for _, f := range CmpFactsAt(in) {
							if f.Op == token.EQL && (IsGlobalLoad(sentinel)(f.X) || IsGlobalLoad(sentinel)(f.Y)) {
								okAmmo = true
							}
						}
						for _, bf := range BoolFactsAt(in) {
							if isT, whenTrue := sentinelTest(bf.Subj, sentinel); isT && whenTrue == bf.Val {
								okAmmo = true
							}
						}
					}
					// (b) in the finish callback of the shared RPS schedule (a closure, a method value, or a function only it calls)
					okCb := false
					for at, d := ssa.Instruction(in), 0; at != nil && d < 4 && !okCb; d++ {
						okCb = finishCallbacks[at.Parent()]
						at = SoleCallSite(at.Parent())
					}
					switch {
					case okCb:
						c.OK("O12.3", fk(g)+":start-cancel-caller", in.Pos(), "cancelled by the shared RPS schedule's finish callback")
					case awaitReach[g]:
						c.Check(okAmmo, "O12.3", fk(g)+":start-cancelled-on-out-of-ammo-only", in.Pos(), "in the await loop the start context may be cancelled only on the out-of-ammo result")
					default:
						c.Bad("O12.3", fk(g)+":start-cancel-caller", in.Pos(), "the start context may only be cancelled by the await loop (out of ammo) or by the shared RPS schedule's finish callback")
					}
				}
				if isRunCancel {
					nRun++
					c.Check(af != nil && af.after(in), "O12.4", fk(g)+":run-cancel-caller", in.Pos(), "the run context may only be cancelled after close(runRes) in the all-instances-finished action; in particular not by the startup profile ending")
				}
			})
		}
		c.Floor("O12.3", "call sites of the start context's cancel", nStart, 1)
		c.Floor("O12.4", "call sites of the run context's cancel", nRun, 1)
		// instances run under the run context
		n := 0
		for _, g := range PkgFuncs(sp) {
			if !IsProdFile(P.File(g.Pos())) {
				continue
			}
			EachInstr(g, func(in ssa.Instruction) {
				cl, ok := in.(ssa.CallInstruction)
				if !ok {
					return
				}
				sc := cl.Common().StaticCallee()
				if sc == instRun {
					n++
					c.Check(isRunCtx(cl.Common().Args[1]), "O12.4", fk(g)+":instance-runs-under-run-context", cl.Pos(), "instance.Run must get the run context: the end of instance start must not stop it")
				}
				if sc == runNew || sc == newInst {
					n++
					c.Check(isRunCtx(cl.Common().Args[0]), "O12.4", fk(g)+":instance-runs-under-run-context", cl.Pos(), "instances are created/run under the run context, not the start context")
				}
			})
		}
		c.Floor("O12.4", "instance run/creation calls checked for their context", n, 2)
	}
	// ---- O12.5
	c12InstanceStep(c)
}

func c12InstanceStep(c *Ctx) {
	P := c.P
	fn := P.Func("core/schedule", "", "NewInstanceStep")
	if fn == nil {
		c.Anchor("O12.5", "core/schedule.NewInstanceStep")
		return
	}
	k := fk(fn)
	if len(fn.Params) != 4 {
		c.Anchor("O12.5", "NewInstanceStep(from, to, step, stepDuration)")
		return
	}
	from, to, step, dur := ssa.Value(fn.Params[0]), ssa.Value(fn.Params[1]), ssa.Value(fn.Params[2]), ssa.Value(fn.Params[3])
	sOnce := Spec{"./core/schedule", "", "NewOnce"}
	sConst := Spec{"./core/schedule", "", "NewConst"}
	var onceFrom, onceStep, constPause *ssa.Call
	EachInstr(fn, func(in ssa.Instruction) {
		cl, ok := in.(*ssa.Call)
		if !ok {
			return
		}
		switch {
		case MatchCC(&cl.Call, sOnce) && cl.Call.Args[0] == from:
			onceFrom = cl
		case MatchCC(&cl.Call, sOnce) && cl.Call.Args[0] == step:
			onceStep = cl
		case MatchCC(&cl.Call, sConst):
			if z, isC := ConstInt(cl.Call.Args[0]); isC && z == 0 && cl.Call.Args[1] == dur {
				constPause = cl
			} else {
				c.Bad("O12.5", k+":pause-is-const-0-for-step-duration", cl.Pos(), "the pause between steps must be NewConst(0, stepDuration)")
			}
		case MatchCC(&cl.Call, sOnce):
			c.Bad("O12.5", k+":once-argument", cl.Pos(), "NewOnce must be given `from` (first) or `step` (per step)")
		default:
			// the pause spelt out: a schedule without tokens that lasts stepDuration - NewDoAtSchedule(stepDuration, 0, _),
			// here or as the only thing a helper of the package returns (newPause(stepDuration))
			isPauseCall := func(pc *ssa.Call, d ssa.Value) bool {
				if !MatchCC(&pc.Call, Spec{"./core/schedule", "", "NewDoAtSchedule"}) || len(pc.Call.Args) < 2 {
					return false
				}
				z, isC := ConstInt(pc.Call.Args[1])
				return isC && z == 0 && pc.Call.Args[0] == d
			}
			if isPauseCall(cl, dur) {
				constPause = cl
				return
			}
			if sc := cl.Call.StaticCallee(); sc != nil && len(sc.Blocks) > 0 && PkgOf(sc) == PkgOf(fn) && !MatchCC(&cl.Call, Spec{"./core/schedule", "", "NewCompositeConf"}, Spec{"./core/schedule", "", "NewComposite"}) {
				for i, a := range cl.Call.Args {
					if a != dur || i >= len(sc.Params) {
						continue
					}
					all, n := true, 0
					for _, b := range sc.Blocks {
						if r, isR := b.Instrs[len(b.Instrs)-1].(*ssa.Return); isR && len(r.Results) == 1 {
							n++
							pc, _ := CallOfValue(r.Results[0])
							if pc == nil || !isPauseCall(pc, ssa.Value(sc.Params[i])) {
								all = false
							}
						}
					}
					if all && n > 0 {
						constPause = cl
					}
				}
			}
		}
	})
	if onceFrom == nil || onceStep == nil || constPause == nil {
		c.Bad("O12.5", k+":parts", fn.Pos(), fmt.Sprintf("once(from) found: %v, const(0, stepDuration) found: %v, once(step) found: %v", onceFrom != nil, constPause != nil, onceStep != nil))
		return
	}
	// order: onceFrom dominates the loop; in the loop body constPause before onceStep, same block, both appended
	c.Check(InstrDominates(onceFrom, constPause) && InstrDominates(onceFrom, onceStep) && !BlockCanReach(onceFrom.Block(), onceFrom.Block()),
		"O12.5", k+":once-from-first", onceFrom.Pos(), "once(from) is appended first, outside the loop")
	c.Check(constPause.Block() == onceStep.Block() && InstrDominates(constPause, onceStep) && BlockCanReach(onceStep.Block(), onceStep.Block()),
		"O12.5", k+":pause-then-step-in-loop", constPause.Pos(), "each loop iteration appends const(0, stepDuration) and then once(step)")
	// every schedule built is appended to the same slice that is returned as composite: appends count
	// where each part is put into a slice element (the array behind an append's variadic arguments or a slice literal)
	type slot struct {
		arr ssa.Value
		idx int64
		st  *ssa.Store
	}
	slotOf := func(cl *ssa.Call) *slot {
		var out *slot
		var vals []ssa.Value
		vals = append(vals, cl)
		if cl.Referrers() != nil {
			for _, r := range *cl.Referrers() {
				if mi, ok := r.(*ssa.MakeInterface); ok {
					vals = append(vals, mi)
				}
				if ct, ok := r.(*ssa.ChangeInterface); ok {
					vals = append(vals, ct)
				}
			}
		}
		for _, v := range vals {
			if v.Referrers() == nil {
				continue
			}
			for _, r := range *v.Referrers() {
				st, ok := r.(*ssa.Store)
				if !ok || st.Val != v {
					continue
				}
				if ia, ok := st.Addr.(*ssa.IndexAddr); ok {
					if kk, isK := ConstInt(ia.Index); isK {
						out = &slot{ia.X, kk, st}
					}
				}
			}
		}
		return out
	}
	sf, sp, ss := slotOf(onceFrom), slotOf(constPause), slotOf(onceStep)
	okSlots := sf != nil && sp != nil && ss != nil
	okOrder := false
	if okSlots {
		if sp.arr == ss.arr {
			okOrder = sp.idx < ss.idx
		} else {
			okOrder = InstrDominates(sp.st, ss.st)
		}
	}
	c.Check(okSlots && okOrder, "O12.5", k+":three-appends", fn.Pos(), fmt.Sprintf("once(from), const(0, stepDuration) and once(step) are each put into the list of parts (%v), the pause before the step (%v)", okSlots, okOrder))
	// loop bounds: phi i = [from+step, i+step]; cond i <= to
	okLoop := false
	detail := "loop counter not found"
	for _, b := range fn.Blocks {
		iff, ok := b.Instrs[len(b.Instrs)-1].(*ssa.If)
		if !ok {
			continue
		}
		f := CondFact(iff.Cond, true).Canon()
		phi, isPhi := f.X.(*ssa.Phi)
		if !isPhi || f.Op != token.LEQ || f.Y != to {
			if isPhi {
				detail = "loop condition is not i <= to"
			}
			continue
		}
		nInit, nBack := 0, 0
		for _, e := range phi.Edges {
			bo, ok := e.(*ssa.BinOp)
			if !ok || bo.Op != token.ADD {
				continue
			}
			if bo.X == from && bo.Y == step {
				nInit++
			}
			if bo.X == ssa.Value(phi) && bo.Y == step {
				nBack++
			}
		}
		okLoop = nInit == 1 && nBack == 1 && len(phi.Edges) == 2 && b.Succs[0].Dominates(onceStep.Block())
		detail = fmt.Sprintf("for i := from+step (%d); i <= to; i += step (%d)", nInit, nBack)
	}
	c.Check(okLoop, "O12.5", k+":loop-bounds", fn.Pos(), detail)
	// returns composite of the slice
	okRet := false
	EachInstr(fn, func(in ssa.Instruction) {
		r, ok := in.(*ssa.Return)
		if !ok {
			return
		}
		cl, _ := CallOfValue(r.Results[0])
		if cl != nil && MatchCC(&cl.Call, Spec{"./core/schedule", "", "NewCompositeConf"}, Spec{"./core/schedule", "", "NewComposite"}) {
			okRet = true
		}
	})
	c.Check(okRet, "O12.5", k+":returns-composite", fn.Pos(), "the parts are returned as one composite schedule")
	_ = types.Typ
}
