// Package rules holds one rule pack per property.
package rules

import "pandoravet/core"

// Pack is a rule pack: it evaluates its obligations into the context.
type Pack struct {
	Property string
	Title    string
	NeedsCG  bool
	Run      func(c *core.Ctx)
}

var Packs = map[string]*Pack{}

func register(p *Pack) { Packs[p.Property] = p }
